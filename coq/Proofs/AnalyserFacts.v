From RQ Require Import Model.Num Model.Portfolio Model.Analyser Proofs.NumFacts Proofs.PortfolioFacts.
From Coq Require Import Lqa Lia.
Open Scope Q_scope.

(* exactly one record per settled trading day, in order and unaltered *)
Theorem one_record_per_day days : length (collect_daily days) = length days /\ map ds_date (collect_daily days) = map ds_date days.
Proof. unfold collect_daily. rewrite map_length, map_map. split; reflexivity. Qed.
(* benchmark return = ratio of benchmark closes (telescoping product of the daily ratios) *)
Theorem benchmark_telescopes closes : forall prev, ~ prev == 0 -> Forall (fun c => ~ c == 0) closes ->
  prod1 (bench_returns prev closes) == lastq prev closes / prev.
Proof. induction closes as [|c t IH]; intros prev Hp Hf; cbn [bench_returns prod1 lastq].
  - field. assumption.
  - inversion Hf as [|? ? Hc Ht]; subst. rewrite (IH c Hc Ht). field. split; assumption. Qed.
(* total return = final unit net value - 1 = compounded daily returns - 1 *)
Theorem total_return_compounds navs : Forall (fun n => ~ n == 0) navs -> total_return_of navs == compound 1 navs - 1.
Proof. intros H. unfold total_return_of. rewrite (compound_telescopes navs 1); [field|lra|assumption]. Qed.

(* a one-instrument benchmark: whatever its (non-zero) weight, the benchmark's daily return is the instrument's, so its total return is the
   ratio of the instrument's closes *)
Lemma bench_day_single w r : ~ w == 0 -> bench_day [w] [r] == r.
Proof. intros H. unfold bench_day. cbn [wsum qsum]. field. lra. Qed.
Lemma prod1_ext a b : Forall2 Qeq a b -> prod1 a == prod1 b.
Proof. induction 1 as [|x y s t E _ IH]; cbn [prod1]; [reflexivity|rewrite E, IH; reflexivity]. Qed.
Lemma bench_series_single w rs : ~ w == 0 -> Forall2 Qeq (bench_series [w] (transpose1 rs)) rs.
Proof. intros H. induction rs as [|r t IH]; cbn; constructor; [apply bench_day_single; assumption|exact IH]. Qed.
Theorem weighted_single_benchmark w closes prev : ~ w == 0 -> ~ prev == 0 -> Forall (fun c => ~ c == 0) closes ->
  prod1 (bench_series [w] (transpose1 (bench_returns prev closes))) == lastq prev closes / prev.
Proof. intros Hw Hp Hc. rewrite (prod1_ext _ _ (bench_series_single w (bench_returns prev closes) Hw)). apply benchmark_telescopes; assumption. Qed.
(* scaling every weight by the same non-zero factor does not change the benchmark (only the proportions matter) *)
Lemma wsum_scale k ws xs : wsum (map (Qmult k) ws) xs == k * wsum ws xs.
Proof. revert xs. induction ws as [|w t IH]; intros [|x xs]; cbn [map wsum]; try ring. rewrite IH. ring. Qed.
Lemma qsum_scale k ws : qsum (map (Qmult k) ws) == k * qsum ws.
Proof. induction ws as [|w t IH]; cbn [map qsum]; [ring|rewrite IH; ring]. Qed.
Theorem bench_day_scale k ws xs : ~ k == 0 -> ~ qsum ws == 0 -> bench_day (map (Qmult k) ws) xs == bench_day ws xs.
Proof. intros Hk Hs. unfold bench_day. rewrite wsum_scale, qsum_scale. field. split; assumption. Qed.
