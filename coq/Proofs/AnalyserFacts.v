From RQ Require Import Model.Num Model.Portfolio Model.Analyser Proofs.NumFacts Proofs.PortfolioFacts.
From Coq Require Import Lqa Lia.
Open Scope Q_scope.

(* exactly one record per settled trading day, in order and unaltered *)
Theorem one_record_per_day days : length (collect_daily days) = length days /\ map ds_date (collect_daily days) = map ds_date days.
Proof. unfold collect_daily. rewrite map_length, map_map. split; reflexivity. Qed.
(* benchmark return = ratio of benchmark closes (telescoping product of the daily ratios) *)
Theorem benchmark_telescopes closes : forall prev, ~ prev == 0 -> Forall (fun c => ~ c == 0) closes ->
  prod1 (bench_returns prev closes) == lastq prev closes / prev.
Proof. induction closes as [|c t IH]; intros prev Hp Hf; cbn [bench_returns prod1 lastq].
  - field. assumption.
  - inversion Hf as [|? ? Hc Ht]; subst. rewrite (IH c Hc Ht). field. split; assumption. Qed.
(* total return = final unit net value - 1 = compounded daily returns - 1 *)
Theorem total_return_compounds navs : Forall (fun n => ~ n == 0) navs -> total_return_of navs == compound 1 navs - 1.
Proof. intros H. unfold total_return_of. rewrite (compound_telescopes navs 1); [field|lra|assumption]. Qed.
