From RQ Require Import Model.Num Model.Scheduler.
From Coq Require Import Lia ZifyBool.
Open Scope Z_scope.

(* a well-formed calendar: ordinals strictly increasing, yyyymm non-decreasing along it *)
Inductive cwf : list cday -> Prop :=
| cwf0 : cwf [] | cwf1 x : cwf [x]
| cwf2 x y t : c_ord x < c_ord y -> c_ym x <= c_ym y -> cwf (y :: t) -> cwf (x :: y :: t).
Lemma cwf_tail x t : cwf (x :: t) -> cwf t.
Proof. intros H; inversion H; subst; [constructor|assumption]. Qed.
Lemma cwf_lb x t : cwf (x :: t) -> forall y, In y t -> c_ord x < c_ord y /\ c_ym x <= c_ym y.
Proof. revert x. induction t as [|z t IH]; intros x H y Hy; [destruct Hy|]. inversion H; subst. destruct Hy as [->|Hy]; [lia|].
  destruct (IH z H5 y Hy). lia. Qed.
Lemma cwf_mono l : cwf l -> forall a b, In a l -> In b l -> c_ord a <= c_ord b -> c_ym a <= c_ym b /\ week_of a <= week_of b.
Proof. induction l as [|x t IH]; intros H a b Ha Hb Hab; [destruct Ha|].
  assert (W : forall u v : cday, c_ord u <= c_ord v -> week_of u <= week_of v).
  { intros u v Huv. unfold week_of. apply Z.div_le_mono; lia. }
  split; [|apply W; assumption].
  destruct Ha as [<-|Ha], Hb as [<-|Hb]; try lia.
  - apply (cwf_lb _ _ H b Hb).
  - destruct (cwf_lb _ _ H a Ha). lia.
  - apply (IH (cwf_tail _ _ H) a b Ha Hb Hab). Qed.

Lemma last_in (l : list cday) d : l <> [] -> In (last l d) l.
Proof. induction l as [|x t IH]; [congruence|]. intros _. destruct t as [|y t]; [left; reflexivity|]. right. apply IH. discriminate. Qed.

(* the cache invariant: after next_day the caches are the trading days of today's week / month, for every sequence of
   trading days (today later than the day the cache was filled for) *)
Section Cache.
  Variable bucket : cday -> Z.
  Variable cal : list cday.
  Hypothesis bucket_mono : forall a b, In a cal -> In b cal -> c_ord a <= c_ord b -> bucket a <= bucket b.
  Definition fillb (today : cday) : list cday := filter (fun d => bucket d =? bucket today) cal.
  Definition refresh (cache : list cday) (today : cday) : list cday :=
    match cache with [] => fillb today | _ => if last_ord cache <? c_ord today then fillb today else cache end.
  Lemma refresh_correct cache prev today : In prev cal -> In today cal -> cache = fillb prev -> c_ord prev < c_ord today ->
    refresh cache today = fillb today.
  Proof. intros Hp Ht Hc Hlt. unfold refresh. destruct cache as [|x t] eqn:C; [reflexivity|]. rewrite <- C in *.
    destruct (last_ord cache <? c_ord today) eqn:L; [reflexivity|].
    assert (Hin : In (last cache {| c_ord := 0; c_ym := 0 |}) cache) by (apply last_in; rewrite C; discriminate).
    set (z := last cache {| c_ord := 0; c_ym := 0 |}) in *. unfold last_ord in L. fold z in L.
    rewrite Hc in Hin. unfold fillb in Hin. apply filter_In in Hin. destruct Hin as [Hz Hb]. apply Z.eqb_eq in Hb.
    rewrite Hc. unfold fillb. assert (E : bucket prev = bucket today).
    { pose proof (bucket_mono prev today Hp Ht ltac:(lia)). pose proof (bucket_mono today z Ht Hz ltac:(lia)). lia. }
    rewrite E. reflexivity. Qed.
  Lemma refresh_first today : refresh [] today = fillb today. Proof. reflexivity. Qed.
End Cache.

Theorem week_cache cal s prev today start : cwf cal -> In prev cal -> In today cal -> c_ord prev < c_ord today ->
  sc_week s = fill_week cal prev -> sc_week (next_day cal start s today) = fill_week cal today.
Proof. intros W Hp Ht Hlt Hc. unfold next_day; cbn [sc_week].
  apply (refresh_correct week_of cal (fun a b Ha Hb Hab => proj2 (cwf_mono cal W a b Ha Hb Hab)) (sc_week s) prev today Hp Ht Hc Hlt). Qed.
Theorem month_cache cal s prev today start : cwf cal -> In prev cal -> In today cal -> c_ord prev < c_ord today ->
  sc_month s = fill_month cal prev -> sc_month (next_day cal start s today) = fill_month cal today.
Proof. intros W Hp Ht Hlt Hc. unfold next_day; cbn [sc_month].
  apply (refresh_correct c_ym cal (fun a b Ha Hb Hab => proj1 (cwf_mono cal W a b Ha Hb Hab)) (sc_month s) prev today Hp Ht Hc Hlt). Qed.
Theorem first_day_cache cal s today start : sc_week s = [] -> sc_month s = [] ->
  sc_week (next_day cal start s today) = fill_week cal today /\ sc_month (next_day cal start s today) = fill_month cal today.
Proof. intros H1 H2. unfold next_day. cbn. rewrite H1, H2. split; reflexivity. Qed.

(* day rules *)
Theorem daily_fires s today : day_ok s today DAlways = true. Proof. reflexivity. Qed.
Theorem weekday_rule s today wd : day_ok s today (DWeekday wd) = true <-> weekday_of today = wd.
Proof. cbn. split; intros H; lia. Qed.
(* the n-th rule fires exactly when today is the n-th (from the front) / n-th from the back trading day of its bucket,
   never in a bucket that is shorter *)
Theorem nth_front l n today : 0 <= n -> (nth_is l n today = true <-> exists d, nth_error l (Z.to_nat n) = Some d /\ c_ord d = c_ord today).
Proof. intros Hn. unfold nth_is. destruct (0 <=? n) eqn:E; [|lia]. destruct (nth_error l (Z.to_nat n)) as [d|].
  - unfold same_day. split; [intros H; exists d; split; [reflexivity|lia] | intros (d' & [= <-] & H); lia].
  - split; [discriminate|intros (d' & H & _); discriminate]. Qed.
Theorem nth_back l n today : n < 0 ->
  (nth_is l n today = true <-> (Z.to_nat (- n) <= length l)%nat /\ exists d, nth_error l (length l - Z.to_nat (- n)) = Some d /\ c_ord d = c_ord today).
Proof. intros Hn. unfold nth_is. destruct (0 <=? n) eqn:E; [lia|]. destruct (- n <=? Z.of_nat (length l)) eqn:B.
  - destruct (nth_error l (length l - Z.to_nat (- n))) as [d|].
    + unfold same_day. split; [intros H; split; [lia|]; exists d; split; [reflexivity|lia] | intros (_ & d' & [= <-] & H); lia].
    + split; [discriminate|intros (_ & d' & H & _); discriminate].
  - split; [discriminate|intros (H & _); lia]. Qed.
Theorem nth_short_bucket l n today : (0 <= n /\ Z.of_nat (length l) <= n) \/ (n < 0 /\ Z.of_nat (length l) < - n) -> nth_is l n today = false.
Proof. intros [[H1 H2]|[H1 H2]]; unfold nth_is.
  - destruct (0 <=? n) eqn:E; [|lia]. assert (N : nth_error l (Z.to_nat n) = None) by (apply nth_error_None; lia). rewrite N. reflexivity.
  - destruct (0 <=? n) eqn:E; [lia|]. destruct (- n <=? Z.of_nat (length l)) eqn:B; [lia|reflexivity]. Qed.

(* time rules and phases *)
Theorem before_trading_rule_only_before_trading ranges daily bt s : time_ok ranges daily bt s TBeforeTrading = bt.
Proof. reflexivity. Qed.
Theorem minute_rule_never_before_trading ranges daily s n : should_trigger ranges daily true s n = false.
Proof. unfold should_trigger. destruct (negb (in_ranges ranges n)); reflexivity. Qed.
Theorem daily_bar_rule ranges s n : in_ranges ranges n = true -> should_trigger ranges true false s n = true.
Proof. intros H. unfold should_trigger. rewrite H. reflexivity. Qed.

(* minute frequency: over the strictly increasing bar minutes of a day a time 0 < n fires at most once, at the first bar at or after it *)
Fixpoint increasing_from (lo : Z) (bars : list Z) : Prop := match bars with [] => True | m :: t => lo < m /\ increasing_from m t end.
Lemma fire_count_none ranges s n bars : 0 < n -> n <= sc_last_minute s -> increasing_from (sc_last_minute s) bars -> fire_count ranges s n bars = O.
Proof. revert s. induction bars as [|m t IH]; intros s Hn Hl Hinc; cbn [fire_count]; [reflexivity|]. destruct Hinc as [Hm Ht].
  unfold should_trigger at 1. cbn [at_bar sc_current_minute sc_last_minute].
  assert (E1 : ((n =? 0) && (m =? n)) = false) by lia. assert (E2 : ((sc_last_minute s <? n) && (n <=? m)) = false) by lia.
  rewrite E1, E2. destruct (negb (in_ranges ranges n)); cbn [Nat.add]; apply IH; cbn [after_bar at_bar sc_last_minute sc_current_minute]; try assumption; lia. Qed.
Theorem fires_at_most_once ranges s n bars : 0 < n -> increasing_from (sc_last_minute s) bars -> (fire_count ranges s n bars <= 1)%nat.
Proof. revert s. induction bars as [|m t IH]; intros s Hn Hinc; cbn [fire_count]; [lia|]. destruct Hinc as [Hm Ht].
  destruct (should_trigger ranges false false (at_bar s m) n) eqn:F.
  - (* fired at this bar: n <= m, so never again *)
    assert (Hle : n <= m).
    { unfold should_trigger in F. cbn [at_bar sc_current_minute sc_last_minute] in F. destruct (negb (in_ranges ranges n)); [discriminate|]. cbn in F.
      destruct ((n =? 0) && (m =? n)) eqn:Z0; [lia|]. lia. }
    rewrite (fire_count_none ranges (after_bar (at_bar s m)) n t Hn); cbn [after_bar at_bar sc_last_minute sc_current_minute]; try assumption; lia.
  - cbn [Nat.add]. apply IH; cbn [after_bar at_bar sc_last_minute sc_current_minute]; assumption. Qed.
Theorem fires_at_first_bar_at_or_after ranges s n m : in_ranges ranges n = true -> 0 < n -> sc_last_minute s < n -> n <= m ->
  should_trigger ranges false false (at_bar s m) n = true.
Proof. intros R Hn Hl Hm. unfold should_trigger. rewrite R. cbn [negb at_bar sc_current_minute sc_last_minute].
  destruct ((n =? 0) && (m =? n)); [reflexivity|]. lia. Qed.
