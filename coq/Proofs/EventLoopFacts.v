From RQ Require Import Model.Num Model.Calendar Model.EventLoop Proofs.CalendarFacts.
From Coq Require Import Lia ZifyBool.
Open Scope Z_scope.

(* one trading day of daily events through the executor *)
Lemma exec_daily_day prev acc d : (match prev with Some l => l <> d | None => True end) ->
  fold_left exec_step (daily_day d) (prev, acc) =
  (Some d, acc ++ (match prev with Some l => [PSettlement l] | None => [] end) ++ [PBeforeTrading d 0; POpenAuction d 0; PBar d 900; PAfterTrading d 930]).
Proof. intros H. unfold daily_day. cbn [fold_left exec_step fst snd].
  assert (E : (match prev with Some l => l =? d | None => false end) = false) by (destruct prev; lia).
  rewrite E. cbn [fst snd]. rewrite Z.eqb_refl. cbn [fst snd]. rewrite Z.eqb_refl. cbn [fst snd].
  f_equal. rewrite <- !app_assoc. cbn [app]. destruct prev; reflexivity. Qed.

Lemma exec_daily days : forall prev acc, sinc days -> (match prev, days with Some l, d :: _ => l < d | _, _ => True end) ->
  let r := fold_left exec_step (daily_events days) (prev, acc) in
  snd r ++ (match fst r with Some l => [PSettlement l] | None => [] end) = acc ++ spec_days prev days.
Proof.
  induction days as [|d t IH]; intros prev acc Hs Hp; cbn [daily_events flat_map fold_left spec_days fst snd].
  - reflexivity.
  - rewrite fold_left_app. rewrite exec_daily_day by (destruct prev; lia).
    specialize (IH (Some d) (acc ++ (match prev with Some l => [PSettlement l] | None => [] end) ++ [PBeforeTrading d 0; POpenAuction d 0; PBar d 900; PAfterTrading d 930])
                  (sinc_tail _ _ Hs)).
    cbv zeta in IH. fold (daily_events t). rewrite IH.
    + rewrite <- !app_assoc. reflexivity.
    + destruct t as [|d' t']; [exact I|]. inversion Hs; subst. assumption.
Qed.

Lemma last_fold days : forall prev acc, sinc days -> (match prev, days with Some l, d :: _ => l < d | _, _ => True end) ->
  fst (fold_left exec_step (daily_events days) (prev, acc)) = match days with [] => prev | _ => Some (lastz days) end.
Proof. induction days as [|d t IH]; intros prev acc Hs Hp; [reflexivity|].
  cbn [daily_events flat_map]. rewrite fold_left_app. rewrite exec_daily_day by (destruct prev; lia). fold (daily_events t).
  rewrite IH; [|apply (sinc_tail _ _ Hs)|destruct t as [|d' t']; [exact I|inversion Hs; subst; assumption]].
  destruct t; reflexivity. Qed.

(* the whole daily run is exactly what the property prescribes *)
Theorem daily_run_is_spec days : sinc days -> days <> [] -> exec_run (daily_events days) (lastz days) = spec_days None days.
Proof. intros Hs Hne. unfold exec_run. pose proof (exec_daily days None [] Hs) as E. cbv zeta in E.
  rewrite (last_fold days None [] Hs I). rewrite (last_fold days None [] Hs I) in E. destruct days as [|d t]; [congruence|]. rewrite Z.eqb_refl.
  apply E. exact I. Qed.

(* consequences read off the specification *)
Fixpoint count_settle (l : list pev) : nat := match l with [] => O | PSettlement _ :: t => S (count_settle t) | _ :: t => count_settle t end.
Lemma count_settle_app a b : count_settle (a ++ b) = (count_settle a + count_settle b)%nat.
Proof. induction a as [|x t IH]; cbn; [reflexivity|]. destruct x; cbn; rewrite IH; reflexivity. Qed.
Lemma spec_settlements days : forall prev, count_settle (spec_days prev days) = (length days + match prev with Some _ => 1 | None => 0 end)%nat.
Proof. induction days as [|d t IH]; intros prev; cbn [spec_days length]; [destruct prev; reflexivity|].
  rewrite count_settle_app. cbn [app count_settle]. rewrite IH. destruct prev; cbn; lia. Qed.
Theorem one_settlement_per_day days : sinc days -> days <> [] -> count_settle (exec_run (daily_events days) (lastz days)) = length days.
Proof. intros Hs Hne. rewrite daily_run_is_spec by assumption. rewrite spec_settlements. lia. Qed.

(* the shape: every day contributes BT, OA, BAR, AT in this order, preceded (except the first) by the settlement of the previous day *)
Theorem spec_shape d t prev : spec_days prev (d :: t) =
  (match prev with Some l => [PSettlement l] | None => [] end) ++ [PBeforeTrading d 0; POpenAuction d 0; PBar d 900; PAfterTrading d 930] ++ spec_days (Some d) t.
Proof. reflexivity. Qed.
Theorem spec_ends_with_settlement days prev : days <> [] -> exists l, spec_days prev days = l ++ [PSettlement (lastz days)].
Proof. revert prev. induction days as [|d t IH]; intros prev H; [congruence|]. cbn [spec_days]. destruct t as [|d' t'].
  - exists ((match prev with Some l => [PSettlement l] | None => [] end) ++ [PBeforeTrading d 0; POpenAuction d 0; PBar d 900; PAfterTrading d 930]).
    cbn [spec_days lastz last]. rewrite <- app_assoc. reflexivity.
  - destruct (IH (Some d) ltac:(discriminate)) as [l Hl]. rewrite Hl.
    exists ((match prev with Some l0 => [PSettlement l0] | None => [] end) ++ [PBeforeTrading d 0; POpenAuction d 0; PBar d 900; PAfterTrading d 930] ++ l).
    unfold lastz. cbn [last]. rewrite <- !app_assoc. reflexivity. Qed.

(* clocks never move backwards *)
Definition le_time (a b : Z * Z) : Prop := fst a < fst b \/ (fst a = fst b /\ snd a <= snd b).
Fixpoint times (l : list pev) : list (Z * Z) := match l with [] => [] | e :: t => match pev_time e with Some x => x :: times t | None => times t end end.
Fixpoint mono (lo : Z * Z) (l : list (Z * Z)) : Prop := match l with [] => True | x :: t => le_time lo x /\ mono x t end.
Lemma times_app a b : times (a ++ b) = times a ++ times b.
Proof. induction a as [|x t IH]; cbn; [reflexivity|]. destruct (pev_time x); cbn; rewrite IH; reflexivity. Qed.
Theorem clocks_monotone days : forall prev lo, sinc days -> (match days with d :: _ => fst lo < d | [] => True end) ->
  mono lo (times (spec_days prev days)).
Proof. induction days as [|d t IH]; intros prev lo Hs Hlo; cbn [spec_days].
  - destruct prev; exact I.
  - rewrite times_app. assert (E : times (match prev with Some l => [PSettlement l] | None => [] end) = []) by (destruct prev; reflexivity).
    rewrite E. cbn [app times pev_time mono]. unfold le_time; cbn [fst snd].
    repeat split; try lia. apply IH; [apply (sinc_tail _ _ Hs)|]. destruct t as [|d' t']; [exact I|]. inversion Hs; subst. cbn. assumption. Qed.

(* minute frequency: whatever the universe changes do, the bars of a day are strictly increasing *)
Fixpoint bars_of (l : list sev) : list Z := match l with [] => [] | SBar _ t :: r => t :: bars_of r | _ :: r => bars_of r end.
Fixpoint incr_from (lo : option Z) (l : list Z) : Prop :=
  match l with [] => True | x :: t => (match lo with Some v => v < x | None => True end) /\ incr_from (Some x) t end.
Lemma bars_of_app a b : bars_of (a ++ b) = bars_of a ++ bars_of b.
Proof. induction a as [|x t IH]; cbn; [reflexivity|]. destruct x; cbn; rewrite IH; reflexivity. Qed.

(* ---- minute frequency: whatever universe changes happen, the bars of a day are strictly increasing, and there is exactly one
   before_trading / open_auction pair, before the first bar ---- *)
Definition ge_last (last : option Z) (x : Z) : Prop := match last with Some l => l <= x | None => True end.
Lemma bars_of_pre d m (b : bool) : bars_of (if b then [SBeforeTrading d (m - 30); SOpenAuction d (m - 3)] else []) = [].
Proof. destruct b; reflexivity. Qed.

Lemma scan_bars d changed mins : sinc mins -> forall last btflag,
  let r := scan d changed last btflag mins in
  sinc (bars_of (fst (fst r))) /\
  (forall x, In x (bars_of (fst (fst r))) -> ge_last last x /\ In x mins) /\
  (forall m, snd (fst r) = Some m -> ge_last last m /\ In m mins /\ forall x, In x (bars_of (fst (fst r))) -> x < m).
Proof.
  induction mins as [|m t IH]; intros Hs last btflag; cbn [scan].
  - cbn. split; [constructor|]. split; [intros x []|intros m0 H; discriminate].
  - pose proof (sinc_tail _ _ Hs) as Ht.
    destruct (match last with Some l => m <? l | None => false end) eqn:Skip.
    + destruct (IH Ht last btflag) as (A & B & C). cbv zeta. split; [exact A|]. split.
      * intros x Hx. destruct (B x Hx). split; [assumption|right; assumption].
      * intros m0 Hm0. destruct (C m0 Hm0) as (C1 & C2 & C3). split; [assumption|]. split; [right; assumption|assumption].
    + assert (Hge : ge_last last m) by (destruct last; cbn; lia).
      destruct (changed m) eqn:Ch; cbv zeta; cbn [fst snd].
      * rewrite bars_of_pre. split; [constructor|]. split; [intros x []|]. intros m0 [= <-]. split; [assumption|]. split; [left; reflexivity|intros x []].
      * destruct (IH Ht last false) as (A & B & C). rewrite bars_of_app, bars_of_pre. cbn [app bars_of].
        split; [|split].
        -- (* m is below every later bar *)
           destruct (bars_of (fst (fst (scan d changed last false t)))) as [|y u] eqn:E; [constructor|].
           constructor; [|assumption]. destruct (B y (or_introl eq_refl)) as [_ Hy]. apply (sinc_lb m t Hs y Hy).
        -- intros x [<-|Hx]; [split; [assumption|left; reflexivity]|]. destruct (B x Hx). split; [assumption|right; assumption].
        -- intros m0 Hm0. destruct (C m0 Hm0) as (C1 & C2 & C3). split; [assumption|]. split; [right; assumption|].
           intros x [<-|Hx]; [apply (sinc_lb m t Hs m0 C2)|apply C3; assumption].
Qed.

Lemma sinc_app a b : sinc a -> sinc b -> (forall x y, In x a -> In y b -> x < y) -> sinc (a ++ b).
Proof. induction a as [|x t IH]; intros Ha Hb H; cbn; [assumption|]. destruct t as [|y u].
  - cbn. destruct b as [|z v]; [constructor|]. constructor; [apply H; left; reflexivity|assumption].
  - cbn. inversion Ha; subst. constructor; [assumption|]. apply IH; [assumption|assumption|]. intros p q Hp Hq. apply H; [right; assumption|assumption]. Qed.

Theorem minute_bars_increasing fuel d minutes_of changed : (forall k, sinc (minutes_of k)) -> forall k last btflag,
  sinc (bars_of (minute_day fuel d minutes_of changed k last btflag)) /\
  forall x, In x (bars_of (minute_day fuel d minutes_of changed k last btflag)) -> ge_last last x.
Proof.
  intros Hm. induction fuel as [|f IH]; intros k last btflag; cbn [minute_day].
  - cbn. split; [constructor|intros x []].
  - destruct (scan_bars d (changed k) (minutes_of k) (Hm k) last btflag) as (A & B & C). cbv zeta in A, B, C.
    destruct (snd (fst (scan d (changed k) last btflag (minutes_of k)))) as [m|] eqn:Brk.
    + destruct (C m eq_refl) as (C1 & C2 & C3). destruct (IH (S k) (Some m) (snd (scan d (changed k) last btflag (minutes_of k)))) as [I1 I2].
      rewrite bars_of_app. split.
      * apply sinc_app; [assumption|assumption|]. intros x y Hx Hy. specialize (C3 x Hx). specialize (I2 y Hy). cbn in I2. lia.
      * intros x Hx. apply in_app_or in Hx. destruct Hx as [Hx|Hx]; [apply B; assumption|]. specialize (I2 x Hx). cbn in I2. destruct last; cbn in *; lia.
    + rewrite bars_of_app. cbn [bars_of]. rewrite app_nil_r. split; [assumption|]. intros x Hx. apply B. assumption.
Qed.
