From Coq Require Import List Arith Bool Lia.
Import ListNotations.
From RQ Require Import Model.Broker.

Section Facts.
  Variable fin : nat -> nat -> bool.
  (* every matcher call made while the auction is on carries open_auction = True *)
  Definition auction_calls_flagged (s : bstate) : Prop := Forall (fun c => c_phase c = BAuction -> c_auction c = true) (bk_calls s).
  (* ... and a call with the flag set is made in the auction phase or at the first bar after it (next-bar matching), only for orders of the auction book *)
  Lemma call_all_flagged s ids flag ph : (ph = BAuction -> flag = true) -> auction_calls_flagged s -> auction_calls_flagged (call_all fin s ids flag ph).
  Proof.
    intros Hf. revert s. induction ids as [|id ids IH]; intros s H; cbn [call_all fold_left]; [exact H|].
    apply IH. destruct (mem id (bk_final s)); [exact H|]. unfold auction_calls_flagged, call; cbn [bk_calls]. constructor; [cbn; exact Hf | exact H].
  Qed.
  Lemma bmatch_flagged s ph : auction_calls_flagged s -> auction_calls_flagged (bmatch fin s ph).
  Proof.
    intros H. unfold bmatch. unfold auction_calls_flagged; cbn [bk_calls]. fold (auction_calls_flagged (call_all fin (match ph with BAuction => s | BTrading => call_all fin s (bk_open s) false ph end)
      (bk_auction (match ph with BAuction => s | BTrading => call_all fin s (bk_open s) false ph end)) true ph)).
    apply call_all_flagged; [reflexivity|]. destruct ph; [exact H|]. apply call_all_flagged; [discriminate | exact H].
  Qed.
  Lemma bstep_flagged s o : auction_calls_flagged s -> auction_calls_flagged (bstep fin s o).
  Proof.
    intros H. destruct o as [ph id imm| |id|]; cbn [bstep].
    - destruct imm; [apply bmatch_flagged|]; destruct ph; exact H.
    - apply bmatch_flagged; exact H.
    - destruct (mem id (bk_final s)); exact H.
    - exact H.
  Qed.
  Theorem auction_rule ops : auction_calls_flagged (brun fin ops).
  Proof.
    unfold brun. set (s0 := {| bk_open := []; bk_auction := []; bk_final := []; bk_calls := [] |}).
    assert (auction_calls_flagged s0) as H0 by constructor. clearbody s0. revert s0 H0.
    induction ops as [|o ops IH]; intros s H; cbn [fold_left]; [exact H|]. apply IH. apply bstep_flagged. exact H.
  Qed.

  (* nothing rests in the bar book after the close *)
  Theorem nothing_open_after_close ops : bk_open (bstep fin (brun fin ops) BAfterTrading) = [].
  Proof. reflexivity. Qed.
  (* after a matching round the auction book is empty and no final order rests *)
  Lemma filter_mem_false l f : Forall (fun id => mem id f = false) (filter (fun id => negb (mem id f)) l).
  Proof. apply Forall_forall. intros x Hx. apply filter_In in Hx. destruct Hx as [_ Hx]. destruct (mem x f); [discriminate | reflexivity]. Qed.
  Theorem match_empties_auction_book s ph : bk_auction (bmatch fin s ph) = [] /\ Forall (fun id => mem id (bk_final (bmatch fin s ph)) = false) (bk_open (bmatch fin s ph)).
  Proof. split; [reflexivity|]. unfold bmatch; cbn [bk_open bk_final]. apply filter_mem_false. Qed.
End Facts.

(* ---- the open_auction flag is set only on the first matcher call of an order that was submitted during the auction ---- *)
Section First.
  Variable fin : nat -> nat -> bool.
  Definition flag_first (cs : list bcall) : Prop := forall pre c post, cs = pre ++ c :: post -> c_auction c = true -> ncalls (c_id c) post = 0.
  Definition fresh_in (s : bstate) (id : nat) : Prop := ncalls id (bk_calls s) = 0 /\ ~ In id (bk_auction s) /\ ~ In id (bk_open s).
  Record binv (s : bstate) : Prop := {
    inv_uncalled : forall id, In id (bk_auction s) -> ncalls id (bk_calls s) = 0;
    inv_nodup : NoDup (bk_auction s);
    inv_first : flag_first (bk_calls s) }.

  Lemma ncalls_cons id c cs : ncalls id (c :: cs) = (if Nat.eqb (c_id c) id then S (ncalls id cs) else ncalls id cs).
  Proof. unfold ncalls. cbn [filter]. destruct (Nat.eqb (c_id c) id); reflexivity. Qed.
  Lemma flag_first_cons c cs : flag_first cs -> (c_auction c = true -> ncalls (c_id c) cs = 0) -> flag_first (c :: cs).
  Proof.
    intros H Hc pre c' post E Hf. destruct pre as [|p pre]; cbn [app] in E; inversion E; subst.
    - apply Hc; exact Hf.
    - apply (H pre c' post eq_refl Hf).
  Qed.
  (* calls with the flag off never disturb the invariant as long as they are not made on orders of the auction book *)
  Lemma call_all_off s ids ph : binv s -> (forall id, In id ids -> ~ In id (bk_auction s)) -> 
    binv (call_all fin s ids false ph) /\ bk_auction (call_all fin s ids false ph) = bk_auction s /\ bk_open (call_all fin s ids false ph) = bk_open s.
  Proof.
    revert s. induction ids as [|id ids IH]; intros s H Hd; cbn [call_all fold_left]; [auto|].
    destruct (mem id (bk_final s)) eqn:Ef.
    - apply IH; [exact H | intros x Hx; apply Hd; right; exact Hx].
    - set (s1 := call fin s id false ph).
      assert (binv s1) as H1.
      { destruct H as [Hu Hn Hf]. split; unfold s1, call; cbn [bk_auction bk_calls].
        - intros x Hx. rewrite ncalls_cons. cbn [c_id]. destruct (Nat.eqb id x) eqn:E; [|apply Hu; exact Hx].
          apply Nat.eqb_eq in E. subst x. exfalso. apply (Hd id (or_introl eq_refl)). exact Hx.
        - exact Hn.
        - apply flag_first_cons; [exact Hf | cbn; discriminate]. }
      destruct (IH s1 H1) as (A & B & C); [intros x Hx; unfold s1, call; cbn [bk_auction]; apply Hd; right; exact Hx|].
      fold (call_all fin s1 ids false ph). split; [exact A|]. split; [rewrite B | rewrite C]; reflexivity.
  Qed.
  (* the auction book, each order once, flag on: every such call is the order's first *)
  Lemma call_all_on s ids ph : flag_first (bk_calls s) -> NoDup ids -> (forall id, In id ids -> ncalls id (bk_calls s) = 0) ->
    flag_first (bk_calls (call_all fin s ids true ph)).
  Proof.
    revert s. induction ids as [|id ids IH]; intros s Hf Hn Hu; cbn [call_all fold_left]; [exact Hf|].
    inversion Hn as [|? ? Hni Hn']; subst.
    destruct (mem id (bk_final s)).
    - apply IH; [exact Hf | exact Hn' | intros x Hx; apply Hu; right; exact Hx].
    - apply IH; [| exact Hn' |].
      + unfold call; cbn [bk_calls]. apply flag_first_cons; [exact Hf | intros _; cbn [c_id]; apply Hu; left; reflexivity].
      + intros x Hx. unfold call; cbn [bk_calls]. rewrite ncalls_cons. cbn [c_id]. destruct (Nat.eqb id x) eqn:E.
        * apply Nat.eqb_eq in E. subst x. contradiction.
        * apply Hu. right. exact Hx.
  Qed.
  Lemma call_all_calls_mono s ids flag ph id : ncalls id (bk_calls s) <= ncalls id (bk_calls (call_all fin s ids flag ph)).
  Proof.
    revert s. induction ids as [|x ids IH]; intros s; cbn [call_all fold_left]; [lia|].
    destruct (mem x (bk_final s)); [apply IH|]. etransitivity; [|apply IH]. unfold call; cbn [bk_calls]. rewrite ncalls_cons. destruct (Nat.eqb _ _); lia.
  Qed.
  Lemma bmatch_inv s ph : binv s -> (forall id, In id (bk_open s) -> ~ In id (bk_auction s)) -> binv (bmatch fin s ph).
  Proof.
    intros H Hd. unfold bmatch.
    set (s1 := match ph with BAuction => s | BTrading => call_all fin s (bk_open s) false ph end).
    assert (binv s1 /\ bk_auction s1 = bk_auction s) as [H1 E1].
    { unfold s1. destruct ph; [auto|]. destruct (call_all_off s (bk_open s) BTrading H Hd) as (A & B & _). auto. }
    split; cbn [bk_auction bk_calls].
    - intros id [].
    - constructor.
    - apply call_all_on; [apply (inv_first _ H1) | apply (inv_nodup _ H1) | apply (inv_uncalled _ H1)].
  Qed.
End First.

Section Reachable.
  Variable fin : nat -> nat -> bool.
  Definition jinv (s : bstate) : Prop := binv s /\ (forall id, In id (bk_open s) -> ~ In id (bk_auction s)).
  (* every submitted order is a new one *)
  Fixpoint ok_ops (s : bstate) (ops : list bop) : Prop :=
    match ops with
    | [] => True
    | o :: t => match o with BSubmit _ id _ => fresh_in s id | _ => True end /\ ok_ops (bstep fin s o) t
    end.
  Lemma bmatch_jinv s ph : jinv s -> jinv (bmatch fin s ph).
  Proof. intros [H D]. split; [apply bmatch_inv; assumption | intros id _ []]. Qed.
  Lemma NoDup_filter {A} (f : A -> bool) l : NoDup l -> NoDup (filter f l).
  Proof.
    induction 1 as [|x l Hx _ IH]; cbn [filter]; [constructor|]. destruct (f x); [|exact IH].
    constructor; [|exact IH]. intros Hin. apply filter_In in Hin. tauto.
  Qed.
  Lemma NoDup_snoc {A} (l : list A) x : NoDup l -> ~ In x l -> NoDup (l ++ [x]).
  Proof.
    induction 1 as [|y l Hy _ IH]; intros Hx; cbn [app]; [repeat constructor; intros []|].
    constructor; [|apply IH; intros H; apply Hx; right; exact H].
    intros Hin. apply in_app_or in Hin. destruct Hin as [Hin|[<-|[]]]; [contradiction | apply Hx; left; reflexivity].
  Qed.
  Lemma bstep_jinv s o : jinv s -> match o with BSubmit _ id _ => fresh_in s id | _ => True end -> jinv (bstep fin s o).
  Proof.
    intros [H D] Hf. destruct o as [ph id imm| |id|]; cbn [bstep].
    - destruct Hf as (F1 & F2 & F3).
      assert (jinv (match ph with
                    | BAuction => {| bk_open := bk_open s; bk_auction := bk_auction s ++ [id]; bk_final := bk_final s; bk_calls := bk_calls s |}
                    | BTrading => {| bk_open := bk_open s ++ [id]; bk_auction := bk_auction s; bk_final := bk_final s; bk_calls := bk_calls s |}
                    end)) as J1.
      { destruct H as [Hu Hn Hff]. destruct ph; split; try split; cbn [bk_open bk_auction bk_calls]; auto.
        - intros x Hx. apply in_app_or in Hx. destruct Hx as [Hx|[<-|[]]]; [apply Hu; exact Hx | exact F1].
        - apply NoDup_snoc; assumption.
        - intros x Hx Hy. apply in_app_or in Hy. destruct Hy as [Hy|[<-|[]]]; [exact (D x Hx Hy) | contradiction].
        - intros x Hx Hy. apply in_app_or in Hx. destruct Hx as [Hx|[<-|[]]]; [exact (D x Hx Hy) | contradiction]. }
      destruct imm; [apply bmatch_jinv|]; exact J1.
    - apply bmatch_jinv. split; assumption.
    - destruct (mem id (bk_final s)); [split; assumption|]. destruct H as [Hu Hn Hff]. split; [split|]; cbn [bk_open bk_auction bk_calls].
      + intros x Hx. apply filter_In in Hx. apply Hu. tauto.
      + apply NoDup_filter. exact Hn.
      + exact Hff.
      + intros x Hx Hy. apply filter_In in Hx. apply filter_In in Hy. apply (D x); tauto.
    - destruct H as [Hu Hn Hff]. split; [split|]; cbn [bk_open bk_auction bk_calls]; auto; try (intros ? []).
  Qed.
  Lemma run_jinv ops : forall s, jinv s -> ok_ops s ops -> jinv (fold_left (bstep fin) ops s).
  Proof.
    induction ops as [|o ops IH]; intros s J H; cbn [fold_left]; [exact J|]. destruct H as [Ho Ht]. apply IH; [apply bstep_jinv; assumption | exact Ht].
  Qed.
  Lemma jinv_init : jinv {| bk_open := []; bk_auction := []; bk_final := []; bk_calls := [] |}.
  Proof.
    split; [split; cbn [bk_auction bk_calls]|cbn; intros ? []].
    - intros ? [].
    - constructor.
    - intros pre c post E. destruct pre; discriminate E.
  Qed.
  Theorem flag_only_on_first_call ops : ok_ops {| bk_open := []; bk_auction := []; bk_final := []; bk_calls := [] |} ops -> flag_first (bk_calls (brun fin ops)).
  Proof. intros H. unfold brun. exact (inv_first _ (proj1 (run_jinv ops _ jinv_init H))). Qed.
End Reachable.

(* the program of SimulationBroker._match, as regenerated from the source, IS the model's matching round *)
Lemma interp_expected_match fin ph s : interp fin ph expected_match s = bmatch fin s ph.
Proof. unfold interp, expected_match, bmatch. cbn [fold_left interp_prim]. destruct ph; reflexivity. Qed.
Lemma prog_eqb_eq a : forall b, prog_eqb a b = true -> a = b.
Proof. induction a as [|x s IH]; intros [|y t] H; cbn in H; try discriminate; [reflexivity|].
  apply andb_prop in H as [E H]. rewrite (IH t H). destruct x, y; cbn in E; try discriminate; reflexivity. Qed.
