From RQ Require Import Model.Num Model.Position Proofs.NumFacts.
From Coq Require Import Lqa Lia.
Open Scope Q_scope.

Definition is_stock (c : pcfg) := pc_kind c = StockPos.
Definition is_future (c : pcfg) := pc_kind c = FuturePos.

Lemma if_zero_mul (q x : Q) : (if qeq_b q 0 then 0 else qmul x q) == x * q.
Proof. destruct (qeq_b q 0) eqn:E; [apply qeq_b_true in E; rewrite E; ring | qnorm; reflexivity]. Qed.

Lemma stock_equity c p : is_stock c -> equity c p == p_last p * p_qty p + receivable p.
Proof. intros H. unfold equity. rewrite H. qnorm. rewrite if_zero_mul. reflexivity. Qed.
Lemma future_equity c p : is_future c -> equity c p == p_qty p * (p_last p - p_avg p) * pc_mult c * dirf c.
Proof. intros H. unfold equity. rewrite H. qnorm. reflexivity. Qed.
Lemma future_margin c rate p : is_future c -> margin c rate p == rate * (pc_mult c * (p_last p * p_qty p)).
Proof. intros H. unfold margin, market_value. rewrite H. qnorm. rewrite if_zero_mul. reflexivity. Qed.
Lemma stock_margin c rate p : is_stock c -> margin c rate p = 0.
Proof. intros H. unfold margin. rewrite H. reflexivity. Qed.
Lemma dirf_sq c : dirf c * dirf c == 1. Proof. unfold dirf. destruct (pc_long c); ring. Qed.

(* ---- trades ---- *)
Definition sgn (t : trade) : Q := match t_effect t with Open => 1 | _ => -1 end.

Lemma stock_trade_cash c p t : is_stock c -> t_effect t <> CloseToday ->
  snd (pos_apply_trade c p t) == - (sgn t) * (t_price t * t_qty t) - t_fee t.
Proof. intros H Hn. unfold pos_apply_trade, stock_apply_trade, base_apply_trade, sgn. rewrite H.
  destruct (t_effect t); try congruence; [destruct (pc_tplus c)|]; cbn [fst snd]; qnorm; ring. Qed.

Lemma stock_trade_qty c p t : is_stock c ->
  p_qty (fst (pos_apply_trade c p t)) == p_qty p + sgn t * t_qty t.
Proof. intros H. unfold pos_apply_trade, stock_apply_trade, base_apply_trade, sgn. rewrite H.
  destruct (t_effect t); [destruct (pc_tplus c)| |]; cbn [fst snd p_qty]; qnorm; ring. Qed.

Lemma stock_trade_last c p t : is_stock c -> p_last (fst (pos_apply_trade c p t)) = p_last p.
Proof. intros H. unfold pos_apply_trade, stock_apply_trade, base_apply_trade. rewrite H.
  destruct (t_effect t); [destruct (pc_tplus c)| |]; reflexivity. Qed.
Lemma stock_trade_recv c p t : is_stock c -> p_recv (fst (pos_apply_trade c p t)) = p_recv p.
Proof. intros H. unfold pos_apply_trade, stock_apply_trade, base_apply_trade. rewrite H.
  destruct (t_effect t); [destruct (pc_tplus c)| |]; reflexivity. Qed.

(* value of one stock entry + cash moves by (last - price) * signed quantity - fee *)
Lemma stock_trade_value c p t : is_stock c -> t_effect t <> CloseToday ->
  equity c (fst (pos_apply_trade c p t)) + snd (pos_apply_trade c p t) ==
  equity c p + sgn t * (p_last p - t_price t) * t_qty t - t_fee t.
Proof. intros H Hn. rewrite !stock_equity by assumption. rewrite stock_trade_cash by assumption.
  rewrite stock_trade_qty, stock_trade_last by assumption. unfold receivable. rewrite stock_trade_recv by assumption.
  unfold sgn. destruct (t_effect t); try congruence; ring. Qed.

(* futures: the value of the entry plus the cash it releases moves by the distance to the mark *)
Lemma future_trade_qty c p t : is_future c ->
  p_qty (fst (pos_apply_trade c p t)) == p_qty p + sgn t * t_qty t.
Proof. intros H. unfold pos_apply_trade, future_apply_trade, base_apply_trade, sgn. rewrite H.
  destruct (t_effect t); cbn [fst snd p_qty]; qnorm; ring. Qed.
Lemma future_trade_last c p t : is_future c -> p_last (fst (pos_apply_trade c p t)) = p_last p.
Proof. intros H. unfold pos_apply_trade, future_apply_trade, base_apply_trade. rewrite H.
  destruct (t_effect t); reflexivity. Qed.

Lemma future_trade_value c p t : is_future c -> 0 <= p_qty p -> 0 < t_qty t ->
  equity c (fst (pos_apply_trade c p t)) + snd (pos_apply_trade c p t) ==
  equity c p + sgn t * (p_last p - t_price t) * t_qty t * pc_mult c * dirf c - t_fee t.
Proof.
  intros H Hq Ht. rewrite !future_equity by assumption.
  unfold pos_apply_trade, future_apply_trade, base_apply_trade, sgn. rewrite H.
  destruct (t_effect t) eqn:E; cbn [fst snd p_qty p_last p_avg].
  - assert (Hlt : qlt_b (p_qty p) 0 = false) by (apply qlt_b_false; assumption). rewrite Hlt.
    qnorm. field. lra.
  - qnorm. ring.
  - qnorm. ring.
Qed.

(* realised profit of a closing fill: (fill price - carrying price) * quantity * multiplier, signed *)
Lemma future_close_cash c p t : is_future c -> t_effect t <> Open ->
  snd (pos_apply_trade c p t) == (t_price t - p_avg p) * t_qty t * pc_mult c * dirf c - t_fee t.
Proof. intros H Hn. unfold pos_apply_trade, future_apply_trade, base_apply_trade. rewrite H.
  destruct (t_effect t); try congruence; cbn [fst snd p_avg]; qnorm; ring. Qed.
Lemma future_open_cash c p t : is_future c -> t_effect t = Open -> snd (pos_apply_trade c p t) == - t_fee t.
Proof. intros H E. unfold pos_apply_trade, future_apply_trade. rewrite H, E. cbn [snd]. qnorm. ring. Qed.

(* ordinary closes consume yesterday's quantity first *)
Lemma close_old_first c p t : t_effect t = Close ->
  p_old (fst (pos_apply_trade c p t)) == p_old p - qmin (t_qty t) (p_old p).
Proof. intros E. unfold pos_apply_trade, stock_apply_trade, future_apply_trade, base_apply_trade. rewrite E.
  destruct (pc_kind c); cbn [fst p_old]; qnorm; reflexivity. Qed.
Lemma close_today_keeps_old c p t : is_future c -> t_effect t = CloseToday -> p_old (fst (pos_apply_trade c p t)) = p_old p.
Proof. intros H E. unfold pos_apply_trade, future_apply_trade. rewrite H, E. reflexivity. Qed.

(* calc_close_today_amount = the part of a close that is taken from today's quantity *)
Lemma close_today_amount_close c p q : is_future c -> 0 <= p_old p ->
  calc_close_today_amount c p q Close == q - qmin q (p_old p).
Proof. intros H Ho. unfold calc_close_today_amount. rewrite H.
  destruct (qmax_spec (qsub q (p_old p)) 0) as [[L E]|[L E]]; rewrite E;
  destruct (qmin_spec q (p_old p)) as [[L' E']|[L' E']]; rewrite E'; revert L; qnorm; intros; lra. Qed.
Lemma close_today_amount_ct c p q : is_future c ->
  calc_close_today_amount c p q CloseToday == qmin q (p_qty p - p_old p).
Proof. intros H. unfold calc_close_today_amount. rewrite H.
  destruct (qle_b q (qsub (p_qty p) (p_old p))) eqn:E.
  - apply qle_b_true in E. destruct (qmin_spec q (p_qty p - p_old p)) as [[L E']|[L E']]; rewrite E'; revert E; qnorm; intros; lra.
  - apply qle_b_false in E. destruct (qmin_spec q (p_qty p - p_old p)) as [[L E']|[L E']]; rewrite E'; revert E; qnorm; intros; lra.
Qed.

(* ---- settlement of futures ---- *)
Lemma fut_settle_value c p s : is_future c ->
  equity c (fst (fut_settle c p s)) + snd (fut_settle c p s) ==
  equity c p + p_qty p * ((match s with Some x => x | None => p_last p end) - p_last p) * pc_mult c * dirf c.
Proof. intros H. unfold fut_settle. destruct (qeq_b (p_qty p) 0) eqn:E; cbn [fst snd].
  - apply qeq_b_true in E. rewrite !future_equity by assumption. rewrite E. ring.
  - rewrite !future_equity by assumption. cbn [p_qty p_last p_avg]. qnorm. ring. Qed.
Lemma fut_settle_rebased c p s : qeq_b (p_qty p) 0 = false ->
  p_avg (fst (fut_settle c p s)) = p_last (fst (fut_settle c p s)) /\
  p_last (fst (fut_settle c p s)) = match s with Some x => x | None => p_last p end.
Proof. intros E. unfold fut_settle. rewrite E. cbn. split; reflexivity. Qed.
Lemma fut_settle_equity_zero c p s : is_future c -> equity c (fst (fut_settle c p s)) == 0 \/ p_qty p == 0.
Proof. intros H. unfold fut_settle. destruct (qeq_b (p_qty p) 0) eqn:E; [right; apply qeq_b_true; assumption|left].
  cbv zeta. cbn [fst]. rewrite future_equity by assumption. cbn [p_qty p_last p_avg]. ring. Qed.
(* expiry after marking: nothing realised, nothing left *)
Lemma fut_expire_flat c p : is_future c -> p_avg p == p_last p ->
  snd (fut_expire c p) == 0 /\ p_qty (fst (fut_expire c p)) = 0 /\ p_old (fst (fut_expire c p)) = 0.
Proof. intros H E. unfold fut_expire, future_apply_trade, base_apply_trade, set_qty. cbn [t_effect t_price t_qty t_fee fst snd p_qty p_old p_avg].
  split; [|split; reflexivity]. qnorm. rewrite E. ring. Qed.

(* ---- corporate actions on a stock entry (C12) ---- *)
Lemma book_closure_neutral c p dps payable : is_stock c ->
  equity c (bt_book p (Some (dps, payable))) == equity c p - receivable p.
Proof. intros H. rewrite !stock_equity by assumption. unfold bt_book, receivable. cbn [p_last p_qty p_recv]. qnorm. ring. Qed.
Lemma pay_neutral c p today lot : is_stock c ->
  equity c (fst (fst (bt_pay p today false lot))) + snd (fst (bt_pay p today false lot)) == equity c p.
Proof. intros H. rewrite !stock_equity by assumption. unfold bt_pay, receivable.
  destruct (p_recv p) as [[d v]|] eqn:E; cbn [fst snd]; rewrite ?E; [|ring].
  destruct (d =? today)%Z; cbn [negb fst snd p_last p_qty p_recv]; rewrite ?E; ring. Qed.
Lemma pay_amount p today lot d v : p_recv p = Some (d, v) -> d = today ->
  snd (fst (bt_pay p today false lot)) = v /\ p_recv (fst (fst (bt_pay p today false lot))) = None.
Proof. intros E ->. unfold bt_pay. rewrite E, Z.eqb_refl. cbn. split; reflexivity. Qed.
(* a split whose result is integral leaves the marked value unchanged and scales prices by 1/ratio *)
Lemma split_neutral c p r k : is_stock c -> 0 < r -> qmul (p_qty p) r == zq k ->
  equity c (bt_split p (Some r)) == equity c p.
Proof. intros H Hr Hk. rewrite !stock_equity by assumption. unfold bt_split, receivable. cbn [p_last p_qty p_recv].
  assert (Hround : zq (qround_even (qmul (p_qty p) r)) == p_qty p * r).
  { rewrite (qround_even_int _ k Hk). rewrite <- Hk. qnorm. reflexivity. }
  rewrite Hround. qnorm. field. lra. Qed.
Lemma split_scales p r : p_avg (bt_split p (Some r)) = qdiv (p_avg p) r /\ p_last (bt_split p (Some r)) = qdiv (p_last p) r.
Proof. split; reflexivity. Qed.
(* delisting: payout at the last price, or conversion at cost -- both leave entry value + cash unchanged *)
Lemma delist_payout_neutral c p : is_stock c -> p_recv p = None ->
  equity c (fst (fst (stock_delist p None true))) + snd (fst (stock_delist p None true)) == equity c p.
Proof. intros H Hr. rewrite !stock_equity by assumption. unfold stock_delist, receivable.
  destruct (qeq_b (p_qty p) 0) eqn:E; cbn [fst snd p_last p_qty p_recv]; rewrite Hr; [ring|qnorm; ring]. Qed.

Lemma conversion_neutral p ratio cr price amount : 0 < ratio -> qeq_b (p_qty p) 0 = false ->
  snd (stock_delist p (Some ratio) cr) = Some (price, amount) ->
  snd (fst (stock_delist p (Some ratio) cr)) == price * amount /\ amount * (p_last p / ratio) == p_last p * p_qty p.
Proof.
  intros Hr Hq H. unfold stock_delist in *. rewrite Hq in *. cbn [fst snd] in *. injection H as <- <-. qnorm.
  split; field; lra.
Qed.
