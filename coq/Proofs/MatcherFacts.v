From RQ Require Import Model.Num Model.Position Model.Matcher Proofs.NumFacts.
From Coq Require Import Lqa Lia.
Open Scope Q_scope.

Lemma valid_price_some p x : valid_price p = Some x -> p = Some x /\ 0 < x.
Proof. unfold valid_price. destruct p as [y|]; [|discriminate]. destruct (qlt_b 0 y) eqn:E; [|discriminate].
  intros [= ->]. split; [reflexivity|apply qlt_b_true; assumption]. Qed.

(* ---- slippage ---- *)
Definition band_ok (pb : mbar) (deal : Q) : Prop :=
  (forall lu, valid_price (b_limit_up pb) = Some lu -> deal <= lu) /\
  (forall ld, valid_price (b_limit_down pb) = Some ld -> ld <= deal) /\
  (forall lu ld, valid_price (b_limit_up pb) = Some lu -> valid_price (b_limit_down pb) = Some ld -> ld <= lu).

Lemma clamp_band x pb : (forall lu ld, valid_price (b_limit_up pb) = Some lu -> valid_price (b_limit_down pb) = Some ld -> ld <= lu) ->
  (forall lu, valid_price (b_limit_up pb) = Some lu -> clamp x pb <= lu) /\
  (forall ld, valid_price (b_limit_down pb) = Some ld -> ld <= clamp x pb).
Proof. intros H. unfold clamp.
  destruct (valid_price (b_limit_up pb)) as [lu|] eqn:U; destruct (valid_price (b_limit_down pb)) as [ld|] eqn:D; split; intros v E; try discriminate;
    injection E as <-.
  - specialize (H lu ld eq_refl eq_refl). destruct (qmin_spec x lu) as [[A B]|[A B]]; rewrite B;
    destruct (qmax_spec x ld) as [[A' B']|[A' B']]; destruct (qmax_spec lu ld) as [[A2 B2]|[A2 B2]]; rewrite ?B', ?B2; lra.
  - destruct (qmax_spec (qmin x lu) ld) as [[A B]|[A B]]; rewrite B; lra.
  - destruct (qmin_spec x lu) as [[A B]|[A B]]; rewrite B; lra.
  - destruct (qmax_spec x ld) as [[A B]|[A B]]; rewrite B; lra.
Qed.
Lemma clamp_mono_up x y pb : x <= y -> band_ok pb x -> x <= clamp y pb.
Proof. intros L (Hu & Hd & Hb). unfold clamp.
  destruct (valid_price (b_limit_up pb)) as [lu|] eqn:U; destruct (valid_price (b_limit_down pb)) as [ld|] eqn:D.
  - specialize (Hu lu eq_refl). destruct (qmin_spec y lu) as [[A B]|[A B]]; rewrite B;
    [destruct (qmax_spec y ld) as [[A' B']|[A' B']]|destruct (qmax_spec lu ld) as [[A' B']|[A' B']]]; rewrite B'; specialize (Hd ld eq_refl); lra.
  - specialize (Hu lu eq_refl). destruct (qmin_spec y lu) as [[A B]|[A B]]; rewrite B; lra.
  - specialize (Hd ld eq_refl). destruct (qmax_spec y ld) as [[A B]|[A B]]; rewrite B; lra.
  - assumption. Qed.
Lemma clamp_mono_down x y pb : y <= x -> band_ok pb x -> clamp y pb <= x.
Proof. intros L (Hu & Hd & Hb). unfold clamp.
  destruct (valid_price (b_limit_up pb)) as [lu|] eqn:U; destruct (valid_price (b_limit_down pb)) as [ld|] eqn:D.
  - specialize (Hd ld eq_refl). destruct (qmin_spec y lu) as [[A B]|[A B]]; rewrite B;
    [destruct (qmax_spec y ld) as [[A' B']|[A' B']]|destruct (qmax_spec lu ld) as [[A' B']|[A' B']]]; rewrite B'; specialize (Hu lu eq_refl); lra.
  - destruct (qmin_spec y lu) as [[A B]|[A B]]; rewrite B; lra.
  - specialize (Hd ld eq_refl). destruct (qmax_spec y ld) as [[A B]|[A B]]; rewrite B; lra.
  - assumption. Qed.

(* slippage moves the price only against the order (given a reference inside the band and a non-negative rate) *)
Lemma slip_adverse g i pb o deal : 0 <= m_slip_rate g -> 0 <= i_tick i -> 0 < deal -> band_ok pb deal ->
  (mo_limit o = true -> match mo_side o with Buy => deal <= mo_price o | Sell => mo_price o <= deal end) ->
  match mo_side o with Buy => deal <= slip_price g i pb o deal | Sell => slip_price g i pb o deal <= deal end.
Proof. intros Hr Ht Hd Hb Hl. unfold slip_price.
  destruct (m_slip g); destruct (mo_side o) eqn:S.
  - apply clamp_mono_up; [|assumption]. qnorm. assert (0 <= deal * m_slip_rate g) by (apply Qmult_le_0_compat; lra). lra.
  - apply clamp_mono_down; [|assumption]. qnorm. assert (0 <= deal * m_slip_rate g) by (apply Qmult_le_0_compat; lra). lra.
  - apply clamp_mono_up; [|assumption]. qnorm. assert (0 <= i_tick i * m_slip_rate g) by (apply Qmult_le_0_compat; lra). lra.
  - apply clamp_mono_down; [|assumption]. qnorm. assert (0 <= i_tick i * m_slip_rate g) by (apply Qmult_le_0_compat; lra). lra.
  - destruct (mo_limit o); [apply Hl; reflexivity|lra].
  - destruct (mo_limit o); [apply Hl; reflexivity|lra].
Qed.

(* ---- what a fill looks like ---- *)
Lemma price_gate_go g pb o deal : (price_gate g pb o deal <> 1 /\ price_gate g pb o deal <> 2 /\ price_gate g pb o deal <> 3)%nat ->
  (mo_limit o = true -> match mo_side o with Buy => deal <= mo_price o | Sell => mo_price o <= deal end) /\
  (m_price_limit g = true -> match mo_side o with Buy => ge_opt deal (b_limit_up pb) = false | Sell => le_opt deal (b_limit_down pb) = false end).
Proof. unfold price_gate. intros (H1 & H2 & H3).
  destruct (mo_limit o), (mo_side o), (m_price_limit g); cbn [andb] in *;
    repeat match goal with
           | H : context [if ?c then _ else _] |- _ => let E := fresh "E" in destruct c eqn:E
           end; try congruence; split; intros; try discriminate; try reflexivity; try assumption;
    try (apply qlt_b_false; assumption). Qed.

Lemma fill_amount_some g i vol turnover unfilled f : fill_amount g i vol turnover unfilled = Some f ->
  f = unfilled \/ exists v, m_volume_limit g = true /\ vol = Some v /\ 0 < volume_cap g i v turnover /\ f = qmin unfilled (volume_cap g i v turnover).
Proof. unfold fill_amount. destruct (m_volume_limit g); [|intros [= <-]; left; reflexivity].
  destruct vol as [v|]; [|intros [= <-]; left; reflexivity].
  destruct (qle_b (volume_cap g i v turnover) 0) eqn:C; [discriminate|]. intros [= <-]. right. exists v.
  repeat split; try reflexivity. apply qle_b_false. assumption. Qed.

Section Match.
  Variables (g : mcfg) (i : mins) (bar auction_bar pb : mbar) (auction : bool) (turnover : Q) (o : morder)
            (fee_of : Q -> Q -> Q -> Q) (occupation : Q -> Q) (avail : Q) (ct_of : Q -> Q).
  Notation M := (match_one g i bar auction_bar pb auction turnover o fee_of occupation avail ct_of).
  Notation vol := (if auction then b_volume auction_bar else b_volume bar).
  Notation unfilled := (qsub (mo_qty o) (mo_filled o)).

  Lemma filled_inv price qty ct rc : M = Filled price qty ct rc ->
    exists deal, valid_price (deal_price g i bar auction_bar auction) = Some deal /\
      price = (if auction then deal else slip_price g i pb o deal) /\
      (price_gate g pb o deal <> 1 /\ price_gate g pb o deal <> 2 /\ price_gate g pb o deal <> 3)%nat /\
      inactive g vol = false /\
      fill_amount g i vol turnover unfilled = Some qty /\
      ct = ct_of qty /\
      rc = (negb (mo_limit o) && negb (qeq_b (qsub unfilled qty) 0)).
  Proof.
    unfold match_one. destruct (valid_price (deal_price g i bar auction_bar auction)) as [deal|] eqn:V; [|destruct (i_listed_today i); discriminate].
    intros H. exists deal. split; [reflexivity|].
    destruct (price_gate g pb o deal) as [|[|[|[|n]]]] eqn:G; try discriminate H;
      (destruct (inactive g vol) eqn:IA; [discriminate H|]);
      (destruct (fill_amount g i vol turnover unfilled) as [f|] eqn:F; [|destruct (mo_limit o); discriminate H]);
      match type of H with context [if ?c then Rejected _ else _] => destruct c; [discriminate H|] end;
      injection H as <- <- <- <-; repeat split; try reflexivity; try lia.
  Qed.

  (* no fill is produced from a bar without a valid price *)
  Lemma no_fill_without_price : valid_price (deal_price g i bar auction_bar auction) = None -> M = NoMatch \/ M = Rejected RListedToday.
  Proof. unfold match_one. intros ->. destruct (i_listed_today i); auto. Qed.
  (* a market order never rests after a partial fill; an unfilled limit order rests *)
  Lemma market_rest_cancelled price qty ct rc : M = Filled price qty ct rc -> mo_limit o = false ->
    rc = negb (qeq_b (qsub unfilled qty) 0).
  Proof. intros H L. destruct (filled_inv _ _ _ _ H) as (deal & _ & _ & _ & _ & _ & _ & ->). rewrite L. reflexivity. Qed.
  Lemma limit_never_cancelled price qty ct rc : M = Filled price qty ct rc -> mo_limit o = true -> rc = false.
  Proof. intros H L. destruct (filled_inv _ _ _ _ H) as (deal & _ & _ & _ & _ & _ & _ & ->). rewrite L. reflexivity. Qed.
End Match.

(* ---- C05 / C06 statements derived from the inversion ---- *)
Section Match2.
  Variables (g : mcfg) (i : mins) (bar auction_bar pb : mbar) (auction : bool) (turnover : Q) (o : morder)
            (fee_of : Q -> Q -> Q -> Q) (occupation : Q -> Q) (avail : Q) (ct_of : Q -> Q).
  Notation M := (match_one g i bar auction_bar pb auction turnover o fee_of occupation avail ct_of).
  Notation vol := (if auction then b_volume auction_bar else b_volume bar).
  Notation unfilled := (qsub (mo_qty o) (mo_filled o)).

  Theorem fill_price_reference price qty ct rc : M = Filled price qty ct rc ->
    exists deal, valid_price (deal_price g i bar auction_bar auction) = Some deal /\ 0 < deal /\
                 price = (if auction then deal else slip_price g i pb o deal).
  Proof. intros H. destruct (filled_inv _ _ _ _ _ _ _ _ _ _ _ _ _ _ _ _ H) as (deal & V & P & _). exists deal.
    destruct (valid_price_some _ _ V). auto. Qed.

  Theorem fill_price_adverse price qty ct rc deal : M = Filled price qty ct rc ->
    valid_price (deal_price g i bar auction_bar auction) = Some deal ->
    0 <= m_slip_rate g -> 0 <= i_tick i -> band_ok pb deal ->
    match mo_side o with Buy => deal <= price | Sell => price <= deal end.
  Proof. intros H V Hr Ht Hb. destruct (filled_inv _ _ _ _ _ _ _ _ _ _ _ _ _ _ _ _ H) as (deal' & V' & P & G & _).
    rewrite V in V'. injection V' as <-. destruct (valid_price_some _ _ V) as [_ Hd].
    destruct (price_gate_go _ _ _ _ G) as [GL _]. subst price. destruct auction.
    - destruct (mo_side o); lra.
    - apply slip_adverse; assumption. Qed.

  (* a limit order fills only when the reference is at or better than its limit *)
  Theorem limit_respected price qty ct rc deal : M = Filled price qty ct rc -> mo_limit o = true ->
    valid_price (deal_price g i bar auction_bar auction) = Some deal ->
    match mo_side o with Buy => deal <= mo_price o | Sell => mo_price o <= deal end.
  Proof. intros H L V. destruct (filled_inv _ _ _ _ _ _ _ _ _ _ _ _ _ _ _ _ H) as (deal' & V' & P & G & _).
    rewrite V in V'. injection V' as <-. destruct (price_gate_go _ _ _ _ G) as [GL _]. apply GL. assumption. Qed.

  (* with zero slippage the trade price is the reference (inside the band), hence never worse than the limit *)
  Lemma clamp_id x pb' : band_ok pb' x -> clamp x pb' == x.
  Proof. intros (Hu & Hd & Hb). unfold clamp.
    destruct (valid_price (b_limit_up pb')) as [lu|] eqn:U; destruct (valid_price (b_limit_down pb')) as [ld|] eqn:D.
    - specialize (Hu lu eq_refl). specialize (Hd ld eq_refl). destruct (qmin_spec x lu) as [[A B]|[A B]]; rewrite B;
      [destruct (qmax_spec x ld) as [[A' B']|[A' B']]|destruct (qmax_spec lu ld) as [[A' B']|[A' B']]]; rewrite B'; lra.
    - specialize (Hu lu eq_refl). destruct (qmin_spec x lu) as [[A B]|[A B]]; rewrite B; lra.
    - specialize (Hd ld eq_refl). destruct (qmax_spec x ld) as [[A B]|[A B]]; rewrite B; lra.
    - reflexivity. Qed.
  Theorem zero_slippage_price price qty ct rc deal : M = Filled price qty ct rc ->
    valid_price (deal_price g i bar auction_bar auction) = Some deal -> m_slip_rate g == 0 -> band_ok pb deal ->
    (m_slip g = LimitPrice -> mo_limit o = false) -> price == deal.
  Proof. intros H V Z Hb HL. destruct (filled_inv _ _ _ _ _ _ _ _ _ _ _ _ _ _ _ _ H) as (deal' & V' & P & _).
    rewrite V in V'. injection V' as <-. subst price. destruct auction; [reflexivity|]. unfold slip_price.
    destruct (m_slip g) eqn:S.
    - assert (E : qadd deal (qmul (qmul deal (m_slip_rate g)) (match mo_side o with Buy => 1 | Sell => -1 end)) == deal) by (qnorm; rewrite Z; ring).
      unfold clamp. destruct Hb as (Hu & Hd & Hb').
      destruct (valid_price (b_limit_up pb)) as [lu|] eqn:U; destruct (valid_price (b_limit_down pb)) as [ld|] eqn:D;
        try specialize (Hu lu eq_refl); try specialize (Hd ld eq_refl).
      + destruct (qmin_spec (qadd deal (qmul (qmul deal (m_slip_rate g)) (match mo_side o with Buy => 1 | Sell => -1 end))) lu) as [[A B]|[A B]]; rewrite B;
        match goal with |- qmax ?a ?b == _ => destruct (qmax_spec a b) as [[A' B']|[A' B']]; rewrite B' end; lra.
      + match goal with |- qmin ?a ?b == _ => destruct (qmin_spec a b) as [[A B]|[A B]]; rewrite B end; lra.
      + match goal with |- qmax ?a ?b == _ => destruct (qmax_spec a b) as [[A B]|[A B]]; rewrite B end; lra.
      + assumption.
    - assert (E : qadd deal (qmul (qmul (i_tick i) (m_slip_rate g)) (match mo_side o with Buy => 1 | Sell => -1 end)) == deal) by (qnorm; rewrite Z; ring).
      unfold clamp. destruct Hb as (Hu & Hd & Hb').
      destruct (valid_price (b_limit_up pb)) as [lu|] eqn:U; destruct (valid_price (b_limit_down pb)) as [ld|] eqn:D;
        try specialize (Hu lu eq_refl); try specialize (Hd ld eq_refl).
      + match goal with |- qmax (qmin ?a ?b) ?c == _ => destruct (qmin_spec a b) as [[A B]|[A B]]; rewrite B end;
        match goal with |- qmax ?a ?b == _ => destruct (qmax_spec a b) as [[A' B']|[A' B']]; rewrite B' end; lra.
      + match goal with |- qmin ?a ?b == _ => destruct (qmin_spec a b) as [[A B]|[A B]]; rewrite B end; lra.
      + match goal with |- qmax ?a ?b == _ => destruct (qmax_spec a b) as [[A B]|[A B]]; rewrite B end; lra.
      + assumption.
    - rewrite (HL eq_refl). reflexivity. Qed.

  (* the trade price stays inside the day's band (slipping models clamp; LimitPrice needs the order's limit inside the band) *)
  Theorem fill_price_in_band price qty ct rc deal lu ld : M = Filled price qty ct rc ->
    valid_price (deal_price g i bar auction_bar auction) = Some deal ->
    valid_price (b_limit_up pb) = Some lu -> valid_price (b_limit_down pb) = Some ld -> ld <= lu -> ld <= deal <= lu ->
    (m_slip g = LimitPrice -> mo_limit o = true -> ld <= mo_price o <= lu) ->
    ld <= price <= lu.
  Proof. intros H V U D Hb Hd HL. destruct (filled_inv _ _ _ _ _ _ _ _ _ _ _ _ _ _ _ _ H) as (deal' & V' & P & _).
    rewrite V in V'. injection V' as <-. subst price. destruct auction; [assumption|]. unfold slip_price.
    assert (Hbb : forall lu0 ld0, valid_price (b_limit_up pb) = Some lu0 -> valid_price (b_limit_down pb) = Some ld0 -> ld0 <= lu0).
    { intros ? ? A B. rewrite U in A. rewrite D in B. injection A as <-. injection B as <-. assumption. }
    destruct (m_slip g) eqn:S.
    - destruct (clamp_band (qadd deal (qmul (qmul deal (m_slip_rate g)) (match mo_side o with Buy => 1 | Sell => -1 end))) pb Hbb) as [A B].
      split; [apply B|apply A]; assumption.
    - destruct (clamp_band (qadd deal (qmul (qmul (i_tick i) (m_slip_rate g)) (match mo_side o with Buy => 1 | Sell => -1 end))) pb Hbb) as [A B].
      split; [apply B|apply A]; assumption.
    - destruct (mo_limit o) eqn:L; [apply HL; reflexivity|assumption]. Qed.

  (* C06: price limits, liquidity limits *)
  Theorem no_fill_at_limit price qty ct rc deal : M = Filled price qty ct rc ->
    valid_price (deal_price g i bar auction_bar auction) = Some deal -> m_price_limit g = true ->
    match mo_side o with Buy => ge_opt deal (b_limit_up pb) = false | Sell => le_opt deal (b_limit_down pb) = false end.
  Proof. intros H V PL. destruct (filled_inv _ _ _ _ _ _ _ _ _ _ _ _ _ _ _ _ H) as (deal' & V' & P & G & _).
    rewrite V in V'. injection V' as <-. destruct (price_gate_go _ _ _ _ G) as [_ GP]. apply GP. assumption. Qed.
  Theorem no_fill_without_volume price qty ct rc : M = Filled price qty ct rc -> m_inactive_limit g = true ->
    forall v, vol = Some v -> ~ v == 0.
  Proof. intros H IL v Ev Z. destruct (filled_inv _ _ _ _ _ _ _ _ _ _ _ _ _ _ _ _ H) as (deal' & _ & _ & _ & IA & _).
    unfold inactive in IA. rewrite IL, Ev in IA. cbn [andb] in IA. apply qeq_b_false in IA. contradiction. Qed.

  Lemma lot_cap_le v : 0 < i_lot i -> lot_cap g i v <= zq (qround_even (qmul v (m_volume_percent g))).
  Proof. intros Hl. unfold lot_cap. set (R := zq (qround_even (qmul v (m_volume_percent g)))).
    rewrite qmul_ok. set (Y := qdiv R (i_lot i)).
    assert (F : zq (Qfloor Y) <= Y) by (unfold zq; apply Qfloor_le).
    assert (E : Y * i_lot i == R) by (unfold Y; qnorm; field; lra).
    apply Qle_trans with (Y * i_lot i); [apply Qmult_le_compat_r; [assumption|lra]|rewrite E; apply Qle_refl]. Qed.
  (* what a call may still trade keeps the bar inside its allowance in whole lots ... *)
  Lemma volume_cap_bound_lots v : 0 < i_lot i -> volume_cap g i v turnover <= lot_cap g i v - turnover.
  Proof. intros Hl. unfold volume_cap. set (R := lot_cap g i v).
    rewrite qmul_ok. set (X := qdiv (qsub R turnover) (i_lot i)).
    assert (F : zq (Qfloor X) <= X) by (unfold zq; apply Qfloor_le).
    assert (E : X * i_lot i == R - turnover) by (unfold X; qnorm; field; lra).
    rewrite <- E. apply Qmult_le_compat_r; [assumption|lra]. Qed.
  (* ... hence inside round(volume * percent) *)
  Lemma volume_cap_bound v : 0 < i_lot i -> volume_cap g i v turnover <= zq (qround_even (qmul v (m_volume_percent g))) - turnover.
  Proof. intros Hl. pose proof (volume_cap_bound_lots v Hl). pose proof (lot_cap_le v Hl). lra. Qed.
  Lemma volume_cap_lots v : exists k : Z, volume_cap g i v turnover == zq k * i_lot i.
  Proof. unfold volume_cap. eexists. qnorm. reflexivity. Qed.

  (* the quantity of a fill: positive, at most the remainder, whole lots or the whole remainder, and inside the bar's cap *)
  Theorem fill_quantity_shape price qty ct rc : M = Filled price qty ct rc -> 0 < unfilled -> 0 < i_lot i ->
    0 < qty /\ qty <= unfilled /\ (qty == unfilled \/ exists k : Z, qty == zq k * i_lot i) /\
    (m_volume_limit g = true -> forall v, vol = Some v -> turnover + qty <= zq (qround_even (qmul v (m_volume_percent g)))).
  Proof. intros H Hu Hl. destruct (filled_inv _ _ _ _ _ _ _ _ _ _ _ _ _ _ _ _ H) as (deal' & _ & _ & _ & _ & F & _).
    assert (Hcap : m_volume_limit g = true -> forall v, vol = Some v -> 0 < volume_cap g i v turnover /\ qty = qmin unfilled (volume_cap g i v turnover)).
    { intros VL v Ev. unfold fill_amount in F. rewrite VL, Ev in F.
      destruct (qle_b (volume_cap g i v turnover) 0) eqn:C; [discriminate|]. apply qle_b_false in C. injection F as F. split; [assumption|congruence]. }
    destruct (fill_amount_some _ _ _ _ _ _ F) as [E|(v & VL & Ev & Hc & E)].
    - subst qty. split; [lra|]. split; [lra|]. split; [left; reflexivity|]. intros VL v Ev.
      destruct (Hcap VL v Ev) as [Hc E]. pose proof (volume_cap_bound v Hl) as B.
      destruct (qmin_spec unfilled (volume_cap g i v turnover)) as [[A B']|[A B']]; rewrite B' in E; [lra|rewrite <- E in A; lra].
    - pose proof (volume_cap_bound v Hl) as B. destruct (volume_cap_lots v) as [k Hk]. subst qty.
      destruct (qmin_spec unfilled (volume_cap g i v turnover)) as [[A E]|[A E]]; rewrite E.
      + split; [lra|]. split; [lra|]. split; [left; reflexivity|]. intros _ v' Ev'. rewrite Ev in Ev'. injection Ev' as <-. lra.
      + split; [lra|]. split; [lra|]. split; [right; exists k; assumption|]. intros _ v' Ev'. rewrite Ev in Ev'. injection Ev' as <-. lra.
  Qed.
  (* ... and inside the allowance rounded down to whole lots, also when an odd-lot liquidation made the turnover odd *)
  Theorem fill_within_lot_cap price qty ct rc : M = Filled price qty ct rc -> 0 < i_lot i -> m_volume_limit g = true ->
    forall v, vol = Some v -> turnover + qty <= lot_cap g i v.
  Proof. intros H Hl VL v Ev. destruct (filled_inv _ _ _ _ _ _ _ _ _ _ _ _ _ _ _ _ H) as (deal' & _ & _ & _ & _ & F & _).
    unfold fill_amount in F. rewrite VL, Ev in F. destruct (qle_b (volume_cap g i v turnover) 0); [discriminate|]. injection F as F.
    pose proof (volume_cap_bound_lots v Hl) as B.
    destruct (qmin_spec unfilled (volume_cap g i v turnover)) as [[A E]|[A E]]; rewrite E in F; subst qty; lra. Qed.
End Match2.
