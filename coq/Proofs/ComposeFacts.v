(* Composition: the per-order lifecycle machine (Model/Order.v, C04) produces exactly the kind of event stream the reserved-cash
   invariant (Model/Reserve.v, C09) assumes.  The protocol hypothesis `wf_run` of C09_frozen_invariant is DISCHARGED here for the events
   of an order's whole life, whatever the inputs of the machine, instead of being assumed. *)
From Coq Require Import Lqa Lia.
From RQ Require Import Model.Num Model.Account Model.Matcher Model.Order Model.Reserve Proofs.NumFacts Proofs.OrderFacts Proofs.ReserveFacts.
Open Scope Q_scope.

Section One.
  Variables (id : nat) (qty reserve : Q).
  Hypothesis Hqty : 0 < qty.
  Hypothesis Hres : 0 <= reserve.
  Definition mk (f : Q) : rorder := {| r_id := id; r_qty := qty; r_filled := f; r_reserve := reserve |}.
  (* what the account hears of the order's events *)
  Definition rev_of (e : oev) : list rev :=
    match e with
    | EvPendingNew => [RPendingNew (mk 0)]
    | EvTrade _ q _ => [RTrade id q]
    | EvUnsolicited _ => [RTerminal id]
    | EvCancellationPass => [RTerminal id]
    | _ => []
    end.
  Definition revs_of (evs : list oev) : list rev := flat_map rev_of evs.
  Definition rrun (s : rstate) (evs : list oev) : rstate := fold_left rstep (revs_of evs) s.

  Definition Cpl (o : ostate) (s : rstate) : Prop :=
    os_qty o = qty /\ RInv s /\
    match os_status o with
    | Active => exists f, rs_book s = [mk f] /\ f == os_filled o
    | _ => rs_book s = []
    end.

  Lemma rfind_single f : rfind id [mk f] = Some (mk f).
  Proof. cbn. rewrite Nat.eqb_refl. reflexivity. Qed.

  Lemma terminal_single s f : RInv s -> rs_book s = [mk f] -> RInv (rstep s (RTerminal id)) /\ rs_book (rstep s (RTerminal id)) = [].
  Proof. intros I B. split; [apply rstep_inv; [exact I|exact Logic.I]|]. cbn [rstep]. rewrite B, rfind_single. cbn. rewrite Nat.eqb_refl. reflexivity. Qed.

  Lemma trade_single s f q : RInv s -> rs_book s = [mk f] -> 0 < q -> q <= qty - f ->
    wf_ev s (RTrade id q) /\ RInv (rstep s (RTrade id q)) /\
    rs_book (rstep s (RTrade id q)) = (if qeq_b (qadd f q) qty then [] else [mk (qadd f q)]).
  Proof. intros I B Hq Hle.
    assert (W : wf_ev s (RTrade id q)). { cbn [wf_ev]. rewrite B, rfind_single. intros o [= <-]. cbn. split; assumption. }
    split; [exact W|]. split; [apply rstep_inv; assumption|].
    cbn [rstep]. rewrite B, rfind_single. cbn [r_id r_qty r_filled r_reserve mk rs_book].
    destruct (qeq_b (qadd f q) qty); cbn; rewrite Nat.eqb_refl; reflexivity. Qed.

  Lemma pending_empty s : RInv s -> rs_book s = [] ->
    wf_ev s (RPendingNew (mk 0)) /\ RInv (rstep s (RPendingNew (mk 0))) /\ rs_book (rstep s (RPendingNew (mk 0))) = [mk 0].
  Proof. intros I B.
    assert (W : wf_ev s (RPendingNew (mk 0))).
    { cbn [wf_ev]. split; [unfold wf_order; cbn; repeat split; try lra; assumption|]. split; [reflexivity|]. rewrite B. reflexivity. }
    split; [exact W|]. split; [apply rstep_inv; assumption|]. cbn [rstep rs_book]. rewrite B. reflexivity. Qed.

  Lemma fin_iff f fo q : f == fo -> qeq_b (qadd f q) qty = qeq_b (qsub qty (qadd fo q)) 0.
  Proof. intros E. destruct (qeq_b (qadd f q) qty) eqn:A, (qeq_b (qsub qty (qadd fo q)) 0) eqn:B; try reflexivity; exfalso.
    - apply qeq_b_true in A. apply qeq_b_false in B. apply B. revert A. qnorm. intros A. lra.
    - apply qeq_b_false in A. apply qeq_b_true in B. apply A. revert B. qnorm. intros B. lra. Qed.

  (* one input of the order machine: the events it emits are a well-formed run of the reserve machine and keep the two coupled *)
  Lemma step_cpl o s i : OWF o -> in_ok o i -> Cpl o s ->
    wf_run s (revs_of (snd (ostep o i))) /\ Cpl (fst (ostep o i)) (rrun s (snd (ostep o i))).
  Proof.
    intros (Wq & Wf0 & Wfq & Wst) Hin (Eq & I & C).
    assert (NOP : wf_run s (revs_of []) /\ Cpl o (rrun s [])) by (split; [exact Logic.I|unfold rrun; cbn [revs_of flat_map fold_left]; split; [exact Eq|split; [exact I|exact C]]]).
    destruct i as [a|r fee| | |]; cbn [ostep].
    - (* submit *)
      destruct (os_status o) eqn:S; try exact NOP. destruct Wst as [Pl F0]. rewrite Pl.
      destruct (pending_empty s I C) as (W & I' & B').
      split; [cbn; split; [exact W|exact Logic.I]|]. unfold rrun; cbn [snd revs_of flat_map rev_of app fold_left fst].
      split; [exact Eq|]. split; [exact I'|]. cbn [with_status os_status]. exists 0. split; [exact B'|]. cbn [os_filled]. symmetry. exact F0.
    - (* match *)
      assert (ACT : os_place o <> Nowhere -> os_status o = Active).
      { intros N. destruct (os_status o); try (destruct Wst as [Pn _]; congruence); try contradiction; reflexivity. }
      destruct (os_place o) eqn:Pl; [exact NOP| |].
      all: assert (S : os_status o = Active) by (apply ACT; congruence); rewrite S in C; destruct C as (f & B & Ef); rewrite S; cbn [is_final].
      all: destruct r as [|rr|rr|price q ct rc].
      (* NoMatch *)
      1, 5: split; [exact Logic.I|]; unfold rrun; cbn [snd fst revs_of flat_map fold_left];
            split; [exact Eq|]; split; [exact I|]; cbn [with_status os_status]; rewrite ?S; exists f; split; [exact B|exact Ef].
      (* Rejected / Cancelled *)
      1, 2, 4, 5: destruct (terminal_single s f I B) as [I' B']; split; [cbn; split; exact Logic.I|];
            unfold rrun, mark, out, with_status; rewrite ?S; cbn; split; [exact Eq|]; split; [exact I'|exact B'].
      (* Filled *)
      all: cbn [in_ok] in Hin; destruct Hin as [Hq Hle]; rewrite Eq in Hle;
        assert (Hle' : q <= qty - f) by (rewrite Ef; exact Hle);
        destruct (trade_single s f q I B Hq Hle') as (W & I' & B');
        pose proof (fin_iff f (os_filled o) q Ef) as FI; rewrite FI in B'; rewrite <- Eq in B';
        unfold order_fill; cbn [os_status is_final]; rewrite ?S;
        destruct (qeq_b (qsub (os_qty o) (qadd (os_filled o) q)) 0) eqn:FIN; cbn [is_final].
      (* the fill completes the order *)
      1, 3: split; [cbn; split; [exact W|exact Logic.I]|]; unfold rrun, out, with_status; cbn;
            split; [exact Eq|]; split; [exact I'|exact B'].
      (* a partial fill: the rest is cancelled (market order) or rests *)
      all: destruct rc; cbn [fst snd].
      1, 3: destruct (terminal_single _ _ I' B') as [I'' B'']; split; [cbn; split; [exact W|split; exact Logic.I]|];
            unfold rrun, mark, out, with_status; cbn; rewrite ?FIN; cbn; split; [exact Eq|]; split; [exact I''|exact B''].
      all: split; [cbn; split; [exact W|exact Logic.I]|]; unfold rrun, with_status; cbn; rewrite ?FIN;
           split; [exact Eq|]; split; [exact I'|]; rewrite ?S; exists (qadd f q); split; [exact B'|]; cbn [os_filled]; qnorm; rewrite Ef; reflexivity.
    - (* cancel *)
      destruct (os_status o) eqn:S; cbn [is_final]; try exact NOP; try contradiction.
      destruct C as (f & B & Ef). destruct (terminal_single s f I B) as [I' B'].
        split; [cbn; split; exact Logic.I|]. unfold rrun, mark, out, with_status; rewrite S; cbn. split; [exact Eq|]. split; [exact I'|exact B'].
    - (* before trading *)
      destruct (os_place o) eqn:Pl; try exact NOP. exfalso. unfold in_ok in Hin. apply Hin. exact Pl.
    - (* after trading *)
      destruct (os_place o) eqn:Pl; try exact NOP.
      destruct (os_status o) eqn:S; try (destruct Wst as [Pn _]; congruence); try contradiction.
      destruct C as (f & B & Ef). destruct (terminal_single s f I B) as [I' B'].
      split; [cbn; split; exact Logic.I|]. unfold rrun, mark, out, with_status; rewrite S; cbn. split; [exact Eq|]. split; [exact I'|exact B'].
  Qed.

  Lemma wf_run_app a : forall s b, wf_run s a -> wf_run (fold_left rstep a s) b -> wf_run s (a ++ b).
  Proof. induction a as [|e t IH]; intros s b Ha Hb; cbn in *; [exact Hb|]. destruct Ha as [He Ht]. split; [exact He|]. apply IH; assumption. Qed.
  Lemma revs_of_app a b : revs_of (a ++ b) = revs_of a ++ revs_of b.
  Proof. unfold revs_of. apply flat_map_app. Qed.

  (* the whole life of the order, any inputs *)
  Theorem run_cpl ins : forall o s, OWF o -> ins_ok o ins -> Cpl o s ->
    wf_run s (revs_of (snd (orun o ins))) /\ Cpl (fst (orun o ins)) (rrun s (snd (orun o ins))).
  Proof.
    induction ins as [|i t IH]; intros o s W Hin C; cbn [orun fst snd].
    - split; [exact Logic.I|]. unfold rrun; cbn. exact C.
    - cbn [ins_ok] in Hin. destruct Hin as [Hi Ht].
      destruct (step_cpl o s i W Hi C) as [W1 C1].
      destruct (ostep_ok o i W Hi) as (W' & _).
      destruct (IH _ _ W' Ht C1) as [W2 C2].
      rewrite revs_of_app. split.
      + apply wf_run_app; [exact W1|exact W2].
      + unfold rrun in *. rewrite revs_of_app, fold_left_app. exact C2.
  Qed.
End One.

(* From nothing: an order of quantity qty with initial reserve r, driven by ANY inputs the broker can produce (C04's in_ok: fills positive
   and within the remainder - which C06 proves of the matcher - , a day's before_trading after the previous after_trading), announces
   events that (1) form a protocol-conforming run of the reserve machine - the hypothesis of C09_frozen_invariant - , hence (2) keep
   reserved cash = the unfilled fraction of the initial reserve, and (3) leave nothing reserved once the order is final. *)
Theorem lifecycle_discharges_reserve_protocol id qty reserve ins : 0 < qty -> 0 <= reserve -> ins_ok (fresh_order qty) ins ->
  let s0 := {| rs_frozen := 0; rs_book := [] |} in
  let o := fst (orun (fresh_order qty) ins) in
  let evs := revs_of id qty reserve (snd (orun (fresh_order qty) ins)) in
  wf_run s0 evs /\ RInv (fold_left rstep evs s0) /\
  (os_status o <> Active -> rs_frozen (fold_left rstep evs s0) == 0) /\
  (os_status o = Active -> rs_frozen (fold_left rstep evs s0) == (qty - os_filled o) / qty * reserve).
Proof.
  intros Hq Hr Hin s0 o evs.
  assert (C0 : Cpl id qty reserve (fresh_order qty) s0).
  { split; [reflexivity|]. split; [split; [reflexivity|constructor]|]. reflexivity. }
  destruct (run_cpl id qty reserve Hq Hr ins _ _ (fresh_wf qty Hq) Hin C0) as [W (Eq & I & C)].
  fold o in Eq, C. unfold rrun in I, C. fold evs in I, C. fold evs in W.
  split; [exact W|]. split; [exact I|]. split.
  - intros N. destruct I as [HI _]. rewrite HI. destruct (os_status o); try (rewrite C; reflexivity). congruence.
  - intros A. rewrite A in C. destruct C as (f & B & Ef). destruct I as [HI _]. rewrite HI, B. cbn. unfold rshare, mk; cbn. rewrite Ef. field. lra.
Qed.
