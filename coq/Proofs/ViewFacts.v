From Coq Require Import Lia ZifyBool.
From RQ Require Import Model.Num Model.Calendar Model.View Proofs.NumFacts Proofs.CalendarFacts.
Open Scope Z_scope.

(* ---- looking a date up / counting a prefix never reaches past the common part ---- *)
Lemma bar_at_none s d : Forall (fun b => d_dt b <> d) s -> bar_at s d = None.
Proof.
  induction s as [|b s IH]; intros H; cbn [bar_at]; [reflexivity|].
  inversion H as [|? ? Hb Hs]; subst. destruct (d_dt b =? d) eqn:E; [lia|]. apply IH; exact Hs.
Qed.
Lemma bar_at_app p s d : Forall (fun b => d_dt b <> d) s -> bar_at (p ++ s) d = bar_at p d.
Proof.
  intros H. induction p as [|b p IH]; cbn [app bar_at].
  - rewrite (bar_at_none s d H). reflexivity.
  - destruct (d_dt b =? d); [reflexivity | exact IH].
Qed.
Lemma later_ne d d' s : d' <= d -> later_than d s -> Forall (fun b => d_dt b <> d') s.
Proof. intros Hd H. eapply Forall_impl; [|exact H]. cbn. intros b Hb. lia. Qed.
Lemma notbefore_ne d d' s : d' < d -> not_before d s -> Forall (fun b => d_dt b <> d') s.
Proof. intros Hd H. eapply Forall_impl; [|exact H]. cbn. intros b Hb. lia. Qed.

(* the previous trading date is strictly earlier, unless the day is the first one of the calendar *)
Lemma nth_below_cnt_lt d cal : forall i, (i < cnt_ltn d cal)%nat -> nth i cal 0 < d.
Proof.
  induction cal as [|y t IH]; cbn [cnt_ltn]; intros i Hi; [lia|].
  destruct (y <? d) eqn:E; [|lia]. destruct i as [|i]; cbn [nth]; [lia|]. apply IH. lia.
Qed.
Lemma prev_before cal d : 1 <= cnt_lt d cal -> prev_trading_date cal d 1 < d.
Proof.
  intros H. unfold prev_trading_date. destruct (1 <=? cnt_lt d cal) eqn:E; [|lia].
  unfold nthz, cnt_lt in *. apply nth_below_cnt_lt. lia.
Qed.
Lemma visible_day_le cal ph d : 1 <= cnt_lt d cal -> visible_day cal ph d <= d.
Proof. intros H. pose proof (prev_before cal d H). destruct ph; cbn [visible_day]; lia. Qed.

(* ---- every accessor returns the same on histories that agree up to the moment ---- *)
Lemma agree_bar_at_past ph d h1 h2 d' : agree ph d h1 h2 -> d' < d -> bar_at h1 d' = bar_at h2 d'.
Proof.
  intros (p & s1 & s2 & -> & -> & H) Hd.
  assert (Forall (fun b => d_dt b <> d') s1 /\ Forall (fun b => d_dt b <> d') s2) as [A B].
  { destruct ph.
    - destruct H as [H1 H2]. split; eapply notbefore_ne; eauto.
    - destruct H as [[H1 H2] | (b1 & b2 & t1 & t2 & -> & -> & E1 & E2 & _ & H1 & H2)].
      + split; eapply later_ne; eauto; lia.
      + split; constructor; try lia; eapply later_ne; eauto; lia.
    - destruct H as [H1 H2]. split; eapply later_ne; eauto; lia.
    - destruct H as [H1 H2]. split; eapply later_ne; eauto; lia.
    - destruct H as [H1 H2]. split; eapply later_ne; eauto; lia. }
  rewrite !bar_at_app by assumption. reflexivity.
Qed.
Lemma agree_bar_at_today ph d h1 h2 : ph <> VBeforeTrading -> ph <> VOpenAuction -> agree ph d h1 h2 -> bar_at h1 d = bar_at h2 d.
Proof.
  intros N1 N2 (p & s1 & s2 & -> & -> & H).
  assert (later_than d s1 /\ later_than d s2) as [A B] by (destruct ph; try contradiction; exact H).
  rewrite !bar_at_app by (eapply later_ne; eauto; lia). reflexivity.
Qed.
(* at the auction the two bars of the day may differ, but not in what the auction shows *)
Lemma agree_auction d h1 h2 (f : dbar -> obs) :
  (forall b1 b2, auction_view b1 = auction_view b2 -> f b1 = f b2) ->
  agree VOpenAuction d h1 h2 -> on_bar f no_view (bar_at h1 d) = on_bar f no_view (bar_at h2 d).
Proof.
  intros Hf (p & s1 & s2 & -> & -> & H). cbn in H.
  destruct H as [[H1 H2] | (b1 & b2 & t1 & t2 & -> & -> & E1 & E2 & Ev & H1 & H2)].
  - rewrite !bar_at_app by (eapply later_ne; eauto; lia). reflexivity.
  - induction p as [|b p IH]; cbn [app bar_at].
    + rewrite E1, E2, !Z.eqb_refl. cbn [on_bar]. apply Hf; exact Ev.
    + destruct (d_dt b =? d); [reflexivity | exact IH].
Qed.
Lemma auction_view_self b1 b2 : auction_view b1 = auction_view b2 -> auction_view b1 = auction_view b2.
Proof. auto. Qed.
Lemma auction_tick_from_view b1 b2 : auction_view b1 = auction_view b2 -> auction_tick b1 = auction_tick b2.
Proof. unfold auction_view, auction_tick. intros H. injection H. intros. congruence. Qed.

Theorem board_noninterference cal ph d h1 h2 : 1 <= cnt_lt d cal -> agree ph d h1 h2 -> board_bar cal h1 ph d = board_bar cal h2 ph d.
Proof.
  intros Hc H. pose proof (prev_before cal d Hc) as Hp. destruct ph; cbn [board_bar].
  - rewrite (agree_bar_at_past _ _ _ _ _ H Hp). reflexivity.
  - apply agree_auction; [intros; assumption | exact H].
  - assert (bar_at h1 d = bar_at h2 d) as -> by (eapply agree_bar_at_today; [| | exact H]; discriminate); reflexivity.
  - assert (bar_at h1 d = bar_at h2 d) as -> by (eapply agree_bar_at_today; [| | exact H]; discriminate); reflexivity.
  - assert (bar_at h1 d = bar_at h2 d) as -> by (eapply agree_bar_at_today; [| | exact H]; discriminate); reflexivity.
Qed.
Theorem bar_dict_noninterference ph d h1 h2 : ph <> VBeforeTrading -> agree ph d h1 h2 -> bar_dict_bar h1 ph d = bar_dict_bar h2 ph d.
Proof.
  intros N H. destruct ph; cbn [bar_dict_bar]; try contradiction.
  - apply agree_auction; [intros; assumption | exact H].
  - assert (bar_at h1 d = bar_at h2 d) as -> by (eapply agree_bar_at_today; [| | exact H]; discriminate); reflexivity.
  - assert (bar_at h1 d = bar_at h2 d) as -> by (eapply agree_bar_at_today; [| | exact H]; discriminate); reflexivity.
  - assert (bar_at h1 d = bar_at h2 d) as -> by (eapply agree_bar_at_today; [| | exact H]; discriminate); reflexivity.
Qed.
Theorem snapshot_noninterference cal ph d h1 h2 : 1 <= cnt_lt d cal -> agree ph d h1 h2 -> snapshot cal h1 ph d = snapshot cal h2 ph d.
Proof.
  intros Hc H. pose proof (prev_before cal d Hc) as Hp. destruct ph; cbn [snapshot].
  - rewrite (agree_bar_at_past _ _ _ _ _ H Hp). reflexivity.
  - apply agree_auction; [apply auction_tick_from_view | exact H].
  - assert (bar_at h1 d = bar_at h2 d) as -> by (eapply agree_bar_at_today; [| | exact H]; discriminate); reflexivity.
  - assert (bar_at h1 d = bar_at h2 d) as -> by (eapply agree_bar_at_today; [| | exact H]; discriminate); reflexivity.
  - assert (bar_at h1 d = bar_at h2 d) as -> by (eapply agree_bar_at_today; [| | exact H]; discriminate); reflexivity.
Qed.
Theorem last_price_noninterference cal ph d h1 h2 : 1 <= cnt_lt d cal -> agree ph d h1 h2 -> lazy_last_price cal h1 ph d = lazy_last_price cal h2 ph d.
Proof. intros Hc H. unfold lazy_last_price. rewrite (board_noninterference cal ph d h1 h2 Hc H). reflexivity. Qed.

(* before the open and in the auction close / high / low of the day are not observable at all *)
Theorem auction_hides_close_high_low b : nth 1 (auction_view b) None = None /\ nth 2 (auction_view b) None = None /\ nth 3 (auction_view b) None = None.
Proof. cbn. auto. Qed.
Theorem auction_independent_of_close_high_low b c h l :
  auction_view b = auction_view {| d_dt := d_dt b; d_open := d_open b; d_close := c; d_high := h; d_low := l; d_lu := d_lu b; d_ld := d_ld b;
                                   d_vol := d_vol b; d_turn := d_turn b |}.
Proof. reflexivity. Qed.

(* ---- history windows ---- *)
Lemma cnt_len_app_later t dt p s : dt <= t -> Forall (fun x => t < x) s -> cnt_len dt (p ++ s) = cnt_len dt p.
Proof.
  intros Hd Hs. induction p as [|y p IH]; cbn [app cnt_len].
  - destruct s as [|x s]; [reflexivity|]. inversion Hs; subst. cbn [cnt_len]. destruct (x <=? dt) eqn:E; [lia | reflexivity].
  - destruct (y <=? dt); [rewrite IH; reflexivity | reflexivity].
Qed.
Lemma slice_app_prefix {A} (p s : list A) a b : 0 <= a -> b <= lenz p -> slicez a b (p ++ s) = slicez a b p.
Proof.
  intros Ha Hb. unfold slicez, lenz in *.
  destruct (Z_le_gt_dec b a) as [Hle|Hgt].
  - replace (Z.to_nat (b - a)) with O by lia. reflexivity.
  - rewrite skipn_app. rewrite firstn_app.
    replace (Z.to_nat (b - a) - length (skipn (Z.to_nat a) p))%nat with O by (rewrite skipn_length; lia).
    cbn [firstn]. rewrite app_nil_r. reflexivity.
Qed.
Lemma window_app_later t dt n p s : dt <= t -> Forall (fun b => t < h_dt b) s ->
  let wb := window_bounds (map h_dt (p ++ s)) dt n in
  wb = window_bounds (map h_dt p) dt n /\ 0 <= fst wb /\ snd wb <= lenz p.
Proof.
  intros Hd Hs. cbn zeta. unfold window_bounds. rewrite map_app.
  assert (cnt_le dt (map h_dt p ++ map h_dt s) = cnt_le dt (map h_dt p)) as E.
  { unfold cnt_le. f_equal. apply (cnt_len_app_later t); [exact Hd|]. apply Forall_map. exact Hs. }
  rewrite E. split; [reflexivity|]. cbn [fst snd].
  pose proof (cnt_len_le_len dt (map h_dt p)) as L. rewrite map_length in L. unfold cnt_le, lenz in *.
  destruct (n <=? Z.of_nat (cnt_len dt (map h_dt p))) eqn:En; lia.
Qed.
Lemma filter_later {A} (f g : A -> bool) s : Forall (fun b => g b = true) s -> Forall (fun b => g b = true) (filter f s).
Proof. intros H. apply Forall_forall. intros x Hx. apply filter_In in Hx. rewrite Forall_forall in H. apply H. tauto. Qed.
Lemma history_window_app t p s skip is_cs dt n : dt <= t -> Forall (fun b => t < h_dt b) s ->
  history_window (p ++ s) skip is_cs dt n = history_window p skip is_cs dt n.
Proof.
  intros Hd Hs. unfold history_window.
  assert (forall q r, Forall (fun b => t < h_dt b) r ->
                      slicez (fst (window_bounds (map h_dt (q ++ r)) dt n)) (snd (window_bounds (map h_dt (q ++ r)) dt n)) (q ++ r)
                      = slicez (fst (window_bounds (map h_dt q) dt n)) (snd (window_bounds (map h_dt q) dt n)) q) as G.
  { intros q r Hr. destruct (window_app_later t dt n q r Hd Hr) as (E & A & B). rewrite <- E.
    apply slice_app_prefix; assumption. }
  destruct (skip && is_cs).
  - rewrite filter_app. apply G.
    apply Forall_forall. intros x Hx. apply filter_In in Hx. rewrite Forall_forall in Hs. apply Hs. tauto.
  - apply G; assumption.
Qed.
Theorem history_window_noninterference t h1 h2 skip is_cs dt n :
  hagree t h1 h2 -> dt <= t -> history_window h1 skip is_cs dt n = history_window h2 skip is_cs dt n.
Proof.
  intros (p & s1 & s2 & -> & -> & H1 & H2) Hd.
  rewrite (history_window_app t p s1), (history_window_app t p s2) by assumption. reflexivity.
Qed.

(* every bar of a window is dated no later than the end date *)
Lemma firstn_cnt_len_le dt (bs : list hbar) : Forall (fun b => h_dt b <= dt) (firstn (cnt_len dt (map h_dt bs)) bs).
Proof.
  induction bs as [|b bs IH]; cbn [map cnt_len firstn]; [constructor|].
  destruct (h_dt b <=? dt) eqn:E; cbn [firstn]; constructor; [lia | exact IH].
Qed.
Lemma Forall_skipn {A} (P : A -> Prop) n l : Forall P l -> Forall P (skipn n l).
Proof. revert l; induction n as [|n IH]; intros l H; cbn [skipn]; [exact H|]. destruct l; [constructor|]. inversion H; subst. apply IH; assumption. Qed.
Lemma Forall_firstn {A} (P : A -> Prop) n l : Forall P l -> Forall P (firstn n l).
Proof. revert l; induction n as [|n IH]; intros l H; cbn [firstn]; [constructor|]. destruct l; [constructor|]. inversion H; subst. constructor; [assumption | apply IH; assumption]. Qed.
Lemma window_dates_le bars skip is_cs dt n : 0 < n -> Forall (fun b => h_dt b <= dt) (history_window bars skip is_cs dt n).
Proof.
  intros Hn. unfold history_window. set (bs := if skip && is_cs then filter _ bars else bars). clearbody bs.
  unfold window_bounds. cbn [fst snd].
  pose proof (firstn_cnt_len_le dt bs) as F.
  set (c := cnt_le dt (map h_dt bs)) in *.
  assert (0 <= c) as Hc by (unfold c, cnt_le; lia).
  assert (forall a, 0 <= a -> a <= c -> Forall (fun b => h_dt b <= dt) (slicez a c bs)) as K.
  { intros a Ha Hac. rewrite slicez_spec by lia. apply Forall_skipn.
    unfold c, cnt_le. rewrite Nat2Z.id. exact F. }
  destruct (n <=? c) eqn:E; apply K; lia.
Qed.

(* ---- adjustment uses only factor rows already in effect ---- *)
Lemma factor_for_app t d p s : p <> [] -> d <= t -> Forall (fun r => t < fst r) s -> factor_for (p ++ s) d = factor_for p d.
Proof.
  intros Hp Hd Hs. unfold factor_for. rewrite !map_app.
  assert (cnt_le d (map fst p ++ map fst s) = cnt_le d (map fst p)) as E.
  { unfold cnt_le. f_equal. apply (cnt_len_app_later t); [exact Hd|]. apply Forall_map. exact Hs. }
  rewrite E. apply app_nth1. rewrite map_length.
  pose proof (cnt_len_le_len d (map fst p)) as L. rewrite map_length in L. unfold cnt_le.
  destruct p; [contradiction|]. cbn [length] in *. lia.
Qed.
Lemma factor_for_agree t T1 T2 d : tagree t T1 T2 -> d <= t -> factor_for T1 d = factor_for T2 d.
Proof. intros (p & s1 & s2 & -> & -> & Hp & H1 & H2) Hd. rewrite !(factor_for_app t) by assumption. reflexivity. Qed.
Theorem adjust_noninterference t bars T1 T2 adj k orig :
  tagree t T1 T2 -> orig <= t -> Forall (fun b => h_dt b <= t) bars -> adjust_window bars T1 adj k orig = adjust_window bars T2 adj k orig.
Proof.
  intros HT Ho Hb. unfold adjust_window. destruct adj; try reflexivity; destruct k; try reflexivity.
  - rewrite (factor_for_agree t T1 T2 orig HT Ho).
    assert (forall b, In b bars -> factor_for T1 (h_dt b) = factor_for T2 (h_dt b)) as K.
    { intros b Hin. rewrite Forall_forall in Hb. apply (factor_for_agree t); [exact HT | apply Hb; exact Hin]. }
    replace (forallb (fun b => qeq_b (factor_for T1 (h_dt b)) (factor_for T2 orig)) bars)
      with (forallb (fun b => qeq_b (factor_for T2 (h_dt b)) (factor_for T2 orig)) bars).
    2:{ clear -K. induction bars as [|b bars IH]; cbn [forallb]; [reflexivity|]. rewrite (K b (or_introl eq_refl)). f_equal. apply IH. intros; apply K; right; assumption. }
    destruct (forallb _ bars); [reflexivity|]. apply map_ext_in. intros b Hin. rewrite (K b Hin). reflexivity.
  - assert (forall b, In b bars -> factor_for T1 (h_dt b) = factor_for T2 (h_dt b)) as K.
    { intros b Hin. rewrite Forall_forall in Hb. apply (factor_for_agree t); [exact HT | apply Hb; exact Hin]. }
    replace (forallb (fun b => qeq_b (factor_for T1 (h_dt b)) 1%Q) bars)
      with (forallb (fun b => qeq_b (factor_for T2 (h_dt b)) 1%Q) bars).
    2:{ clear -K. induction bars as [|b bars IH]; cbn [forallb]; [reflexivity|]. rewrite (K b (or_introl eq_refl)). f_equal. apply IH. intros; apply K; right; assumption. }
    destruct (forallb _ bars); [reflexivity|]. apply map_ext_in. intros b Hin. rewrite (K b Hin). reflexivity.
Qed.

Lemma history_end_visible cal ph d : fst (history_end false false (hphase_of ph) d (prev_trading_date cal d 1)) = visible_day cal ph d.
Proof. destruct ph; reflexivity. Qed.
Theorem api_history_noninterference cal ph d n h1 h2 T1 T2 is_cs k skip adj :
  1 <= cnt_lt d cal -> 0 < n -> hagree (visible_day cal ph d) h1 h2 -> tagree d T1 T2 ->
  api_history cal h1 T1 is_cs k ph d n skip adj = api_history cal h2 T2 is_cs k ph d n skip adj.
Proof.
  intros Hc Hn Hh HT. unfold api_history. rewrite history_end_visible.
  rewrite (history_window_noninterference _ h1 h2 skip is_cs _ n Hh (Z.le_refl _)).
  apply (adjust_noninterference d); [exact HT | lia |].
  eapply Forall_impl; [|apply window_dates_le; exact Hn]. cbn. intros b Hb. pose proof (visible_day_le cal ph d Hc). lia.
Qed.
(* before the open and in the auction the window ends strictly before today *)
Theorem history_ends_yesterday cal ph d n bars is_cs skip : 1 <= cnt_lt d cal -> 0 < n -> ph = VBeforeTrading \/ ph = VOpenAuction ->
  Forall (fun b => h_dt b < d) (history_window bars skip is_cs (visible_day cal ph d) n).
Proof.
  intros Hc Hn Hp. eapply Forall_impl; [|apply window_dates_le; exact Hn]. cbn. intros b Hb.
  pose proof (prev_before cal d Hc). destruct Hp; subst ph; cbn [visible_day] in *; lia.
Qed.

(* ---- the whole run: if the views agree at every step up to the cut-off, so do the traces, whatever the strategy does ---- *)
Section RunFacts.
  Variables (State Obs Data View : Type) (view : Data -> nat -> View) (step : State -> nat -> View -> State * Obs).
  Theorem run_noninterference d1 d2 n : forall s t0,
    (forall t, (t0 <= t < t0 + n)%nat -> view d1 t = view d2 t) ->
    run_from State Obs Data View view step d1 s t0 n = run_from State Obs Data View view step d2 s t0 n.
  Proof.
    induction n as [|n IH]; intros s t0 H; cbn [run_from]; [reflexivity|].
    rewrite (H t0) by lia. f_equal. apply IH. intros t Ht. apply H. lia.
  Qed.
  (* the prefix of a longer run up to the cut-off is the run up to the cut-off *)
  Theorem run_prefix d n m : forall s t0, firstn n (run_from State Obs Data View view step d s t0 (n + m)) = run_from State Obs Data View view step d s t0 n.
  Proof. induction n as [|n IH]; intros s t0; cbn [run_from firstn plus]; [reflexivity|]. f_equal. apply IH. Qed.
  Theorem run_prefix_noninterference d1 d2 n m s t0 :
    (forall t, (t0 <= t < t0 + n)%nat -> view d1 t = view d2 t) ->
    firstn n (run_from State Obs Data View view step d1 s t0 (n + m)) = firstn n (run_from State Obs Data View view step d2 s t0 (n + m)).
  Proof. intros H. rewrite !run_prefix. apply run_noninterference. exact H. Qed.
End RunFacts.
