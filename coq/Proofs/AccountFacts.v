From RQ Require Import Model.Num Model.Position Model.Account Model.AccountRun Proofs.NumFacts Proofs.PositionFacts.
From Coq Require Import Lqa Lia.
Open Scope Q_scope.

(* ---- lists ---- *)
Lemma nth_error_upd_same {A} (l : list A) i x y : nth_error l i = Some y -> nth_error (upd i x l) i = Some x.
Proof. revert i. induction l as [|h t IH]; intros [|i] H; cbn in *; try discriminate; auto. Qed.
Lemma nth_error_upd_other {A} (l : list A) i j x : i <> j -> nth_error (upd i x l) j = nth_error l j.
Proof. revert i j. induction l as [|h t IH]; intros [|i] [|j] H; cbn; try reflexivity; try congruence. apply IH. congruence. Qed.
Lemma upd_length {A} (l : list A) i x : length (upd i x l) = length l.
Proof. revert i. induction l as [|h t IH]; intros [|i]; cbn; auto. Qed.

Lemma sum_pos_upd f l i c p p' : nth_error l i = Some (c, p) ->
  sum_pos f (upd i (c, p') l) == sum_pos f l - f c p + f c p'.
Proof. revert i. induction l as [|[c0 p0] t IH]; intros [|i] H; cbn in *; try discriminate.
  - injection H as -> ->. ring. - rewrite (IH i H). ring. Qed.
Lemma sum_margin_upd g l i c p p' n : nth_error l i = Some (c, p) ->
  sum_margin g n (upd i (c, p') l) == sum_margin g n l - margin c (ac_margin_rate g (n + i)) p + margin c (ac_margin_rate g (n + i)) p'.
Proof. revert i n. induction l as [|[c0 p0] t IH]; intros [|i] n H; cbn in *; try discriminate.
  - injection H as -> ->. rewrite Nat.add_0_r. ring.
  - rewrite (IH i (S n) H). replace (S n + i)%nat with (n + S i)%nat by lia. ring. Qed.

(* ---- one step of the cash ledger ---- *)
Lemma set_entry_cash a i p d c p0 : nth_error (a_pos a) i = Some (c, p0) -> a_total_cash (set_entry a i p d) == a_total_cash a + d.
Proof. intros H. unfold set_entry. rewrite H. cbn. qnorm. reflexivity. Qed.

Lemma cash_step g a e : a_total_cash (astep g a e) == a_total_cash a + cash_contrib g a e.
Proof.
  destruct e as [i t ord|r|r|i price|x|d x|today|x|x| |i|i dps payable|i today|i r|i cr|i s|i|fee|en];
    cbn [astep cash_contrib]; unfold entry, on_entry.
  - (* trade *) unfold acc_apply_trade. destruct (nth_error (a_pos a) i) as [[c p]|] eqn:E; [|cbn; ring]. cbn [a_total_cash]. qnorm.
    unfold pos_apply_trade, stock_apply_trade, future_apply_trade, base_apply_trade.
    destruct (pc_kind c), (t_effect t); try destruct (pc_tplus c); cbn [fst snd p_avg]; qnorm; ring.
  - cbn. ring. - cbn. ring.
  - unfold mark. destruct (nth_error (a_pos a) i) as [[c p]|]; cbn; ring.
  - cbn. qnorm. reflexivity. - cbn. ring. - cbn. qnorm. reflexivity.
  - cbn. qnorm. reflexivity. - cbn. qnorm. ring.
  - unfold accrue_interest. destruct (qlt_b 0 (a_liab a)); cbn; ring.
  - destruct (nth_error (a_pos a) i) as [[c p]|] eqn:E; [|ring]. rewrite (set_entry_cash _ _ _ _ _ _ E). reflexivity.
  - destruct (nth_error (a_pos a) i) as [[c p]|] eqn:E; [|ring]. rewrite (set_entry_cash _ _ _ _ _ _ E). reflexivity.
  - destruct (nth_error (a_pos a) i) as [[c p]|] eqn:E; [|ring]. rewrite (set_entry_cash _ _ _ _ _ _ E).
    unfold bt_pay. destruct (p_recv p) as [[d v]|]; cbn [fst snd]; [|ring]. destruct (d =? today)%Z; cbn [negb fst snd]; ring.
  - destruct (nth_error (a_pos a) i) as [[c p]|] eqn:E; [|ring]. rewrite (set_entry_cash _ _ _ _ _ _ E). reflexivity.
  - destruct (nth_error (a_pos a) i) as [[c p]|] eqn:E; [|ring]. rewrite (set_entry_cash _ _ _ _ _ _ E).
    unfold stock_delist. destruct (qeq_b (p_qty p) 0); cbn [fst snd]; [ring|]. destruct cr; qnorm; ring.
  - destruct (nth_error (a_pos a) i) as [[c p]|] eqn:E; [|ring]. rewrite (set_entry_cash _ _ _ _ _ _ E).
    destruct (pc_kind c) eqn:K; cbn [fst snd]; [ring|].
    unfold fut_settle. destruct (qeq_b (p_qty p) 0); cbn [fst snd]; [ring|]. cbv zeta. unfold equity. rewrite K.
    cbn [p_qty p_last p_avg p_recv]. qnorm. ring.
  - destruct (nth_error (a_pos a) i) as [[c p]|] eqn:E; [|ring]. rewrite (set_entry_cash _ _ _ _ _ _ E).
    destruct (pc_kind c) eqn:K; cbn [fst snd]; [ring|].
    unfold fut_expire, future_apply_trade, base_apply_trade. cbn [t_effect t_price t_qty t_fee fst snd p_avg]. qnorm. ring.
  - cbn. qnorm. ring.
  - unfold forced_liquidation. destruct (qle_b (total_value g a) 0 && en); cbn; ring.
Qed.

Theorem cash_ledger g evs : forall a, a_total_cash (arun g a evs) == a_total_cash a + audit_cash g a evs.
Proof. induction evs as [|e t IH]; intros a; cbn [arun fold_left audit_cash]; [ring|].
  fold (arun g (astep g a e) t). rewrite IH, cash_step. ring. Qed.

(* reserved cash moves only by order events *)
Lemma frozen_step g a e : (forall en, e <> ELiquidate en) -> a_frozen (astep g a e) == a_frozen a + frozen_contrib e.
Proof.
  intros Hl.
  destruct e as [i t ord|r|r|i price|x|d x|today|x|x| |i|i dps payable|i today|i r|i cr|i s|i|fee|en];
    cbn [astep frozen_contrib]; unfold on_entry, set_entry;
    try (destruct (nth_error (a_pos a) i) as [[c p]|] eqn:E; cbn; try rewrite E; cbn; ring).
  - unfold acc_apply_trade. destruct (nth_error (a_pos a) i) as [[c p]|]; cbn; qnorm; ring.
  - cbn. qnorm. ring. - cbn. qnorm. ring.
  - unfold mark. destruct (nth_error (a_pos a) i) as [[c p]|]; cbn; ring.
  - cbn. ring. - cbn. ring. - cbn. ring. - cbn. ring. - cbn. ring.
  - unfold accrue_interest. destruct (qlt_b 0 (a_liab a)); cbn; ring.
  - cbn. ring.
  - unfold forced_liquidation. destruct (qle_b (total_value g a) 0 && en); cbn; ring.
Qed.

(* ---- total value: one lemma per event kind: value moves only by price, flows and fees ---- *)
Lemma total_value_set_entry g a i c p p' d :
  nth_error (a_pos a) i = Some (c, p) ->
  total_value g (set_entry a i p' d) == total_value g a + d + equity c p' - equity c p.
Proof. intros H. unfold total_value, set_entry, position_equity, interest. rewrite H. cbn [a_total_cash a_pos a_liab a_pending].
  rewrite (sum_pos_upd equity _ _ _ _ p' H). qnorm. ring. Qed.

Lemma value_trade g a i t ord c p :
  nth_error (a_pos a) i = Some (c, p) ->
  (pc_kind c = StockPos -> t_effect t <> CloseToday) ->
  (pc_kind c = FuturePos -> 0 <= p_qty p /\ 0 < t_qty t) ->
  total_value g (astep g a (ETrade i t ord)) ==
  total_value g a + sgn t * (p_last p - t_price t) * t_qty t * (match pc_kind c with StockPos => 1 | FuturePos => pc_mult c * dirf c end) - t_fee t.
Proof.
  intros H Hs Hf. cbn [astep]. unfold acc_apply_trade. rewrite H. unfold total_value, position_equity, interest.
  cbn [a_total_cash a_pos a_liab a_pending]. rewrite (sum_pos_upd equity _ _ _ _ _ H). qnorm.
  destruct (pc_kind c) eqn:K.
  - pose proof (stock_trade_value c p t K (Hs eq_refl)) as V. lra.
  - destruct (Hf eq_refl) as [Hq Ht]. pose proof (future_trade_value c p t K Hq Ht) as V. lra.
Qed.

Lemma value_mark g a i price c p :
  nth_error (a_pos a) i = Some (c, p) ->
  total_value g (astep g a (EMark i price)) ==
  total_value g a + p_qty p * (price - p_last p) * (match pc_kind c with StockPos => 1 | FuturePos => pc_mult c * dirf c end).
Proof.
  intros H. cbn [astep]. unfold mark. rewrite H. unfold total_value, position_equity, interest, with_pos.
  cbn [a_total_cash a_pos a_liab a_pending]. rewrite (sum_pos_upd equity _ _ _ _ _ H).
  destruct (pc_kind c) eqn:K.
  - rewrite !stock_equity by assumption. unfold receivable. cbn [p_last p_qty p_recv]. ring.
  - rewrite !future_equity by assumption. cbn [p_last p_qty p_avg]. ring.
Qed.

Lemma value_deposit g a x : total_value g (astep g a (EDeposit x)) == total_value g a + x.
Proof. cbn [astep]. unfold total_value, deposit_now, with_cash, position_equity, interest. cbn. qnorm. ring. Qed.

Lemma sum_pending_insert d x l : sum_pending (insert_pending d x l) == x + sum_pending l.
Proof. induction l as [|[d' x'] t IH]; cbn; [ring|]. destruct (d <? d')%Z; cbn; [ring|]. rewrite IH. ring. Qed.
Lemma value_deposit_pending g a d x : total_value g (astep g a (EDepositPending d x)) == total_value g a + x.
Proof. cbn [astep]. unfold total_value, deposit_pending, position_equity, interest. cbn [a_total_cash a_pos a_liab a_pending].
  rewrite sum_pending_insert. ring. Qed.
Lemma arrive_conserves today l : fst (arrive today l) + sum_pending (snd (arrive today l)) == sum_pending l.
Proof. induction l as [|[d x] t IH]; cbn; [ring|]. destruct (d <=? today)%Z; cbn [fst snd sum_pending]; [|ring]. qnorm. rewrite <- IH. ring. Qed.
(* a pending deposit arriving does not change total value *)
Lemma value_arrive g a today : total_value g (astep g a (EArrive today)) == total_value g a.
Proof. cbn [astep]. unfold total_value, position_equity, interest. cbn [a_total_cash a_pos a_liab a_pending]. qnorm.
  rewrite <- (arrive_conserves today (a_pending a)). ring. Qed.

Lemma value_mgmt g a fee : total_value g (astep g a (EMgmt fee)) == total_value g a - fee.
Proof. cbn [astep]. unfold total_value, charge_mgmt, position_equity, interest. cbn. qnorm. ring. Qed.

Lemma value_finance g a x : total_value g (astep g a (EFinance x)) == total_value g a - x * ac_fin_rate g / 365.
Proof. cbn [astep]. unfold total_value, finance, position_equity, interest. cbn [a_total_cash a_pos a_liab a_pending]. qnorm. field. Qed.

(* corporate actions on entry i *)
Lemma value_book g a i dps payable c p : nth_error (a_pos a) i = Some (c, p) -> pc_kind c = StockPos ->
  total_value g (astep g a (EBook i dps payable)) == total_value g a - receivable p.
Proof. intros H K. cbn [astep]. unfold on_entry. rewrite H. cbn [fst snd]. rewrite (total_value_set_entry g a i c p _ _ H).
  rewrite (book_closure_neutral c p dps payable K). ring. Qed.
Lemma value_pay g a i today c p : nth_error (a_pos a) i = Some (c, p) -> pc_kind c = StockPos ->
  total_value g (astep g a (EPay i today)) == total_value g a.
Proof. intros H K. cbn [astep]. unfold on_entry. rewrite H. rewrite (total_value_set_entry g a i c p _ _ H).
  pose proof (pay_neutral c p today 1 K). lra. Qed.
Lemma value_split g a i r k c p : nth_error (a_pos a) i = Some (c, p) -> pc_kind c = StockPos -> 0 < r -> qmul (p_qty p) r == zq k ->
  total_value g (astep g a (ESplit i r)) == total_value g a.
Proof. intros H K Hr Hk. cbn [astep]. unfold on_entry. rewrite H. cbn [fst snd]. rewrite (total_value_set_entry g a i c p _ _ H).
  rewrite (split_neutral c p r k K Hr Hk). ring. Qed.
Lemma value_reset g a i c p : nth_error (a_pos a) i = Some (c, p) ->
  total_value g (astep g a (EReset i)) == total_value g a.
Proof. intros H. cbn [astep]. unfold on_entry. rewrite H. cbn [fst snd]. rewrite (total_value_set_entry g a i c p _ _ H).
  unfold equity, bt_reset, receivable. destruct (pc_kind c); cbn [p_qty p_last p_avg p_recv]; ring. Qed.
Lemma value_delist g a i c p : nth_error (a_pos a) i = Some (c, p) -> pc_kind c = StockPos ->
  total_value g (astep g a (EDelist i true)) == total_value g a.
Proof. intros H K. cbn [astep]. unfold on_entry. rewrite H. rewrite (total_value_set_entry g a i c p _ _ H).
  rewrite !stock_equity by assumption. unfold stock_delist, receivable.
  destruct (qeq_b (p_qty p) 0) eqn:E; cbn [fst snd p_last p_qty p_recv]; [ring|qnorm; ring]. Qed.
(* futures settlement: total value moves only by the distance between the settlement price and the last price *)
Lemma value_settle g a i s c p : nth_error (a_pos a) i = Some (c, p) -> pc_kind c = FuturePos ->
  total_value g (astep g a (ESettleFut i s)) ==
  total_value g a + p_qty p * ((match s with Some x => x | None => p_last p end) - p_last p) * pc_mult c * dirf c.
Proof. intros H K. cbn [astep]. unfold on_entry. rewrite H, K. rewrite (total_value_set_entry g a i c p _ _ H).
  pose proof (fut_settle_value c p s K). lra. Qed.
Lemma value_expire g a i c p : nth_error (a_pos a) i = Some (c, p) -> pc_kind c = FuturePos -> p_avg p == p_last p ->
  total_value g (astep g a (EExpire i)) == total_value g a.
Proof. intros H K Ha. cbn [astep]. unfold on_entry. rewrite H, K. rewrite (total_value_set_entry g a i c p _ _ H).
  destruct (fut_expire_flat c p K Ha) as [H1 [H2 H3]]. rewrite !future_equity by assumption. rewrite H1, H2, Ha. ring. Qed.
(* forced liquidation *)
Lemma liquidation_flat g a : qle_b (total_value g a) 0 = true ->
  a_pos (astep g a (ELiquidate true)) = [] /\ a_total_cash (astep g a (ELiquidate true)) = 0.
Proof. intros H. cbn [astep]. unfold forced_liquidation. rewrite H. cbn. split; reflexivity. Qed.
Lemma liquidation_value g a : qle_b (total_value g a) 0 = true -> a_liab a == 0 -> a_pending a = [] ->
  total_value g (astep g a (ELiquidate true)) == 0.
Proof. intros H Hl Hp. cbn [astep]. unfold forced_liquidation. rewrite H. unfold total_value, position_equity, interest. cbn. rewrite Hp, Hl. cbn. qnorm. field. Qed.

(* available cash = total value - unrealised profit - margin - reserved cash (+ liabilities - pending) *)
Lemma available_cash g a :
  cash g a == total_value g a - position_equity a - acc_margin g a - a_frozen a + a_liab a + interest g a - sum_pending (a_pending a).
Proof. unfold cash, total_value. ring. Qed.

(* the pre-open purge drops nothing of value: the equity of what it drops adds up to zero, and an entry with a receivable is never dropped *)
Lemma purgeable_equity_zero entries : purgeable entries = true -> Forall (fun e => equity (fst e) (snd e) == 0) entries.
Proof. unfold purgeable. rewrite forallb_forall. intros H. apply Forall_forall. intros e He. specialize (H e He).
  apply andb_prop in H as [_ H]. apply qeq_b_true. exact H. Qed.
Lemma purgeable_keeps_receivable c p d v : pc_kind c = StockPos -> p_recv p = Some (d, v) -> ~ v == 0 -> p_qty p == 0 ->
  purgeable [(c, p)] = false.
Proof. intros K R V Z. unfold purgeable. cbn [forallb fst snd]. rewrite andb_true_r.
  destruct (qeq_b (p_qty p) 0) eqn:E; [|reflexivity]. cbn [andb]. apply Bool.not_true_is_false. intro H. apply qeq_b_true in H.
  unfold equity, receivable in H. rewrite K, R, E in H. revert H. qnorm. intros H. apply V. lra. Qed.
