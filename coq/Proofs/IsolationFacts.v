From Coq Require Import Lia ZifyBool.
From RQ Require Import Model.Num Model.Position Model.Account Model.AccountRun Model.Isolation Proofs.NumFacts.
Open Scope Z_scope.

(* ---- a new run erases what earlier runs left behind ---- *)
Theorem boot_forgets cfg hf rid p p' :
  pr_switches (boot cfg hf rid p) = pr_switches (boot cfg hf rid p') /\ pr_env (boot cfg hf rid p) = pr_env (boot cfg hf rid p') /\
  pr_cache (boot cfg hf rid p) = pr_cache (boot cfg hf rid p').
Proof. repeat split. Qed.

(* two process states a run cannot tell apart: same switches, environment and caches; the margin switch may differ only while no
   futures position was opened in this run; ids differ by a constant *)
Definition sim (opened hf : bool) (s s' : proc) : Prop :=
  pr_switches s = pr_switches s' /\ pr_env s = pr_env s' /\ pr_cache s = pr_cache s' /\
  (opened = true -> pr_margin_on s = true /\ pr_margin_on s' = true) /\
  (hf = true -> pr_future_apis s = true /\ pr_future_apis s' = true).
Lemma sumq_zero ms : Forall (fun m => m = 0%Q) ms -> sumq ms = 0%Q.
Proof. induction 1 as [|m ms Hm _ IH]; cbn [sumq]; [reflexivity|]. rewrite Hm, IH. reflexivity. Qed.
Lemma norm_cons b o l : norm b (o :: l) = (match o with OId z => OId (z - b) | x => x end) :: norm b l.
Proof. reflexivity. Qed.
Ltac solve_sim Hm Hf := unfold sim; cbn; repeat split; auto; try (apply Hm; assumption); try (apply Hf; assumption).
Lemma prun_sim data hf ops : forall opened s s' b b', sim opened hf s s' -> wf_ops opened ops -> api_safe hf ops ->
  pr_next_id s - b = pr_next_id s' - b' -> norm b (prun data s ops) = norm b' (prun data s' ops).
Proof.
  induction ops as [|o ops IH]; intros opened s s' b b' (Hs & He & Hc & Hm & Hf) Hwf Hsafe Hid; [reflexivity|].
  assert (api_safe hf ops) as Hsafe' by (intros E Hin; apply (Hsafe E); right; exact Hin).
  destruct o; cbn [prun pstep fst snd wf_ops] in *; rewrite ?norm_cons.
  - rewrite Hs. f_equal. apply (IH opened); [solve_sim Hm Hf | assumption | assumption | assumption].
  - rewrite Hc. destruct (lookup key (pr_cache s')) eqn:E; cbn [fst snd]; rewrite ?norm_cons; f_equal.
    + apply (IH opened); [solve_sim Hm Hf | assumption | assumption | assumption].
    + apply (IH opened); [solve_sim Hm Hf | assumption | assumption | assumption].
  - rewrite He. f_equal. apply (IH opened); [solve_sim Hm Hf | assumption | assumption | assumption].
  - f_equal; [f_equal; lia|]. apply (IH opened); [solve_sim Hm Hf | assumption | assumption | cbn; lia].
  - destruct Hwf as [Hz Hwf]. f_equal.
    + destruct opened.
      * destruct (Hm eq_refl) as [-> ->]. reflexivity.
      * rewrite (sumq_zero margins (Hz eq_refl)). destruct (pr_margin_on s), (pr_margin_on s'); reflexivity.
    + apply (IH opened); [solve_sim Hm Hf | assumption | assumption | assumption].
  - f_equal. apply (IH true); [solve_sim Hm Hf | assumption | assumption | assumption].
  - destruct hf.
    + destruct (Hf eq_refl) as [-> ->]. f_equal. apply (IH opened); [solve_sim Hm Hf | assumption | assumption | assumption].
    + exfalso. apply (Hsafe eq_refl). left. reflexivity.
Qed.
(* the outcome of a run is independent of everything earlier runs did in the process (ids renamed) *)
Theorem run_independent_of_history data cfg hf rid ops p p' : wf_ops false ops -> api_safe hf ops ->
  norm (pr_next_id p) (prun data (boot cfg hf rid p) ops) = norm (pr_next_id p') (prun data (boot cfg hf rid p') ops).
Proof.
  intros Hwf Hsafe. apply (prun_sim data hf ops false); [|exact Hwf | exact Hsafe | cbn; lia].
  unfold sim; cbn. repeat split; auto; try discriminate; subst; apply Bool.orb_true_r.
Qed.
(* without that restriction the statement is false: a run without a futures account that calls a futures-only API sees whether an earlier
   run had one (finding D21) *)
Theorem api_registry_leaks : exists data cfg rid p p',
  norm (pr_next_id p) (prun data (boot cfg false rid p) [PFutureApi]) <> norm (pr_next_id p') (prun data (boot cfg false rid p') [PFutureApi]).
Proof.
  exists (fun _ => 0), {| sw_reinvest := false; sw_cash_return := false; sw_t1 := false |}, 1,
    {| pr_switches := {| sw_reinvest := false; sw_cash_return := false; sw_t1 := false |}; pr_env := 0; pr_cache := []; pr_margin_on := false; pr_next_id := 0; pr_future_apis := false |},
    {| pr_switches := {| sw_reinvest := false; sw_cash_return := false; sw_t1 := false |}; pr_env := 0; pr_cache := []; pr_margin_on := false; pr_next_id := 0; pr_future_apis := true |}.
  vm_compute. discriminate.
Qed.
(* ... and it is a function of configuration, data and strategy: repeating it gives the same result *)
Theorem run_deterministic data cfg hf rid ops p : prun data (boot cfg hf rid p) ops = prun data (boot cfg hf rid p) ops.
Proof. reflexivity. Qed.
(* a memoised value that survived from an earlier run would be visible: boot must clear the caches *)
Theorem stale_cache_would_leak : exists data data' key p, data key <> data' key /\
  prun data' (pfinal data p [PCached key]) [PCached key] <> prun data' {| pr_switches := pr_switches p; pr_env := 0; pr_cache := []; pr_margin_on := false; pr_next_id := 0; pr_future_apis := false |} [PCached key].
Proof.
  exists (fun _ => 1), (fun _ => 2), 7, {| pr_switches := {| sw_reinvest := false; sw_cash_return := false; sw_t1 := false |}; pr_env := 0; pr_cache := []; pr_margin_on := false; pr_next_id := 0; pr_future_apis := false |}.
  split; [discriminate|]. vm_compute. discriminate.
Qed.

(* ---- instruments the strategy never references ---- *)
Theorem find_in_superset keep data id : keep id = true -> find_instr (restrict keep data) id = find_instr data id.
Proof.
  intros Hk. unfold find_instr, restrict. induction data as [|i data IH]; cbn [filter find]; [reflexivity|].
  destruct (keep (i_id i)) eqn:K; cbn [find].
  - destruct (i_id i =? id); [reflexivity | exact IH].
  - destruct (i_id i =? id) eqn:E; [|exact IH]. assert (i_id i = id) by lia. congruence.
Qed.
Theorem contracts_in_superset keep data und d :
  (forall i, In i data -> i_future i = true -> i_und i = und -> keep (i_id i) = true) ->
  contracts (restrict keep data) und d = contracts data und d.
Proof.
  intros H. unfold contracts, restrict. f_equal. induction data as [|i data IH]; cbn [filter]; [reflexivity|].
  assert (forall j, In j data -> i_future j = true -> i_und j = und -> keep (i_id j) = true) as H' by (intros; apply H; [right|..]; assumption).
  destruct (keep (i_id i)) eqn:K; cbn [filter].
  - destruct (is_contract und d i); [f_equal|]; apply IH; exact H'.
  - destruct (is_contract und d i) eqn:E; [|apply IH; exact H'].
    unfold is_contract in E. apply andb_prop in E. destruct E as [E _]. apply andb_prop in E. destruct E as [E _].
    apply andb_prop in E. destruct E as [E1 E2]. rewrite (H i (or_introl eq_refl) E1 ltac:(lia)) in K. discriminate.
Qed.
(* a product that merely shares a prefix with the one asked for is not returned; nor is a contract outside its listing period *)
Theorem contracts_only_of_product data und d id : In id (contracts data und d) ->
  exists i, In i data /\ i_id i = id /\ i_und i = und /\ i_future i = true /\ i_listed i <= d <= i_delisted i.
Proof.
  unfold contracts. intros H. apply in_map_iff in H. destruct H as (i & Hi & Hin). apply filter_In in Hin. destruct Hin as [Hin E].
  unfold is_contract in E. apply andb_prop in E. destruct E as [E E4]. apply andb_prop in E. destruct E as [E E3].
  apply andb_prop in E. destruct E as [E1 E2]. exists i. repeat split; auto; lia.
Qed.

(* ---- the account kernel: positions of instruments the strategy never touches do not change what happens to the others ---- *)
(* instruments the strategy never touches: extra entries at the end of the account's position table *)
Definition extend (a : account) (extra : list (pcfg * pos)) : account := with_pos a (a_pos a ++ extra).
Definition ev_index (e : aev) : option nat :=
  match e with
  | ETrade i _ _ | EMark i _ | EReset i | EBook i _ _ | EPay i _ | ESplit i _ | EDelist i _ | ESettleFut i _ | EExpire i => Some i
  | _ => None
  end.
Definition local_to (n : nat) (e : aev) : Prop :=
  match e with ELiquidate _ => False | _ => match ev_index e with Some i => (i < n)%nat | None => True end end.

Lemma nth_error_app_l {A} (l extra : list A) i : (i < length l)%nat -> nth_error (l ++ extra) i = nth_error l i.
Proof. intros H. apply nth_error_app1. exact H. Qed.
Lemma upd_app_l {A} (l extra : list A) i x : (i < length l)%nat -> upd i x (l ++ extra) = upd i x l ++ extra.
Proof.
  revert i. induction l as [|h t IH]; intros i H; cbn [length] in H; [lia|].
  destruct i as [|i]; cbn [app upd]; [reflexivity|]. rewrite IH by lia. reflexivity.
Qed.
Lemma upd_length {A} (l : list A) i x : length (upd i x l) = length l.
Proof. revert i. induction l as [|h t IH]; intros i; destruct i; cbn [upd length]; auto. Qed.

Lemma on_entry_frame a extra i f : (i < length (a_pos a))%nat -> on_entry (extend a extra) i f = extend (on_entry a i f) extra.
Proof.
  intros H. unfold on_entry, extend, with_pos, set_entry; cbn [a_pos].
  rewrite (nth_error_app_l _ extra i H). destruct (nth_error (a_pos a) i) as [[c p]|] eqn:E; [|reflexivity].
  cbn [a_pos a_total_cash a_frozen a_liab a_pending a_mgmt_fees]. rewrite (upd_app_l _ extra i _ H). reflexivity.
Qed.
Theorem astep_frame g a extra e : local_to (length (a_pos a)) e -> astep g (extend a extra) e = extend (astep g a e) extra.
Proof.
  intros H. destruct e; cbn [local_to ev_index] in H; try contradiction; cbn [astep];
    try (apply on_entry_frame; exact H); try reflexivity.
  - (* trade *) unfold acc_apply_trade, extend, with_pos, with_frozen; cbn [a_pos a_total_cash a_frozen a_liab a_pending a_mgmt_fees].
    rewrite (nth_error_app_l _ extra i H). destruct (nth_error (a_pos a) i) as [[c p]|]; [|reflexivity].
    cbn [a_pos]. rewrite (upd_app_l _ extra i _ H). reflexivity.
  - (* mark *) unfold mark, extend, with_pos; cbn [a_pos a_total_cash a_frozen a_liab a_pending a_mgmt_fees].
    rewrite (nth_error_app_l _ extra i H). destruct (nth_error (a_pos a) i) as [[c p]|]; [|reflexivity].
    cbn [a_pos]. rewrite (upd_app_l _ extra i _ H). reflexivity.
  - (* interest *) unfold accrue_interest, extend, with_pos, interest; cbn [a_liab a_pos a_total_cash a_frozen a_pending a_mgmt_fees].
    destruct (qlt_b 0 (a_liab a)); reflexivity.
Qed.
Lemma on_entry_length a i f : length (a_pos (on_entry a i f)) = length (a_pos a).
Proof.
  unfold on_entry, set_entry. destruct (nth_error (a_pos a) i) as [[c p]|] eqn:E; [|reflexivity]. cbn [a_pos]. apply upd_length.
Qed.
Lemma astep_length g a e : local_to (length (a_pos a)) e -> length (a_pos (astep g a e)) = length (a_pos a).
Proof.
  intros H. destruct e; cbn [local_to ev_index] in H; try contradiction; cbn [astep]; try reflexivity;
    try apply on_entry_length.
  - unfold acc_apply_trade. destruct (nth_error (a_pos a) i) as [[c p]|]; cbn [a_pos with_frozen]; [apply upd_length | reflexivity].
  - unfold mark. destruct (nth_error (a_pos a) i) as [[c p]|]; cbn [a_pos with_pos]; [apply upd_length | reflexivity].
  - unfold accrue_interest. destruct (qlt_b 0 (a_liab a)); reflexivity.
Qed.
Theorem arun_frame g evs : forall a extra, Forall (local_to (length (a_pos a))) evs -> arun g (extend a extra) evs = extend (arun g a evs) extra.
Proof.
  unfold arun. induction evs as [|e evs IH]; intros a extra H; cbn [fold_left]; [reflexivity|].
  inversion H as [|? ? He Hr]; subst. rewrite (astep_frame g a extra e He). apply IH.
  rewrite (astep_length g a e He). exact Hr.
Qed.
