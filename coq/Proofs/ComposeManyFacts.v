(* Composition for ANY number of orders and ANY interleaving of their lives: the broker's per-order machines (Model/Order.v) drive the
   account's reserve machine (Model/Reserve.v); the protocol hypothesis of the reserved-cash invariant holds for the whole interleaved
   event stream, so reserved cash = sum over the open orders of the unfilled fraction of their reserves - with no assumption left. *)
From Coq Require Import Lqa Lia.
From RQ Require Import Model.Num Model.Account Model.Matcher Model.Order Model.Reserve Proofs.NumFacts Proofs.OrderFacts Proofs.ReserveFacts Proofs.ComposeFacts.
Open Scope Q_scope.

(* ---- list lemmas about the book ---- *)
Definition ids (l : list rorder) : list nat := map r_id l.
Lemma rfind_none_notin k l : rfind k l = None -> ~ In k (ids l).
Proof. induction l as [|x t IH]; cbn; [tauto|]. destruct (Nat.eqb (r_id x) k) eqn:E; [discriminate|]. intros H [A|A]; [apply Nat.eqb_neq in E; contradiction|exact (IH H A)]. Qed.
Lemma notin_rfind_none k l : ~ In k (ids l) -> rfind k l = None.
Proof. induction l as [|x t IH]; cbn; [reflexivity|]. intros H. destruct (Nat.eqb (r_id x) k) eqn:E; [apply Nat.eqb_eq in E; exfalso; apply H; left; exact E|apply IH; tauto]. Qed.
Lemma rfind_app k l o : rfind k (l ++ [o]) = match rfind k l with Some x => Some x | None => if Nat.eqb (r_id o) k then Some o else None end.
Proof. induction l as [|x t IH]; cbn; [reflexivity|]. destruct (Nat.eqb (r_id x) k); [reflexivity|exact IH]. Qed.
Lemma ids_rremove_sub k l x : In x (ids (rremove k l)) -> In x (ids l).
Proof. induction l as [|y t IH]; cbn; [tauto|]. destruct (Nat.eqb (r_id y) k); cbn; [tauto|]. intros [A|A]; [left; exact A|right; exact (IH A)]. Qed.
Lemma nodup_rremove k l : NoDup (ids l) -> NoDup (ids (rremove k l)).
Proof. induction l as [|y t IH]; cbn; [auto|]. intros N. inversion N as [|? ? Hn Ht]; subst. destruct (Nat.eqb (r_id y) k); [exact Ht|]. cbn. constructor; [|exact (IH Ht)].
  intros A. apply Hn. exact (ids_rremove_sub _ _ _ A). Qed.
Lemma rfind_rremove_same k l : NoDup (ids l) -> rfind k (rremove k l) = None.
Proof. induction l as [|y t IH]; cbn; [reflexivity|]. intros N. inversion N as [|? ? Hn Ht]; subst. destruct (Nat.eqb (r_id y) k) eqn:E.
  - apply Nat.eqb_eq in E. subst k. apply notin_rfind_none. exact Hn.
  - cbn. rewrite E. exact (IH Ht). Qed.
Lemma rfind_rremove_other k k' l : k' <> k -> rfind k' (rremove k l) = rfind k' l.
Proof. intros N. induction l as [|y t IH]; cbn; [reflexivity|]. destruct (Nat.eqb (r_id y) k) eqn:E.
  - apply Nat.eqb_eq in E. destruct (Nat.eqb (r_id y) k') eqn:E'; [apply Nat.eqb_eq in E'; congruence|reflexivity].
  - cbn. destruct (Nat.eqb (r_id y) k'); [reflexivity|exact IH]. Qed.
Lemma ids_rreplace o' l : ids (rreplace o' l) = ids l.
Proof. unfold ids. induction l as [|y t IH]; cbn [rreplace map]; [reflexivity|]. destruct (Nat.eqb (r_id y) (r_id o')) eqn:E; cbn [map]; [apply Nat.eqb_eq in E; rewrite E; reflexivity|rewrite IH; reflexivity]. Qed.
Lemma rfind_rreplace_same o' l x : rfind (r_id o') l = Some x -> rfind (r_id o') (rreplace o' l) = Some o'.
Proof. induction l as [|y t IH]; cbn; [discriminate|]. destruct (Nat.eqb (r_id y) (r_id o')) eqn:E; cbn; [rewrite Nat.eqb_refl; reflexivity|rewrite E; exact IH]. Qed.
Lemma rfind_rreplace_other o' k' l : k' <> r_id o' -> rfind k' (rreplace o' l) = rfind k' l.
Proof. intros N. induction l as [|y t IH]; cbn; [reflexivity|]. destruct (Nat.eqb (r_id y) (r_id o')) eqn:E; cbn.
  - apply Nat.eqb_eq in E. destruct (Nat.eqb (r_id o') k') eqn:A; [apply Nat.eqb_eq in A; congruence|]. destruct (Nat.eqb (r_id y) k') eqn:A'; [apply Nat.eqb_eq in A'; congruence|reflexivity].
  - destruct (Nat.eqb (r_id y) k'); [reflexivity|exact IH]. Qed.

Lemma nodup_snoc (l : list nat) x : NoDup l -> ~ In x l -> NoDup (l ++ [x]).
Proof. induction l as [|y t IH]; cbn; intros N H; [constructor; [tauto|constructor]|]. inversion N as [|? ? Hn Ht]; subst. constructor.
  - rewrite in_app_iff. cbn. intros [A|[A|[]]]; [contradiction|subst; apply H; left; reflexivity].
  - apply IH; [exact Ht|tauto]. Qed.

Section Many.
  Variables (qtys reserves : nat -> Q).
  Hypothesis Hq : forall k, 0 < qtys k.
  Hypothesis Hr : forall k, 0 <= reserves k.
  Notation mkk k f := (mk k (qtys k) (reserves k) f).
  Definition upd (os : nat -> ostate) (k : nat) (o : ostate) : nat -> ostate := fun x => if Nat.eqb x k then o else os x.
  (* one input of the broker: input i for the order with id k *)
  Definition gstep (g : (nat -> ostate) * rstate) (ki : nat * oin) : (nat -> ostate) * rstate :=
    let r := ostep (fst g (fst ki)) (snd ki) in
    (upd (fst g) (fst ki) (fst r), fold_left rstep (revs_of (fst ki) (qtys (fst ki)) (reserves (fst ki)) (snd r)) (snd g)).
  Definition gevents (os : nat -> ostate) (ki : nat * oin) : list rev :=
    revs_of (fst ki) (qtys (fst ki)) (reserves (fst ki)) (snd (ostep (os (fst ki)) (snd ki))).

  Definition entry_ok (o : ostate) (k : nat) (book : list rorder) : Prop :=
    match os_status o with
    | Active => exists f, rfind k book = Some (mkk k f) /\ f == os_filled o
    | _ => rfind k book = None
    end.
  Definition GInv (os : nat -> ostate) (s : rstate) : Prop :=
    RInv s /\ NoDup (ids (rs_book s)) /\ forall k, os_qty (os k) = qtys k /\ OWF (os k) /\ entry_ok (os k) k (rs_book s).

  (* the three kinds of reserve events on the entry of order k, with the frame for every other id *)
  Lemma g_terminal s k f : RInv s -> NoDup (ids (rs_book s)) -> rfind k (rs_book s) = Some (mkk k f) ->
    let s' := rstep s (RTerminal k) in
    RInv s' /\ NoDup (ids (rs_book s')) /\ rfind k (rs_book s') = None /\ forall k', k' <> k -> rfind k' (rs_book s') = rfind k' (rs_book s).
  Proof. intros I N F s'. split; [apply rstep_inv; [exact I|exact Logic.I]|]. unfold s'. cbn [rstep]. rewrite F. cbn [rs_book].
    split; [apply nodup_rremove; exact N|]. split; [apply rfind_rremove_same; exact N|]. intros k' Hk. apply rfind_rremove_other; exact Hk. Qed.
  Lemma g_trade s k f q : RInv s -> NoDup (ids (rs_book s)) -> rfind k (rs_book s) = Some (mkk k f) -> 0 < q -> q <= qtys k - f ->
    let s' := rstep s (RTrade k q) in
    wf_ev s (RTrade k q) /\ RInv s' /\ NoDup (ids (rs_book s')) /\
    rfind k (rs_book s') = (if qeq_b (qadd f q) (qtys k) then None else Some (mkk k (qadd f q))) /\
    forall k', k' <> k -> rfind k' (rs_book s') = rfind k' (rs_book s).
  Proof. intros I N F Hq0 Hle s'.
    assert (W : wf_ev s (RTrade k q)). { cbn [wf_ev]. rewrite F. intros o [= <-]. cbn. split; assumption. }
    split; [exact W|]. split; [apply rstep_inv; assumption|]. unfold s'. cbn [rstep]. rewrite F. cbn [r_id r_qty r_filled r_reserve mk rs_book].
    destruct (qeq_b (qadd f q) (qtys k)).
    - split; [apply nodup_rremove; exact N|]. split; [apply rfind_rremove_same; exact N|]. intros k' Hk. apply rfind_rremove_other; exact Hk.
    - set (o' := {| r_id := k; r_qty := qtys k; r_filled := qadd f q; r_reserve := reserves k |}).
      split; [rewrite ids_rreplace; exact N|]. split.
      + change k with (r_id o') at 1. apply (rfind_rreplace_same o' _ (mkk k f)). exact F.
      + intros k' Hk. apply rfind_rreplace_other. exact Hk. Qed.
  Lemma g_pending s k : RInv s -> NoDup (ids (rs_book s)) -> rfind k (rs_book s) = None ->
    let s' := rstep s (RPendingNew (mkk k 0)) in
    wf_ev s (RPendingNew (mkk k 0)) /\ RInv s' /\ NoDup (ids (rs_book s')) /\ rfind k (rs_book s') = Some (mkk k 0) /\
    forall k', k' <> k -> rfind k' (rs_book s') = rfind k' (rs_book s).
  Proof. intros I N F s'.
    assert (W : wf_ev s (RPendingNew (mkk k 0))).
    { cbn [wf_ev]. split; [unfold wf_order; cbn; repeat split; try lra; [apply Hq|apply Hq|apply Hr]|]. split; [reflexivity|exact F]. }
    split; [exact W|]. split; [apply rstep_inv; assumption|]. unfold s'. cbn [rstep rs_book].
    split. { unfold ids. rewrite map_app. cbn [map r_id mk]. apply nodup_snoc; [exact N|apply rfind_none_notin; exact F]. }
    split; [rewrite rfind_app, F; cbn; rewrite Nat.eqb_refl; reflexivity|].
    intros k' Hk. rewrite rfind_app. destruct (rfind k' (rs_book s)); [reflexivity|]. cbn. destruct (Nat.eqb k k') eqn:E; [apply Nat.eqb_eq in E; congruence|reflexivity]. Qed.

  Definition Local (s : rstate) (k : nat) (o' : ostate) (s' : rstate) : Prop :=
    RInv s' /\ NoDup (ids (rs_book s')) /\ entry_ok o' k (rs_book s') /\ forall k', k' <> k -> rfind k' (rs_book s') = rfind k' (rs_book s).
  Notation rv k evs := (revs_of k (qtys k) (reserves k) evs).

  Lemma local_step s k o i : RInv s -> NoDup (ids (rs_book s)) -> os_qty o = qtys k -> OWF o -> entry_ok o k (rs_book s) -> in_ok o i ->
    wf_run s (rv k (snd (ostep o i))) /\ Local s k (fst (ostep o i)) (fold_left rstep (rv k (snd (ostep o i))) s).
  Proof.
    intros I N Eq (Wq & Wf0 & Wfq & Wst) C Hin. unfold entry_ok in C.
    assert (NOP : wf_run s (rv k []) /\ Local s k o (fold_left rstep (rv k []) s)).
    { split; [exact Logic.I|]. cbn. split; [exact I|]. split; [exact N|]. split; [exact C|]. intros; reflexivity. }
    destruct i as [a|r fee| | |]; cbn [ostep].
    - (* submit *)
      destruct (os_status o) eqn:S; try exact NOP. destruct Wst as [Pl F0]. rewrite Pl.
      destruct (g_pending s k I N C) as (W & I' & N' & F' & Fr).
      split; [cbn; split; [exact W|exact Logic.I]|]. cbn [snd fst revs_of flat_map rev_of app fold_left].
      split; [exact I'|]. split; [exact N'|]. split; [|exact Fr]. unfold entry_ok. cbn [with_status os_status]. exists 0. split; [exact F'|]. cbn [os_filled]. symmetry. exact F0.
    - (* match *)
      assert (ACT : os_place o <> Nowhere -> os_status o = Active).
      { intros Nn. destruct (os_status o); try (destruct Wst as [Pn _]; congruence); try contradiction; reflexivity. }
      destruct (os_place o) eqn:Pl; [exact NOP| |].
      all: assert (S : os_status o = Active) by (apply ACT; congruence); rewrite S in C; destruct C as (f & B & Ef); rewrite S; cbn [is_final].
      all: destruct r as [|rr|rr|price q ct rc].
      1, 5: split; [exact Logic.I|]; cbn [snd fst revs_of flat_map fold_left];
            split; [exact I|]; split; [exact N|]; split; [|intros; reflexivity]; unfold entry_ok; cbn [with_status os_status]; rewrite ?S; exists f; split; [exact B|exact Ef].
      1, 2, 4, 5: destruct (g_terminal s k f I N B) as (I' & N' & F' & Fr); split; [cbn; split; exact Logic.I|];
            unfold mark, out, with_status; rewrite ?S; cbn; split; [exact I'|]; split; [exact N'|]; split; [exact F'|exact Fr].
      all: cbn [in_ok] in Hin; destruct Hin as [Hq0 Hle]; rewrite Eq in Hle;
        assert (Hle' : q <= qtys k - f) by (rewrite Ef; exact Hle);
        destruct (g_trade s k f q I N B Hq0 Hle') as (W & I' & N' & B' & Fr);
        pose proof (fin_iff (qtys k) f (os_filled o) q Ef) as FI; rewrite FI in B';
        unfold order_fill; cbn [os_status is_final]; rewrite ?S; rewrite ?Eq;
        destruct (qeq_b (qsub (qtys k) (qadd (os_filled o) q)) 0) eqn:FIN; cbn [is_final].
      1, 3: split; [cbn; split; [exact W|exact Logic.I]|]; unfold out, with_status; cbn;
            split; [exact I'|]; split; [exact N'|]; split; [exact B'|exact Fr].
      all: destruct rc; cbn [fst snd].
      1, 3: destruct (g_terminal _ k _ I' N' B') as (I'' & N'' & F'' & Fr2); split; [cbn; split; [exact W|split; exact Logic.I]|];
            unfold mark, out, with_status; cbn; rewrite ?FIN; cbn; split; [exact I''|]; split; [exact N''|]; split; [exact F''|];
            intros k' Hk; (etransitivity; [exact (Fr2 k' Hk)|exact (Fr k' Hk)]).
      all: split; [cbn; split; [exact W|exact Logic.I]|]; unfold with_status; cbn; rewrite ?FIN;
           split; [exact I'|]; split; [exact N'|]; split; [|exact Fr]; unfold entry_ok; cbn [os_status]; rewrite ?S; exists (qadd f q); split; [exact B'|];
           cbn [os_filled]; qnorm; rewrite Ef; reflexivity.
    - (* cancel *)
      destruct (os_status o) eqn:S; cbn [is_final]; try exact NOP; try contradiction.
      destruct C as (f & B & Ef). destruct (g_terminal s k f I N B) as (I' & N' & F' & Fr).
      split; [cbn; split; exact Logic.I|]. unfold mark, out, with_status; rewrite ?S; cbn. split; [exact I'|]. split; [exact N'|]. split; [exact F'|exact Fr].
    - (* before trading *)
      destruct (os_place o) eqn:Pl; try exact NOP. exfalso. unfold in_ok in Hin. apply Hin. exact Pl.
    - (* after trading *)
      destruct (os_place o) eqn:Pl; try exact NOP.
      destruct (os_status o) eqn:S; try (destruct Wst as [Pn _]; congruence); try contradiction.
      destruct C as (f & B & Ef). destruct (g_terminal s k f I N B) as (I' & N' & F' & Fr).
      split; [cbn; split; exact Logic.I|]. unfold mark, out, with_status; rewrite ?S; cbn. split; [exact I'|]. split; [exact N'|]. split; [exact F'|exact Fr].
  Qed.

  Lemma ostep_qty o i : os_qty (fst (ostep o i)) = os_qty o.
  Proof. destruct i as [a|r fee| | |]; cbn [ostep]; unfold out, mark, with_status, order_fill;
    repeat match goal with |- context [match ?x with _ => _ end] => destruct x end; reflexivity. Qed.

  Lemma gstep_inv os s k i : GInv os s -> in_ok (os k) i ->
    wf_run s (gevents os (k, i)) /\ GInv (fst (gstep (os, s) (k, i))) (snd (gstep (os, s) (k, i))).
  Proof.
    intros (I & N & H) Hin. destruct (H k) as (Eq & W & E).
    destruct (local_step s k (os k) i I N Eq W E Hin) as [Wr (I' & N' & E' & Fr)].
    split; [exact Wr|]. unfold gstep; cbn [fst snd]. split; [exact I'|]. split; [exact N'|].
    intros k'. unfold upd. destruct (Nat.eqb k' k) eqn:A.
    - apply Nat.eqb_eq in A. subst k'. split; [rewrite ostep_qty; exact Eq|]. split; [exact (proj1 (ostep_ok (os k) i W Hin))|exact E'].
    - apply Nat.eqb_neq in A. destruct (H k') as (Eq' & W' & E2). split; [exact Eq'|]. split; [exact W'|].
      unfold entry_ok in *. rewrite (Fr k' A). exact E2.
  Qed.

  (* a whole back-test seen from the broker: any list of (order, input) pairs *)
  Definition ostep_all (os : nat -> ostate) (ki : nat * oin) : nat -> ostate := upd os (fst ki) (fst (ostep (os (fst ki)) (snd ki))).
  Fixpoint gins_ok (os : nat -> ostate) (l : list (nat * oin)) : Prop :=
    match l with [] => True | ki :: t => in_ok (os (fst ki)) (snd ki) /\ gins_ok (ostep_all os ki) t end.
  Fixpoint gevs (os : nat -> ostate) (l : list (nat * oin)) : list rev :=
    match l with [] => [] | ki :: t => gevents os ki ++ gevs (ostep_all os ki) t end.
  Fixpoint gfinal (os : nat -> ostate) (l : list (nat * oin)) : nat -> ostate :=
    match l with [] => os | ki :: t => gfinal (ostep_all os ki) t end.

  Theorem grun_inv l : forall os s, GInv os s -> gins_ok os l ->
    wf_run s (gevs os l) /\ GInv (gfinal os l) (fold_left rstep (gevs os l) s).
  Proof.
    induction l as [|[k i] t IH]; intros os s G Hin; cbn [gevs gfinal gins_ok] in *.
    - split; [exact Logic.I|exact G].
    - destruct Hin as [Hi Ht]. cbn [fst snd] in Hi.
      destruct (gstep_inv os s k i G Hi) as [W1 G1]. unfold gstep in G1; cbn [fst snd] in G1.
      destruct (IH _ _ G1 Ht) as [W2 G2].
      split; [apply (wf_run_app); [exact W1|exact W2]|]. rewrite fold_left_app. exact G2.
  Qed.

  Lemma book_empty_if_none l : (forall k, rfind k l = None) -> l = [].
  Proof. destruct l as [|x t]; [reflexivity|]. intros H. specialize (H (r_id x)). cbn in H. rewrite Nat.eqb_refl in H. discriminate. Qed.
End Many.

(* From nothing, for every list of (order id, input) pairs the broker can produce: the events the account hears form a conforming run of the
   reserve machine, reserved cash equals the sum over the open orders of the unfilled fraction of their initial reserve (RInv), and it is zero
   whenever no order is open. *)
Theorem interleaved_lifecycles_discharge_the_protocol qtys reserves l :
  (forall k, 0 < qtys k) -> (forall k, 0 <= reserves k) ->
  let os0 := fun k => fresh_order (qtys k) in
  let s0 := {| rs_frozen := 0; rs_book := [] |} in
  gins_ok os0 l ->
  let evs := gevs qtys reserves os0 l in
  let sf := fold_left rstep evs s0 in
  wf_run s0 evs /\ RInv sf /\ 0 <= rs_frozen sf /\
  ((forall k, os_status (gfinal os0 l k) <> Active) -> rs_book sf = [] /\ rs_frozen sf == 0).
Proof.
  intros Hq Hr os0 s0 Hin evs sf.
  assert (G0 : GInv qtys reserves os0 s0).
  { split; [split; [reflexivity|constructor]|]. split; [constructor|]. intros k. split; [reflexivity|]. split; [apply fresh_wf; apply Hq|reflexivity]. }
  destruct (grun_inv qtys reserves Hq Hr l os0 s0 G0 Hin) as [W (I & N & H)]. fold evs in W, I, N, H. fold sf in I, N, H.
  split; [exact W|]. split; [exact I|]. split; [apply frozen_nonneg; exact I|].
  intros NA. assert (B : rs_book sf = []).
  { apply book_empty_if_none. intros k. destruct (H k) as (_ & _ & E). unfold entry_ok in E. specialize (NA k).
    destruct (os_status (gfinal os0 l k)); try exact E. congruence. }
  split; [exact B|]. apply frozen_zero_when_no_open; assumption.
Qed.
