From RQ Require Import Model.Num Model.Calendar Proofs.NumFacts.
From Coq Require Import Lia Lqa ZifyBool.
Open Scope Z_scope.

Inductive sinc : list Z -> Prop := s0 : sinc [] | s1 x : sinc [x] | s2 x y t : x < y -> sinc (y :: t) -> sinc (x :: y :: t).
Lemma sinc_tail x t : sinc (x :: t) -> sinc t.
Proof. intros H. inversion H; subst; [constructor|assumption]. Qed.
Lemma sinc_lb x t : sinc (x :: t) -> forall y, In y t -> x < y.
Proof. revert x. induction t as [|z t IH]; intros x H y Hy; [destruct Hy|]. inversion H; subst. destruct Hy as [->|Hy]; [assumption|]. specialize (IH z H4 y Hy). lia. Qed.

Lemma cnt_ltn_nth l : sinc l -> forall k, (k < length l)%nat -> cnt_ltn (nth k l 0) l = k.
Proof. induction l as [|x t IH]; intros H k Hk; cbn in *; [lia|]. destruct k as [|k].
  - rewrite Z.ltb_irrefl. reflexivity.
  - assert (Hx : x < nth k t 0). { apply (sinc_lb x t H). apply nth_In. lia. }
    destruct (x <? nth k t 0) eqn:E; [|lia]. f_equal. apply IH; [apply (sinc_tail _ _ H)|lia]. Qed.
Lemma cnt_len_nth l : sinc l -> forall k, (k < length l)%nat -> cnt_len (nth k l 0) l = S k.
Proof. induction l as [|x t IH]; intros H k Hk; cbn in *; [lia|]. destruct k as [|k].
  - rewrite Z.leb_refl. f_equal. destruct t as [|y t]; [reflexivity|]. cbn. inversion H; subst. destruct (y <=? x) eqn:E; [lia|reflexivity].
  - assert (Hx : x < nth k t 0). { apply (sinc_lb x t H). apply nth_In. lia. }
    destruct (x <=? nth k t 0) eqn:E; [|lia]. f_equal. apply IH; [apply (sinc_tail _ _ H)|lia]. Qed.
Lemma cnt_ltn_le_len x l : (cnt_ltn x l <= length l)%nat.
Proof. induction l as [|y t IH]; cbn; [lia|]. destruct (y <? x); lia. Qed.
Lemma cnt_len_le_len x l : (cnt_len x l <= length l)%nat.
Proof. induction l as [|y t IH]; cbn; [lia|]. destruct (y <=? x); lia. Qed.

(* previous and next trading date are inverse on trading days *)
Theorem next_prev l k : sinc l -> (0 < k < length l)%nat ->
  next_trading_date l (prev_trading_date l (nth k l 0) 1) 1 = nth k l 0.
Proof. intros H Hk. unfold prev_trading_date, cnt_lt. rewrite cnt_ltn_nth by (assumption || lia).
  destruct (1 <=? Z.of_nat k) eqn:E; [|lia]. unfold nthz. replace (Z.to_nat (Z.of_nat k - 1)) with (k - 1)%nat by lia.
  unfold next_trading_date, cnt_le. rewrite cnt_len_nth by (assumption || lia). unfold lenz.
  destruct (Z.of_nat (length l) <? Z.of_nat (S (k - 1)) + 1) eqn:E2; [lia|]. unfold nthz. f_equal. lia. Qed.
Theorem prev_next l k : sinc l -> (S k < length l)%nat ->
  prev_trading_date l (next_trading_date l (nth k l 0) 1) 1 = nth k l 0.
Proof. intros H Hk. unfold next_trading_date, cnt_le. rewrite cnt_len_nth by (assumption || lia). unfold lenz.
  destruct (Z.of_nat (length l) <? Z.of_nat (S k) + 1) eqn:E; [lia|]. unfold nthz.
  replace (Z.to_nat (Z.of_nat (S k) + 1 - 1)) with (S k) by lia.
  unfold prev_trading_date, cnt_lt. rewrite cnt_ltn_nth by (assumption || lia).
  destruct (1 <=? Z.of_nat (S k)) eqn:E2; [|lia]. unfold nthz. f_equal. lia. Qed.
(* saturation at the ends of the calendar, stated explicitly *)
Theorem prev_saturates l d : cnt_ltn d l = O -> prev_trading_date l d 1 = nthz 0 l.
Proof. intros H. unfold prev_trading_date, cnt_lt. rewrite H. reflexivity. Qed.
Theorem next_saturates l d : cnt_len d l = length l -> next_trading_date l d 1 = lastz l.
Proof. intros H. unfold next_trading_date, cnt_le, lenz. rewrite H. destruct (Z.of_nat (length l) <? Z.of_nat (length l) + 1) eqn:E; [reflexivity|lia]. Qed.

(* get_trading_dates is the sorted calendar slice between its bounds; the count is its length *)
Lemma skipn_cnt_lt a l : sinc l -> skipn (cnt_ltn a l) l = filter (fun x => a <=? x) l.
Proof. induction l as [|y t IH]; intros H; cbn; [reflexivity|]. destruct (y <? a) eqn:E.
  - assert (E' : (a <=? y) = false) by lia. rewrite E'. apply IH. apply (sinc_tail _ _ H).
  - assert (E' : (a <=? y) = true) by lia. rewrite E'. cbn. f_equal.
    assert (G : forall z, In z t -> (a <=? z) = true). { intros z Hz. pose proof (sinc_lb y t H z Hz). lia. }
    clear -G. induction t as [|z u IHu]; cbn; [reflexivity|]. rewrite (G z (or_introl eq_refl)). f_equal. apply IHu. intros w Hw. apply G. right. assumption. Qed.
Lemma firstn_cnt_le b l : sinc l -> firstn (cnt_len b l) l = filter (fun x => x <=? b) l.
Proof. induction l as [|y t IH]; intros H; cbn; [reflexivity|]. destruct (y <=? b) eqn:E.
  - cbn. f_equal. apply IH. apply (sinc_tail _ _ H).
  - cbn. assert (G : forall z, In z t -> (z <=? b) = false). { intros z Hz. pose proof (sinc_lb y t H z Hz). lia. }
    clear -G. induction t as [|z u IHu]; cbn; [reflexivity|]. rewrite (G z (or_introl eq_refl)). apply IHu. intros w Hw. apply G. right. assumption. Qed.
Lemma firstn_skipn_comm {A} (l : list A) a b : firstn (b - a) (skipn a l) = skipn a (firstn b l).
Proof. revert a b. induction l as [|x t IH]; intros a b.
  - rewrite skipn_nil, !firstn_nil, skipn_nil. reflexivity.
  - destruct a as [|a], b as [|b]; cbn; try reflexivity. apply IH. Qed.
Lemma filter_filter {A} (f g : A -> bool) l : filter f (filter g l) = filter (fun x => g x && f x) l.
Proof. induction l as [|x t IH]; cbn; [reflexivity|]. destruct (g x); cbn; [destruct (f x); cbn; rewrite IH; reflexivity|assumption]. Qed.

Lemma filter_none {A} (f : A -> bool) l : (forall z, In z l -> f z = false) -> filter f l = [].
Proof. induction l as [|x t IH]; intros G; cbn; [reflexivity|]. rewrite (G x (or_introl eq_refl)). apply IH. intros z Hz. apply G. right. assumption. Qed.

Theorem trading_dates_is_slice l a b : sinc l -> trading_dates l a b = filter (fun x => (a <=? x) && (x <=? b)) l.
Proof. intros H. unfold trading_dates, slicez, cnt_lt, cnt_le.
  replace (Z.to_nat (Z.of_nat (cnt_len b l) - Z.of_nat (cnt_ltn a l))) with (cnt_len b l - cnt_ltn a l)%nat by lia.
  rewrite Nat2Z.id. rewrite firstn_skipn_comm. rewrite firstn_cnt_le by assumption.
  (* skipping the elements below a in the list of elements <= b *)
  assert (G : forall m, sinc m -> skipn (cnt_ltn a m) (filter (fun x => x <=? b) m) = filter (fun x => (a <=? x) && (x <=? b)) m).
  { clear. induction m as [|y t IH]; intros Hm; cbn; [reflexivity|]. destruct (y <? a) eqn:E.
    - assert (E' : (a <=? y) = false) by lia. rewrite E'. cbn [andb]. destruct (y <=? b) eqn:B; cbn; [apply IH; apply (sinc_tail _ _ Hm)|].
      assert (G : forall z, In z t -> (z <=? b) = false). { intros z Hz. pose proof (sinc_lb y t Hm z Hz). lia. }
      rewrite (filter_none _ _ G). cbn. symmetry. apply filter_none. intros z Hz. rewrite (G z Hz). apply andb_false_r.
    - assert (E' : (a <=? y) = true) by lia. rewrite E'. cbn [andb skipn]. destruct (y <=? b) eqn:B; cbn.
      + f_equal. assert (G : forall z, In z t -> (a <=? z) = true). { intros z Hz. pose proof (sinc_lb y t Hm z Hz). lia. }
        clear -G. induction t as [|z u IHu]; cbn; [reflexivity|]. rewrite (G z (or_introl eq_refl)). cbn [andb]. destruct (z <=? b); [f_equal|]; apply IHu; intros w Hw; apply G; right; assumption.
      + assert (G : forall z, In z t -> (z <=? b) = false). { intros z Hz. pose proof (sinc_lb y t Hm z Hz). lia. }
        clear -G. induction t as [|z u IHu]; cbn; [reflexivity|]. rewrite (G z (or_introl eq_refl)). rewrite andb_false_r. apply IHu. intros w Hw. apply G. right. assumption. }
  apply G. assumption. Qed.
Theorem count_is_length l a b : sinc l -> lenz (trading_dates l a b) = Z.max 0 (count_trading_dates l a b).
Proof. intros H. unfold trading_dates, count_trading_dates, slicez, lenz, cnt_lt, cnt_le.
  rewrite firstn_length, skipn_length. pose proof (cnt_len_le_len b l). pose proof (cnt_ltn_le_len a l). lia. Qed.

Lemma In_skipn_weak {A} (x : A) n l : In x (skipn n l) -> In x l.
Proof. revert l. induction n as [|n IH]; intros l H; [assumption|]. destruct l as [|y t]; [destruct H|]. right. apply IH. assumption. Qed.

(* ---- history windows ---- *)
Lemma slicez_spec {A} (l : list A) a b : 0 <= a <= b -> slicez a b l = skipn (Z.to_nat a) (firstn (Z.to_nat b) l).
Proof. intros H. unfold slicez. replace (Z.to_nat (b - a)) with (Z.to_nat b - Z.to_nat a)%nat by lia. apply firstn_skipn_comm. Qed.
(* the window is the last bar_count bars among those dated <= dt: nothing after dt, at most bar_count, in order *)
Theorem window_is_last_n dts bars dt n : 0 < n -> map h_dt bars = dts -> sinc dts ->
  let w := slicez (fst (window_bounds dts dt n)) (snd (window_bounds dts dt n)) bars in
  w = skipn (cnt_len dt dts - Z.to_nat n) (firstn (cnt_len dt dts) bars) /\
  (forall b, In b w -> h_dt b <= dt) /\ lenz w = Z.min n (cnt_le dt dts).
Proof.
  intros Hn Hm Hs w. unfold w, window_bounds, cnt_le. cbn [fst snd].
  assert (Hlen : (cnt_len dt dts <= length bars)%nat). { pose proof (cnt_len_le_len dt dts) as L. rewrite <- Hm in L at 2. rewrite map_length in L. exact L. }
  assert (E : slicez (if n <=? Z.of_nat (cnt_len dt dts) then Z.of_nat (cnt_len dt dts) - n else 0) (Z.of_nat (cnt_len dt dts)) bars
              = skipn (cnt_len dt dts - Z.to_nat n) (firstn (cnt_len dt dts) bars)).
  { destruct (n <=? Z.of_nat (cnt_len dt dts)) eqn:C.
    - rewrite slicez_spec by lia. rewrite Nat2Z.id. f_equal. lia.
    - rewrite slicez_spec by lia. rewrite Nat2Z.id. replace (cnt_len dt dts - Z.to_nat n)%nat with O by lia. reflexivity. }
  rewrite E. split; [reflexivity|]. split.
  - intros b Hb. assert (Hb' : In b (firstn (cnt_len dt dts) bars)). { apply (In_skipn_weak _ _ _ Hb). }
    (* the first cnt_len elements of a sorted list are <= dt *)
    assert (G : forall (bs : list hbar), sinc (map h_dt bs) -> forall x, In x (firstn (cnt_len dt (map h_dt bs)) bs) -> h_dt x <= dt).
    { clear. induction bs as [|y t IH]; intros Hs x Hx; cbn in *; [destruct Hx|]. destruct (h_dt y <=? dt) eqn:C; cbn in Hx; [|destruct Hx].
      destruct Hx as [<-|Hx]; [lia|]. apply IH; [apply (sinc_tail _ _ Hs)|assumption]. }
    rewrite <- Hm in Hb'. apply (G bars); [rewrite Hm; assumption|assumption].
  - unfold lenz. rewrite skipn_length, firstn_length. lia.
Qed.

(* ---- adjustment ---- *)
Open Scope Q_scope.
Definition adj_base (table : list (Z * Q)) (adj : adjust_type) (orig : Z) : Q := match adj with AdjPre => factor_for table orig | _ => 1 end.
Definition adj_rel (table : list (Z * Q)) (base : Q) (b b' : hbar) : Prop :=
  h_dt b' = h_dt b /\ h_price b' == h_price b * (factor_for table (h_dt b) / base) /\
  h_volume b' == h_volume b * (base / factor_for table (h_dt b)).
Lemma adjust_same table base bars : ~ base == 0 ->
  (forall b, In b bars -> qeq_b (factor_for table (h_dt b)) base = true) -> Forall2 (adj_rel table base) bars bars.
Proof. intros Hb. induction bars as [|b t IH]; intros A; constructor.
  - pose proof (A b (or_introl eq_refl)) as E. apply qeq_b_true in E. unfold adj_rel. split; [reflexivity|]. rewrite E. split; field; assumption.
  - apply IH. intros x Hx. apply A. right. assumption. Qed.
Lemma adjust_map table base bars : ~ base == 0 -> (forall d, ~ factor_for table d == 0) ->
  Forall2 (adj_rel table base) bars
    (map (fun b => {| h_dt := h_dt b; h_price := qmul (h_price b) (qdiv (factor_for table (h_dt b)) base);
                      h_volume := qmul (h_volume b) (qdiv 1 (qdiv (factor_for table (h_dt b)) base)) |}) bars).
Proof. intros Hb Hf. induction bars as [|b t IH]; cbn [map]; constructor; [|assumption].
  unfold adj_rel. cbn [h_dt h_price h_volume]. split; [reflexivity|]. qnorm. split; [reflexivity|]. field. split; [apply Hf|assumption]. Qed.
Theorem adjust_scales bars table adj orig : adj <> AdjNone ->
  (forall d, ~ factor_for table d == 0) -> ~ adj_base table adj orig == 0 ->
  Forall2 (adj_rel table (adj_base table adj orig)) bars (adjust_window bars table adj false orig).
Proof.
  intros Hn Hf Hb. unfold adjust_window. destruct adj; try congruence; cbn [adj_base] in *.
  - destruct (forallb (fun b => qeq_b (factor_for table (h_dt b)) (factor_for table orig)) bars) eqn:A.
    + rewrite forallb_forall in A. apply adjust_same; assumption.
    + apply adjust_map; assumption.
  - destruct (forallb (fun b => qeq_b (factor_for table (h_dt b)) 1) bars) eqn:A.
    + rewrite forallb_forall in A. apply adjust_same; assumption.
    + apply adjust_map; assumption.
Qed.
(* bars whose factor equals the base are returned unadjusted: in particular the most recent bar under 'pre' adjustment *)
Corollary adjust_identity_at_base table base b b' : ~ base == 0 -> adj_rel table base b b' ->
  factor_for table (h_dt b) == base -> h_price b' == h_price b /\ h_volume b' == h_volume b.
Proof. intros Hb (_ & P & V) E. rewrite P, V, E. split; field; assumption. Qed.
Theorem adjust_none_is_identity bars table orig k : adjust_window bars table AdjNone k orig = bars.
Proof. reflexivity. Qed.
Theorem adjust_skips_futures_and_indexes bars table adj orig : adjust_window bars table adj true orig = bars.
Proof. destruct adj; reflexivity. Qed.

(* ---- the end of the window by phase ---- *)
Theorem history_end_before_open sys_minute inc cal prev ph : ph = HBeforeTrading \/ ph = HOpenAuction ->
  history_end sys_minute inc ph cal prev = (prev, false).
Proof. intros [->| ->]; unfold history_end; destruct sys_minute, inc; reflexivity. Qed.
Theorem history_end_daily_bar inc cal prev ph : ph = HOnBar \/ ph = HScheduled \/ ph = HAfterTrading ->
  history_end false inc ph cal prev = (cal, false).
Proof. intros [->|[->| ->]]; unfold history_end; destruct inc; reflexivity. Qed.
Theorem history_end_minute_day_bars cal prev ph : ph = HOnBar \/ ph = HScheduled ->
  history_end true false ph cal prev = (prev, false).
Proof. intros [->| ->]; reflexivity. Qed.
