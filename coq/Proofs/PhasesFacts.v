(* Handlers registered with subscribe_event: what the finite check over the regenerated table means for every event and phase. *)
From Coq Require Import List String Bool.
From RQ Require Import Model.Phases.
Import ListNotations.
Open Scope string_scope.

Lemma xphase_eqb_eq a b : xphase_eqb a b = true -> a = b.
Proof. destruct a, b; cbn; intros H; try reflexivity; discriminate. Qed.

(* if the table follows the split map, then the handler of every part (PRE_E, E, POST_E) of a day-phase event E runs in E's own phase,
   whatever phase happens to be on the stack, and an event without an entry keeps the enclosing phase *)
Theorem handler_phase_sound split t fb : handlers_follow_split split t fb = true ->
  (forall e p parts part enclosing, In (e, p) day_phase_events -> lookup e split = Some parts -> In part parts ->
     handler_phase t fb part enclosing = p) /\
  (forall ev enclosing, lookup ev t = None -> handler_phase t fb ev enclosing = enclosing).
Proof.
  unfold handlers_follow_split. intros H. apply andb_prop in H as [Hfb H]. subst fb. split.
  - intros e p parts part enclosing Hin Hl Hp. rewrite forallb_forall in H. specialize (H (e, p) Hin). cbn [fst snd] in H.
    rewrite Hl in H. rewrite forallb_forall in H. specialize (H part Hp). unfold handler_phase.
    destruct (lookup part t) as [q|]; [|discriminate]. apply xphase_eqb_eq. assumption.
  - intros ev enclosing Hn. unfold handler_phase. rewrite Hn. reflexivity.
Qed.

(* when no system listener returns a truthy value, the event reaches every one of them *)
Theorem delivered_to_all {E} (ls : list (E -> bool)) (e : E) : (forall l, In l ls -> l e = false) -> delivered ls e = List.length ls.
Proof. induction ls as [|l t IH]; intros H; cbn; [reflexivity|]. rewrite (H l (or_introl eq_refl)). f_equal. apply IH. intros x Hx. apply H. right. exact Hx. Qed.
(* ... and one that does cuts the others off *)
Theorem delivered_cut {E} (pre post : list (E -> bool)) (l : E -> bool) (e : E) : (forall x, In x pre -> x e = false) -> l e = true ->
  delivered (pre ++ l :: post) e = S (List.length pre).
Proof. induction pre as [|x t IH]; intros H T; cbn; [rewrite T; reflexivity|]. rewrite (H x (or_introl eq_refl)). f_equal. apply IH; [|exact T].
  intros y Hy. apply H. right. exact Hy. Qed.
