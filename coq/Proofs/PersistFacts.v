From Coq Require Import Lia ZifyBool.
From RQ Require Import Model.Num Model.Calendar Model.Position Model.Account Model.AccountRun Model.EventLoop Model.Persist Proofs.NumFacts.
Open Scope Z_scope.

(* ---- nothing that affects later behaviour is lost ---- *)
Theorem pos_roundtrip p : restore_pos (persist_pos p) = p.
Proof. destruct p; reflexivity. Qed.
Lemma combine_map_roundtrip (l : list (pcfg * pos)) : combine (map fst l) (map restore_pos (map (fun cp => persist_pos (snd cp)) l)) = l.
Proof. induction l as [|[c p] l IH]; cbn; [reflexivity|]. rewrite IH, pos_roundtrip. reflexivity. Qed.
Theorem acc_roundtrip a : restore_acc (map fst (a_pos a)) (persist_acc a) = a.
Proof. destruct a as [tc fr li pe mg ps]. unfold restore_acc, persist_acc; cbn. rewrite combine_map_roundtrip. reflexivity. Qed.
(* so every continuation of the restored account is the continuation of the original one *)
Theorem acc_continuation g a evs : arun g (restore_acc (map fst (a_pos a)) (persist_acc a)) evs = arun g a evs.
Proof. rewrite acc_roundtrip. reflexivity. Qed.
(* dropping a field from the persisted state is visible: without the last price the restored position is a different one *)
Theorem last_price_is_needed : exists p x, x <> p_last p /\
  {| p_qty := p_qty p; p_old := p_old p; p_lold := p_lold p; p_avg := p_avg p; p_trade_cost := p_trade_cost p; p_tcost := p_tcost p;
     p_non_closable := p_non_closable p; p_last := x; p_recv := p_recv p |} <> p.
Proof.
  exists {| p_qty := 100; p_old := 100; p_lold := 100; p_avg := 10; p_trade_cost := 0; p_tcost := 0; p_non_closable := 0; p_last := 11; p_recv := None |}, 12%Q.
  split; [discriminate|]. intros H. discriminate H.
Qed.

(* ---- the executor ---- *)
Lemma xfold_acc evs : forall s o, fold_left xstep evs (s, o) = (fst (xfold s evs), o ++ snd (xfold s evs)).
Proof.
  unfold xfold. induction evs as [|e evs IH]; intros s o; cbn [fold_left]; [rewrite app_nil_r; reflexivity|].
  assert (forall o', xstep (s, o') e = (fst (xstep (s, []) e), o' ++ snd (xstep (s, []) e))) as K.
  { intros o'. unfold xstep; cbn [fst snd].
    destruct e as [d t|d t|d t|d t]; destruct (match x_last_bt s with Some l => l =? d | None => false end); cbn [fst snd app];
      rewrite ?app_nil_r, ?app_assoc; reflexivity. }
  rewrite (K o), (K []). destruct (xstep (s, []) e) as [s1 o1]. cbn [fst snd app].
  rewrite (IH s1 (o ++ o1)), (IH s1 o1). cbn [fst snd]. rewrite app_assoc. reflexivity.
Qed.
Lemma xfold_app s evs1 evs2 :
  xfold s (evs1 ++ evs2) = (fst (xfold (fst (xfold s evs1)) evs2), snd (xfold s evs1) ++ snd (xfold (fst (xfold s evs1)) evs2)).
Proof.
  unfold xfold at 1. rewrite fold_left_app. fold (xfold s evs1). destruct (xfold s evs1) as [s1 o1]. cbn [fst snd].
  apply xfold_acc.
Qed.
(* a run stopped after the after-trading of a day and resumed from the persisted executor state publishes, together, exactly the
   events of the uninterrupted run: the pending settlement is replayed once *)
Theorem split_at_after_trading evs1 evs2 end_date :
  let first := xfold fresh evs1 in
  let resumed := xrun (fst first) evs2 end_date in
  snd first ++ snd resumed = snd (xrun fresh (evs1 ++ evs2) end_date) /\ fst resumed = fst (xrun fresh (evs1 ++ evs2) end_date).
Proof.
  cbn zeta. unfold xrun. rewrite xfold_app.
  destruct (xfold fresh evs1) as [s1 o1]. cbn [fst snd]. destruct (xfold s1 evs2) as [s2 o2]. unfold xfinish; cbn [fst snd].
  destruct (x_last_bt s2) as [l|]; [destruct (l =? end_date)|]; cbn [fst snd]; rewrite ?app_assoc; auto.
Qed.
(* a run that exited normally has settled its last day; the resumed run does not settle it again *)
Definition settled (d : Z) : xstate := {| x_last_bt := Some d; x_last_settle := Some d |}.
Definition unsettled (d : Z) (ls : option Z) : xstate := {| x_last_bt := Some d; x_last_settle := ls |}.
Lemma first_event_after_exit d ls d' t rest : d' <> d -> ls <> Some d ->
  xfold (unsettled d ls) (SBeforeTrading d' t :: rest) =
  (fst (xfold (settled d) (SBeforeTrading d' t :: rest)), PSettlement d :: snd (xfold (settled d) (SBeforeTrading d' t :: rest))).
Proof.
  intros Hd Hls.
  assert (oz_eqb ls (Some d) = false) as Hz.
  { destruct ls as [x|]; cbn; [|reflexivity]. destruct (x =? d) eqn:E2; [|reflexivity]. exfalso. apply Hls. f_equal. lia. }
  assert (xstep (unsettled d ls, []) (SBeforeTrading d' t)
          = ({| x_last_bt := Some d'; x_last_settle := Some d |}, [PSettlement d; PBeforeTrading d' t])) as A.
  { unfold xstep; cbn [fst snd x_last_bt x_last_settle unsettled]. destruct (d =? d') eqn:E; [lia|]. rewrite Hz. reflexivity. }
  assert (xstep (settled d, []) (SBeforeTrading d' t)
          = ({| x_last_bt := Some d'; x_last_settle := Some d |}, [PBeforeTrading d' t])) as B.
  { unfold xstep; cbn [fst snd x_last_bt x_last_settle settled]. destruct (d =? d') eqn:E; [lia|]. cbn [oz_eqb]. rewrite Z.eqb_refl. reflexivity. }
  unfold xfold. cbn [fold_left]. rewrite A, B.
  rewrite (xfold_acc rest _ [PSettlement d; PBeforeTrading d' t]), (xfold_acc rest _ [PBeforeTrading d' t]). reflexivity.
Qed.
Theorem split_at_normal_exit d ls d' t rest end_date : d' <> d -> ls <> Some d ->
  (* uninterrupted: the state after day d's after-trading, then the next day ...; split: day d settled at exit, then the next day *)
  snd (xrun (unsettled d ls) (SBeforeTrading d' t :: rest) end_date) = PSettlement d :: snd (xrun (settled d) (SBeforeTrading d' t :: rest) end_date) /\
  fst (xrun (unsettled d ls) (SBeforeTrading d' t :: rest) end_date) = fst (xrun (settled d) (SBeforeTrading d' t :: rest) end_date).
Proof.
  intros Hd Hls. unfold xrun. rewrite (first_event_after_exit d ls d' t rest Hd Hls).
  destruct (xfold (settled d) (SBeforeTrading d' t :: rest)) as [s o]. unfold xfinish; cbn [fst snd].
  destruct (x_last_bt s) as [l|]; [destruct (l =? end_date)|]; cbn [fst snd]; auto.
Qed.
(* for a fresh run the resumable executor is the executor of the lifecycle model (C08) *)
Definition xinv (s : xstate) : Prop :=
  (forall l, x_last_bt s = Some l -> x_last_settle s <> Some l) /\ (x_last_bt s = None -> x_last_settle s = None).
Lemma pending_true s l : xinv s -> x_last_bt s = Some l -> negb (oz_eqb (x_last_settle s) (Some l)) = true.
Proof.
  intros [H _] E. specialize (H l E). destruct (x_last_settle s) as [x|]; cbn; [|reflexivity].
  destruct (x =? l) eqn:E2; [|reflexivity]. exfalso. apply H. f_equal. lia.
Qed.
Lemma xstep_exec s o e : xinv s ->
  exec_step (x_last_bt s, o) e = (x_last_bt (fst (xstep (s, o) e)), snd (xstep (s, o) e)) /\ xinv (fst (xstep (s, o) e)).
Proof.
  intros H. unfold xstep, exec_step; cbn [fst snd].
  destruct e as [d t|d t|d t|d t]; destruct (x_last_bt s) as [l|] eqn:EL; cbn [fst snd].
  all: try (destruct (l =? d) eqn:ED; cbn [fst snd]).
  all: try rewrite (pending_true s l H EL).
  all: cbn [fst snd x_last_bt x_last_settle]; rewrite ?EL; split; try reflexivity.
  all: unfold xinv; cbn [x_last_bt x_last_settle]; split; [intros l0 Hl0 | intros Hn].
  all: try (rewrite EL in Hl0); try (rewrite EL in Hn); try discriminate.
  all: try (injection Hl0 as <-); try (apply (proj1 H); assumption).
  all: try (intros Hc; injection Hc as Hc; lia).
  all: try (rewrite (proj2 H EL); discriminate).
  all: try (apply (proj2 H); assumption).
Qed.
Lemma xfold_is_exec evs : forall s o, xinv s ->
  snd (fold_left xstep evs (s, o)) = snd (fold_left exec_step evs (x_last_bt s, o)) /\
  x_last_bt (fst (fold_left xstep evs (s, o))) = fst (fold_left exec_step evs (x_last_bt s, o)).
Proof.
  induction evs as [|e evs IH]; intros s o H; cbn [fold_left]; [split; reflexivity|].
  destruct (xstep_exec s o e H) as [E H1]. rewrite E. destruct (xstep (s, o) e) as [s1 o1]. cbn [fst snd] in *. apply IH. exact H1.
Qed.
Theorem fresh_run_is_lifecycle_run evs end_date : snd (xrun fresh evs end_date) = exec_run evs end_date.
Proof.
  unfold xrun, exec_run, xfold, xfinish.
  destruct (xfold_is_exec evs fresh []) as [A B]; [split; [cbn; discriminate | reflexivity]|]. cbn [x_last_bt fresh] in *.
  rewrite <- A, <- B. destruct (x_last_bt (fst (fold_left xstep evs (fresh, [])))) as [l|]; [destruct (l =? end_date)|]; cbn [fst snd]; rewrite ?app_nil_r; reflexivity.
Qed.

(* ---- the report of a resumed run covers every day once ---- *)
Definition dates (l : list (Z * Q)) : list Z := map fst l.
Lemma filter_lt_all d (l : list (Z * Q)) : Forall (fun r => fst r < d) l -> filter (fun r => fst r <? d) l = l.
Proof. induction 1 as [|r l Hr _ IH]; cbn [filter]; [reflexivity|]. destruct (fst r <? d) eqn:E; [rewrite IH; reflexivity | lia]. Qed.
Lemma filter_lt_none d (l : list (Z * Q)) : Forall (fun r => d <= fst r) l -> filter (fun r => fst r <? d) l = [].
Proof. induction 1 as [|r l Hr _ IH]; cbn [filter]; [reflexivity|]. destruct (fst r <? d) eqn:E; [lia | exact IH]. Qed.
(* the earlier run covered `before ++ overlap` (it was configured for a longer range than it ran), the resumed run covers `current`, which
   starts after everything in `before` and not after anything in `overlap`: the merged series covers before ++ current, each date once *)
Theorem merged_series_dates before overlap current d0 x rest : current = (d0, x) :: rest ->
  Forall (fun r => fst r < d0) before -> Forall (fun r => d0 <= fst r) overlap ->
  merge_series (before ++ overlap) current = before ++ current.
Proof.
  intros -> Hb Ho. unfold merge_series. rewrite filter_app, (filter_lt_all d0 before Hb), (filter_lt_none d0 overlap Ho), app_nil_r. reflexivity.
Qed.
