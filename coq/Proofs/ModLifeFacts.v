From RQ Require Import Model.Num Model.ModLife.
From Coq Require Import Lia ZifyBool Sorted Permutation.
Open Scope Z_scope.

Definition prio_le (a b : modspec) : Prop := md_priority a <= md_priority b.
Lemma insert_perm m l : Permutation (m :: l) (insert_mod m l).
Proof. induction l as [|x t IH]; cbn; [reflexivity|]. destruct (md_priority m <? md_priority x); [reflexivity|].
  rewrite perm_swap. constructor. assumption. Qed.
Lemma insert_hd m l x : HdRel prio_le x l -> prio_le x m -> HdRel prio_le x (insert_mod m l).
Proof. intros H Hm. destruct l as [|y t]; cbn; [constructor; assumption|]. destruct (md_priority m <? md_priority y); constructor; [assumption|].
  inversion H; assumption. Qed.
Lemma insert_sorted m l : Sorted prio_le l -> Sorted prio_le (insert_mod m l).
Proof. induction l as [|x t IH]; intros H; cbn; [repeat constructor|]. destruct (md_priority m <? md_priority x) eqn:E.
  - constructor; [assumption|]. constructor. unfold prio_le. lia.
  - inversion H; subst. constructor; [apply IH; assumption|]. apply insert_hd; [assumption|]. unfold prio_le. lia. Qed.
Lemma sort_spec l : forall acc, Sorted prio_le acc -> Sorted prio_le (fold_left (fun a m => insert_mod m a) l acc) /\
                                 Permutation (rev l ++ acc) (fold_left (fun a m => insert_mod m a) l acc).
Proof. induction l as [|m t IH]; intros acc H; cbn [fold_left rev]; [split; [assumption|reflexivity]|].
  destruct (IH (insert_mod m acc) (insert_sorted m acc H)) as [S P]. split; [assumption|].
  rewrite <- P. rewrite <- app_assoc. cbn [app]. apply Permutation_app_head. apply insert_perm. Qed.
(* start order = priority order, and every enabled mod exactly once *)
Theorem sort_mods_sorted l : Sorted prio_le (sort_mods l).
Proof. apply (sort_spec l []). constructor. Qed.
Theorem sort_mods_perm l : Permutation l (sort_mods l).
Proof. destruct (sort_spec l [] ltac:(constructor)) as [_ P]. rewrite app_nil_r in P. rewrite <- P. apply Permutation_rev. Qed.

(* the shape of every run, whatever the fault point and whichever teardown raises *)
Theorem run_shape mods n f :
  run_mods mods n f = map (fun m => LStart (md_id m)) (sort_mods mods) ++ callbacks 0 n (fault_at f) ++
                      map (fun m => LTearDown (md_id m) (code_of f) (md_teardown_raises m)) (rev (sort_mods mods)) ++
                      [LResult (match f with NoFault => true | _ => false end)].
Proof. reflexivity. Qed.
(* no callback after the fault: the callbacks that run are 0 .. k for a fault at k < n, all of them otherwise *)
Lemma callbacks_none k n : callbacks k n None = map LCallback (seq k n).
Proof. revert k. induction n as [|n IH]; intros k; cbn; [reflexivity|]. rewrite IH. reflexivity. Qed.
Lemma callbacks_stop k n s : (k <= s < k + n)%nat -> callbacks k n (Some s) = map LCallback (seq k (S s - k)).
Proof. revert k. induction n as [|n IH]; intros k H; [lia|]. cbn [callbacks]. destruct (Nat.eqb s k) eqn:E.
  - apply Nat.eqb_eq in E. subst. replace (S k - k)%nat with 1%nat by lia. reflexivity.
  - apply Nat.eqb_neq in E. rewrite IH by lia. replace (S s - k)%nat with (S (S s - S k)) by lia. reflexivity. Qed.
(* the exit code handed to every teardown tells success, user error and internal error apart; a failed run has no report *)
Theorem teardown_codes mods n f e : In e (run_mods mods n f) -> forall m c r, e = LTearDown m c r -> c = code_of f.
Proof. intros H m c r ->. unfold run_mods in H. repeat (apply in_app_or in H; destruct H as [H|H]).
  - apply in_map_iff in H. destruct H as (x & E & _). discriminate.
  - exfalso. revert H. generalize 0%nat. induction n as [|n IH]; intros k H; cbn in H; [assumption|].
    destruct H as [H|H]; [discriminate|]. destruct (match fault_at f with Some s => Nat.eqb s k | None => false end); [destruct H|apply (IH _ H)].
  - apply in_map_iff in H. destruct H as (x & E & _). injection E as _ <- _. reflexivity.
  - destruct H as [H|[]]. discriminate. Qed.
Theorem failed_run_has_no_report mods n f : f <> NoFault -> In (LResult true) (run_mods mods n f) -> False.
Proof. intros Hf H. unfold run_mods in H. repeat (apply in_app_or in H; destruct H as [H|H]).
  - apply in_map_iff in H. destruct H as (x & E & _). discriminate.
  - revert H. generalize 0%nat. induction n as [|n IH]; intros k H; cbn in H; [assumption|].
    destruct H as [H|H]; [discriminate|]. destruct (match fault_at f with Some s => Nat.eqb s k | None => false end); [destruct H|apply (IH _ H)].
  - apply in_map_iff in H. destruct H as (x & E & _). discriminate.
  - destruct H as [H|[]]. destruct f; [congruence|discriminate|discriminate]. Qed.
(* every mod is torn down exactly once, in reverse start order, even when some teardown raises *)
Theorem teardown_reverse mods n f :
  exists pre, run_mods mods n f = pre ++ map (fun m => LTearDown (md_id m) (code_of f) (md_teardown_raises m)) (rev (sort_mods mods)) ++
                                   [LResult (match f with NoFault => true | _ => false end)] /\
              forall e, In e pre -> forall m c r, e <> LTearDown m c r.
Proof. eexists. split; [unfold run_mods; rewrite app_assoc; reflexivity|]. intros e H m c r ->. apply in_app_or in H. destruct H as [H|H].
  - apply in_map_iff in H. destruct H as (x & E & _). discriminate.
  - revert H. generalize 0%nat. induction n as [|n IH]; intros k H; cbn in H; [assumption|].
    destruct H as [H|H]; [discriminate|]. destruct (match fault_at f with Some s => Nat.eqb s k | None => false end); [destruct H|apply (IH _ H)]. Qed.
