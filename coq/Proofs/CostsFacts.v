From RQ Require Import Model.Num Model.Costs Proofs.NumFacts.
From Coq Require Import Lqa Lia.
Open Scope Q_scope.

Lemma cost_eq c p q : qmul (qmul (qmul p q) (sc_rate c)) (sc_mult c) == fill_cost c (p, q).
Proof. unfold fill_cost. cbn [fst snd]. qnorm. ring. Qed.

Lemma sum_cost_nonneg c fills : Forall (fun f => 0 <= fill_cost c f) fills -> 0 <= sum_cost c fills.
Proof. induction 1; cbn [sum_cost]; lra. Qed.

(* after the first fill the entry is Some r with  r == max 0 (min - C)  where C is what was spent so far *)
Lemma run_later c r fills :
  0 <= r -> Forall (fun f => 0 <= fill_cost c f) fills ->
  run_commission c (Some r) fills == qmax 0 (sum_cost c fills - r).
Proof.
  revert r. induction fills as [|[p q] t IH]; intros r Hr Hf; cbn [run_commission sum_cost].
  - destruct (qmax_spec 0 (0 - r)) as [[H1 H2]|[H1 H2]]; rewrite H2; lra.
  - inversion Hf as [|? ? Hc Hf']; subst. unfold trade_commission. cbn [cm_read cm_absent].
    pose proof (sum_cost_nonneg c t Hf') as Hs0.
    pose proof (cost_eq c p q) as CE. remember (qmul (qmul (qmul p q) (sc_rate c)) (sc_mult c)) as k eqn:Hk. clear Hk.
    qcase (qlt_b r k) H; cbn [fst snd].
    + rewrite IH; [| lra | assumption].
      destruct (qmax_spec 0 (sum_cost c t - 0)) as [[H1 H2]|[H1 H2]]; rewrite H2;
      destruct (qmax_spec 0 (fill_cost c (p, q) + sum_cost c t - r)) as [[H3 H4]|[H3 H4]]; rewrite H4; qnorm; lra.
    + assert (Hs : 0 <= qsub r k) by (qnorm; lra).
      rewrite IH; [| assumption | assumption].
      destruct (qmax_spec 0 (sum_cost c t - qsub r k)) as [[H1 H2]|[H1 H2]]; rewrite H2;
      destruct (qmax_spec 0 (fill_cost c (p, q) + sum_cost c t - r)) as [[H3 H4]|[H3 H4]]; rewrite H4; qnorm; lra.
Qed.

Theorem split_independent c fills :
  0 <= sc_min c -> Forall (fun f => 0 <= fill_cost c f) fills -> fills <> [] ->
  run_commission c None fills == qmax (sc_min c) (sum_cost c fills).
Proof.
  intros Hm Hf Hne. destruct fills as [|[p q] t]; [congruence|]. inversion Hf as [|? ? Hc Hf']; subst.
  cbn [run_commission sum_cost]. unfold trade_commission. cbn [cm_read cm_absent].
  pose proof (cost_eq c p q) as CE. remember (qmul (qmul (qmul p q) (sc_rate c)) (sc_mult c)) as k eqn:Hk. clear Hk.
  pose proof (sum_cost_nonneg c t Hf') as Hs.
  qcase (qlt_b (sc_min c) k) H; cbn [fst snd].
  - rewrite run_later; [| lra | assumption].
    destruct (qmax_spec 0 (sum_cost c t - 0)) as [[H1 H2]|[H1 H2]]; rewrite H2;
    destruct (qmax_spec (sc_min c) (fill_cost c (p, q) + sum_cost c t)) as [[H3 H4]|[H3 H4]]; rewrite H4; lra.
  - assert (Hr : 0 <= qsub (sc_min c) k) by (qnorm; lra).
    rewrite run_later; [| assumption | assumption].
    destruct (qmax_spec 0 (sum_cost c t - qsub (sc_min c) k)) as [[H1 H2]|[H1 H2]]; rewrite H2;
    destruct (qmax_spec (sc_min c) (fill_cost c (p, q) + sum_cost c t)) as [[H3 H4]|[H3 H4]]; rewrite H4; qnorm; lra.
Qed.

(* the schedule the property names: rate * multiplier * total turnover *)
Fixpoint turnover (fills : list (Q * Q)) : Q := match fills with [] => 0 | (p, q) :: t => p * q + turnover t end.
Lemma sum_cost_turnover c fills : sum_cost c fills == sc_rate c * sc_mult c * turnover fills.
Proof. induction fills as [|[p q] t IH]; cbn [sum_cost turnover]; [ring|]. rewrite IH. unfold fill_cost. cbn [fst snd]. ring. Qed.

Lemma trade_commission_nonneg c e p q :
  0 <= sc_min c -> 0 <= fill_cost c (p, q) -> (forall r, e = Some r -> 0 <= r) ->
  0 <= fst (trade_commission c e p q) /\ (forall r, snd (trade_commission c e p q) = Some r -> 0 <= r).
Proof.
  intros Hm Hc He. unfold trade_commission.
  pose proof (cost_eq c p q) as CE. remember (qmul (qmul (qmul p q) (sc_rate c)) (sc_mult c)) as k eqn:Hk. clear Hk.
  assert (Hread : 0 <= cm_read c e). { destruct e as [r|]; cbn; [apply He; reflexivity|assumption]. }
  qcase (qlt_b (cm_read c e) k) H; destruct (cm_absent e); cbn [fst snd]; split; try lra;
    try (intros r [= <-]); qnorm; lra.
Qed.

Lemma stock_tax_spec c is_cs sell m :
  stock_tax c is_cs sell m == if is_cs && sell then m * sc_tax_rate c * sc_tax_mult c else 0.
Proof. unfold stock_tax. destruct is_cs, sell; cbn [negb andb]; qnorm; reflexivity. Qed.

Lemma stock_tax_nonneg c is_cs sell m : 0 <= m -> 0 <= sc_tax_rate c -> 0 <= sc_tax_mult c -> 0 <= stock_tax c is_cs sell m.
Proof. intros. rewrite stock_tax_spec. destruct (is_cs && sell); [|lra].
  apply Qmult_le_0_compat; [apply Qmult_le_0_compat|]; assumption. Qed.

Lemma pit_tax_rate_spec d : pit_tax_rate d = if (d <? 20230828)%Z then 1 # 1000 else 1 # 2000.
Proof. reflexivity. Qed.

Lemma fut_commission_spec f is_open p q ct :
  fut_commission f is_open p q ct ==
  fc_cmult f *
  (if fc_by_money f then
     if is_open then p * q * fc_mult f * fc_open f
     else p * (q - ct) * fc_mult f * fc_close f + p * ct * fc_mult f * fc_close_today f
   else if is_open then q * fc_open f else (q - ct) * fc_close f + ct * fc_close_today f).
Proof. unfold fut_commission. destruct (fc_by_money f), is_open; qnorm; ring. Qed.

Lemma fut_commission_nonneg f is_open p q ct :
  0 <= p -> 0 <= ct -> ct <= q -> 0 <= fc_mult f -> 0 <= fc_open f -> 0 <= fc_close f -> 0 <= fc_close_today f ->
  0 <= fc_cmult f -> 0 <= fut_commission f is_open p q ct.
Proof.
  intros Hp Hct Hq Hm Ho Hc Ht Hk. rewrite fut_commission_spec.
  assert (H0 : 0 <= q - ct) by lra. assert (Hq0 : 0 <= q) by lra.
  apply Qmult_le_0_compat; [assumption|].
  destruct (fc_by_money f), is_open;
    repeat first [ apply Qmult_le_0_compat | assumption
                 | match goal with |- 0 <= _ + _ => apply (Qplus_le_compat 0 _ 0 _) end ].
Qed.

Theorem split_independent_turnover c fills :
  0 <= sc_min c -> Forall (fun f => 0 <= fill_cost c f) fills -> fills <> [] ->
  run_commission c None fills == qmax (sc_min c) (sc_rate c * sc_mult c * turnover fills).
Proof. intros Hm Hf Hne. rewrite (split_independent c fills Hm Hf Hne). apply qmax_comp; [reflexivity|apply sum_cost_turnover]. Qed.

Lemma trade_tax_spec c is_cs sell p q :
  trade_tax c is_cs sell p q == if is_cs && sell then (p * q) * sc_tax_rate c * sc_tax_mult c else 0.
Proof. unfold trade_tax. rewrite stock_tax_spec. destruct (is_cs && sell); [qnorm|]; reflexivity. Qed.

(* an override (or a bundle entry) keyed by one contract never changes the schedule of another contract *)
Lemma schedule_frame_custom dc du cc cu c c' u o : c <> c' ->
  future_schedule dc du (set_at cc c' o) cu c u = future_schedule dc du cc cu c u.
Proof. intros N. unfold future_schedule, set_at. destruct (Nat.eqb c c') eqn:E; [apply Nat.eqb_eq in E; contradiction|reflexivity]. Qed.
Lemma schedule_frame_default dc du cc cu c c' u f : c <> c' ->
  future_schedule (set_at dc c' f) du cc cu c u = future_schedule dc du cc cu c u.
Proof. intros N. unfold future_schedule, set_at. destruct (Nat.eqb c c') eqn:E; [apply Nat.eqb_eq in E; contradiction|reflexivity]. Qed.
(* without any entry for the contract itself, two contracts of one underlying share the schedule; an entry for the contract wins *)
Lemma schedule_siblings dc du cc cu c c' u : dc c = None -> dc c' = None -> cc c = None -> cc c' = None ->
  future_schedule dc du cc cu c u = future_schedule dc du cc cu c' u.
Proof. intros A B C D. unfold future_schedule, pick. rewrite A, B, C, D. reflexivity. Qed.
Lemma schedule_contract_override_wins dc du cc cu c u f o : pick (dc c) (du u) = Some f -> cc c = Some o ->
  future_schedule dc du cc cu c u = Some (apply_override f o).
Proof. intros A B. unfold future_schedule. rewrite A. unfold pick at 1. rewrite B. reflexivity. Qed.
