From RQ Require Import Model.Num Model.Position Model.Closable Model.Validators Proofs.NumFacts.
From Coq Require Import Lia Lqa.
Open Scope Q_scope.

(* the verdict: rejected iff some enabled validator vetoes; an order that passes every enabled validator is submitted *)
Theorem validate_none_iff g x o :
  validate g x o = None <->
  (v_position g = true -> position_check x o = None) /\ (v_price g = true -> price_check x o = None) /\
  (v_trading g = true -> trading_check x o = None) /\ (v_cash g = true -> cash_check x o = None) /\
  (v_self g = true -> self_trade_check x o = None).
Proof. unfold validate, first_some. cbn [fold_right].
  destruct (v_position g), (v_price g), (v_trading g), (v_cash g), (v_self g);
    destruct (position_check x o), (price_check x o), (trading_check x o), (cash_check x o), (self_trade_check x o);
    split; intros H; try discriminate; try reflexivity; try tauto;
    try (repeat split; intros; congruence);
    try (destruct H as (A & B & C & D & E); try specialize (A eq_refl); try specialize (B eq_refl); try specialize (C eq_refl);
         try specialize (D eq_refl); try specialize (E eq_refl); congruence). Qed.
(* first veto wins *)
Theorem first_veto g x o r : v_position g = true -> position_check x o = Some r -> validate g x o = Some r.
Proof. intros G H. unfold validate, first_some. cbn. rewrite G, H. reflexivity. Qed.
Theorem price_veto_after_position g x o r : (v_position g = true -> position_check x o = None) -> v_price g = true -> price_check x o = Some r ->
  validate g x o = Some r.
Proof. intros P G H. unfold validate, first_some. cbn. rewrite G, H. destruct (v_position g); [rewrite (P eq_refl)|]; reflexivity. Qed.
(* the individual rules *)
Theorem not_listed_rejected x o : vx_is_index x = false -> vx_listed x = false -> trading_check x o = Some VNotListing.
Proof. intros I L. unfold trading_check. rewrite I, L. reflexivity. Qed.
Theorem suspended_rejected x o : vx_listed x = true -> vx_is_cs x = true -> vx_suspended x = true -> trading_check x o = Some VSuspended.
Proof. intros L C S. unfold trading_check. rewrite L, C, S. cbn. destruct (vx_is_index x); reflexivity. Qed.
Theorem limit_outside_band_rejected x o lu ld : vo_limit o = true -> vx_limit_up x = Some lu -> vx_limit_down x = Some ld ->
  (price_check x o = None <-> ld <= vo_price o /\ vo_price o <= lu).
Proof. intros L U D. unfold price_check. rewrite L, U, D. cbn [negb].
  destruct (qlt_b lu (vo_price o)) eqn:A; [apply qlt_b_true in A|apply qlt_b_false in A].
  - split; [discriminate|intros [_ H]; lra].
  - destruct (qlt_b (vo_price o) ld) eqn:B; [apply qlt_b_true in B|apply qlt_b_false in B].
    + split; [discriminate|intros [H _]; lra]. + split; [intros _; split; assumption|reflexivity]. Qed.
Theorem uncovered_open_rejected x o : vo_effect o = Open -> (cash_check x o = None <-> vx_cost x <= vx_cash x).
Proof. intros E. unfold cash_check. rewrite E. destruct (qle_b (vx_cost x) (vx_cash x)) eqn:C; [apply qle_b_true in C|apply qle_b_false in C].
  - split; auto. - split; [discriminate|intros H; lra]. Qed.
Theorem oversized_close_rejected x o : vo_effect o = Close ->
  (position_check x o = None <-> vo_qty o <= closable (fst (vx_closable x)) (snd (vx_closable x))).
Proof. intros E. unfold position_check, validate_close. rewrite E.
  destruct (qle_b (vo_qty o) (closable (fst (vx_closable x)) (snd (vx_closable x)))) eqn:C; [apply qle_b_true in C|apply qle_b_false in C].
  - split; auto. - split; [discriminate|intros H; lra]. Qed.
