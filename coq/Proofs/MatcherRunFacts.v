(* The per-bar liquidity cap as an invariant of the matcher state machine, for every sequence of matcher calls. *)
From Coq Require Import Lia Lqa.
From RQ Require Import Model.Num Model.Position Model.Matcher Model.MatcherRun Proofs.NumFacts Proofs.MatcherFacts.
Open Scope Q_scope.

Lemma tget_tadd_same m k x : tget (tadd m k x) k == tget m k + x.
Proof. unfold tadd. cbn [tget]. rewrite Nat.eqb_refl. qnorm. reflexivity. Qed.
Lemma tget_tadd_other m k k' x : k' <> k -> tget (tadd m k x) k' = tget m k'.
Proof. intros N. unfold tadd. cbn [tget]. destruct (Nat.eqb k' k) eqn:E; [apply Nat.eqb_eq in E; contradiction|reflexivity]. Qed.

(* a matcher call that the cap of instrument k (volume v, fraction pct) governs: other instruments are unconstrained *)
Definition governed (k : nat) (v pct : Q) (op : mop) : Prop :=
  match op with
  | MUpdate => True
  | MMatch k' a => k' = k -> m_volume_limit (a_g a) = true /\ m_volume_percent (a_g a) = pct /\ a_vol a = Some v /\
                             0 < a_unfilled a /\ 0 < i_lot (a_i a)
  end.

Section Cap.
  Variables (k : nat) (v pct : Q).
  Notation R := (zq (qround_even (qmul v pct))).
  Definition Inv (s : mstate) : Prop :=
    fills_of k (ms_fills s) == tget (ms_turnover s) k /\ 0 <= tget (ms_turnover s) k /\ tget (ms_turnover s) k <= Qmax 0 R.

  Lemma inv_init : Inv ms_init.
  Proof. unfold Inv, ms_init. cbn. split; [reflexivity|]. split; [lra|]. apply Q.le_max_l. Qed.

  Lemma inv_step s op : Inv s -> governed k v pct op -> Inv (mstep s op).
  Proof.
    intros (A & B & C) G. destruct op as [|k' a]; [apply inv_init|].
    cbn [mstep]. destruct (run_match (tget (ms_turnover s) k') a) as [| | |price qty ct rc] eqn:M; try (split; [|split]; assumption).
    unfold Inv. cbn [ms_turnover ms_fills fills_of].
    destruct (Nat.eqb k k') eqn:E.
    - apply Nat.eqb_eq in E. subst k'. cbn [governed] in G. destruct (G eq_refl) as (VL & PC & EV & HU & HL).
      unfold run_match in M.
      destruct (fill_quantity_shape _ _ _ _ _ _ _ _ _ _ _ _ _ _ _ _ M HU HL) as (P & _ & _ & CAP).
      specialize (CAP VL v EV). rewrite PC in CAP.
      rewrite tget_tadd_same. split; [rewrite A; lra|]. split; [lra|].
      eapply Qle_trans; [exact CAP|]. apply Q.le_max_r.
    - assert (N : k <> k') by (intro; subst; rewrite Nat.eqb_refl in E; discriminate).
      rewrite (tget_tadd_other _ _ _ _ N). split; [|split]; assumption.
  Qed.

  Lemma inv_run ops : forall s, Inv s -> Forall (governed k v pct) ops -> Inv (fold_left mstep ops s).
  Proof. induction ops as [|op ops IH]; intros s I F; cbn [fold_left]; [exact I|].
    inversion F as [|? ? G F']; subst. apply IH; [apply inv_step; assumption|assumption]. Qed.

  (* for every sequence of matcher calls and updates: the quantity traded in instrument k since the last update is what the matcher
     has booked, and never exceeds round(volume * fraction) *)
  Theorem total_fills_per_bar ops : Forall (governed k v pct) ops ->
    fills_of k (ms_fills (mrun ops)) == tget (ms_turnover (mrun ops)) k /\ fills_of k (ms_fills (mrun ops)) <= Qmax 0 R.
  Proof. intros F. destruct (inv_run ops ms_init inv_init F) as (A & B & C). split; [exact A|]. rewrite A. exact C. Qed.
End Cap.

(* the same invariant against the allowance rounded down to whole lots (what the property names): needs the lot size of the calls on k *)
Definition governed_lots (k : nat) (v pct lot : Q) (op : mop) : Prop :=
  governed k v pct op /\ match op with MUpdate => True | MMatch k' a => k' = k -> i_lot (a_i a) = lot end.
Section CapLots.
  Variables (k : nat) (v pct lot : Q).
  Notation RL := (qmul (zq (Qfloor (qdiv (zq (qround_even (qmul v pct))) lot))) lot).
  Definition InvL (s : mstate) : Prop :=
    fills_of k (ms_fills s) == tget (ms_turnover s) k /\ 0 <= tget (ms_turnover s) k /\ tget (ms_turnover s) k <= Qmax 0 RL.
  Lemma invl_init : InvL ms_init.
  Proof. unfold InvL, ms_init. cbn. split; [reflexivity|]. split; [lra|]. apply Q.le_max_l. Qed.
  Lemma invl_step s op : InvL s -> governed_lots k v pct lot op -> InvL (mstep s op).
  Proof.
    intros (A & B & C) [G GL]. destruct op as [|k' a]; [apply invl_init|].
    cbn [mstep]. destruct (run_match (tget (ms_turnover s) k') a) as [| | |price qty ct rc] eqn:M; try (split; [|split]; assumption).
    unfold InvL. cbn [ms_turnover ms_fills fills_of].
    destruct (Nat.eqb k k') eqn:E.
    - apply Nat.eqb_eq in E. subst k'. cbn [governed] in G. destruct (G eq_refl) as (VL & PC & EV & HU & HL). specialize (GL eq_refl).
      unfold run_match in M.
      destruct (fill_quantity_shape _ _ _ _ _ _ _ _ _ _ _ _ _ _ _ _ M HU HL) as (P & _ & _ & _).
      pose proof (fill_within_lot_cap _ _ _ _ _ _ _ _ _ _ _ _ _ _ _ _ M HL VL v EV) as CAP. unfold lot_cap in CAP. rewrite PC, GL in CAP.
      rewrite tget_tadd_same. split; [rewrite A; lra|]. split; [lra|].
      eapply Qle_trans; [exact CAP|]. apply Q.le_max_r.
    - assert (N : k <> k') by (intro; subst; rewrite Nat.eqb_refl in E; discriminate).
      rewrite (tget_tadd_other _ _ _ _ N). split; [|split]; assumption.
  Qed.
  Lemma invl_run ops : forall s, InvL s -> Forall (governed_lots k v pct lot) ops -> InvL (fold_left mstep ops s).
  Proof. induction ops as [|op ops IH]; intros s I F; cbn [fold_left]; [exact I|].
    inversion F as [|? ? G F']; subst. apply IH; [apply invl_step; assumption|assumption]. Qed.
  Theorem total_fills_per_bar_lots ops : Forall (governed_lots k v pct lot) ops ->
    fills_of k (ms_fills (mrun ops)) <= Qmax 0 RL.
  Proof. intros F. destruct (invl_run ops ms_init invl_init F) as (A & B & C). rewrite A. exact C. Qed.
End CapLots.

(* the bookkeeping the correspondence replays is the model's: after a filled call the turnover is the old one plus the fill *)
Lemma mstep_turnover s k a : tget (ms_turnover (mstep s (MMatch k a))) k ==
  tget (ms_turnover s) k + match run_match (tget (ms_turnover s) k) a with Filled _ q _ _ => q | _ => 0 end.
Proof. cbn [mstep]. destruct (run_match (tget (ms_turnover s) k) a); try lra. cbn [ms_turnover]. apply tget_tadd_same. Qed.
