From RQ Require Import Model.Num Model.Position Model.Matcher Model.Order Proofs.NumFacts.
From Coq Require Import Lqa Lia.
Open Scope Q_scope.

Definition pstate_of (o : ostate) : pstate :=
  match os_status o with PendingNew => P0 | Active => P2 | SFilled => P2 | PendingCancel => P3 | _ => PDone end.

Definition OWF (o : ostate) : Prop :=
  0 < os_qty o /\ 0 <= os_filled o /\ os_filled o <= os_qty o /\
  match os_status o with
  | PendingNew => os_place o = Nowhere /\ os_filled o == 0
  | Active => os_place o <> Nowhere /\ os_filled o < os_qty o
  | SFilled => os_place o = Nowhere /\ os_filled o == os_qty o
  | SCancelled | SRejected => os_place o = Nowhere /\ os_filled o < os_qty o
  | PendingCancel => False            (* never entered in back-testing: cancel_order goes straight to CANCELLED *)
  end.
(* inputs the broker can produce: fills are positive and within the remainder (C06), and a trading day's
   before_trading follows the previous day's after_trading (C08), so nothing is resting in _open_orders *)
Definition in_ok (o : ostate) (i : oin) : Prop :=
  match i with
  | IMatch (Filled _ q _ _) _ => 0 < q /\ q <= os_qty o - os_filled o
  | IBeforeTrading => os_place o <> InOpen
  | ICancel => os_status o <> PendingNew      (* only orders handed back by an order API (submitted ones) can be cancelled *)
  | _ => True
  end.

Definition legal (a b : status) : Prop :=
  a = b \/ (a = PendingNew /\ (b = Active \/ b = SRejected)) \/ (a = Active /\ (b = SFilled \/ b = SCancelled \/ b = SRejected)).

Lemma prun_app p a b : prun p (a ++ b) = prun (prun p a) b.
Proof. unfold prun. apply fold_left_app. Qed.

Lemma order_fill_status o p q f : OWF o -> os_status o = Active -> 0 < q -> q <= os_qty o - os_filled o ->
  let o1 := order_fill o p q f in
  os_filled o1 == os_filled o + q /\ os_tcost o1 == os_tcost o + f /\
  os_avg o1 * os_filled o1 == os_avg o * os_filled o + p * q /\
  ((os_status o1 = SFilled /\ os_filled o1 == os_qty o1) \/ (os_status o1 = Active /\ os_filled o1 < os_qty o1)) /\
  os_qty o1 = os_qty o /\ os_place o1 = os_place o.
Proof.
  intros (Hq & Hf0 & Hfq & Hs) A Hq0 Hq1 o1. unfold o1, order_fill. cbn [os_filled os_tcost os_avg os_status os_qty os_place].
  split; [qnorm; reflexivity|]. split; [qnorm; reflexivity|]. split; [qnorm; field; lra|]. split; [|split; reflexivity].
  destruct (qeq_b (qsub (os_qty o) (qadd (os_filled o) q)) 0) eqn:E.
  - left. split; [reflexivity|]. apply qeq_b_true in E. revert E. qnorm. intros E. lra.
  - right. split; [assumption|]. apply qeq_b_false in E. revert E. qnorm. intros E.
    destruct (Qlt_le_dec (os_filled o + q) (os_qty o)); [assumption|]. exfalso. apply E. lra.
Qed.

Theorem ostep_ok o i : OWF o -> in_ok o i ->
  OWF (fst (ostep o i)) /\ prun (pstate_of o) (snd (ostep o i)) = pstate_of (fst (ostep o i)) /\
  legal (os_status o) (os_status (fst (ostep o i))) /\
  os_filled (fst (ostep o i)) == os_filled o + traded_qty (snd (ostep o i)) /\
  os_avg (fst (ostep o i)) * os_filled (fst (ostep o i)) == os_avg o * os_filled o + traded_value (snd (ostep o i)) /\
  os_tcost (fst (ostep o i)) == os_tcost o + traded_fees (snd (ostep o i)).
Proof.
  intros W I. pose proof W as (Hq & Hf0 & Hfq & Hs).
  assert (Same : forall o', o' = o -> OWF o' /\ prun (pstate_of o) [] = pstate_of o' /\ legal (os_status o) (os_status o') /\
             os_filled o' == os_filled o + 0 /\ os_avg o' * os_filled o' == os_avg o * os_filled o + 0 /\ os_tcost o' == os_tcost o + 0).
  { intros o' ->. repeat split; try assumption; try (left; reflexivity); ring. }
  destruct i as [auction|r fee| | |]; cbn [ostep].
  - (* submit *) destruct (os_status o) eqn:S, (os_place o) eqn:P; cbn [fst snd traded_qty traded_value traded_fees]; try (apply Same; reflexivity).
    destruct Hs as [_ Hz]. unfold OWF, pstate_of, with_status; cbn [os_status os_qty os_filled os_place os_avg os_tcost]. rewrite S.
    repeat split; try assumption; try lra; try (destruct auction; discriminate); try ring.
    right. left. split; auto.
  - (* match *) destruct (os_place o) eqn:P; [apply Same; reflexivity| |];
    (destruct (os_status o) eqn:S; cbn [is_final];
     [ destruct Hs as [Hp _]; congruence
     | (* Active *)
       destruct Hs as [Hp Hlt];
       destruct r as [|rr|rr|price qty ct rc]; cbn [fst snd traded_qty traded_value traded_fees];
       [ unfold OWF, pstate_of, with_status; cbn [os_status os_qty os_filled os_place os_avg os_tcost]; rewrite S;
         repeat split; try assumption; try discriminate; try (left; reflexivity); ring
       | unfold out, mark, with_status; rewrite S; cbn [is_final os_status os_qty os_filled os_place os_avg os_tcost];
         unfold OWF, pstate_of; cbn [os_status os_qty os_filled os_place os_avg os_tcost]; rewrite S;
         repeat split; try assumption; try reflexivity; try (right; right; split; auto); ring
       | unfold out, mark, with_status; rewrite S; cbn [is_final os_status os_qty os_filled os_place os_avg os_tcost];
         unfold OWF, pstate_of; cbn [os_status os_qty os_filled os_place os_avg os_tcost]; rewrite S;
         repeat split; try assumption; try reflexivity; try (right; right; split; auto); ring
       | cbn [in_ok] in I; destruct I as [I0 I1];
         destruct (order_fill_status o price qty fee W S I0 I1) as (F1 & F2 & F3 & [[F4 F4']|[F4 F4']] & F5 & F6);
         rewrite F4; cbn [is_final];
         [ cbn [fst snd traded_qty traded_value traded_fees]; unfold out, with_status, OWF, pstate_of;
           cbn [os_status os_qty os_filled os_place os_avg os_tcost]; rewrite ?F4, ?S, ?F5 in *;
           repeat split; try assumption; try lra; try reflexivity; try (right; right; split; auto); lra
         | destruct rc; cbn [fst snd traded_qty traded_value traded_fees];
           [ unfold out, mark, with_status; rewrite F4; cbn [is_final os_status os_qty os_filled os_place os_avg os_tcost];
             unfold OWF, pstate_of; cbn [os_status os_qty os_filled os_place os_avg os_tcost]; rewrite ?S, ?F5 in *;
             repeat split; try assumption; try lra; try reflexivity; try (right; right; split; auto); lra
           | unfold with_status, OWF, pstate_of; cbn [os_status os_qty os_filled os_place os_avg os_tcost]; rewrite ?F4, ?S, ?F5 in *;
             repeat split; try assumption; try lra; try discriminate; try reflexivity; try (left; reflexivity); lra ] ] ]
     | destruct Hs as [Hp _]; congruence | destruct Hs as [Hp _]; congruence | destruct Hs as [Hp _]; congruence | contradiction ]).
  - (* cancel *) destruct (os_status o) eqn:S; cbn [is_final fst snd traded_qty traded_value traded_fees]; try (apply Same; reflexivity); try contradiction;
    try (cbn [in_ok] in I; exfalso; apply I; assumption).
    + destruct Hs as [Hp Hlt]. unfold out, mark, with_status; rewrite S; cbn [is_final os_status os_qty os_filled os_place os_avg os_tcost].
      unfold OWF, pstate_of; cbn [os_status os_qty os_filled os_place os_avg os_tcost]; rewrite S.
      repeat split; try assumption; try reflexivity; try (right; right; split; auto); ring.
  - (* before trading *) cbn [in_ok] in I. destruct (os_place o) eqn:P; cbn [fst snd traded_qty traded_value traded_fees]; try (apply Same; reflexivity). congruence.
  - (* after trading *) destruct (os_place o) eqn:P; cbn [fst snd traded_qty traded_value traded_fees]; try (apply Same; reflexivity).
    destruct (os_status o) eqn:S; try (destruct Hs as [Hp _]; congruence); try contradiction.
    destruct Hs as [Hp Hlt]. unfold out, mark, with_status; rewrite S; cbn [is_final os_status os_qty os_filled os_place os_avg os_tcost].
    unfold OWF, pstate_of; cbn [os_status os_qty os_filled os_place os_avg os_tcost]; rewrite S.
    repeat split; try assumption; try reflexivity; try (right; right; split; auto); ring.
Qed.

Fixpoint ins_ok (o : ostate) (ins : list oin) : Prop :=
  match ins with [] => True | i :: t => in_ok o i /\ ins_ok (fst (ostep o i)) t end.

Lemma traded_qty_app a b : traded_qty (a ++ b) == traded_qty a + traded_qty b.
Proof. induction a as [|[| |p q f|s| |] t IH]; cbn; try rewrite IH; ring. Qed.
Lemma traded_value_app a b : traded_value (a ++ b) == traded_value a + traded_value b.
Proof. induction a as [|[| |p q f|s| |] t IH]; cbn; try rewrite IH; ring. Qed.
Lemma traded_fees_app a b : traded_fees (a ++ b) == traded_fees a + traded_fees b.
Proof. induction a as [|[| |p q f|s| |] t IH]; cbn; try rewrite IH; ring. Qed.

Theorem orun_ok ins : forall o, OWF o -> ins_ok o ins ->
  OWF (fst (orun o ins)) /\ prun (pstate_of o) (snd (orun o ins)) = pstate_of (fst (orun o ins)) /\
  os_filled (fst (orun o ins)) == os_filled o + traded_qty (snd (orun o ins)) /\
  os_avg (fst (orun o ins)) * os_filled (fst (orun o ins)) == os_avg o * os_filled o + traded_value (snd (orun o ins)) /\
  os_tcost (fst (orun o ins)) == os_tcost o + traded_fees (snd (orun o ins)).
Proof.
  induction ins as [|i t IH]; intros o W I; cbn [orun fst snd].
  - split; [assumption|]. split; [reflexivity|]. cbn [traded_qty traded_value traded_fees]. repeat split; ring.
  - destruct I as [I0 It]. destruct (ostep_ok o i W I0) as (W1 & P1 & _ & Q1 & V1 & F1).
    destruct (IH _ W1 It) as (W2 & P2 & Q2 & V2 & F2).
    rewrite prun_app, P1, traded_qty_app, traded_value_app, traded_fees_app. split; [exact W2|]. split; [exact P2|]. repeat split; lra.
Qed.

Lemma fresh_wf qty : 0 < qty -> OWF (fresh_order qty).
Proof. intros H. unfold OWF, fresh_order; cbn. repeat split; try lra; reflexivity. Qed.
Lemma pstate_of_not_fail o : pstate_of o <> PFail.
Proof. unfold pstate_of. destruct (os_status o); discriminate. Qed.

(* every order's events follow the protocol, whatever the inputs *)
Theorem protocol_respected qty ins : 0 < qty -> ins_ok (fresh_order qty) ins ->
  prun P0 (snd (orun (fresh_order qty) ins)) <> PFail.
Proof. intros H I. destruct (orun_ok ins _ (fresh_wf qty H) I) as (_ & P & _). change P0 with (pstate_of (fresh_order qty)). rewrite P.
  apply pstate_of_not_fail. Qed.
(* fill accounting against the announced trades *)
Theorem fill_accounting qty ins : 0 < qty -> ins_ok (fresh_order qty) ins ->
  let o := fst (orun (fresh_order qty) ins) in let evs := snd (orun (fresh_order qty) ins) in
  os_filled o == traded_qty evs /\ os_filled o <= os_qty o /\ (os_status o = SFilled <-> os_filled o == os_qty o) /\
  os_avg o * os_filled o == traded_value evs /\ os_tcost o == traded_fees evs.
Proof. intros H I o evs. destruct (orun_ok ins _ (fresh_wf qty H) I) as (W & _ & Q & V & F). fold o in W, Q, V, F. fold evs in Q, V, F.
  cbn [fresh_order os_filled os_avg os_tcost] in *. destruct W as (Hq & Hf0 & Hfq & Hs).
  repeat split; try lra.
  - intros E. rewrite E in Hs. tauto.
  - intros E. destruct (os_status o); try reflexivity; try (destruct Hs as [_ Hs]; lra); contradiction.
Qed.
(* final states are absorbing and silent *)
Theorem final_absorbing o i : OWF o -> is_final (os_status o) = true -> ostep o i = (o, []).
Proof. intros (Hq & Hf0 & Hfq & Hs) F. destruct (os_status o) eqn:S; try discriminate; destruct Hs as [Hp _];
  destruct i as [a|r f| | |]; cbn [ostep]; rewrite ?S, ?Hp; cbn [is_final]; try reflexivity; destruct a; reflexivity. Qed.
(* nothing is left in the open list after the close; a non-final order is listed *)
Theorem nothing_open_after_close o : OWF o -> os_place (fst (ostep o IAfterTrading)) <> InOpen.
Proof. intros W. cbn [ostep]. destruct (os_place o) eqn:P; cbn [fst]; try congruence. unfold out, with_status. cbn. discriminate. Qed.
Theorem handed_back_is_final_or_listed o : OWF o -> os_status o <> PendingNew -> is_final (os_status o) = true \/ os_place o <> Nowhere.
Proof. intros (Hq & Hf0 & Hfq & Hs) N. destruct (os_status o); try congruence; cbn; try (left; reflexivity); try contradiction.
  right. tauto. Qed.

