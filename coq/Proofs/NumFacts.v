From RQ Require Import Model.Num.
From Coq Require Import Lqa Lia.
Open Scope Q_scope.

Lemma qadd_ok x y : qadd x y == x + y. Proof. unfold qadd; apply Qred_correct. Qed.
Lemma qsub_ok x y : qsub x y == x - y. Proof. unfold qsub; apply Qred_correct. Qed.
Lemma qmul_ok x y : qmul x y == x * y. Proof. unfold qmul; apply Qred_correct. Qed.
Lemma qdiv_ok x y : qdiv x y == x / y. Proof. unfold qdiv; apply Qred_correct. Qed.
Lemma qneg_ok x : qneg x == - x. Proof. unfold qneg; apply Qred_correct. Qed.

Global Instance qadd_comp : Proper (Qeq ==> Qeq ==> Qeq) qadd.
Proof. intros a b H c d H'. rewrite !qadd_ok, H, H'. reflexivity. Qed.
Global Instance qsub_comp : Proper (Qeq ==> Qeq ==> Qeq) qsub.
Proof. intros a b H c d H'. rewrite !qsub_ok, H, H'. reflexivity. Qed.
Global Instance qmul_comp : Proper (Qeq ==> Qeq ==> Qeq) qmul.
Proof. intros a b H c d H'. rewrite !qmul_ok, H, H'. reflexivity. Qed.
Global Instance qdiv_comp : Proper (Qeq ==> Qeq ==> Qeq) qdiv.
Proof. intros a b H c d H'. rewrite !qdiv_ok, H, H'. reflexivity. Qed.
Global Instance qneg_comp : Proper (Qeq ==> Qeq) qneg.
Proof. intros a b H. rewrite !qneg_ok, H. reflexivity. Qed.

(* unfold the normalising operations everywhere *)
Ltac qnorm := rewrite ?qadd_ok, ?qsub_ok, ?qmul_ok, ?qdiv_ok, ?qneg_ok in *.

Lemma qle_b_true x y : qle_b x y = true <-> x <= y.
Proof. unfold qle_b. apply Qle_bool_iff. Qed.
Lemma qle_b_false x y : qle_b x y = false <-> y < x.
Proof. unfold qle_b. split; intro H.
  - destruct (Qlt_le_dec y x) as [L|L]; [assumption|]. apply Qle_bool_iff in L. congruence.
  - apply not_true_is_false. intro E. apply Qle_bool_iff in E. lra. Qed.
Lemma qlt_b_true x y : qlt_b x y = true <-> x < y.
Proof. unfold qlt_b. rewrite negb_true_iff. apply qle_b_false. Qed.
Lemma qlt_b_false x y : qlt_b x y = false <-> y <= x.
Proof. unfold qlt_b. rewrite negb_false_iff. apply qle_b_true. Qed.
Lemma qeq_b_true x y : qeq_b x y = true <-> x == y.
Proof. unfold qeq_b. apply Qeq_bool_iff. Qed.
Lemma qeq_b_false x y : qeq_b x y = false <-> ~ x == y.
Proof. unfold qeq_b. split; intro H.
  - intro E. apply Qeq_bool_iff in E. congruence.
  - apply not_true_is_false. intro E. apply Qeq_bool_iff in E. contradiction. Qed.

Lemma qmax_spec x y : (x <= y /\ qmax x y = y) \/ (y < x /\ qmax x y = x).
Proof. unfold qmax. destruct (qle_b x y) eqn:E; [left|right]; split; try reflexivity.
  - apply qle_b_true; assumption. - apply qle_b_false; assumption. Qed.
Lemma qmin_spec x y : (x <= y /\ qmin x y = x) \/ (y < x /\ qmin x y = y).
Proof. unfold qmin. destruct (qle_b x y) eqn:E; [left|right]; split; try reflexivity.
  - apply qle_b_true; assumption. - apply qle_b_false; assumption. Qed.

(* case split on a boolean comparison, turning it into an (in)equality hypothesis *)
Ltac qcase b H :=
  let E := fresh "E" in
  destruct b eqn:E;
  [ first [ apply qle_b_true in E | apply qlt_b_true in E | apply qeq_b_true in E ]
  | first [ apply qle_b_false in E | apply qlt_b_false in E | apply qeq_b_false in E ] ];
  rename E into H.

Lemma zq_pos z : (0 < z)%Z -> 0 < zq z.
Proof. intros H. unfold zq, inject_Z, Qlt. cbn. lia. Qed.
Lemma zq_nonneg z : (0 <= z)%Z -> 0 <= zq z.
Proof. intros H. unfold zq, inject_Z, Qle. cbn. lia. Qed.
Lemma zq_neq0 z : (z <> 0)%Z -> ~ zq z == 0.
Proof. intros H E. unfold zq, inject_Z, Qeq in E. cbn in E. lia. Qed.
Lemma zq_add a b : zq (a + b) == zq a + zq b. Proof. unfold zq. rewrite inject_Z_plus. reflexivity. Qed.
Lemma zq_sub a b : zq (a - b) == zq a - zq b.
Proof. unfold zq, Zminus. rewrite inject_Z_plus, inject_Z_opp. ring. Qed.
Lemma zq_mul a b : zq (a * b) == zq a * zq b. Proof. unfold zq. rewrite inject_Z_mult. reflexivity. Qed.
Lemma zq_le a b : (a <= b)%Z -> zq a <= zq b.
Proof. intros H. unfold zq. rewrite <- Zle_Qle. assumption. Qed.

Global Instance qmax_comp : Proper (Qeq ==> Qeq ==> Qeq) qmax.
Proof. intros a b H c d H'.
  destruct (qmax_spec a c) as [[L1 E1]|[L1 E1]]; destruct (qmax_spec b d) as [[L2 E2]|[L2 E2]]; rewrite E1, E2;
  try assumption; rewrite H, H' in L1; lra. Qed.
Global Instance qmin_comp : Proper (Qeq ==> Qeq ==> Qeq) qmin.
Proof. intros a b H c d H'.
  destruct (qmin_spec a c) as [[L1 E1]|[L1 E1]]; destruct (qmin_spec b d) as [[L2 E2]|[L2 E2]]; rewrite E1, E2;
  try assumption; rewrite H, H' in L1; lra. Qed.

Lemma qround_even_int x k : x == zq k -> qround_even x = k.
Proof. intros H. unfold qround_even.
  assert (Hf : Qfloor x = k) by (rewrite H; unfold zq; apply Qfloor_Z).
  rewrite Hf. assert (Hz : qsub x (zq k) == 0) by (qnorm; rewrite H; ring).
  assert (Hlt : qlt_b (qsub x (zq k)) (1 # 2) = true) by (apply qlt_b_true; rewrite Hz; reflexivity).
  rewrite Hlt. reflexivity. Qed.
