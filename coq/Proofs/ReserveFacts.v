From RQ Require Import Model.Num Model.Account Model.Reserve Proofs.NumFacts.
From Coq Require Import Lqa Lia.
Open Scope Q_scope.

Definition wf_order (o : rorder) := 0 < r_qty o /\ 0 <= r_filled o /\ r_filled o < r_qty o /\ 0 <= r_reserve o.
(* protocol conformance of the broker (what C04 establishes): new orders are unfilled with a fresh id,
   a fill is positive and within the unfilled remainder, terminal announcements name an open order at most once *)
Definition wf_ev (s : rstate) (e : rev) : Prop :=
  match e with
  | RPendingNew o => wf_order o /\ r_filled o == 0 /\ rfind (r_id o) (rs_book s) = None
  | RTrade id q => forall o, rfind id (rs_book s) = Some o -> 0 < q /\ q <= r_qty o - r_filled o
  | RTerminal id => True
  end.
Definition RInv (s : rstate) := rs_frozen s == rtotal (rs_book s) /\ Forall wf_order (rs_book s).

Lemma rtotal_app l1 l2 : rtotal (l1 ++ l2) == rtotal l1 + rtotal l2.
Proof. induction l1; cbn; [ring| rewrite IHl1; ring]. Qed.
Lemma rtotal_remove id l o : rfind id l = Some o -> rtotal (rremove id l) == rtotal l - rshare o.
Proof. induction l as [|x t IH]; cbn; [discriminate|]. destruct (Nat.eqb (r_id x) id) eqn:E.
  - intros [= ->]. ring. - intros H. cbn. rewrite IH by assumption. ring. Qed.
Lemma rtotal_replace o' l o : rfind (r_id o') l = Some o -> rtotal (rreplace o' l) == rtotal l - rshare o + rshare o'.
Proof. induction l as [|x t IH]; cbn; [discriminate|]. destruct (Nat.eqb (r_id x) (r_id o')) eqn:E.
  - intros [= ->]. cbn. ring. - intros H. cbn. rewrite IH by assumption. ring. Qed.
Lemma rfind_id id l o : rfind id l = Some o -> r_id o = id.
Proof. induction l as [|x t IH]; cbn; [discriminate|]. destruct (Nat.eqb (r_id x) id) eqn:E; [intros [= ->]; apply Nat.eqb_eq; assumption | assumption]. Qed.
Lemma rfind_wf id l o : Forall wf_order l -> rfind id l = Some o -> wf_order o.
Proof. induction l as [|x t IH]; cbn; [discriminate|]. intros F. inversion F; subst. destruct (Nat.eqb (r_id x) id); [intros [= ->]; assumption | auto]. Qed.
Lemma Forall_rremove id l : Forall wf_order l -> Forall wf_order (rremove id l).
Proof. induction l as [|x t IH]; cbn; [auto|]. intros F; inversion F; subst. destruct (Nat.eqb (r_id x) id); [assumption| constructor; auto]. Qed.
Lemma Forall_rreplace o' l : wf_order o' -> Forall wf_order l -> Forall wf_order (rreplace o' l).
Proof. intros W. induction l as [|x t IH]; cbn; [auto|]. intros F; inversion F; subst. destruct (Nat.eqb (r_id x) (r_id o')); constructor; auto. Qed.

Lemma release_trade_share o q : 0 < r_qty o -> release_trade (Some (r_qty o, r_reserve o)) q == q / r_qty o * r_reserve o.
Proof. intros H. unfold release_trade. destruct (qeq_b q (r_qty o)) eqn:E; cbn [negb].
  - apply qeq_b_true in E. rewrite E. field. lra. - qnorm. reflexivity. Qed.
Lemma release_terminal_share o : 0 < r_qty o -> release_terminal (r_qty o) (r_filled o) (r_reserve o) == rshare o.
Proof. intros H. unfold release_terminal, rshare. destruct (qeq_b (r_filled o) 0) eqn:E; cbn [negb].
  - apply qeq_b_true in E. rewrite E. field. lra. - qnorm. reflexivity. Qed.

Theorem rstep_inv s e : RInv s -> wf_ev s e -> RInv (rstep s e).
Proof.
  intros [HI HW] He. destruct e as [o | id q | id]; cbn [rstep].
  - destruct He as [Wo [Hf _]]. split; cbn [rs_frozen rs_book].
    + qnorm. rewrite rtotal_app, HI. cbn. unfold rshare. rewrite Hf. destruct Wo as [Wq _]. field. lra.
    + apply Forall_app. split; [assumption| constructor; [assumption|constructor]].
  - destruct (rfind id (rs_book s)) as [o|] eqn:F; [|split; assumption].
    pose proof (rfind_wf _ _ _ HW F) as [Wq [Wf0 [Wf Wr]]]. cbn [wf_ev] in He. destruct (He o F) as [Hq0 Hq1].
    pose proof (rfind_id _ _ _ F) as Hid.
    pose proof (release_trade_share o q Wq) as Hrel.
    cbn [r_filled r_qty r_id r_reserve].
    destruct (qeq_b (qadd (r_filled o) q) (r_qty o)) eqn:E; split; cbn [rs_frozen rs_book].
    + apply qeq_b_true in E. revert E. qnorm. intros E. rewrite Hrel, HI, (rtotal_remove id _ o F). unfold rshare.
      assert (Hq : q == r_qty o - r_filled o) by lra. rewrite Hq. ring.
    + apply Forall_rremove; assumption.
    + apply qeq_b_false in E. revert E. qnorm. intros E. rewrite Hrel, HI. rewrite <- Hid in F.
      pose (o' := {| r_id := r_id o; r_qty := r_qty o; r_filled := qadd (r_filled o) q; r_reserve := r_reserve o |}).
      change (r_id o) with (r_id o') in F. fold o'. rewrite (rtotal_replace o' _ o F). unfold rshare, o'; cbn [r_qty r_filled r_reserve].
      qnorm. field. lra.
    + apply qeq_b_false in E. revert E. qnorm. intros E. apply Forall_rreplace; [|assumption].
      unfold wf_order; cbn [r_qty r_filled r_reserve]. qnorm. repeat split; try lra.
      all: try (destruct (Qlt_le_dec (r_filled o + q) (r_qty o)); [assumption|]; exfalso; apply E; lra).
  - destruct (rfind id (rs_book s)) as [o|] eqn:F; [|split; assumption].
    pose proof (rfind_wf _ _ _ HW F) as [Wq _]. pose proof (release_terminal_share o Wq) as Hrel.
    split; cbn [rs_frozen rs_book]; [qnorm; rewrite Hrel, HI, (rtotal_remove id _ o F); ring | apply Forall_rremove; assumption].
Qed.

Fixpoint wf_run (s : rstate) (evs : list rev) : Prop :=
  match evs with [] => True | e :: t => wf_ev s e /\ wf_run (rstep s e) t end.
Theorem frozen_invariant evs : forall s, RInv s -> wf_run s evs -> RInv (fold_left rstep evs s).
Proof. induction evs as [|e t IH]; cbn; intros s I W; [assumption|]. destruct W as [We Wt]. apply IH; [apply rstep_inv; assumption|assumption]. Qed.

Lemma rshare_nonneg o : wf_order o -> 0 <= rshare o.
Proof. intros [Wq [Wf0 [Wf Wr]]]. unfold rshare. apply Qmult_le_0_compat; [|assumption].
  apply Qle_shift_div_l; [assumption|]. lra. Qed.
Lemma rtotal_nonneg l : Forall wf_order l -> 0 <= rtotal l.
Proof. induction 1; cbn; [lra|]. pose proof (rshare_nonneg x H). lra. Qed.
Corollary frozen_nonneg s : RInv s -> 0 <= rs_frozen s.
Proof. intros [H W]. rewrite H. apply rtotal_nonneg; assumption. Qed.
Corollary frozen_zero_when_no_open s : RInv s -> rs_book s = [] -> rs_frozen s == 0.
Proof. intros [H _] B. rewrite H, B. reflexivity. Qed.

(* no overdraft: a fill of an opening stock order at a price not above the frozen price with fees not above the
   estimate takes at most the released reserve out of total cash, so (total cash - reserved) never decreases *)
Lemma open_fill_covered (price fprice q oq fee est reserve : Q) :
  0 < oq -> 0 < q -> q <= oq -> price <= fprice -> 0 <= fprice -> fee <= q / oq * est ->
  reserve == fprice * oq + est ->
  price * q + fee <= q / oq * reserve.
Proof. intros Hoq Hq Hle Hp Hf Hfee Hr. rewrite Hr.
  assert (E : q / oq * (fprice * oq + est) == fprice * q + q / oq * est) by (field; lra). rewrite E.
  assert (price * q <= fprice * q). { apply Qmult_le_compat_r; lra. } lra. Qed.
