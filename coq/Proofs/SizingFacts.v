From RQ Require Import Model.Num Model.Position Model.Sizing Proofs.NumFacts.
From Coq Require Import Lia Lqa ZifyBool.
Ltac Zify.zify_post_hook ::= Z.to_euclidean_division_equations.
Open Scope Q_scope.

(* ---- lot rounding ---- *)
Lemma qtrunc_bounds x : (0 <= x -> 0 <= zq (qtrunc x) /\ zq (qtrunc x) <= x /\ x < zq (qtrunc x) + 1) /\
                        (x <= 0 -> zq (qtrunc x) <= 0 /\ x <= zq (qtrunc x) /\ zq (qtrunc x) - 1 < x).
Proof.
  destruct x as [n d]. unfold qtrunc, zq, inject_Z, Qle, Qlt, Qplus, Qminus, Qopp. cbn [Qnum Qden].
  split; intros H0; cbn in *; rewrite ?Z.mul_1_r in *; repeat split; nia.
Qed.

(* whole lots, never more than requested, less than one lot short *)
Theorem round_lot_spec i q : s_ksh i = false -> (0 < s_lot i)%Z ->
  dec_div q (zq (s_lot i)) == q / zq (s_lot i) ->        (* the quotient has at most 10 significant digits *)
  let r := round_order_quantity i q in
  (s_lot i | r)%Z /\ (0 <= q -> 0 <= zq r /\ zq r <= q /\ q - zq r < zq (s_lot i)) /\ (q <= 0 -> zq r <= 0 /\ q <= zq r /\ zq r - q < zq (s_lot i)).
Proof.
  intros K Hl Hd r. unfold r, round_order_quantity. rewrite K. split; [apply Z.divide_factor_r|].
  assert (Hlq : 0 < zq (s_lot i)) by (apply zq_pos; assumption).
  set (x := dec_div q (zq (s_lot i))). assert (Hx : x == q / zq (s_lot i)) by (unfold x; exact Hd).
  assert (Hq : q == x * zq (s_lot i)) by (rewrite Hx; field; lra).
  destruct (qtrunc_bounds x) as [P N]. rewrite zq_mul. split; intros H0.
  - assert (0 <= x). { rewrite Hx. apply Qle_shift_div_l; lra. } destruct (P H) as (A & B & C).
    repeat split.
    + apply Qmult_le_0_compat; lra.
    + rewrite Hq. apply Qmult_le_compat_r; lra.
    + rewrite Hq. assert ((x - zq (qtrunc x)) * zq (s_lot i) < 1 * zq (s_lot i)) by (apply Qmult_lt_compat_r; lra). lra.
  - assert (x <= 0). { rewrite Hx. apply Qle_shift_div_r; lra. } destruct (N H) as (A & B & C).
    repeat split.
    + assert (0 <= (- zq (qtrunc x)) * zq (s_lot i)) by (apply Qmult_le_0_compat; lra). lra.
    + rewrite Hq. apply Qmult_le_compat_r; lra.
    + rewrite Hq. assert ((zq (qtrunc x) - x) * zq (s_lot i) < 1 * zq (s_lot i)) by (apply Qmult_lt_compat_r; lra). lra.
Qed.
(* STAR market: nothing below 200 shares, otherwise the integer part *)
Theorem round_ksh_spec i q : s_ksh i = true ->
  (qabs q < 200 -> round_order_quantity i q = 0%Z) /\ (200 <= qabs q -> round_order_quantity i q = qtrunc q).
Proof. intros K. unfold round_order_quantity, KSH_MIN. rewrite K. split; intros H.
  - apply qlt_b_true in H. rewrite H. reflexivity.
  - apply qlt_b_false in H. rewrite H. reflexivity. Qed.

(* a request that rounds to zero creates no order *)
Theorem zero_is_noop i amount cq : qeq_b (stock_submit_amount i amount (qlt_b 0 amount) cq) 0 = true -> order_shares_intent i amount cq = None.
Proof. intros H. unfold order_shares_intent. rewrite H. reflexivity. Qed.

(* ---- the budget loop ---- *)
Section Budget.
  Variables (lot : Z) (price budget : Q) (fee : Z -> Q).
  Hypothesis lot_pos : (0 < lot)%Z.
  Definition fits (a : Z) : bool := qle_b (qadd (qmul (zq a) price) (fee a)) budget.
  Lemma loop_spec fuel : forall k, (0 <= k)%Z -> (Z.to_nat k <= fuel)%nat ->
    let r := budget_loop (S fuel) lot price budget fee (k * lot)%Z in
    (exists j, (0 <= j <= k)%Z /\ r = (j * lot)%Z) /\
    (r <> 0%Z -> fits r = true) /\
    (forall j, (0 <= j <= k)%Z -> (r < j * lot)%Z -> fits (j * lot)%Z = false).
  Proof.
    induction fuel as [|f IH]; intros k Hk Hf; cbn [budget_loop].
    - assert (k = 0)%Z by lia. subst. cbn. split; [exists 0%Z; lia|]. split; [congruence|]. intros j Hj Hlt. lia.
    - destruct (0 <? k * lot)%Z eqn:E.
      + assert (0 < k)%Z by nia. fold (fits (k * lot)%Z).
        destruct (fits (k * lot)) eqn:F.
        * split; [exists k; lia|]. split; [intros _; assumption|]. intros j Hj Hlt. nia.
        * replace (k * lot - lot)%Z with ((k - 1) * lot)%Z by ring.
          specialize (IH (k - 1)%Z ltac:(lia) ltac:(lia)). cbv zeta in IH. destruct IH as [[j [Hj Hr]] [Hfit Hmax]].
          split; [exists j; split; [lia|assumption]|]. split; [assumption|].
          intros j' Hj' Hlt. destruct (Z.eq_dec j' k) as [->|Hne]; [assumption|]. apply Hmax; [lia|assumption].
      + assert (k = 0)%Z by nia. subst. split; [exists 0%Z; lia|]. split; [congruence|]. intros j Hj Hlt. lia.
  Qed.
  (* the result is a whole number of lots, fits the budget including the estimated fee, and no larger multiple fits *)
  Theorem budget_loop_spec k : (0 <= k)%Z ->
    let r := budget_loop (S (Z.to_nat ((k * lot) / lot))) lot price budget fee (k * lot)%Z in
    (lot | r)%Z /\ (0 <= r <= k * lot)%Z /\ (r <> 0%Z -> zq r * price + fee r <= budget) /\
    (forall j, (0 <= j <= k)%Z -> (r < j * lot)%Z -> ~ (zq (j * lot) * price + fee (j * lot)%Z <= budget)).
  Proof.
    intros Hk. rewrite Z.div_mul by lia.
    pose proof (loop_spec (Z.to_nat k) k Hk (le_n _)) as [[j [Hj Hr]] [Hfit Hmax]]. cbv zeta in *.
    split; [rewrite Hr; apply Z.divide_factor_r|]. split; [rewrite Hr; nia|]. split.
    - intros Hn. specialize (Hfit Hn). unfold fits in Hfit. apply qle_b_true in Hfit. revert Hfit. qnorm. auto.
    - intros j' Hj' Hlt Hle. specialize (Hmax j' Hj' Hlt). unfold fits in Hmax. apply qle_b_false in Hmax. revert Hmax. qnorm. intros. lra.
  Qed.
End Budget.


(* a value-sized sell never exceeds the closable holding *)
Theorem value_sell_bounded i cash_amount cash price fee closable a : 0 <= closable -> 0 < price -> cash_amount <= 0 ->
  dec_div cash_amount price <= 0 ->        (* rounding to 10 significant digits keeps the sign *)
  order_value_amount i cash_amount cash price fee closable = Some a -> - closable <= a /\ a <= 0.
Proof. intros Hc Hp Hn Hx. unfold order_value_amount.
  assert (E : qlt_b 0 cash_amount = false) by (apply qlt_b_false; assumption). rewrite E, E.
  destruct (qtrunc_bounds (dec_div cash_amount price)) as [_ N]. destruct (N Hx) as (A & B & C).
  destruct (qtrunc (dec_div cash_amount price) <? 0)%Z eqn:S; intros [= <-].
  - destruct (qmax_spec (zq (qtrunc (dec_div cash_amount price))) (qneg closable)) as [[A' B']|[A' B']]; rewrite B'; revert A'; qnorm; intros A'; split; lra.
  - assert (0 <= zq (qtrunc (dec_div cash_amount price))) by (apply zq_nonneg; lia). split; lra. Qed.

(* futures order / order_to: close yesterday's quantity, then today's, then open - in that order and with these quantities *)
Fixpoint req_total (l : list (side * effect * Q)) : Q := match l with [] => 0 | (_, _, q) :: t => q + req_total t end.
Definition eff_rank (e : effect) : nat := match e with Close => 0 | CloseToday => 1 | Open => 2 end.
Fixpoint ranks_sorted (lo : nat) (l : list (side * effect * Q)) : Prop :=
  match l with [] => True | (_, e, _) :: t => (lo <= eff_rank e)%nat /\ ranks_sorted (S (eff_rank e)) t end.
Lemma req_total_app a b : req_total (a ++ b) == req_total a + req_total b.
Proof. induction a as [|[[s e] q] t IH]; cbn; [ring|rewrite IH; ring]. Qed.
Lemma close_leg_spec s e q avail : 0 <= avail -> 0 < q ->
  let r := close_leg s e q avail in
  req_total (fst r) + qmax (snd r) 0 == q /\ snd r <= q /\
  (forall s' e' q', In (s', e', q') (fst r) -> s' = s /\ e' = e /\ 0 < q').
Proof. intros Ha Hq r. unfold r, close_leg. destruct (qlt_b 0 avail) eqn:A; [apply qlt_b_true in A|apply qlt_b_false in A]; cbn [fst snd req_total].
  - destruct (qmin_spec q avail) as [[M1 M2]|[M1 M2]]; rewrite M2;
    destruct (qmax_spec (qsub q avail) 0) as [[X1 X2]|[X1 X2]]; rewrite X2; revert X1; qnorm; intros X1;
    (split; [lra|]); (split; [lra|]); intros s' e' q' [[= <- <- <-]|[]]; repeat split; lra.
  - destruct (qmax_spec q 0) as [[X1 X2]|[X1 X2]]; rewrite X2; (split; [lra|]); (split; [lra|]); intros s' e' q' [].
Qed.
Theorem future_legs_spec s q1 old today : 0 <= old -> 0 <= today -> 0 < q1 ->
  let l := future_legs s q1 old today in
  ranks_sorted 0 l /\ req_total l == q1 /\ (forall s' e' q', In (s', e', q') l -> s' = s /\ 0 < q').
Proof.
  intros Ho Ht Hq l. unfold l, future_legs.
  destruct (close_leg_spec s Close q1 old Ho Hq) as (T1 & B1 & I1). cbv zeta in T1, B1, I1.
  assert (R1 : ranks_sorted 0 (fst (close_leg s Close q1 old)) /\ forall lo', (lo' <= 1)%nat -> True).
  { split; [|auto]. unfold close_leg. destruct (qlt_b 0 old); cbn; auto. }
  destruct (qle_b (snd (close_leg s Close q1 old)) 0) eqn:Q2; [apply qle_b_true in Q2|apply qle_b_false in Q2].
  - destruct (qmax_spec (snd (close_leg s Close q1 old)) 0) as [[X1 X2]|[X1 X2]]; rewrite X2 in T1; [|lra].
    split; [apply R1|]. split; [lra|]. intros s' e' q' Hin. destruct (I1 _ _ _ Hin) as (A & _ & C). auto.
  - destruct (qmax_spec (snd (close_leg s Close q1 old)) 0) as [[X1 X2]|[X1 X2]]; rewrite X2 in T1; [lra|].
    destruct (close_leg_spec s CloseToday (snd (close_leg s Close q1 old)) today Ht Q2) as (T2 & B2 & I2). cbv zeta in T2, B2, I2.
    assert (S12 : ranks_sorted 0 (fst (close_leg s Close q1 old) ++ fst (close_leg s CloseToday (snd (close_leg s Close q1 old)) today))).
    { unfold close_leg. destruct (qlt_b 0 old), (qlt_b 0 today); cbn; repeat split; lia. }
    destruct (qle_b (snd (close_leg s CloseToday (snd (close_leg s Close q1 old)) today)) 0) eqn:Q3; [apply qle_b_true in Q3|apply qle_b_false in Q3].
    + destruct (qmax_spec (snd (close_leg s CloseToday (snd (close_leg s Close q1 old)) today)) 0) as [[Y1 Y2]|[Y1 Y2]]; rewrite Y2 in T2; [|lra].
      split; [exact S12|]. split; [rewrite req_total_app; lra|].
      intros s' e' q' Hin. apply in_app_or in Hin. destruct Hin as [Hin|Hin]; [destruct (I1 _ _ _ Hin) as (A & _ & C)|destruct (I2 _ _ _ Hin) as (A & _ & C)]; auto.
    + destruct (qmax_spec (snd (close_leg s CloseToday (snd (close_leg s Close q1 old)) today)) 0) as [[Y1 Y2]|[Y1 Y2]]; rewrite Y2 in T2; [lra|].
      split.
      * unfold close_leg. destruct (qlt_b 0 old), (qlt_b 0 today); cbn; repeat split; lia.
      * split; [rewrite !req_total_app; cbn [req_total]; lra|].
        intros s' e' q' Hin. apply in_app_or in Hin. destruct Hin as [Hin|Hin]; [destruct (I1 _ _ _ Hin) as (A & _ & C); auto|].
        apply in_app_or in Hin. destruct Hin as [Hin|Hin]; [destruct (I2 _ _ _ Hin) as (A & _ & C); auto|].
        destruct Hin as [[= <- <- <-]|[]]. split; [reflexivity|lra].
Qed.
Theorem future_requests_spec (quantity : Q) (target : bool) (lq sq lold ltod sold stod : Q) :
  0 <= lold -> 0 <= ltod -> 0 <= sold -> 0 <= stod ->
  let q0 := if target then qsub quantity (qsub lq sq) else quantity in
  let l := future_order_requests quantity target lq sq lold ltod sold stod in
  ~ q0 == 0 ->
  ranks_sorted 0 l /\ req_total l == qabs q0 /\
  (forall s e q, In (s, e, q) l -> s = (if qlt_b 0 q0 then Buy else Sell) /\ 0 < q).
Proof.
  intros Hlo Hlt Hso Hst q0 l Hnz. unfold l, future_order_requests. fold q0.
  destruct (qlt_b 0 q0) eqn:B; [apply qlt_b_true in B|apply qlt_b_false in B].
  - assert (Ab : qabs q0 == q0). { unfold qabs. assert (E : qle_b 0 q0 = true) by (apply qle_b_true; lra). rewrite E. reflexivity. }
    rewrite Ab. apply future_legs_spec; assumption.
  - assert (Ab : qabs q0 == - q0). { unfold qabs. destruct (qle_b 0 q0) eqn:E; [apply qle_b_true in E; exfalso; apply Hnz; lra|qnorm; reflexivity]. }
    assert (Hq1 : qmul q0 (-1) == - q0) by (qnorm; ring). assert (Hp : 0 < qmul q0 (-1)) by (rewrite Hq1; lra).
    destruct (future_legs_spec Sell (qmul q0 (-1)) lold ltod Hlo Hlt Hp) as (A & T & I). split; [exact A|]. split; [rewrite T, Hq1, Ab; reflexivity|exact I].
Qed.
