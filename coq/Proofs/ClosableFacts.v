From RQ Require Import Model.Num Model.Position Model.Closable Proofs.NumFacts.
From Coq Require Import Lqa Lia.
Open Scope Q_scope.

Definition cwf_order (o : corder) := 0 < co_unfilled o.
(* the invariant: quantities are non-negative and every resting close is covered *)
Definition CInv (g : ccfg) (s : cstate) : Prop :=
  0 <= cs_old s /\ cs_old s <= cs_qty s /\ 0 <= cs_nc s /\
  sum_unfilled false (cs_book s) + (if cc_stock g && cc_t1 g then cs_nc s else 0) <= cs_qty s /\      (* closable >= 0 *)
  sum_unfilled true (cs_book s) <= cs_qty s - cs_old s /\                                             (* today_closable >= 0 *)
  Forall cwf_order (cs_book s) /\
  (cc_stock g = true -> sum_unfilled true (cs_book s) == 0).                                          (* stocks never close today *)
Definition cwf_ev (g : ccfg) (s : cstate) (e : cev) : Prop :=
  match e with
  | COpenFill q => 0 < q
  | CSubmit id today q => 0 < q /\ cfind id (cs_book s) = None /\ (cc_stock g = true -> today = false)
  | CFill id q => forall o, cfind id (cs_book s) = Some o -> 0 < q /\ q <= co_unfilled o
  | CDrop id => True
  | CNewDay => cs_book s = [] /\ (cc_t1 g = true -> cc_tplus g = true -> True)
  end.

Lemma sum_unfilled_app b l1 l2 : sum_unfilled b (l1 ++ l2) == sum_unfilled b l1 + sum_unfilled b l2.
Proof. induction l1; cbn; [ring|rewrite IHl1; ring]. Qed.
Definition contrib (b : bool) (o : corder) : Q := if b && negb (co_today o) then 0 else co_unfilled o.
Lemma sum_unfilled_remove b id l o : cfind id l = Some o -> sum_unfilled b (cremove id l) == sum_unfilled b l - contrib b o.
Proof. induction l as [|x t IH]; cbn; [discriminate|]. destruct (Nat.eqb (co_id x) id).
  - intros [= ->]. unfold contrib. ring. - intros H. cbn. rewrite IH by assumption. ring. Qed.
Lemma sum_unfilled_replace b o' l o : cfind (co_id o') l = Some o ->
  sum_unfilled b (creplace o' l) == sum_unfilled b l - contrib b o + contrib b o'.
Proof. induction l as [|x t IH]; cbn; [discriminate|]. destruct (Nat.eqb (co_id x) (co_id o')).
  - intros [= ->]. cbn. unfold contrib. ring. - intros H. cbn. rewrite IH by assumption. ring. Qed.
Lemma cfind_id id l o : cfind id l = Some o -> co_id o = id.
Proof. induction l as [|x t IH]; cbn; [discriminate|]. destruct (Nat.eqb (co_id x) id) eqn:E; [intros [= ->]; apply Nat.eqb_eq; assumption|assumption]. Qed.
Lemma cfind_wf id l o : Forall cwf_order l -> cfind id l = Some o -> cwf_order o.
Proof. induction l as [|x t IH]; cbn; [discriminate|]. intros F; inversion F; subst. destruct (Nat.eqb (co_id x) id); [intros [= ->]; assumption|auto]. Qed.
Lemma Forall_cremove id l : Forall cwf_order l -> Forall cwf_order (cremove id l).
Proof. induction l as [|x t IH]; cbn; [auto|]. intros F; inversion F; subst. destruct (Nat.eqb (co_id x) id); [assumption|constructor; auto]. Qed.
Lemma Forall_creplace o' l : cwf_order o' -> Forall cwf_order l -> Forall cwf_order (creplace o' l).
Proof. intros W. induction l as [|x t IH]; cbn; [auto|]. intros F; inversion F; subst. destruct (Nat.eqb (co_id x) (co_id o')); constructor; auto. Qed.
Lemma contrib_today_le o : cwf_order o -> 0 <= contrib true o /\ contrib true o <= contrib false o /\ contrib false o = co_unfilled o.
Proof. unfold cwf_order, contrib. intros H. destruct (co_today o); cbn; repeat split; lra. Qed.
Lemma sum_today_le_all l : Forall cwf_order l -> 0 <= sum_unfilled true l /\ sum_unfilled true l <= sum_unfilled false l.
Proof. induction 1 as [|x t Hx Ht IH]; cbn; [lra|]. destruct (contrib_today_le x Hx) as [A [B C]]. unfold contrib in *. cbn in *.
  destruct (co_today x); cbn in *; lra. Qed.
Lemma cfind_contrib_le b id l o : Forall cwf_order l -> cfind id l = Some o -> contrib b o <= sum_unfilled b l.
Proof. intros F. induction F as [|x t Hx Ht IH]; cbn; [discriminate|].
  assert (0 <= sum_unfilled b t).
  { clear -Ht. induction Ht as [|y u Hy Hu IHu]; cbn; [lra|]. unfold cwf_order in Hy. destruct (b && negb (co_today y)); lra. }
  destruct (Nat.eqb (co_id x) id).
  - intros [= ->]. unfold contrib. lra.
  - intros H'. specialize (IH H'). unfold cwf_order in Hx. destruct (b && negb (co_today x)); lra. Qed.

Lemma cfind_nontoday id l o : Forall cwf_order l -> cfind id l = Some o -> co_today o = false ->
  co_unfilled o + sum_unfilled true l <= sum_unfilled false l.
Proof. intros F. induction F as [|x t Hx Ht IH]; cbn; [discriminate|].
  pose proof (sum_today_le_all t Ht) as [A B]. unfold cwf_order in Hx.
  destruct (Nat.eqb (co_id x) id).
  - intros [= ->] T. rewrite T. cbn. lra.
  - intros H' T. specialize (IH H' T). destruct (co_today x); cbn; lra. Qed.

Theorem cstep_inv g s e : CInv g s -> cwf_ev g s e -> CInv g (cstep g s e).
Proof.
  intros (Ho & Hoq & Hnc & Hc & Ht & Hw & Hs) He.
  destruct e as [q|id today q|id q|id|]; cbn [cstep cwf_ev] in *.
  - (* open fill *) unfold CInv; cbn [cs_qty cs_old cs_nc cs_book].
    destruct (cc_stock g) eqn:S, (cc_t1 g) eqn:T, (cc_tplus g) eqn:P; cbn [andb] in *; repeat split; try lra; try assumption; auto.
    (* T+1 switched on for an instrument without T+1: bought shares are sellable at once, the bound still holds *)
  - destruct He as (Hq & Hfresh & Hst).
    destruct (validate_close g s today q) eqn:V; [|unfold CInv; repeat split; assumption].
    unfold CInv; cbn [cs_qty cs_old cs_nc cs_book]. rewrite !sum_unfilled_app. cbn [sum_unfilled co_today co_unfilled].
    unfold validate_close, closable, today_closable in V.
    destruct today; cbn [andb negb].
    + apply qle_b_true in V.
      destruct (qmin_spec (cs_qty s - cs_old s - sum_unfilled true (cs_book s))
                          (if cc_stock g && cc_t1 g then cs_qty s - sum_unfilled false (cs_book s) - cs_nc s else cs_qty s - sum_unfilled false (cs_book s))) as [[L E]|[L E]];
        rewrite E in V;
        (repeat split; try lra; try assumption;
         [ destruct (cc_stock g && cc_t1 g); lra | apply Forall_app; split; [assumption|repeat constructor; assumption]
         | intros S; specialize (Hst S); discriminate ]).
    + apply qle_b_true in V.
      repeat split; try lra; try assumption;
        [ destruct (cc_stock g && cc_t1 g); lra | apply Forall_app; split; [assumption|repeat constructor; assumption]
        | intros S; rewrite (Hs S); ring ].
  - destruct (cfind id (cs_book s)) as [o|] eqn:F; [|unfold CInv; repeat split; assumption].
    destruct (He o eq_refl) as [Hq Hqu]. pose proof (cfind_wf _ _ _ Hw F) as Wo. pose proof (cfind_id _ _ _ F) as Hid.
    pose proof (cfind_contrib_le false id _ o Hw F) as Lall. pose proof (cfind_contrib_le true id _ o Hw F) as Ltod.
    pose proof (sum_today_le_all _ Hw) as [St0 Stle].
    unfold contrib in Lall, Ltod. cbn [andb] in Lall.
    set (o' := {| co_id := co_id o; co_today := co_today o; co_unfilled := co_unfilled o - q |}).
    assert (Hbook_all : sum_unfilled false (if qeq_b (co_unfilled o) q then cremove id (cs_book s) else creplace o' (cs_book s))
                        == sum_unfilled false (cs_book s) - q).
    { destruct (qeq_b (co_unfilled o) q) eqn:E.
      - apply qeq_b_true in E. rewrite (sum_unfilled_remove false id _ o F). unfold contrib. cbn [andb]. lra.
      - rewrite <- Hid in F. change (co_id o) with (co_id o') in F. rewrite (sum_unfilled_replace false o' _ o F). unfold contrib, o'. cbn. ring. }
    assert (Hbook_tod : sum_unfilled true (if qeq_b (co_unfilled o) q then cremove id (cs_book s) else creplace o' (cs_book s))
                        == sum_unfilled true (cs_book s) - (if co_today o then q else 0)).
    { destruct (qeq_b (co_unfilled o) q) eqn:E.
      - apply qeq_b_true in E. rewrite (sum_unfilled_remove true id _ o F). unfold contrib. destruct (co_today o); cbn; lra.
      - rewrite <- Hid in F. change (co_id o) with (co_id o') in F. rewrite (sum_unfilled_replace true o' _ o F). unfold contrib, o'. cbn.
        destruct (co_today o); cbn; ring. }
    assert (Hwf' : Forall cwf_order (if qeq_b (co_unfilled o) q then cremove id (cs_book s) else creplace o' (cs_book s))).
    { destruct (qeq_b (co_unfilled o) q) eqn:E; [apply Forall_cremove; assumption|]. apply qeq_b_false in E.
      apply Forall_creplace; [|assumption]. unfold cwf_order, o'. cbn. destruct (Qlt_le_dec q (co_unfilled o)); [lra|]. exfalso; apply E; lra. }
    destruct (co_today o) eqn:Tod; unfold CInv; cbn [cs_qty cs_old cs_nc cs_book]; fold o'; rewrite ?Hbook_all, ?Hbook_tod; cbn [negb andb] in *.
    + (* close today: taken from today's quantity *)
      repeat split; try lra; try assumption.
      all: try (destruct (cc_stock g && cc_t1 g); lra).
      all: intros S; specialize (Hs S); unfold cwf_order in Wo; lra.
    + (* ordinary close: yesterday's quantity first *)
      pose proof (cfind_nontoday id _ o Hw F Tod) as Hnt.
      destruct (qmin_spec q (cs_old s)) as [[L E]|[L E]]; rewrite E;
      (repeat split; try lra; try assumption;
       try (destruct (cc_stock g && cc_t1 g); lra); try (intros S; specialize (Hs S); lra)).
  - (* drop *) unfold CInv; cbn [cs_qty cs_old cs_nc cs_book].
    destruct (cfind id (cs_book s)) as [o|] eqn:F.
    + pose proof (cfind_wf _ _ _ Hw F) as Wo. destruct (contrib_today_le o Wo) as [A [B C]].
      rewrite (sum_unfilled_remove false id _ o F), (sum_unfilled_remove true id _ o F).
      unfold cwf_order in Wo. rewrite C in *.
      pose proof (sum_today_le_all _ Hw) as [St0 _]. pose proof (cfind_contrib_le true id _ o Hw F) as Lt.
      repeat split; try lra; try assumption.
      all: try (destruct (cc_stock g && cc_t1 g); lra).
      all: try (apply Forall_cremove; assumption).
      all: intros S; specialize (Hs S); lra.
    + assert (R : cremove id (cs_book s) = cs_book s).
      { clear -F. induction (cs_book s) as [|x t IH]; cbn in *; [reflexivity|]. destruct (Nat.eqb (co_id x) id); [discriminate|]. f_equal. auto. }
      rewrite R. repeat split; assumption.
  - destruct He as [Hb _]. unfold CInv; cbn [cs_qty cs_old cs_nc cs_book]. rewrite Hb in *. cbn [sum_unfilled] in *.
    repeat split; try lra; try constructor.
    all: try (destruct (cc_stock g && cc_t1 g); lra).
    all: try reflexivity.
Qed.

Fixpoint cwf_run g (s : cstate) (evs : list cev) : Prop :=
  match evs with [] => True | e :: t => cwf_ev g s e /\ cwf_run g (cstep g s e) t end.
Theorem closable_invariant g evs : forall s, CInv g s -> cwf_run g s evs -> CInv g (fold_left (cstep g) evs s).
Proof. induction evs as [|e t IH]; cbn; intros s I W; [assumption|]. destruct W as [We Wt]. apply IH; [apply cstep_inv; assumption|assumption]. Qed.

Corollary never_negative g s : CInv g s -> 0 <= cs_qty s /\ 0 <= cs_old s /\ 0 <= closable g s /\ 0 <= today_closable s.
Proof. intros (Ho & Hoq & Hnc & Hc & Ht & Hw & Hs). unfold closable, today_closable.
  repeat split; try lra. destruct (cc_stock g && cc_t1 g); lra. Qed.
(* a rejected close changes nothing *)
Lemma reject_noop g s id today q : validate_close g s today q = false -> cstep g s (CSubmit id today q) = s.
Proof. intros H. cbn. rewrite H. reflexivity. Qed.
(* T+1: what was bought today is not closable today *)
Lemma t1_blocks_today g s q : cc_stock g = true -> cc_t1 g = true -> cc_tplus g = true ->
  closable g (cstep g s (COpenFill q)) == closable g s.
Proof. intros S T P. unfold closable. cbn. rewrite S, T, P. cbn. ring. Qed.
