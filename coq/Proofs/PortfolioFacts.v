From RQ Require Import Model.Num Model.Position Model.Portfolio Proofs.NumFacts Proofs.PositionFacts.
From Coq Require Import Lqa Lia.
Open Scope Q_scope.

Lemma nav_units p tv : ~ pf_units p == 0 -> unit_net_value p tv * pf_units p == tv.
Proof. intros H. unfold unit_net_value. qnorm. field. assumption. Qed.

(* an accepted deposit / withdrawal changes the units but not the unit net value
   (tv1 = 0, everything withdrawn, makes the units 0 and the unit net value undefined: nan in the code) *)
Lemma deposit_flow_neutral p tv0 tv1 : ~ pf_units p == 0 -> ~ tv0 == 0 -> ~ tv1 == 0 ->
  unit_net_value (pf_deposit p tv0 tv1) tv1 == unit_net_value p tv0.
Proof. intros Hu Ht Ht1. unfold pf_deposit, unit_net_value. cbn [pf_units]. unfold unit_net_value. qnorm. field. repeat split; assumption. Qed.
Lemma deposit_units p tv0 tv1 : ~ pf_units p == 0 -> ~ tv0 == 0 ->
  pf_units (pf_deposit p tv0 tv1) == pf_units p * (tv1 / tv0).
Proof. intros Hu Ht. unfold pf_deposit, unit_net_value. cbn [pf_units]. unfold unit_net_value. qnorm. field. split; assumption. Qed.
Lemma latch_keeps_units p tv : pf_units (latch p tv) = pf_units p. Proof. reflexivity. Qed.
Lemma deposit_keeps_static p a b : pf_static (pf_deposit p a b) = pf_static p. Proof. reflexivity. Qed.

(* the day's return is closing nav over the previous close (latched before anything else happens that day) *)
Lemma daily_return_def p tv_prev tv : daily_returns (latch p tv_prev) tv == unit_net_value p tv / unit_net_value p tv_prev - 1.
Proof. unfold daily_returns, latch, unit_net_value. cbn [pf_units pf_static]. qnorm. reflexivity. Qed.

Lemma compound_telescopes navs : forall prev, ~ prev == 0 -> Forall (fun n => ~ n == 0) navs ->
  compound prev navs == lastq prev navs / prev.
Proof. induction navs as [|n t IH]; intros prev Hp Hf; cbn [compound lastq].
  - field. assumption.
  - inversion Hf as [|? ? Hn Ht]; subst. rewrite (IH n Hn Ht). field. split; assumption. Qed.

(* ---- the day's P&L of one entry equals its change of value since the previous close ---- *)
Definition md (c : pcfg) : Q := pc_mult c * dirf c.

(* stock entry: cash moved today = -(trade_cost + transaction_cost) *)
Definition SDay (c : pcfg) (s : pos * Q) : Prop := snd s == - (p_trade_cost (fst s) + p_tcost (fst s)).
Lemma stock_day_step c s e : is_stock c -> (forall t, e = DTrade t -> t_effect t <> CloseToday) -> SDay c s -> SDay c (dstep c s e).
Proof. intros K Hn H. unfold SDay in *. destruct e as [t|price]; cbn [dstep fst snd]; [|assumption]. qnorm. rewrite H.
  specialize (Hn t eq_refl). unfold pos_apply_trade, stock_apply_trade, base_apply_trade. rewrite K.
  destruct (t_effect t); try congruence; [destruct (pc_tplus c)|]; cbn [fst snd p_trade_cost p_tcost]; qnorm; ring. Qed.
Lemma dstep_lold c s e : p_lold (fst (dstep c s e)) = p_lold (fst s).
Proof. destruct e as [t|price]; cbn [dstep fst]; [|reflexivity].
  unfold pos_apply_trade, stock_apply_trade, future_apply_trade, base_apply_trade.
  destruct (pc_kind c), (t_effect t); try destruct (pc_tplus c); reflexivity. Qed.
Lemma dstep_recv c s e : p_recv (fst (dstep c s e)) = p_recv (fst s).
Proof. destruct e as [t|price]; cbn [dstep fst]; [|reflexivity].
  unfold pos_apply_trade, stock_apply_trade, future_apply_trade, base_apply_trade.
  destruct (pc_kind c), (t_effect t); try destruct (pc_tplus c); reflexivity. Qed.

Theorem stock_daily_pnl c p evs prev_close :
  is_stock c -> pc_mult c == 1 -> pc_long c = true ->
  p_trade_cost p == 0 -> p_tcost p == 0 ->
  Forall (fun e => forall t, e = DTrade t -> t_effect t <> CloseToday) evs ->
  let s := drun c p evs in
  entry_daily_pnl c prev_close (fst s) == (equity c (fst s) + snd s) - (prev_close * p_lold p + receivable p).
Proof.
  intros K Hm Hl Htc Hf Hev s.
  assert (Inv : SDay c s /\ p_lold (fst s) = p_lold p /\ p_recv (fst s) = p_recv p).
  { unfold s, drun. assert (G : forall s0, SDay c s0 -> SDay c (fold_left (dstep c) evs s0) /\
                              p_lold (fst (fold_left (dstep c) evs s0)) = p_lold (fst s0) /\ p_recv (fst (fold_left (dstep c) evs s0)) = p_recv (fst s0)).
    { induction Hev as [|e t He Ht IH]; intros s0 H0; cbn [fold_left]; [auto|].
      destruct (IH (dstep c s0 e) (stock_day_step c s0 e K He H0)) as [A [B C]]. rewrite B, C, dstep_lold, dstep_recv. auto. }
    apply (G (p, 0)). unfold SDay. cbn [fst snd]. rewrite Htc, Hf. ring. }
  destruct Inv as [HS [HL HR]]. unfold SDay in HS. unfold entry_daily_pnl, trading_pnl, position_pnl.
  rewrite (stock_equity c _ K). unfold receivable. rewrite HR, HL, HS. unfold dirf. rewrite Hl. qnorm. rewrite Hm.
  destruct (qeq_b (p_lold p) 0) eqn:E; [apply qeq_b_true in E; rewrite E|]; qnorm; ring.
Qed.

(* futures entry: carrying value bookkeeping  qty*avg - realised == trade_cost + lold*a0 *)
Definition FDay (c : pcfg) (a0 : Q) (lold fee0 : Q) (s : pos * Q) : Prop :=
  0 <= p_qty (fst s) /\
  p_qty (fst s) * p_avg (fst s) * md c - (snd s + (p_tcost (fst s) - fee0)) == (p_trade_cost (fst s) + lold * a0) * md c.
Lemma future_day_step c a0 lold fee0 s e : is_future c ->
  (forall t, e = DTrade t -> 0 < t_qty t /\ (t_effect t <> Open -> t_qty t <= p_qty (fst s))) ->
  FDay c a0 lold fee0 s -> FDay c a0 lold fee0 (dstep c s e).
Proof. intros K He [Hq H]. unfold FDay in *. destruct e as [t|price]; cbn [dstep fst snd p_qty p_avg p_tcost p_trade_cost]; [|split; assumption].
  destruct (He t eq_refl) as [Ht Hc]. unfold pos_apply_trade, future_apply_trade, base_apply_trade, md in *. rewrite K.
  destruct (t_effect t) eqn:E; cbn [fst snd p_qty p_avg p_tcost p_trade_cost].
  - assert (Hlt : qlt_b (p_qty (fst s)) 0 = false) by (apply qlt_b_false; assumption). rewrite Hlt. qnorm. split; [lra|].
    assert (Hne : ~ p_qty (fst s) + t_qty t == 0) by lra.
    assert (Eq : (p_qty (fst s) + t_qty t) * ((p_qty (fst s) * p_avg (fst s) + t_qty t * t_price t) / (p_qty (fst s) + t_qty t))
                 == p_qty (fst s) * p_avg (fst s) + t_qty t * t_price t) by (field; assumption).
    assert (G : forall X, (p_qty (fst s) + t_qty t) * X == p_qty (fst s) * p_avg (fst s) + t_qty t * t_price t ->
       (p_qty (fst s) + t_qty t) * X * (pc_mult c * dirf c) - (snd s + -1 * t_fee t + (p_tcost (fst s) + t_fee t - fee0)) ==
       (p_trade_cost (fst s) + t_price t * t_qty t + lold * a0) * (pc_mult c * dirf c)).
    { intros X HX. rewrite HX. lra. }
    apply G. assumption.
  - assert (Hc' : t_qty t <= p_qty (fst s)) by (apply Hc; congruence). qnorm. split; [lra|]. lra.
  - assert (Hc' : t_qty t <= p_qty (fst s)) by (apply Hc; congruence). qnorm. split; [lra|]. lra.
Qed.

Fixpoint fwf_run (c : pcfg) (s : pos * Q) (evs : list dev) : Prop :=
  match evs with
  | [] => True
  | e :: t => (forall tr, e = DTrade tr -> 0 < t_qty tr /\ (t_effect tr <> Open -> t_qty tr <= p_qty (fst s))) /\ fwf_run c (dstep c s e) t
  end.
Lemma future_day_run c a0 lold fee0 evs : is_future c -> forall s, fwf_run c s evs -> FDay c a0 lold fee0 s ->
  FDay c a0 lold fee0 (fold_left (dstep c) evs s) /\ p_lold (fst (fold_left (dstep c) evs s)) = p_lold (fst s).
Proof. intros K. induction evs as [|e t IH]; intros s W H; cbn [fold_left]; [auto|]. destruct W as [We Wt].
  destruct (IH (dstep c s e) Wt (future_day_step c a0 lold fee0 s e K We H)) as [A B]. rewrite B, dstep_lold. auto. Qed.

Theorem future_daily_pnl c p evs :
  is_future c -> 0 <= p_qty p -> p_trade_cost p == 0 -> p_tcost p == 0 -> p_lold p == p_qty p ->
  fwf_run c (p, 0) evs ->
  let s := drun c p evs in
  (* measured from the carrying price of the day's start (= previous close / settlement after the daily rebase) *)
  entry_daily_pnl c (p_avg p) (fst s) == equity c (fst s) + snd s.
Proof.
  intros K Hq Htc Hf Hl W s.
  destruct (future_day_run c (p_avg p) (p_lold p) 0 evs K (p, 0) W) as [[Hq' HF] HL].
  { unfold FDay. cbn [fst snd]. split; [assumption|]. rewrite Htc, Hf, Hl. ring. }
  fold (drun c p evs) in HF, HL, Hq'. fold s in HF, HL, Hq'. cbn [fst] in HL.
  unfold entry_daily_pnl, trading_pnl, position_pnl. rewrite (future_equity c _ K). rewrite HL. unfold md in HF.
  destruct (qeq_b (p_lold p) 0) eqn:E; [apply qeq_b_true in E; rewrite E in *|]; qnorm; lra.
Qed.

(* a flow into a portfolio without value is refused (no state is produced), every other flow is the neutral one *)
Lemma deposit_refused_when_worthless p tv0 tv1 : qeq_b (unit_net_value p tv0) 0 = true -> pf_deposit_checked p tv0 tv1 = None.
Proof. intros H. unfold pf_deposit_checked. rewrite H. reflexivity. Qed.
Lemma deposit_accepted_otherwise p tv0 tv1 : qeq_b (unit_net_value p tv0) 0 = false -> pf_deposit_checked p tv0 tv1 = Some (pf_deposit p tv0 tv1).
Proof. intros H. unfold pf_deposit_checked. rewrite H. reflexivity. Qed.
