(* Scheduler: rqalpha/mod/rqalpha_mod_sys_scheduler/scheduler.py.
   A calendar day carries its proleptic ordinal (date.toordinal()) and yyyymm. *)
From RQ Require Import Model.Num.
Open Scope Z_scope.

Record cday := { c_ord : Z; c_ym : Z }.
Definition week_of (d : cday) : Z := (c_ord d - 1) / 7.          (* ISO weeks: Monday has ordinal = 1 (mod 7) *)
Definition weekday_of (d : cday) : Z := (c_ord d + 6) mod 7.     (* date.weekday(): Monday = 0 *)
Definition same_day (a b : cday) : bool := c_ord a =? c_ord b.

(* _fill_week / _fill_month: the trading days of today's week / month *)
Definition fill_week (cal : list cday) (today : cday) : list cday := filter (fun d => week_of d =? week_of today) cal.
Definition fill_month (cal : list cday) (today : cday) : list cday := filter (fun d => c_ym d =? c_ym today) cal.

Record sched := { sc_week : list cday; sc_month : list cday; sc_last_minute : Z; sc_current_minute : Z }.
Definition last_ord (l : list cday) : Z := c_ord (last l {| c_ord := 0; c_ym := 0 |}).
(* Scheduler.next_day_ *)
Definition next_day (cal : list cday) (start_minute : Z) (s : sched) (today : cday) : sched :=
  {| sc_week := match sc_week s with [] => fill_week cal today | _ => if last_ord (sc_week s) <? c_ord today then fill_week cal today else sc_week s end;
     sc_month := match sc_month s with [] => fill_month cal today | _ => if last_ord (sc_month s) <? c_ord today then fill_month cal today else sc_month s end;
     sc_last_minute := start_minute; sc_current_minute := 0 |}.

Inductive day_rule := DAlways | DWeekday (wd : Z) | DNthWeek (n : Z) | DNthMonth (n : Z).   (* n as stored: 0-based from the front, negative from the back *)
Inductive time_rule := TBeforeTrading | TMinute (n : Z).

(* self._this_week[n] == self._today with Python indexing; IndexError -> False *)
Definition nth_is (l : list cday) (n : Z) (today : cday) : bool :=
  if 0 <=? n then match nth_error l (Z.to_nat n) with Some d => same_day d today | None => false end
  else if (- n) <=? Z.of_nat (length l) then
         match nth_error l (length l - Z.to_nat (- n)) with Some d => same_day d today | None => false end
       else false.
Definition day_ok (s : sched) (today : cday) (r : day_rule) : bool :=
  match r with
  | DAlways => true
  | DWeekday wd => weekday_of today =? wd
  | DNthWeek n => nth_is (sc_week s) n today
  | DNthMonth n => nth_is (sc_month s) n today
  end.
(* _should_trigger *)
Definition in_ranges (ranges : list (Z * Z)) (n : Z) : bool := existsb (fun r => (fst r <=? n) && (n <=? snd r)) ranges.
Definition should_trigger (ranges : list (Z * Z)) (daily before_trading : bool) (s : sched) (n : Z) : bool :=
  if negb (in_ranges ranges n) then false
  else if before_trading then false
  else if daily then true
  else if (n =? 0) && (sc_current_minute s =? n) then true
  else (sc_last_minute s <? n) && (n <=? sc_current_minute s).
Definition time_ok (ranges : list (Z * Z)) (daily before_trading : bool) (s : sched) (r : time_rule) : bool :=
  match r with
  | TBeforeTrading => before_trading
  | TMinute n => should_trigger ranges daily before_trading s n
  end.
Definition fires (ranges : list (Z * Z)) (daily before_trading : bool) (s : sched) (today : cday) (r : day_rule * time_rule) : bool :=
  day_ok s today (fst r) && time_ok ranges daily before_trading s (snd r).
(* next_bar_: set the current minute, evaluate, then remember it *)
Definition at_bar (s : sched) (minute : Z) : sched :=
  {| sc_week := sc_week s; sc_month := sc_month s; sc_last_minute := sc_last_minute s; sc_current_minute := minute |}.
Definition after_bar (s : sched) : sched :=
  {| sc_week := sc_week s; sc_month := sc_month s; sc_last_minute := sc_current_minute s; sc_current_minute := sc_current_minute s |}.

(* market_open / market_close / physical_time *)
Definition market_open (hour minute : Z) : Z :=
  let m := 9 * 60 + 31 + hour * 60 + minute in if 11 * 60 + 30 <? m then m + 90 else m.
Definition market_close (hour minute : Z) : Z :=
  let m := 15 * 60 - hour * 60 - minute in if m <? 13 * 60 then m - 90 else m.

(* how often a minute rule fires over the bars of one day (minute frequency) *)
Fixpoint fire_count (ranges : list (Z * Z)) (s : sched) (n : Z) (bars : list Z) : nat :=
  match bars with
  | [] => O
  | m :: t => (if should_trigger ranges false false (at_bar s m) n then 1 else 0)%nat + fire_count ranges (after_bar (at_bar s m)) n t
  end.
