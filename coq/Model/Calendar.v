(* Trading calendar (rqalpha/data/trading_dates_mixin.py), history windows (data_source.history_bars, api_base.history_bars)
   and price adjustment (base_data_source/adjust.py).  Dates are Z (yyyymmdd); pandas searchsorted on a sorted index is a count. *)
From RQ Require Import Model.Num.
Open Scope Z_scope.

(* trading_dates.searchsorted(x) / searchsorted(x, side='right') *)
Fixpoint cnt_ltn (x : Z) (l : list Z) : nat := match l with [] => O | y :: t => if y <? x then S (cnt_ltn x t) else O end.
Fixpoint cnt_len (x : Z) (l : list Z) : nat := match l with [] => O | y :: t => if y <=? x then S (cnt_len x t) else O end.
Definition cnt_lt (x : Z) (l : list Z) : Z := Z.of_nat (cnt_ltn x l).
Definition cnt_le (x : Z) (l : list Z) : Z := Z.of_nat (cnt_len x l).
Definition lenz {A} (l : list A) : Z := Z.of_nat (length l).
Definition nthz (i : Z) (l : list Z) : Z := nth (Z.to_nat i) l 0.
Definition lastz (l : list Z) : Z := last l 0.
Definition slicez {A} (a b : Z) (l : list A) : list A := firstn (Z.to_nat (b - a)) (skipn (Z.to_nat a) l).

(* TradingDatesMixin.get_previous_trading_date / get_next_trading_date / get_trading_dates / count_trading_dates /
   get_n_trading_dates_until *)
Definition prev_trading_date (cal : list Z) (date n : Z) : Z :=
  (if (n <=? (cnt_lt date cal))%Z then (nthz (Z.sub (cnt_lt date cal) n) cal) else (nthz 0 cal)).
Definition next_trading_date (cal : list Z) (date n : Z) : Z :=
  (if ((lenz cal) <? (Z.add (cnt_le date cal) n))%Z then (lastz cal) else (nthz (Z.sub (Z.add (cnt_le date cal) n) 1) cal)).
Definition trading_dates (cal : list Z) (start_date end_date : Z) : list Z :=
  (slicez (cnt_lt start_date cal) (cnt_le end_date cal) cal).
Definition count_trading_dates (cal : list Z) (start_date end_date : Z) : Z :=
  (Z.sub (cnt_le end_date cal) (cnt_lt start_date cal)).
Definition n_trading_dates_until (cal : list Z) (dt n : Z) : list Z :=
  (if (n <=? (cnt_le dt cal))%Z then (slicez (Z.sub (cnt_le dt cal) n) (cnt_le dt cal) cal) else (slicez 0 (cnt_le dt cal) cal)).

(* ---- history windows ---- *)
Record hbar := { h_dt : Z; h_price : Q; h_volume : Q }.       (* one price field is enough: all price fields are treated alike *)
Definition window_bounds (dts : list Z) (dt bar_count : Z) : Z * Z :=
  ((if (bar_count <=? (cnt_le dt dts))%Z then (Z.sub (cnt_le dt dts) bar_count) else 0), (cnt_le dt dts)).
(* BaseDataSource.history_bars, daily branch, before adjustment *)
Definition history_window (bars : list hbar) (skip_suspended is_cs : bool) (dt bar_count : Z) : list hbar :=
  let bs := if skip_suspended && is_cs then filter (fun b => qlt_b 0 (h_volume b)) bars else bars in
  let wb := window_bounds (map h_dt bs) dt bar_count in
  slicez (fst wb) (snd wb) bs.

(* api_base.history_bars: the end date and include_now by phase / frequency *)
Inductive hphase := HBeforeTrading | HOpenAuction | HOnBar | HAfterTrading | HScheduled.
Definition history_end (sys_minute include_now : bool) (ph : hphase) (calendar_dt prev_trading_dt : Z) : Z * bool :=
  if (sys_minute && negb include_now && negb (match ph with HAfterTrading => true | _ => false end))
     || (match ph with HBeforeTrading | HOpenAuction => true | _ => false end)
  then (prev_trading_dt, false)
  else (calendar_dt, if sys_minute then include_now else false).

(* api_base.history_bars, weekly frequency: while today's day bar is incomplete (before the open, in the auction, intraday in minute runs)
   the current, partial week that include_now asks for ends at the previous trading day *)
Definition pre_open (ph : hphase) : bool := match ph with HBeforeTrading | HOpenAuction => true | _ => false end.
Definition after_close (ph : hphase) : bool := match ph with HAfterTrading => true | _ => false end.
Definition weekly_history_end (sys_minute include_now : bool) (ph : hphase) (calendar_dt prev_trading_dt : Z) : Z :=
  if include_now && (pre_open ph || (sys_minute && negb (after_close ph))) then prev_trading_dt else calendar_dt.
(* BarObject.mavg / vwap (rqalpha/model/bar.py): the end of the averaged window *)
Definition mavg_end (sys_minute daily : bool) (ph : hphase) (calendar_dt prev_trading_dt : Z) : Z :=
  if (sys_minute && daily) || (match ph with HBeforeTrading => true | _ => false end) || (daily && (match ph with HOpenAuction => true | _ => false end))
  then prev_trading_dt else calendar_dt.

(* ---- adjustment ---- *)
(* _factor_for_date: factors[bisect_right(dates, d) - 1] *)
Definition factor_for (table : list (Z * Q)) (d : Z) : Q :=
  nth (Z.to_nat (Z.sub (cnt_le d (map fst table)) 1)) (map snd table) 1%Q.
Inductive adjust_type := AdjPre | AdjPost | AdjNone.
(* adjust_bars (table dates are yyyymmdd here; the code keys them as yyyymmdd000000 like the bars) *)
Definition adjust_window (bars : list hbar) (table : list (Z * Q)) (adj : adjust_type) (no_adjust_kind : bool) (orig : Z) : list hbar :=
  match adj with
  | AdjNone => bars
  | _ =>
      if no_adjust_kind then bars        (* futures and indexes are never adjusted *)
      else
        let base := match adj with AdjPre => factor_for table orig | _ => 1%Q end in
        if forallb (fun b => qeq_b (factor_for table (h_dt b)) base) bars then bars
        else map (fun b => {| h_dt := h_dt b; h_price := qmul (h_price b) (qdiv (factor_for table (h_dt b)) base);
                              h_volume := qmul (h_volume b) (qdiv 1 (qdiv (factor_for table (h_dt b)) base)) |}) bars
  end.
