(* Determinism and isolation (C13): the process-wide state that outlives a run, what a new run does to it, and what a run
   can see of it; data sets with instruments the strategy never references.
   rqalpha/main.py (run_file / run_code / run_func: clear_all_cached_functions, Environment(config)), utils/functools.py,
   environment.py (Environment._env), mod/rqalpha_mod_sys_accounts/mod.py (AccountMod.start_up rewrites the class-level switches),
   portfolio/account.py (AccountMeta / Account.margin switch), model/order.py, model/trade.py (id generators),
   data/data_proxy.py (instrument, get_future_contracts). *)
From RQ Require Import Model.Num.
Open Scope Z_scope.

Record switches := { sw_reinvest : bool; sw_cash_return : bool; sw_t1 : bool }.
Record proc := {
  pr_switches : switches;      (* StockPosition.dividend_reinvestment / cash_return_by_stock_delisted / t_plus_enabled *)
  pr_env : Z;                  (* Environment._env: the run whose environment the singleton is *)
  pr_cache : list (Z * Z);     (* results memoised through rqalpha.utils.functools.lru_cache: (key, value) *)
  pr_margin_on : bool;         (* Account.margin: the class property sums margins only after a futures position has existed in the process *)
  pr_next_id : Z;              (* order / trade id counters: never reset *)
  pr_future_apis : bool        (* the futures API module has been imported (it is, by the first run that configures a futures account; never undone) *)
}.
(* a new run: caches cleared, a new environment installed, the switches rewritten from the configuration *)
Definition boot (cfg : switches) (has_future : bool) (rid : Z) (p : proc) : proc :=
  {| pr_switches := cfg; pr_env := rid; pr_cache := []; pr_margin_on := pr_margin_on p; pr_next_id := pr_next_id p;
     pr_future_apis := pr_future_apis p || has_future |}.

Inductive pop :=
| PSwitch (k : nat)                (* a position method reads a class-level switch *)
| PCached (key : Z)                (* a memoised lookup: a hit returns the stored value, a miss computes it from this run's data and stores it *)
| PEnv                             (* Environment.get_instance() *)
| PNewId                           (* next order / trade id *)
| PMargin (margins : list Q)       (* Account.margin over the account's positions *)
| POpenFuture                      (* a position with a margin appears: the switch goes on for the rest of the process *)
| PFutureApi.                      (* a call of a futures-only API (get_future_contracts, buy_open ...): is it there at all? *)
Inductive pout := OB (b : bool) | OZ (z : Z) | OQ (x : Q) | OId (z : Z) | ONone.

Fixpoint lookup (key : Z) (c : list (Z * Z)) : option Z :=
  match c with [] => None | (k, v) :: t => if k =? key then Some v else lookup key t end.
Fixpoint sumq (l : list Q) : Q := match l with [] => 0%Q | x :: t => qadd x (sumq t) end.
Definition switch (s : switches) (k : nat) : bool :=
  match k with O => sw_reinvest s | S O => sw_cash_return s | _ => sw_t1 s end.

Section Run.
  Variable data : Z -> Z.            (* what a memoised function computes from this run's data set *)
  Definition pstep (p : proc) (o : pop) : proc * pout :=
    match o with
    | PSwitch k => (p, OB (switch (pr_switches p) k))
    | PCached key =>
        match lookup key (pr_cache p) with
        | Some v => (p, OZ v)
        | None => ({| pr_switches := pr_switches p; pr_env := pr_env p; pr_cache := (key, data key) :: pr_cache p;
                      pr_margin_on := pr_margin_on p; pr_next_id := pr_next_id p; pr_future_apis := pr_future_apis p |}, OZ (data key))
        end
    | PEnv => (p, OZ (pr_env p))
    | PNewId => ({| pr_switches := pr_switches p; pr_env := pr_env p; pr_cache := pr_cache p; pr_margin_on := pr_margin_on p;
                    pr_next_id := pr_next_id p + 1; pr_future_apis := pr_future_apis p |}, OId (pr_next_id p))
    | PMargin ms => (p, OQ (if pr_margin_on p then sumq ms else 0%Q))
    | POpenFuture => ({| pr_switches := pr_switches p; pr_env := pr_env p; pr_cache := pr_cache p; pr_margin_on := true;
                         pr_next_id := pr_next_id p; pr_future_apis := pr_future_apis p |}, ONone)
    | PFutureApi => (p, OB (pr_future_apis p))
    end.
  Fixpoint prun (p : proc) (ops : list pop) : list pout :=
    match ops with [] => [] | o :: t => let r := pstep p o in snd r :: prun (fst r) t end.
  Fixpoint pfinal (p : proc) (ops : list pop) : proc :=
    match ops with [] => p | o :: t => pfinal (fst (pstep p o)) t end.
End Run.
(* ids are compared after renaming: relative to the first id of the run *)
Definition norm (base : Z) (outs : list pout) : list pout := map (fun o => match o with OId z => OId (z - base) | x => x end) outs.
(* within one run a margin can only be non-zero after a futures position was opened in this run (positions do not outlive a run) *)
Fixpoint wf_ops (opened : bool) (ops : list pop) : Prop :=
  match ops with
  | [] => True
  | PMargin ms :: t => (opened = false -> Forall (fun m => m = 0%Q) ms) /\ wf_ops opened t
  | POpenFuture :: t => wf_ops true t
  | _ :: t => wf_ops opened t
  end.
(* a run only calls the futures-only APIs if its own configuration has a futures account (otherwise what it gets depends on earlier runs: D21) *)
Definition api_safe (has_future : bool) (ops : list pop) : Prop := has_future = false -> ~ In PFutureApi ops.

(* ---- data sets ---- *)
Record instr := { i_id : Z; i_und : Z; i_future : bool; i_listed : Z; i_delisted : Z }.
Definition find_instr (data : list instr) (id : Z) : option instr := find (fun i => i_id i =? id) data.
(* DataProxy.get_future_contracts before sorting: the futures listed on the day whose underlying_symbol is the product asked for *)
Definition is_contract (und d : Z) (i : instr) : bool := i_future i && (i_und i =? und) && (i_listed i <=? d) && (d <=? i_delisted i).
Definition contracts (data : list instr) (und d : Z) : list Z := map i_id (filter (is_contract und d) data).
(* the part of a data set a strategy references *)
Definition restrict (keep : Z -> bool) (data : list instr) : list instr := filter (fun i => keep (i_id i)) data.
