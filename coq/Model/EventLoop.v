(* The trading-day lifecycle: SimulationEventSource.events (simulation_event_source.py), Executor.run /
   _ensure_before_trading / _split_and_publish (core/executor.py), main._adjust_start_date.
   Dates are Z (yyyymmdd or any strictly increasing code), times are minutes of the day. *)
From RQ Require Import Model.Num Model.Calendar.
Open Scope Z_scope.

Inductive sev := SBeforeTrading (d t : Z) | SOpenAuction (d t : Z) | SBar (d t : Z) | SAfterTrading (d t : Z).
Inductive pev := PSettlement (d : Z) | PBeforeTrading (d t : Z) | POpenAuction (d t : Z) | PBar (d t : Z) | PAfterTrading (d t : Z).

(* main._adjust_start_date: the run covers the trading days of the requested range *)
Definition run_days (cal : list Z) (start_date end_date : Z) : list Z := trading_dates cal start_date end_date.

(* daily frequency *)
Definition daily_day (d : Z) : list sev := [SBeforeTrading d 0; SOpenAuction d 0; SBar d 900; SAfterTrading d 930].
Definition daily_events (days : list Z) : list sev := flat_map daily_day days.

(* minute frequency: one day.  minutes_of k = the (sorted) trading minutes computed at the k-th evaluation of the universe,
   changed k m = the universe-changed flag is found set when minute m is reached during evaluation k *)
Fixpoint scan (d : Z) (changed : Z -> bool) (last : option Z) (btflag : bool) (mins : list Z) : list sev * option Z * bool :=
  (* returns (events, Some m if the loop broke at minute m for a universe change, before_trading_flag) *)
  match mins with
  | [] => ([], None, btflag)
  | m :: t =>
      if (match last with Some l => m <? l | None => false end) then scan d changed last btflag t
      else
        let pre := if btflag then [SBeforeTrading d (m - 30); SOpenAuction d (m - 3)] else [] in
        if changed m then (pre, Some m, false)
        else let r := scan d changed last false t in (pre ++ SBar d m :: fst (fst r), snd (fst r), snd r)
  end.
Fixpoint minute_day (fuel : nat) (d : Z) (minutes_of : nat -> list Z) (changed : nat -> Z -> bool) (k : nat) (last : option Z) (btflag : bool) : list sev :=
  match fuel with
  | O => [SAfterTrading d 930]
  | S f =>
      let r := scan d (changed k) last btflag (minutes_of k) in
      match snd (fst r) with
      | Some m => fst (fst r) ++ minute_day f d minutes_of changed (S k) (Some m) (snd r)
      | None => fst (fst r) ++ [SAfterTrading d 930]
      end
  end.

(* Executor.run: settlement is injected before the next day's before_trading and after the last day *)
Definition exec_step (st : option Z * list pev) (e : sev) : option Z * list pev :=
  let last := fst st in
  let ensure (d t : Z) : bool * (option Z * list pev) :=       (* (before_trading already ran today, state) *)
    if (match last with Some l => l =? d | None => false end) then (true, st)
    else (false, (Some d, snd st ++ (match last with Some l => [PSettlement l] | None => [] end) ++ [PBeforeTrading d t])) in
  match e with
  | SBeforeTrading d t => snd (ensure d t)
  | SOpenAuction d t => let r := ensure d t in if fst r then (fst (snd r), snd (snd r) ++ [POpenAuction d t]) else snd r
  | SBar d t => let r := ensure d t in if fst r then (fst (snd r), snd (snd r) ++ [PBar d t]) else snd r
  | SAfterTrading d t => (last, snd st ++ [PAfterTrading d t])
  end.
Definition exec_run (evs : list sev) (end_date : Z) : list pev :=
  let r := fold_left exec_step evs (None, []) in
  snd r ++ (match fst r with Some l => if l =? end_date then [PSettlement l] else [] | None => [] end).

(* what the property prescribes for daily frequency *)
Fixpoint spec_days (prev : option Z) (days : list Z) : list pev :=
  match days with
  | [] => match prev with Some l => [PSettlement l] | None => [] end
  | d :: t => (match prev with Some l => [PSettlement l] | None => [] end) ++
              [PBeforeTrading d 0; POpenAuction d 0; PBar d 900; PAfterTrading d 930] ++ spec_days (Some d) t
  end.

Definition pev_time (e : pev) : option (Z * Z) :=
  match e with PSettlement _ => None | PBeforeTrading d t | POpenAuction d t | PBar d t | PAfterTrading d t => Some (d, t) end.
