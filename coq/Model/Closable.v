(* Closable quantity, T+1 and close-today rules: Position.closable / today_closable (position.py, position_model.py),
   PositionValidator.validate_submission (position_validator.py), the quantity part of apply_trade,
   Position.before_trading.  One (instrument, direction) position with its resting closing orders. *)
From RQ Require Import Model.Num Model.Position.
Open Scope Q_scope.

Record corder := { co_id : nat; co_today : bool (* CLOSE_TODAY *); co_unfilled : Q }.
Record cstate := { cs_qty : Q; cs_old : Q; cs_nc : Q (* _non_closable *); cs_book : list corder }.
Record ccfg := { cc_stock : bool; cc_t1 : bool (* StockPosition.t_plus_enabled *); cc_tplus : bool (* instrument.market_tplus >= 1 *) }.

Fixpoint sum_unfilled (only_today : bool) (l : list corder) : Q :=
  match l with
  | [] => 0
  | o :: t => (if only_today && negb (co_today o) then 0 else co_unfilled o) + sum_unfilled only_today t
  end.
(* Position.closable / StockPosition.closable *)
Definition closable (g : ccfg) (s : cstate) : Q :=
  if cc_stock g && cc_t1 g then cs_qty s - sum_unfilled false (cs_book s) - cs_nc s
  else cs_qty s - sum_unfilled false (cs_book s).
(* Position.today_closable *)
Definition today_closable (s : cstate) : Q := cs_qty s - cs_old s - sum_unfilled true (cs_book s).
(* PositionValidator.validate_submission: true = accepted *)
Definition validate_close (g : ccfg) (s : cstate) (today : bool) (q : Q) : bool :=
  if today then qle_b q (qmin (today_closable s) (closable g s)) else qle_b q (closable g s).

Inductive cev :=
| COpenFill (q : Q)                       (* a fill of an opening order *)
| CSubmit (id : nat) (today : bool) (q : Q)  (* a closing order reaches the validator *)
| CFill (id : nat) (q : Q)                (* a fill of resting closing order id *)
| CDrop (id : nat)                        (* cancel / reject / expiry of a resting closing order *)
| CNewDay.                                (* Position.before_trading; the book is empty (after_trading rejected all) *)

Fixpoint cfind (id : nat) (l : list corder) : option corder :=
  match l with [] => None | o :: t => if Nat.eqb (co_id o) id then Some o else cfind id t end.
Fixpoint cremove (id : nat) (l : list corder) : list corder :=
  match l with [] => [] | o :: t => if Nat.eqb (co_id o) id then t else o :: cremove id t end.
Fixpoint creplace (o' : corder) (l : list corder) : list corder :=
  match l with [] => [] | o :: t => if Nat.eqb (co_id o) (co_id o') then o' :: t else o :: creplace o' t end.

Definition cstep (g : ccfg) (s : cstate) (e : cev) : cstate :=
  match e with
  | COpenFill q =>
      {| cs_qty := cs_qty s + q; cs_old := cs_old s;
         cs_nc := if cc_stock g && cc_tplus g then cs_nc s + q else cs_nc s; cs_book := cs_book s |}
  | CSubmit id today q =>
      if validate_close g s today q then
        {| cs_qty := cs_qty s; cs_old := cs_old s; cs_nc := cs_nc s;
           cs_book := cs_book s ++ [{| co_id := id; co_today := today; co_unfilled := q |}] |}
      else s                                                   (* rejected: nothing changes *)
  | CFill id q =>
      match cfind id (cs_book s) with
      | None => s
      | Some o =>
          let book' := if qeq_b (co_unfilled o) q then cremove id (cs_book s)
                       else creplace {| co_id := co_id o; co_today := co_today o; co_unfilled := co_unfilled o - q |} (cs_book s) in
          if co_today o then {| cs_qty := cs_qty s - q; cs_old := cs_old s; cs_nc := cs_nc s; cs_book := book' |}
          else {| cs_qty := cs_qty s - q; cs_old := cs_old s - qmin q (cs_old s); cs_nc := cs_nc s; cs_book := book' |}
      end
  | CDrop id => {| cs_qty := cs_qty s; cs_old := cs_old s; cs_nc := cs_nc s; cs_book := cremove id (cs_book s) |}
  | CNewDay => {| cs_qty := cs_qty s; cs_old := cs_qty s; cs_nc := 0; cs_book := cs_book s |}
  end.
