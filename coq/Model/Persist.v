(* Persist / resume (C14): what get_state writes and set_state reads back for the objects that decide later behaviour, and the
   executor's replay of the pending settlement.
   rqalpha/portfolio/position.py (Position.get_state / set_state), mod/rqalpha_mod_sys_accounts/position_model.py (StockPosition),
   portfolio/account.py (Account), portfolio/__init__.py (Portfolio), core/executor.py (Executor), mod/rqalpha_mod_sys_analyser/mod.py
   (AnalyserMod: the benchmark series of a resumed run).  Serialisation itself (jsonpickle / pickle / json) is runtime. *)
From RQ Require Import Model.Num Model.Calendar Model.Position Model.Account Model.AccountRun Model.EventLoop.
Open Scope Z_scope.

(* ---- positions and accounts ---- *)
(* the keys Position.get_state / StockPosition.get_state write *)
Record ppos := {
  pp_old_quantity : Q; pp_logical_old_quantity : Q; pp_quantity : Q; pp_avg_price : Q; pp_trade_cost : Q; pp_transaction_cost : Q;
  pp_last_price : Q; pp_non_closable : Q; pp_dividend_receivable : option (Z * Q)
}.
Definition persist_pos (p : pos) : ppos :=
  {| pp_old_quantity := p_old p; pp_logical_old_quantity := p_lold p; pp_quantity := p_qty p; pp_avg_price := p_avg p;
     pp_trade_cost := p_trade_cost p; pp_transaction_cost := p_tcost p; pp_last_price := p_last p; pp_non_closable := p_non_closable p;
     pp_dividend_receivable := p_recv p |}.
Definition restore_pos (s : ppos) : pos :=
  {| p_qty := pp_quantity s; p_old := pp_old_quantity s; p_lold := pp_logical_old_quantity s; p_avg := pp_avg_price s;
     p_trade_cost := pp_trade_cost s; p_tcost := pp_transaction_cost s; p_non_closable := pp_non_closable s; p_last := pp_last_price s;
     p_recv := pp_dividend_receivable s |}.
(* Account.get_state: positions in creation order (positions_order), cash, frozen cash, liabilities, pending deposits, management fees *)
Record pacc := {
  pa_positions : list ppos; pa_total_cash : Q; pa_frozen_cash : Q; pa_cash_liabilities : Q; pa_pending_deposit_withdraw : list (Z * Q);
  pa_management_fees : Q
}.
Definition persist_acc (a : account) : pacc :=
  {| pa_positions := map (fun cp => persist_pos (snd cp)) (a_pos a); pa_total_cash := a_total_cash a; pa_frozen_cash := a_frozen a;
     pa_cash_liabilities := a_liab a; pa_pending_deposit_withdraw := a_pending a; pa_management_fees := a_mgmt_fees a |}.
(* set_state on the account a new run has built: the instrument configuration of every position comes from the data, not from the state *)
Definition restore_acc (cfgs : list pcfg) (s : pacc) : account :=
  {| a_total_cash := pa_total_cash s; a_frozen := pa_frozen_cash s; a_liab := pa_cash_liabilities s; a_pending := pa_pending_deposit_withdraw s;
     a_mgmt_fees := pa_management_fees s; a_pos := combine cfgs (map restore_pos (pa_positions s)) |}.
(* Portfolio: units, static unit net value, the start date the return is annualised from *)
Record pport := { po_units : Q; po_static_unit_net_value : Q; po_start_date : Z; po_accounts : list pacc }.

(* ---- executor: which settlement is still pending ---- *)
Record xstate := { x_last_bt : option Z; x_last_settle : option Z }.
Definition oz_eqb (a b : option Z) : bool := match a, b with Some x, Some y => x =? y | None, None => true | _, _ => false end.
Definition xstep (st : xstate * list pev) (e : sev) : xstate * list pev :=
  let s := fst st in
  let ensure (d t : Z) : bool * (xstate * list pev) :=
    if (match x_last_bt s with Some l => l =? d | None => false end) then (true, st)
    else
      let pending := match x_last_bt s with Some l => negb (oz_eqb (x_last_settle s) (Some l)) | None => false end in
      (false, ({| x_last_bt := Some d; x_last_settle := if pending then x_last_bt s else x_last_settle s |},
               snd st ++ (if pending then match x_last_bt s with Some l => [PSettlement l] | None => [] end else []) ++ [PBeforeTrading d t])) in
  match e with
  | SBeforeTrading d t => snd (ensure d t)
  | SOpenAuction d t => let r := ensure d t in if fst r then (fst (snd r), snd (snd r) ++ [POpenAuction d t]) else snd r
  | SBar d t => let r := ensure d t in if fst r then (fst (snd r), snd (snd r) ++ [PBar d t]) else snd r
  | SAfterTrading d t => (s, snd st ++ [PAfterTrading d t])
  end.
Definition xfold (s : xstate) (evs : list sev) : xstate * list pev := fold_left xstep evs (s, []).
(* Executor.run: the settlement after the last day of the configured range *)
Definition xfinish (end_date : Z) (r : xstate * list pev) : xstate * list pev :=
  match x_last_bt (fst r) with
  | Some l => if l =? end_date then ({| x_last_bt := Some l; x_last_settle := Some l |}, snd r ++ [PSettlement l]) else r
  | None => r
  end.
Definition xrun (s : xstate) (evs : list sev) (end_date : Z) : xstate * list pev := xfinish end_date (xfold s evs).
Definition fresh : xstate := {| x_last_bt := None; x_last_settle := None |}.

(* ---- analyser: the benchmark series of a resumed run is appended to the dates the earlier run covered ---- *)
Definition merge_series (earlier : list (Z * Q)) (current : list (Z * Q)) : list (Z * Q) :=
  match current with
  | [] => earlier
  | (d0, _) :: _ => filter (fun r => fst r <? d0) earlier ++ current
  end.
