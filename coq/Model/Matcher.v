(* DefaultBarMatcher.match (rqalpha/mod/rqalpha_mod_sys_simulation/matcher.py), the deal price deciders and the
   slippage models (slippage.py).  NaN is modelled as None. *)
From RQ Require Import Model.Num Model.Position.
Open Scope Q_scope.

Inductive matching := CurrentBarClose | NextBarOpen | Vwap.
Inductive slip_model := PriceRatio | TickSize | LimitPrice.
Record mcfg := { m_matching : matching; m_price_limit : bool; m_inactive_limit : bool; m_volume_limit : bool;
                 m_volume_percent : Q; m_slip : slip_model; m_slip_rate : Q }.
(* a bar as the matcher reads it; a missing bar is all-None *)
Record mbar := { b_open : option Q; b_close : option Q; b_volume : option Q; b_turnover : option Q;
                 b_limit_up : option Q; b_limit_down : option Q }.
Definition nan_bar : mbar := {| b_open := None; b_close := None; b_volume := None; b_turnover := None; b_limit_up := None; b_limit_down := None |}.
Record mins := { i_lot : Q; i_mult : Q; i_tick : Q; i_listed_today : bool }.
Record morder := { mo_side : side; mo_effect : effect; mo_limit : bool (* LIMIT order *); mo_price : Q (* limit = frozen price *);
                   mo_qty : Q; mo_filled : Q; mo_reserve : Q }.

Inductive reason := RListedToday | RLimitUp | RLimitDown | RNoVolume | RVolumeCap | RSlipCash | RPartial.
Inductive outcome :=
| NoMatch                                   (* the order is left as it is *)
| Rejected (r : reason)                     (* order.mark_rejected *)
| Cancelled (r : reason)                    (* order.mark_cancelled without a fill *)
| Filled (price qty ct : Q) (rest_cancelled : bool).   (* one trade; a market order's remainder is cancelled *)

Definition valid_price (p : option Q) : option Q := match p with Some x => if qlt_b 0 x then Some x else None | None => None end.

(* _current_bar_close_decider / _next_bar_open_decider / _vwap_decider ; _open_auction_deal_price_decider *)
Definition deal_price (g : mcfg) (i : mins) (bar auction_bar : mbar) (auction : bool) : option Q :=
  if auction then b_open auction_bar
  else match m_matching g with
       | CurrentBarClose => b_close bar
       | NextBarOpen => b_open bar
       | Vwap => match b_turnover bar, b_volume bar with
                 | Some t, Some v => if qeq_b v 0 then None (* 0/0 = nan, x/0 = inf is not produced by the data contract *)
                                     else Some (qdiv (qdiv t v) (i_mult i))
                 | _, _ => None
                 end
       end.

(* slippage models; pb = the price board's bar (auction bar in the auction phase, else the current bar) *)
Definition clamp (x : Q) (pb : mbar) : Q :=
  let x1 := match valid_price (b_limit_up pb) with Some lu => qmin x lu | None => x end in
  match valid_price (b_limit_down pb) with Some ld => qmax x1 ld | None => x1 end.
Definition slip_price (g : mcfg) (i : mins) (pb : mbar) (o : morder) (price : Q) : Q :=
  match m_slip g with
  | PriceRatio => clamp (qadd price (qmul (qmul price (m_slip_rate g)) (match mo_side o with Buy => 1 | Sell => -1 end))) pb
  | TickSize => clamp (qadd price (qmul (qmul (i_tick i) (m_slip_rate g)) (match mo_side o with Buy => 1 | Sell => -1 end))) pb
  | LimitPrice => if mo_limit o then mo_price o else price
  end.

Definition ge_opt (x : Q) (y : option Q) : bool := match y with Some v => qle_b v x | None => false end.
Definition le_opt (x : Q) (y : option Q) : bool := match y with Some v => qle_b x v | None => false end.

(* the bar's allowance in whole lots: floor(round(volume * percent) / lot) * lot *)
Definition lot_cap (g : mcfg) (i : mins) (volume : Q) : Q :=
  qmul (zq (Qfloor (qdiv (zq (qround_even (qmul volume (m_volume_percent g)))) (i_lot i)))) (i_lot i).
(* the volume cap: what is left of it, again in whole lots: floor((lot_cap - turnover) / lot) * lot *)
Definition volume_cap (g : mcfg) (i : mins) (volume turnover : Q) : Q :=
  qmul (zq (Qfloor (qdiv (qsub (lot_cap g i volume) turnover) (i_lot i)))) (i_lot i).

(* the price checks: 0 = go on, 1 = leave the order alone, 2 / 3 = reject a market order at limit up / down *)
Definition price_gate (g : mcfg) (pb : mbar) (o : morder) (deal : Q) : nat :=
  if mo_limit o then
    match mo_side o with
    | Buy => if qlt_b (mo_price o) deal then 1%nat else if m_price_limit g && ge_opt deal (b_limit_up pb) then 1%nat else 0%nat
    | Sell => if qlt_b deal (mo_price o) then 1%nat else if m_price_limit g && le_opt deal (b_limit_down pb) then 1%nat else 0%nat
    end
  else
    match mo_side o with
    | Buy => if m_price_limit g && ge_opt deal (b_limit_up pb) then 2%nat else 0%nat
    | Sell => if m_price_limit g && le_opt deal (b_limit_down pb) then 3%nat else 0%nat
    end.
(* the quantity: Some fill, or None when the volume cap leaves nothing *)
Definition fill_amount (g : mcfg) (i : mins) (vol : option Q) (turnover unfilled : Q) : option Q :=
  if m_volume_limit g then
    match vol with
    | Some v => if qle_b (volume_cap g i v turnover) 0 then None else Some (qmin unfilled (volume_cap g i v turnover))
    | None => Some unfilled
    end
  else Some unfilled.
Definition inactive (g : mcfg) (vol : option Q) : bool :=
  m_inactive_limit g && (match vol with Some v => qeq_b v 0 | None => false end).
Definition is_open (o : morder) : bool := match mo_effect o with Open => true | _ => false end.

(* fee_of price qty ct : commission + tax of the would-be trade; occupation price : cash occupation of the whole order at that price;
   avail = account.cash + order.init_frozen_cash ; ct_of qty : calc_close_today_amount *)
Definition match_one (g : mcfg) (i : mins) (bar auction_bar pb : mbar) (auction : bool) (turnover : Q) (o : morder)
           (fee_of : Q -> Q -> Q -> Q) (occupation : Q -> Q) (avail : Q) (ct_of : Q -> Q) : outcome :=
  match valid_price (deal_price g i bar auction_bar auction) with
  | None => if i_listed_today i then Rejected RListedToday else NoMatch
  | Some deal =>
      match price_gate g pb o deal with
      | 1%nat => NoMatch
      | 2%nat => Rejected RLimitUp
      | 3%nat => Rejected RLimitDown
      | _ =>
          let vol := if auction then b_volume auction_bar else b_volume bar in
          if inactive g vol then Cancelled RNoVolume
          else
            match fill_amount g i vol turnover (qsub (mo_qty o) (mo_filled o)) with
            | None => if mo_limit o then NoMatch else Cancelled RVolumeCap
            | Some fill =>
                let price := if auction then deal else slip_price g i pb o deal in
                if is_open o && negb (qeq_b (m_slip_rate g) 0) && qlt_b avail (qadd (occupation price) (fee_of price fill (ct_of fill)))
                then Rejected RSlipCash
                else Filled price fill (ct_of fill) (negb (mo_limit o) && negb (qeq_b (qsub (qsub (mo_qty o) (mo_filled o)) fill) 0))
            end
      end
  end.
