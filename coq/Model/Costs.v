(* Transaction costs: rqalpha/mod/rqalpha_mod_sys_transaction_cost/deciders.py
   One definition per Python method.  Quantities are Q because the code multiplies floats. *)
From RQ Require Import Model.Num.
Open Scope Q_scope.

Record scost := { sc_rate : Q; sc_mult : Q; sc_min : Q; sc_tax_rate : Q; sc_tax_mult : Q }.

(* the entry of one order in StockTransactionCostDecider.commission_map: None = no entry yet *)
Definition cm_entry := option Q.
Definition cm_read (c : scost) (e : cm_entry) : Q := match e with None => sc_min c | Some r => r end.
Definition cm_absent (e : cm_entry) : bool := match e with None => true | Some _ => false end.

(* StockTransactionCostDecider.get_trade_commission : (charged, new map entry) *)
Definition trade_commission (c : scost) (e : cm_entry) (price qty : Q) : Q * cm_entry :=
  if qlt_b (cm_read c e) (qmul (qmul (qmul price qty) (sc_rate c)) (sc_mult c)) then
    if cm_absent e then ((qmul (qmul (qmul price qty) (sc_rate c)) (sc_mult c)), Some 0)
    else ((qsub (qmul (qmul (qmul price qty) (sc_rate c)) (sc_mult c)) (cm_read c e)), Some 0)
  else
    if cm_absent e then ((cm_read c e), Some (qsub (cm_read c e) (qmul (qmul (qmul price qty) (sc_rate c)) (sc_mult c))))
    else (0, Some (qsub (cm_read c e) (qmul (qmul (qmul price qty) (sc_rate c)) (sc_mult c)))).

(* StockTransactionCostDecider._get_order_commission *)
Definition order_commission (c : scost) (price qty : Q) : Q :=
  qmax (qmul (qmul (qmul price qty) (sc_rate c)) (sc_mult c)) (sc_min c).

(* CNStockTransactionCostDecider._get_tax *)
Definition stock_tax (c : scost) (is_cs sell : bool) (cost_money : Q) : Q :=
  if negb is_cs then 0
  else if sell then (qmul (qmul cost_money (sc_tax_rate c)) (sc_tax_mult c)) else 0.

(* get_trade_tax / get_order_transaction_cost *)
Definition trade_tax (c : scost) (is_cs sell : bool) (price qty : Q) : Q := stock_tax c is_cs sell (qmul price qty).
Definition order_cost (c : scost) (is_cs sell : bool) (price qty : Q) : Q :=
  qadd (stock_tax c is_cs sell (qmul price qty)) (order_commission c price qty).

(* CNStockTransactionCostDecider.set_tax_rate : date as yyyymmdd *)
Definition pit_tax_rate (d : Z) : Q := if (d <? 20230828)%Z then (1 # 1000) else (1 # 2000).
Definition cn_stock_rate : Q := 1 # 1250.
Definition cn_init_tax_rate : Q := 1 # 2000.

(* CNFutureTransactionCostDecider._get_commission *)
Record fcost := { fc_by_money : bool; fc_mult : Q (* contract multiplier *); fc_open : Q; fc_close : Q;
                  fc_close_today : Q; fc_cmult : Q (* commission multiplier *) }.
Definition fut_commission (f : fcost) (is_open : bool) (price qty ct : Q) : Q :=
  qmul
    (if fc_by_money f then
       if is_open then (qadd 0 (qmul (qmul (qmul price qty) (fc_mult f)) (fc_open f)))
       else (qadd (qadd 0 (qmul (qmul (qmul price (qsub qty ct)) (fc_mult f)) (fc_close f)))
                  (qmul (qmul (qmul price ct) (fc_mult f)) (fc_close_today f)))
     else
       if is_open then (qadd 0 (qmul qty (fc_open f)))
       else (qadd (qadd 0 (qmul (qsub qty ct) (fc_close f))) (qmul ct (fc_close_today f))))
    (fc_cmult f).

Definition fut_order_cost (f : fcost) (is_open is_ct : bool) (price qty : Q) : Q :=
  fut_commission f is_open price qty (if is_ct then qty else 0).

(* running one order's fills through the decider: total charged *)
Fixpoint run_commission (c : scost) (e : cm_entry) (fills : list (Q * Q)) : Q :=
  match fills with
  | [] => 0
  | (p, q) :: t => let r := trade_commission c e p q in fst r + run_commission c (snd r) t
  end.
Definition fill_cost (c : scost) (f : Q * Q) : Q := fst f * snd f * sc_rate c * sc_mult c.
Fixpoint sum_cost (c : scost) (fills : list (Q * Q)) : Q :=
  match fills with [] => 0 | f :: t => fill_cost c f + sum_cost c t end.

(* FutureInfoStore.get_future_info (rqalpha/data/base_data_source/storages.py): the bundle's entry for the contract, else for its
   underlying, overridden field by field by the configuration's entry (base.future_info) for the contract, else for the underlying.
   Contracts and underlyings are numbered; the tables are functions. *)
Record fover := { ov_by_money : option bool; ov_open : option Q; ov_close : option Q; ov_close_today : option Q }.
Definition pick {A} (by_contract by_underlying : option A) : option A :=
  match by_contract with Some x => Some x | None => by_underlying end.
Definition opt_or {A} (o : option A) (d : A) : A := match o with Some x => x | None => d end.
Definition apply_override (f : fcost) (o : fover) : fcost :=
  {| fc_by_money := opt_or (ov_by_money o) (fc_by_money f); fc_mult := fc_mult f; fc_open := opt_or (ov_open o) (fc_open f);
     fc_close := opt_or (ov_close o) (fc_close f); fc_close_today := opt_or (ov_close_today o) (fc_close_today f); fc_cmult := fc_cmult f |}.
Definition future_schedule (dflt_c dflt_u : nat -> option fcost) (cust_c cust_u : nat -> option fover) (c u : nat) : option fcost :=
  match pick (dflt_c c) (dflt_u u) with
  | Some f => Some (match pick (cust_c c) (cust_u u) with Some o => apply_override f o | None => f end)
  | None => None      (* the implementation builds the entry from the override alone; the data contract gives every underlying an entry *)
  end.
Definition set_at {A} (t : nat -> option A) (k : nat) (v : option A) : nat -> option A := fun x => if Nat.eqb x k then v else t x.
