(* SimulationBroker's two order books (rqalpha/mod/rqalpha_mod_sys_simulation/simulation_broker.py): submit_order, _match, on_bar,
   cancel_order, after_trading.  What the matcher decides (does this call leave the order final?) is an oracle; the model decides WHICH
   orders are handed to the matcher, WHEN, and with which open_auction flag. *)
From Coq Require Import List Arith Bool.
Import ListNotations.

Inductive bphase := BAuction | BTrading.
Inductive bop :=
| BSubmit (ph : bphase) (id : nat) (immediately : bool)   (* submit_order in phase ph; _match_immediately (current_bar / vwap matching) *)
| BBar                                                     (* on_bar: matcher.update, then _match *)
| BCancel (id : nat)                                       (* cancel_order: the order becomes final and leaves both books *)
| BAfterTrading.                                           (* after_trading: everything still open is rejected *)
Record bcall := { c_id : nat; c_auction : bool; c_phase : bphase }.
Record bstate := { bk_open : list nat; bk_auction : list nat; bk_final : list nat; bk_calls : list bcall (* newest first *) }.

Definition mem (x : nat) (l : list nat) : bool := existsb (Nat.eqb x) l.
Definition ncalls (id : nat) (cs : list bcall) : nat := length (filter (fun c => Nat.eqb (c_id c) id) cs).
Section Broker.
  Variable fin : nat -> nat -> bool.     (* fin id k: the k-th match call (k = 0, 1, ...) of order id leaves it final (filled, cancelled or rejected) *)

  (* one matcher call: records it, asks the oracle *)
  Definition call (s : bstate) (id : nat) (flag : bool) (ph : bphase) : bstate :=
    let k := ncalls id (bk_calls s) in
    {| bk_open := bk_open s; bk_auction := bk_auction s; bk_final := if fin id k then id :: bk_final s else bk_final s;
       bk_calls := {| c_id := id; c_auction := flag; c_phase := ph |} :: bk_calls s |}.
  Definition call_all (s : bstate) (ids : list nat) (flag : bool) (ph : bphase) : bstate :=
    fold_left (fun st id => if mem id (bk_final st) then st else call st id flag ph) ids s.
  (* _match: resting orders against the bar (not during the auction: the day's bar does not exist yet), auction orders against the auction bar;
     whatever is not final rests in _open_orders afterwards *)
  Definition bmatch (s : bstate) (ph : bphase) : bstate :=
    let s1 := match ph with BAuction => s | BTrading => call_all s (bk_open s) false ph end in
    let s2 := call_all s1 (bk_auction s1) true ph in
    {| bk_open := filter (fun id => negb (mem id (bk_final s2))) (bk_open s2 ++ bk_auction s2); bk_auction := []; bk_final := bk_final s2; bk_calls := bk_calls s2 |}.
  Definition bstep (s : bstate) (o : bop) : bstate :=
    match o with
    | BSubmit ph id imm =>
        let s1 := match ph with
                  | BAuction => {| bk_open := bk_open s; bk_auction := bk_auction s ++ [id]; bk_final := bk_final s; bk_calls := bk_calls s |}
                  | BTrading => {| bk_open := bk_open s ++ [id]; bk_auction := bk_auction s; bk_final := bk_final s; bk_calls := bk_calls s |}
                  end in
        if imm then bmatch s1 ph else s1
    | BBar => bmatch s BTrading
    | BCancel id =>
        if mem id (bk_final s) then s
        else {| bk_open := filter (fun x => negb (Nat.eqb x id)) (bk_open s); bk_auction := filter (fun x => negb (Nat.eqb x id)) (bk_auction s);
                bk_final := id :: bk_final s; bk_calls := bk_calls s |}
    | BAfterTrading => {| bk_open := []; bk_auction := bk_auction s; bk_final := bk_open s ++ bk_final s; bk_calls := bk_calls s |}
    end.
  Definition brun (ops : list bop) : bstate := fold_left bstep ops {| bk_open := []; bk_auction := []; bk_final := []; bk_calls := [] |}.
End Broker.

(* ---- the broker's methods as programs over primitives (Gen/BrokerProg.v regenerates them from simulation_broker.py) ---- *)
Inductive bprim :=
| PMatchOpenUnlessAuction      (* if phase != OPEN_AUCTION: for (a, o) in non-final of _open_orders: match(a, o, open_auction=False) *)
| PMatchAuctionBook            (* for (a, o) in non-final of _open_auction_orders: match(a, o, open_auction=True) *)
| PCollectFinalBoth            (* final_orders = the final orders of both books *)
| PRestBoth                    (* _open_orders = the non-final orders of both books *)
| PClearAuction                (* _open_auction_orders.clear() *)
| PAnnounceFinal               (* ORDER_UNSOLICITED_UPDATE for every collected order that is REJECTED or CANCELLED *)
| PUpdateMatchers              (* for matcher in _matchers.values(): matcher.update(event) *)
| PMatch                       (* self._match() *)
| PClearTurnover               (* before_trading: the matchers' turnover is cleared *)
| PReactivateOpen              (* before_trading: resting orders are active again and announced *)
| PRejectOpen                  (* after_trading: every order of _open_orders is rejected and announced *)
| PEmptyOpen                   (* _open_orders = [] *)
| PReturnIfFinal               (* if order.is_final(): return *)
| PPendingCancel | PMarkCancelled | PCancellationPass
| PRemoveFromBothBooks         (* the order leaves _open_orders and _open_auction_orders *)
| PCheckSubscribe | PRefuseMatchEffect | PPendingNew | PExerciseBook
| PAppendByPhase               (* auction phase: _open_auction_orders.append, else _open_orders.append *)
| PActivate | PCreationPass
| PMatchIfImmediate.           (* if self._match_immediately: self._match() *)
Definition expected_match : list bprim := [PMatchOpenUnlessAuction; PMatchAuctionBook; PCollectFinalBoth; PRestBoth; PClearAuction; PAnnounceFinal].
Definition expected_on_bar : list bprim := [PUpdateMatchers; PMatch].
Definition expected_before_trading : list bprim := [PClearTurnover; PReactivateOpen].
Definition expected_after_trading : list bprim := [PRejectOpen; PEmptyOpen].
Definition expected_cancel : list bprim := [PReturnIfFinal; PPendingCancel; PMarkCancelled; PCancellationPass; PRemoveFromBothBooks].
Definition expected_submit : list bprim :=
  [PCheckSubscribe; PRefuseMatchEffect; PPendingNew; PReturnIfFinal; PExerciseBook; PAppendByPhase; PActivate; PCreationPass; PMatchIfImmediate].
Definition bprim_eqb (a b : bprim) : bool :=
  match a, b with
  | PMatchOpenUnlessAuction, PMatchOpenUnlessAuction | PMatchAuctionBook, PMatchAuctionBook | PCollectFinalBoth, PCollectFinalBoth
  | PRestBoth, PRestBoth | PClearAuction, PClearAuction | PAnnounceFinal, PAnnounceFinal | PUpdateMatchers, PUpdateMatchers | PMatch, PMatch
  | PClearTurnover, PClearTurnover | PReactivateOpen, PReactivateOpen | PRejectOpen, PRejectOpen | PEmptyOpen, PEmptyOpen
  | PReturnIfFinal, PReturnIfFinal | PPendingCancel, PPendingCancel | PMarkCancelled, PMarkCancelled | PCancellationPass, PCancellationPass
  | PRemoveFromBothBooks, PRemoveFromBothBooks | PCheckSubscribe, PCheckSubscribe | PRefuseMatchEffect, PRefuseMatchEffect | PPendingNew, PPendingNew
  | PExerciseBook, PExerciseBook | PAppendByPhase, PAppendByPhase | PActivate, PActivate | PCreationPass, PCreationPass
  | PMatchIfImmediate, PMatchIfImmediate => true
  | _, _ => false
  end.
Fixpoint prog_eqb (a b : list bprim) : bool :=
  match a, b with [], [] => true | x :: s, y :: t => bprim_eqb x y && prog_eqb s t | _, _ => false end.

(* what the primitives of a matching round do to the books and the call log (the announcements leave both untouched) *)
Section Interp.
  Variable fin : nat -> nat -> bool.
  Definition interp_prim (ph : bphase) (s : bstate) (p : bprim) : bstate :=
    match p with
    | PMatchOpenUnlessAuction => match ph with BAuction => s | BTrading => call_all fin s (bk_open s) false ph end
    | PMatchAuctionBook => call_all fin s (bk_auction s) true ph
    | PRestBoth => {| bk_open := filter (fun id => negb (mem id (bk_final s))) (bk_open s ++ bk_auction s); bk_auction := bk_auction s;
                      bk_final := bk_final s; bk_calls := bk_calls s |}
    | PClearAuction => {| bk_open := bk_open s; bk_auction := []; bk_final := bk_final s; bk_calls := bk_calls s |}
    | _ => s
    end.
  Definition interp (ph : bphase) (prog : list bprim) (s : bstate) : bstate := fold_left (interp_prim ph) prog s.
End Interp.
