(* SimulationBroker's two order books (rqalpha/mod/rqalpha_mod_sys_simulation/simulation_broker.py): submit_order, _match, on_bar,
   cancel_order, after_trading.  What the matcher decides (does this call leave the order final?) is an oracle; the model decides WHICH
   orders are handed to the matcher, WHEN, and with which open_auction flag. *)
From Coq Require Import List Arith Bool.
Import ListNotations.

Inductive bphase := BAuction | BTrading.
Inductive bop :=
| BSubmit (ph : bphase) (id : nat) (immediately : bool)   (* submit_order in phase ph; _match_immediately (current_bar / vwap matching) *)
| BBar                                                     (* on_bar: matcher.update, then _match *)
| BCancel (id : nat)                                       (* cancel_order: the order becomes final and leaves both books *)
| BAfterTrading.                                           (* after_trading: everything still open is rejected *)
Record bcall := { c_id : nat; c_auction : bool; c_phase : bphase }.
Record bstate := { bk_open : list nat; bk_auction : list nat; bk_final : list nat; bk_calls : list bcall (* newest first *) }.

Definition mem (x : nat) (l : list nat) : bool := existsb (Nat.eqb x) l.
Definition ncalls (id : nat) (cs : list bcall) : nat := length (filter (fun c => Nat.eqb (c_id c) id) cs).
Section Broker.
  Variable fin : nat -> nat -> bool.     (* fin id k: the k-th match call (k = 0, 1, ...) of order id leaves it final (filled, cancelled or rejected) *)

  (* one matcher call: records it, asks the oracle *)
  Definition call (s : bstate) (id : nat) (flag : bool) (ph : bphase) : bstate :=
    let k := ncalls id (bk_calls s) in
    {| bk_open := bk_open s; bk_auction := bk_auction s; bk_final := if fin id k then id :: bk_final s else bk_final s;
       bk_calls := {| c_id := id; c_auction := flag; c_phase := ph |} :: bk_calls s |}.
  Definition call_all (s : bstate) (ids : list nat) (flag : bool) (ph : bphase) : bstate :=
    fold_left (fun st id => if mem id (bk_final st) then st else call st id flag ph) ids s.
  (* _match: resting orders against the bar (not during the auction: the day's bar does not exist yet), auction orders against the auction bar;
     whatever is not final rests in _open_orders afterwards *)
  Definition bmatch (s : bstate) (ph : bphase) : bstate :=
    let s1 := match ph with BAuction => s | BTrading => call_all s (bk_open s) false ph end in
    let s2 := call_all s1 (bk_auction s1) true ph in
    {| bk_open := filter (fun id => negb (mem id (bk_final s2))) (bk_open s2 ++ bk_auction s2); bk_auction := []; bk_final := bk_final s2; bk_calls := bk_calls s2 |}.
  Definition bstep (s : bstate) (o : bop) : bstate :=
    match o with
    | BSubmit ph id imm =>
        let s1 := match ph with
                  | BAuction => {| bk_open := bk_open s; bk_auction := bk_auction s ++ [id]; bk_final := bk_final s; bk_calls := bk_calls s |}
                  | BTrading => {| bk_open := bk_open s ++ [id]; bk_auction := bk_auction s; bk_final := bk_final s; bk_calls := bk_calls s |}
                  end in
        if imm then bmatch s1 ph else s1
    | BBar => bmatch s BTrading
    | BCancel id =>
        if mem id (bk_final s) then s
        else {| bk_open := filter (fun x => negb (Nat.eqb x id)) (bk_open s); bk_auction := filter (fun x => negb (Nat.eqb x id)) (bk_auction s);
                bk_final := id :: bk_final s; bk_calls := bk_calls s |}
    | BAfterTrading => {| bk_open := []; bk_auction := bk_auction s; bk_final := bk_open s ++ bk_final s; bk_calls := bk_calls s |}
    end.
  Definition brun (ops : list bop) : bstate := fold_left bstep ops {| bk_open := []; bk_auction := []; bk_final := []; bk_calls := [] |}.
End Broker.
