(* Exact rational arithmetic used by every model layer.
   Money, prices and rates are Q; every operation re-normalises with Qred so that vm_compute
   stays fast on long runs.  float64 rounding is NOT modelled (trusted base). *)
From Coq Require Export QArith Qreduction Qabs Qminmax Qround ZArith List Bool.
Export ListNotations.
Open Scope Q_scope.

Definition qadd (x y : Q) : Q := Qred (x + y).
Definition qsub (x y : Q) : Q := Qred (x - y).
Definition qmul (x y : Q) : Q := Qred (x * y).
Definition qdiv (x y : Q) : Q := Qred (x / y).
Definition qneg (x : Q) : Q := Qred (- x).
Definition zq (z : Z) : Q := inject_Z z.

Arguments qadd : simpl never.
Arguments qsub : simpl never.
Arguments qmul : simpl never.
Arguments qdiv : simpl never.
Arguments qneg : simpl never.

Definition qle_b (x y : Q) : bool := Qle_bool x y.
Definition qlt_b (x y : Q) : bool := negb (Qle_bool y x).
Definition qeq_b (x y : Q) : bool := Qeq_bool x y.
Definition qmax (x y : Q) : Q := if qle_b x y then y else x.
Definition qmin (x y : Q) : Q := if qle_b x y then x else y.
Definition qabs (x : Q) : Q := if qle_b 0 x then x else qneg x.

Arguments qle_b : simpl never.
Arguments qlt_b : simpl never.
Arguments qeq_b : simpl never.
Arguments qmax : simpl never.
Arguments qmin : simpl never.
Arguments qabs : simpl never.

(* Python int(x): truncation toward zero *)
Definition qtrunc (x : Q) : Z := Qnum x ÷ Zpos (Qden x).
(* Python math.floor / floor division *)
Definition qfloor_z (x : Q) : Z := Qfloor x.
(* Python round(x): round half to even *)
Definition qround_even (x : Q) : Z :=
  let f := Qfloor x in
  let r := qsub x (zq f) in
  if qlt_b r (1 # 2) then f
  else if qlt_b (1 # 2) r then (f + 1)%Z
  else if Z.even f then f else (f + 1)%Z.

(* Decimal(x) / Decimal(y) under getcontext().prec = 10 (set when api_stock is imported): the exact quotient rounded half-even
   to 10 significant digits.  dec10 q rounds q; scaling by powers of ten runs on explicit fuel (|q| between 1e-40 and 1e50). *)
Fixpoint scale_up (fuel : nat) (a : Q) (k : Z) : Q * Z :=        (* multiply by 10 while a < 10^9 *)
  match fuel with
  | O => (a, k)
  | S f => if qlt_b a 1000000000 then scale_up f (qmul a 10) (k + 1)%Z else (a, k)
  end.
Fixpoint scale_down (fuel : nat) (a : Q) (k : Z) : Q * Z :=      (* divide by 10 while a >= 10^10 *)
  match fuel with
  | O => (a, k)
  | S f => if qle_b 10000000000 a then scale_down f (qdiv a 10) (k - 1)%Z else (a, k)
  end.
Definition pow10 (k : Z) : Q := if (0 <=? k)%Z then zq (10 ^ k) else qdiv 1 (zq (10 ^ (- k))).
Definition dec10 (q : Q) : Q :=
  if qeq_b q 0 then 0
  else
    let a := qabs q in
    let r1 := scale_up 50 a 0 in
    let r2 := scale_down 50 (fst r1) (snd r1) in
    let n := zq (qround_even (fst r2)) in
    let v := qdiv n (pow10 (snd r2)) in
    if qle_b 0 q then v else qneg v.
Definition dec_div (x y : Q) : Q := dec10 (qdiv x y).

(* comparison used by the correspondence check only (never inside a theorem) *)
Definition tol : Q := 1 # 1000000000.
Definition approx_scale (s a b : Q) : bool :=
  qle_b (qabs (qsub a b)) (qmul tol (qmax 1 (qmax s (qmax (qabs a) (qabs b))))).
Definition approx (a b : Q) : bool := approx_scale 0 a b.
Definition approx_opt (a b : option Q) : bool :=
  match a, b with Some x, Some y => approx x y | None, None => true | _, _ => false end.

Fixpoint failing_from (n : nat) (l : list bool) : list nat :=
  match l with [] => [] | b :: t => if b then failing_from (S n) t else n :: failing_from (S n) t end.
Definition failing (l : list bool) : list nat := failing_from 0 l.

Fixpoint qsum (l : list Q) : Q := match l with [] => 0 | x :: t => x + qsum t end.

(* list-indexed state: update the n-th element *)
Fixpoint upd {A} (n : nat) (x : A) (l : list A) : list A :=
  match l, n with
  | [], _ => []
  | _ :: t, O => x :: t
  | h :: t, S k => h :: upd k x t
  end.
