(* The hand-written classification of process-wide state in the engine, against which the regenerated inventory (Gen/Globals.v) is checked.
   Every class-level / module-level mutable object found in the scanned files must appear here with the reason it cannot carry one run's
   outcome into the next. *)
From Coq Require Import List String Bool.
Import ListNotations.
Open Scope string_scope.

Inductive gkind :=
| GConstant        (* never written after import *)
| GCounter         (* id generator: only produces fresh ids, compared after renaming (pr_next_id) *)
| GRegistry        (* grows at import time only: the memoised functions to clear, the mod list *)
| GResetAtBoot     (* rewritten by every run before the strategy starts (pr_switches, pr_env, pr_cache) *)
| GStack.          (* ExecutionContext.stack: only its top is read, and every run pushes its own context before reading *)
Definition mem_str (x : string) (l : list string) : bool := existsb (String.eqb x) l.

Definition known_class_state : list (string * gkind) :=
  [("Account.__abandon_properties__", GConstant); ("BaseDataSource.OPEN_AUCTION_BAR_FIELDS", GConstant); ("ExecutionContext.stack", GStack);
   ("Executor.EVENT_SPLIT_MAP", GConstant); ("Strategy._EVENT_PHASE", GConstant); ("FuturePosition.__instrument_types__", GConstant); ("FuturePositionProxy.__instrument_types__", GConstant);
   ("Order.order_id_gen", GCounter); ("Position.__instrument_types__", GConstant); ("PositionProxy.__instrument_types__", GConstant);
   ("Trade.trade_id_gen", GCounter)].
Definition known_module_state : list (string * gkind) :=
  [("data.base_data_source.data_source:BAR_RESAMPLE_FIELD_METHODS", GConstant); ("mod.__init__:SYSTEM_MOD_LIST", GConstant);
   ("mod.rqalpha_mod_sys_accounts.__init__:__config__", GConstant); ("mod.rqalpha_mod_sys_risk.__init__:__config__", GConstant);
   ("mod.rqalpha_mod_sys_simulation.__init__:__config__", GConstant); ("mod.rqalpha_mod_sys_transaction_cost.__init__:__config__", GConstant);
   ("utils.functools:cached_functions", GRegistry)].
(* the class-level switches a run reads must be rewritten unconditionally when the mod starts, the singleton when the environment is built *)
Definition required_class_writes : list string :=
  ["environment:__init__:Environment._env:0";
   "mod.rqalpha_mod_sys_accounts.mod:start_up:StockPosition.cash_return_by_stock_delisted:0";
   "mod.rqalpha_mod_sys_accounts.mod:start_up:StockPosition.dividend_reinvestment:0";
   "mod.rqalpha_mod_sys_accounts.mod:start_up:StockPosition.t_plus_enabled:0"].
(* ... and nothing else writes to a class: the margin switch (pr_margin_on) is the only other one *)
Definition allowed_class_writes : list string :=
  required_class_writes ++
  ["portfolio.account:__new__:cls._margin:0"; "portfolio.account:__new__:cls.margin:0";
   "portfolio.account:_get_or_create_pos:del(self.__class__._margin):2"; "portfolio.account:_get_or_create_pos:setattr(self.__class__):2"].

(* the front-end validator chain Model/Validators.v assumes: the position validator (registered per instrument type, so it runs first), then
   price, is-trading, cash, self-trade, each under its own switch (Gen/ValidatorChain.v is regenerated from the mods' start_up) *)
Definition expected_risk_chain : list (string * string) :=
  [("validate_price", "PriceValidator"); ("validate_is_trading", "IsTradingValidator"); ("validate_cash", "CashValidator");
   ("validate_self_trade", "SelfTradeValidator")].
Definition expected_position_registrations : list (string * string) :=
  [("validate_future_position", "INSTRUMENT_TYPE.FUTURE"); ("validate_stock_position", "ins_type")].
