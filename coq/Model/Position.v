(* Positions: rqalpha/portfolio/position.py (Position) and
   rqalpha/mod/rqalpha_mod_sys_accounts/position_model.py (StockPosition, FuturePosition).
   One definition per Python method; the `kind` tag selects the subclass as POSITION_TYPE_MAP does.
   All numbers are Q: the code computes in floats and quantities can become fractional (share conversion). *)
From RQ Require Import Model.Num.
Open Scope Q_scope.

Inductive effect := Open | Close | CloseToday.
Inductive side := Buy | Sell.
Inductive pkind := StockPos | FuturePos.

Record pos := {
  p_qty : Q; p_old : Q; p_lold : Q;            (* _quantity _old_quantity _logical_old_quantity *)
  p_avg : Q; p_trade_cost : Q; p_tcost : Q;    (* _avg_price _trade_cost _transaction_cost *)
  p_non_closable : Q;                          (* StockPosition._non_closable *)
  p_last : Q;                                  (* _last_price (valid) *)
  p_recv : option (Z * Q)                      (* StockPosition._dividend_receivable = (payable yyyymmdd, amount) *)
}.

Record pcfg := {
  pc_kind : pkind; pc_long : bool;             (* direction: LONG = true *)
  pc_mult : Q;                                 (* contract multiplier (1 for stocks) *)
  pc_tplus : bool                              (* instrument.market_tplus >= 1 *)
}.
Definition dirf (c : pcfg) : Q := if pc_long c then 1 else -1.

Record trade := { t_effect : effect; t_price : Q; t_qty : Q; t_fee : Q (* commission + tax *) }.

Definition set_qty (p : pos) (q old : Q) : pos :=
  {| p_qty := q; p_old := old; p_lold := p_lold p; p_avg := p_avg p; p_trade_cost := p_trade_cost p; p_tcost := p_tcost p;
     p_non_closable := p_non_closable p; p_last := p_last p; p_recv := p_recv p |}.

(* Position.apply_trade : (new position, change of total cash) -- OPEN / CLOSE only *)
Definition base_apply_trade (p : pos) (t : trade) : pos * Q :=
  match t_effect t with
  | Open =>
      ({| p_qty := qadd (p_qty p) (t_qty t); p_old := p_old p; p_lold := p_lold p;
          p_avg := if qlt_b (p_qty p) 0 then (if qlt_b 0 (qadd (p_qty p) (t_qty t)) then t_price t else 0)
                   else qdiv (qadd (qmul (p_qty p) (p_avg p)) (qmul (t_qty t) (t_price t))) (qadd (p_qty p) (t_qty t));
          p_trade_cost := qadd (p_trade_cost p) (qmul (t_price t) (t_qty t));
          p_tcost := qadd (p_tcost p) (t_fee t);
          p_non_closable := p_non_closable p; p_last := p_last p; p_recv := p_recv p |},
       qsub (qmul (qmul (-1) (t_price t)) (t_qty t)) (t_fee t))
  | _ =>
      ({| p_qty := qsub (p_qty p) (t_qty t); p_old := qsub (p_old p) (qmin (t_qty t) (p_old p)); p_lold := p_lold p;
          p_avg := p_avg p;
          p_trade_cost := qsub (p_trade_cost p) (qmul (t_price t) (t_qty t));
          p_tcost := qadd (p_tcost p) (t_fee t);
          p_non_closable := p_non_closable p; p_last := p_last p; p_recv := p_recv p |},
       qsub (qmul (t_price t) (t_qty t)) (t_fee t))
  end.

(* StockPosition.apply_trade *)
Definition stock_apply_trade (c : pcfg) (p : pos) (t : trade) : pos * Q :=
  let r := base_apply_trade p t in
  match t_effect t with
  | Open => if pc_tplus c then
              ({| p_qty := p_qty (fst r); p_old := p_old (fst r); p_lold := p_lold (fst r); p_avg := p_avg (fst r);
                  p_trade_cost := p_trade_cost (fst r); p_tcost := p_tcost (fst r);
                  p_non_closable := qadd (p_non_closable (fst r)) (t_qty t); p_last := p_last (fst r); p_recv := p_recv (fst r) |}, snd r)
            else r
  | _ => r
  end.

(* FuturePosition.apply_trade *)
Definition future_apply_trade (c : pcfg) (p : pos) (t : trade) : pos * Q :=
  let p' := match t_effect t with
            | CloseToday =>
                {| p_qty := qsub (p_qty p) (t_qty t); p_old := p_old p; p_lold := p_lold p; p_avg := p_avg p;
                   p_trade_cost := qsub (p_trade_cost p) (qmul (t_price t) (t_qty t)); p_tcost := qadd (p_tcost p) (t_fee t);
                   p_non_closable := p_non_closable p; p_last := p_last p; p_recv := p_recv p |}
            | _ => fst (base_apply_trade p t)
            end in
  match t_effect t with
  | Open => (p', qmul (-1) (t_fee t))
  | _ => (p', qadd (qmul (-1) (t_fee t))
                   (qmul (qmul (qmul (qsub (t_price t) (p_avg p')) (t_qty t)) (pc_mult c)) (dirf c)))
  end.

Definition pos_apply_trade (c : pcfg) (p : pos) (t : trade) : pos * Q :=
  match pc_kind c with StockPos => stock_apply_trade c p t | FuturePos => future_apply_trade c p t end.

(* FuturePosition.calc_close_today_amount (Position.calc_close_today_amount returns 0) *)
Definition calc_close_today_amount (c : pcfg) (p : pos) (amount : Q) (e : effect) : Q :=
  match pc_kind c with
  | StockPos => 0
  | FuturePos =>
      match e with
      | CloseToday => if qle_b amount (qsub (p_qty p) (p_old p)) then amount else qsub (p_qty p) (p_old p)
      | _ => qmax (qsub amount (p_old p)) 0
      end
  end.

(* views *)
Definition market_value (c : pcfg) (p : pos) : Q :=
  match pc_kind c with
  | StockPos => if qeq_b (p_qty p) 0 then 0 else qmul (p_last p) (p_qty p)
  | FuturePos => qmul (pc_mult c) (if qeq_b (p_qty p) 0 then 0 else qmul (p_last p) (p_qty p))
  end.
Definition receivable (p : pos) : Q := match p_recv p with Some (_, v) => v | None => 0 end.
Definition equity (c : pcfg) (p : pos) : Q :=
  match pc_kind c with
  | StockPos => qadd (if qeq_b (p_qty p) 0 then 0 else qmul (p_last p) (p_qty p)) (receivable p)
  | FuturePos => qmul (qmul (qmul (p_qty p) (qsub (p_last p) (p_avg p))) (pc_mult c)) (dirf c)
  end.
Definition margin (c : pcfg) (rate : Q) (p : pos) : Q :=
  match pc_kind c with StockPos => 0 | FuturePos => qmul rate (market_value c p) end.
Definition trading_pnl (c : pcfg) (p : pos) : Q :=
  qmul (pc_mult c) (qmul (qsub (qmul (qsub (p_qty p) (p_lold p)) (p_last p)) (p_trade_cost p)) (dirf c)).
Definition position_pnl (c : pcfg) (prev_close : Q) (p : pos) : Q :=
  qmul (pc_mult c) (if qeq_b (p_lold p) 0 then 0 else qmul (qmul (p_lold p) (qsub (p_last p) prev_close)) (dirf c)).

(* ---------------- before trading (StockPosition.before_trading split into its steps) ---------------- *)
(* Position.before_trading *)
Definition bt_reset (p : pos) : pos :=
  {| p_qty := p_qty p; p_old := p_qty p; p_lold := p_qty p; p_avg := p_avg p; p_trade_cost := 0; p_tcost := 0;
     p_non_closable := 0; p_last := p_last p; p_recv := p_recv p |}.
(* _handle_dividend_book_closure: dividend (per share, payable date) whose book closure date is the previous trading day *)
Definition bt_book (p : pos) (dv : option (Q * Z)) : pos :=
  match dv with
  | None => p
  | Some (dps, payable) =>
      {| p_qty := p_qty p; p_old := p_old p; p_lold := p_lold p; p_avg := qsub (p_avg p) dps; p_trade_cost := p_trade_cost p;
         p_tcost := p_tcost p; p_non_closable := p_non_closable p; p_last := qsub (p_last p) dps;
         p_recv := Some (payable, qmul (p_qty p) dps) |}
  end.
(* _handle_dividend_payable: (position, cash delta, reinvestment amount (shares) to be bought at p_last) *)
Definition reinvest_amount (value last lot : Q) : Q :=
  qmul (zq (qtrunc (dec_div (zq (qtrunc (dec_div value last))) lot))) lot.
Definition bt_pay (p : pos) (today : Z) (reinvest : bool) (lot : Q) : pos * Q * Q :=
  match p_recv p with
  | None => (p, 0, 0)
  | Some (payable, value) =>
      if negb (payable =? today)%Z then (p, 0, 0)
      else
        let p' := {| p_qty := p_qty p; p_old := p_old p; p_lold := p_lold p; p_avg := p_avg p; p_trade_cost := p_trade_cost p;
                     p_tcost := p_tcost p; p_non_closable := p_non_closable p; p_last := p_last p; p_recv := None |} in
        if reinvest then (p', value, reinvest_amount value (p_last p) lot) else (p', value, 0)
  end.
(* _handle_split *)
Definition bt_split (p : pos) (ratio : option Q) : pos :=
  match ratio with
  | None => p
  | Some r =>
      {| p_qty := zq (qround_even (qmul (p_qty p) r)); p_old := zq (qround_even (qmul (p_qty p) r));
         p_lold := zq (qround_even (qmul (p_lold p) r)); p_avg := qdiv (p_avg p) r; p_trade_cost := p_trade_cost p;
         p_tcost := p_tcost p; p_non_closable := p_non_closable p; p_last := qdiv (p_last p) r; p_recv := p_recv p |}
  end.
Definition has_recv (p : pos) : bool := match p_recv p with Some (_, v) => negb (qeq_b v 0) | None => false end.

(* ---------------- settlement ---------------- *)
(* FuturePosition.settlement without the expiry branch: (position, cash delta).  settle = Some price in settlement mode *)
Definition fut_settle (c : pcfg) (p : pos) (settle : option Q) : pos * Q :=
  if qeq_b (p_qty p) 0 then (p, 0)
  else
    let last := match settle with Some s => s | None => p_last p end in
    let p1 := {| p_qty := p_qty p; p_old := p_old p; p_lold := p_lold p; p_avg := p_avg p; p_trade_cost := p_trade_cost p;
                 p_tcost := p_tcost p; p_non_closable := p_non_closable p; p_last := last; p_recv := p_recv p |} in
    ({| p_qty := p_qty p; p_old := p_old p; p_lold := p_lold p; p_avg := last; p_trade_cost := p_trade_cost p;
        p_tcost := p_tcost p; p_non_closable := p_non_closable p; p_last := last; p_recv := p_recv p |},
     qadd 0 (equity c p1)).
(* the expiry close-out: a system CLOSE trade at the last price without fees, then quantity := old := 0 *)
Definition fut_expire (c : pcfg) (p : pos) : pos * Q :=
  let r := future_apply_trade c p {| t_effect := Close; t_price := p_last p; t_qty := p_qty p; t_fee := 0 |} in
  (set_qty (fst r) 0 0, snd r).
(* StockPosition.settlement at delisting: conv = Some ratio when a successor exists.
   returns (position, cash delta of THIS position, optional successor trade (price, amount)) *)
Definition stock_delist (p : pos) (conv : option Q) (cash_return : bool) : pos * Q * option (Q * Q) :=
  if qeq_b (p_qty p) 0 then (p, 0, None)
  else
    let dcash := match conv with
                 | Some ratio => qmul (p_avg p) (p_qty p)
                 | None => if cash_return then qmul (p_last p) (p_qty p) else 0
                 end in
    (* the payout / refund is booked as sale proceeds of the day: _trade_cost -= delta_cash; quantity := old := 0 *)
    ({| p_qty := 0; p_old := 0; p_lold := p_lold p; p_avg := p_avg p; p_trade_cost := qsub (p_trade_cost p) dcash; p_tcost := p_tcost p;
        p_non_closable := p_non_closable p; p_last := p_last p; p_recv := p_recv p |},
     dcash,
     match conv with Some ratio => Some (qdiv (p_avg p) ratio, qmul (p_qty p) ratio) | None => None end).

(* StockPosition.before_trading as a whole.  dv: dividend whose book closure date is the previous trading day
   (per share, payable date); split: ratio whose ex-date is today; reinvest_fee: commission + tax of the reinvestment
   trade (an input: it is produced by the cost deciders).  Returns (position, cash delta of the account). *)
Definition stock_before_trading (c : pcfg) (p : pos) (today : Z) (dv : option (Q * Z)) (split : option Q)
           (reinvest : bool) (lot reinvest_fee : Q) : pos * Q :=
  let p1 := bt_reset p in
  if qeq_b (p_qty p1) 0 && negb (match p_recv p1 with Some _ => true | None => false end) then (p1, 0)
  else
    let p2 := bt_book p1 dv in
    let r := bt_pay p2 today reinvest lot in
    let p3 := fst (fst r) in
    let amount := snd r in
    if qlt_b 0 amount then
      (* the reinvestment TRADE is applied to this very position through Account.apply_trade *)
      let tr := stock_apply_trade c p3 {| t_effect := Open; t_price := p_last p3; t_qty := amount; t_fee := reinvest_fee |} in
      (bt_split (fst tr) split, qadd (snd tr) (snd (fst r)))
    else (bt_split p3 split, snd (fst r)).
