(* Order sizing: rqalpha/mod/rqalpha_mod_sys_accounts/api/api_stock.py (_round_order_quantity, _submit_order, _order_shares,
   _order_value and the wrappers) and api_future.py (_submit_order, _order).  Share counts are Z, requests are Q. *)
From RQ Require Import Model.Num Model.Position.
Open Scope Q_scope.

Record sins := { s_lot : Z; s_ksh : bool }.      (* round_lot (1 on the STAR market) and the STAR-market flag *)
Definition KSH_MIN : Q := 200.

(* _round_order_quantity(ins, quantity) with method=int: truncation toward zero *)
Definition round_order_quantity (i : sins) (quantity : Q) : Z :=
  if s_ksh i then (if qlt_b (qabs quantity) KSH_MIN then 0%Z else qtrunc quantity)
  else (qtrunc (dec_div quantity (zq (s_lot i))) * s_lot i)%Z.

Inductive intent := Intent (s : side) (e : effect) (qty : Q).

(* stock _submit_order after the price check: the (signed) amount is rounded unless it liquidates the whole holding *)
Definition stock_submit_amount (i : sins) (amount : Q) (buy : bool) (current_quantity : Q) : Q :=
  if (buy && negb (qeq_b current_quantity (qneg amount))) || (negb buy && negb (qeq_b current_quantity (qabs amount)))
  then zq (round_order_quantity i amount) else amount.
(* _order_shares -> _submit_order: None = zero quantity (creation reject or silent no-op) *)
Definition order_shares_intent (i : sins) (amount current_quantity : Q) : option intent :=
  let buy := qlt_b 0 amount in
  let a := stock_submit_amount i amount buy current_quantity in
  if qeq_b a 0 then None else Some (Intent (if buy then Buy else Sell) (if buy then Open else Close) (qabs a)).

(* the budget loop of _order_value on explicit fuel; fee a = estimated transaction cost of a buy of a shares at `price` *)
Fixpoint budget_loop (fuel : nat) (lot : Z) (price budget : Q) (fee : Z -> Q) (a : Z) : Z :=
  match fuel with
  | O => 0%Z          (* out of fuel: excluded by the theorems (fuel = number of lots suffices) *)
  | S f => if (0 <? a)%Z then (if qle_b (qadd (qmul (zq a) price) (fee a)) budget then a else budget_loop f lot price budget fee (a - lot)%Z) else 0%Z
  end.
(* _order_value: the signed share amount handed to _order_shares; None = "0 order quantity" *)
Definition order_value_amount (i : sins) (cash_amount cash price : Q) (fee : Z -> Q) (closable : Q) : option Q :=
  let ca := if qlt_b 0 cash_amount then qmin cash_amount cash else cash_amount in
  let a0 := qtrunc (dec_div ca price) in
  if qlt_b 0 ca then
    let a1 := round_order_quantity i (zq a0) in
    let r := budget_loop (S (Z.to_nat (a1 / s_lot i))) (s_lot i) price ca fee a1 in
    if (0 <? r)%Z then Some (zq r) else None
  else if (a0 <? 0)%Z then Some (qmax (zq a0) (qneg closable)) else Some (zq a0).
Definition order_value_intent (i : sins) (cash_amount cash price : Q) (fee : Z -> Q) (closable quantity : Q) : option intent :=
  match order_value_amount i cash_amount cash price fee closable with
  | None => None
  | Some a => order_shares_intent i a quantity
  end.
(* order_target_value / order_target_percent (target = the value to reach, already total_value * percent for the latter) *)
Definition order_target_intent (i : sins) (target_is_zero : bool) (target market_value cash price : Q) (fee : Z -> Q) (closable quantity : Q) : option intent :=
  if target_is_zero then
    (* _submit_order(ins, closable, SELL, CLOSE, ...) *)
    let a := stock_submit_amount i closable false quantity in
    if qeq_b a 0 then None else Some (Intent Sell Close (qabs a))
  else order_value_intent i (qsub target market_value) cash price fee closable quantity.
(* order_to *)
Definition order_to_intent (i : sins) (target_quantity quantity : Q) : option intent :=
  order_shares_intent i (qsub target_quantity quantity) quantity.
Definition order_lots_intent (i : sins) (lots quantity : Q) : option intent := order_shares_intent i (qmul lots (zq (s_lot i))) quantity.

(* ---- futures ---- *)
(* api_future._submit_order: the legs created for one request (before validation); None = rejected at creation *)
Definition future_submit_legs (amount : Q) (s : side) (e : effect) (quantity old today_closable : Q) : option (list intent) :=
  let a := zq (qtrunc amount) in
  if qeq_b a 0 then None
  else match e with
       | CloseToday => if qlt_b today_closable a then None else Some [Intent s CloseToday a]
       | Close => if qlt_b quantity a then None
                  else if qlt_b old a then Some ((if qeq_b old 0 then [] else [Intent s Close old]) ++ [Intent s CloseToday (qsub a old)])
                       else Some [Intent s Close a]
       | Open => Some [Intent s Open a]
       end.
(* api_future._order: the requests issued in order: close yesterday's, close today's, open *)
Definition close_leg (s : side) (e : effect) (q avail : Q) : list (side * effect * Q) * Q :=
  if qlt_b 0 avail then ([(s, e, qmin q avail)], qsub q avail) else ([], q).
Definition future_legs (s : side) (q1 old today : Q) : list (side * effect * Q) :=
  let r1 := close_leg s Close q1 old in
  if qle_b (snd r1) 0 then fst r1
  else
    let r2 := close_leg s CloseToday (snd r1) today in
    if qle_b (snd r2) 0 then fst r1 ++ fst r2 else fst r1 ++ fst r2 ++ [(s, Open, snd r2)].
Definition future_order_requests (quantity : Q) (target : bool) (long_q short_q long_old long_today short_old short_today : Q) : list (side * effect * Q) :=
  let q0 := if target then qsub quantity (qsub long_q short_q) else quantity in
  if qlt_b 0 q0 then future_legs Buy q0 short_old short_today
  else future_legs Sell (qmul q0 (-1)) long_old long_today.
