(* DefaultBarMatcher as a state machine: the per-instrument turnover dictionary (`_turnover`, a defaultdict(int)) across matcher
   calls.  `update` (called by SimulationBroker.on_bar before the bar's orders are matched) and SimulationBroker.before_trading clear
   it; every fill adds its quantity for the order's instrument (also when the rest of a market order is cancelled afterwards). *)
From RQ Require Import Model.Num Model.Position Model.Matcher.
Open Scope Q_scope.

Definition tmap := list (nat * Q).                (* newest binding first; a missing key reads 0 *)
Fixpoint tget (m : tmap) (k : nat) : Q :=
  match m with [] => 0 | (k', x) :: t => if Nat.eqb k k' then x else tget t k end.
Definition tadd (m : tmap) (k : nat) (x : Q) : tmap := (k, qadd (tget m k) x) :: m.

Record margs := { a_g : mcfg; a_i : mins; a_bar : mbar; a_abar : mbar; a_pb : mbar; a_auction : bool; a_o : morder;
                  a_fee : Q -> Q -> Q -> Q; a_occ : Q -> Q; a_avail : Q; a_ct : Q -> Q }.
Inductive mop :=
| MUpdate                                   (* matcher.update(event) / the clear in before_trading *)
| MMatch (k : nat) (a : margs).             (* matcher.match(account, order, open_auction) for an order on instrument k *)

Definition run_match (turnover : Q) (a : margs) : outcome :=
  match_one (a_g a) (a_i a) (a_bar a) (a_abar a) (a_pb a) (a_auction a) turnover (a_o a) (a_fee a) (a_occ a) (a_avail a) (a_ct a).
Definition a_vol (a : margs) : option Q := if a_auction a then b_volume (a_abar a) else b_volume (a_bar a).
Definition a_unfilled (a : margs) : Q := qsub (mo_qty (a_o a)) (mo_filled (a_o a)).

(* state: the turnover map and, as an independent audit log, the fills (instrument, quantity) since the last update *)
Record mstate := { ms_turnover : tmap; ms_fills : list (nat * Q) }.
Definition ms_init : mstate := {| ms_turnover := []; ms_fills := [] |}.
Definition mstep (s : mstate) (op : mop) : mstate :=
  match op with
  | MUpdate => ms_init
  | MMatch k a =>
      match run_match (tget (ms_turnover s) k) a with
      | Filled _ qty _ _ => {| ms_turnover := tadd (ms_turnover s) k qty; ms_fills := (k, qty) :: ms_fills s |}
      | _ => s
      end
  end.
Definition mrun (ops : list mop) : mstate := fold_left mstep ops ms_init.
(* the auditor: what an event listener adds up from the trades of instrument k in the current bar *)
Fixpoint fills_of (k : nat) (l : list (nat * Q)) : Q :=
  match l with [] => 0 | (k', x) :: t => if Nat.eqb k k' then x + fills_of k t else fills_of k t end.

(* ---- correspondence: the implementation's turnover before and after every matcher call of a whole run ---- *)
(* calls nest (a TRADE handler may place an order that is matched at once), so the observations are taken per mark, in trace order *)
Inductive tobs :=
| TClear                          (* a BAR or BEFORE_TRADING event begins *)
| TPre (k : nat) (v : Q)          (* a matcher call on k begins: the turnover it finds *)
| TFill (k : nat) (qty : Q)       (* a trade of k is announced (the matcher books it just before) *)
| TPost (k : nat) (v : Q).        (* a matcher call on k returns: the turnover it leaves *)
Fixpoint turnover_run (s : tmap) (l : list tobs) : bool :=
  match l with
  | [] => true
  | TClear :: t => turnover_run [] t
  | TPre k v :: t => qeq_b (tget s k) v && turnover_run s t
  | TFill k qty :: t => turnover_run (tadd s k qty) t
  | TPost k v :: t => qeq_b (tget s k) v && turnover_run s t
  end.
Definition chk_turnover_run (l : list tobs) : bool := turnover_run [] l.
