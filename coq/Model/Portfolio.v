(* Portfolio: rqalpha/portfolio/__init__.py -- units, unit net value, the previous-close latch, deposits. *)
From RQ Require Import Model.Num Model.Position.
Open Scope Q_scope.

Record pf := { pf_units : Q; pf_static : Q (* _static_unit_net_value *) }.

(* Portfolio.unit_net_value for a given total value (sum of the accounts' total values) *)
Definition unit_net_value (p : pf) (tv : Q) : Q := qdiv tv (pf_units p).
(* Portfolio._pre_before_trading *)
Definition latch (p : pf) (tv : Q) : pf := {| pf_units := pf_units p; pf_static := unit_net_value p tv |}.
(* Portfolio.deposit_withdraw: tv_before / tv_after are the total values around Account.deposit_withdraw *)
Definition pf_deposit (p : pf) (tv_before tv_after : Q) : pf :=
  {| pf_units := qdiv tv_after (unit_net_value p tv_before); pf_static := pf_static p |}.
(* ... which refuses a flow when the unit net value is 0 (a wiped-out portfolio: units cannot be converted), before anything is changed *)
Definition pf_deposit_checked (p : pf) (tv_before tv_after : Q) : option pf :=
  if qeq_b (unit_net_value p tv_before) 0 then None else Some (pf_deposit p tv_before tv_after).
Definition daily_returns (p : pf) (tv : Q) : Q := qsub (qdiv (unit_net_value p tv) (pf_static p)) 1.
Definition total_returns (p : pf) (tv : Q) : Q := qsub (unit_net_value p tv) 1.

(* compounding a series of closing unit net values *)
Fixpoint compound (prev : Q) (navs : list Q) : Q :=
  match navs with [] => 1 | n :: t => (1 + (n / prev - 1)) * compound n t end.
Fixpoint lastq (d : Q) (l : list Q) : Q := match l with [] => d | x :: t => lastq x t end.

(* one trading day of one entry: trades and marks, with the cash the entry moves *)
Inductive dev := DTrade (t : trade) | DMark (price : Q).
Definition dstep (c : pcfg) (s : pos * Q) (e : dev) : pos * Q :=
  match e with
  | DTrade t => let r := pos_apply_trade c (fst s) t in (fst r, qadd (snd s) (snd r))
  | DMark price =>
      ({| p_qty := p_qty (fst s); p_old := p_old (fst s); p_lold := p_lold (fst s); p_avg := p_avg (fst s);
          p_trade_cost := p_trade_cost (fst s); p_tcost := p_tcost (fst s); p_non_closable := p_non_closable (fst s);
          p_last := price; p_recv := p_recv (fst s) |}, snd s)
  end.
Definition drun (c : pcfg) (p : pos) (evs : list dev) : pos * Q := fold_left (dstep c) evs (p, 0).
(* Account.daily_pnl restricted to one entry (without the interest term) *)
Definition entry_daily_pnl (c : pcfg) (prev_close : Q) (p : pos) : Q :=
  trading_pnl c p + position_pnl c prev_close p - p_tcost p.
