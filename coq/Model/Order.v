(* Order status machine (rqalpha/model/order.py) and the life of ONE order inside SimulationBroker
   (simulation_broker.py: submit_order / cancel_order / _match / before_trading / after_trading).
   The broker treats its orders independently, so the per-order projection is this machine; the outcome of a
   match call is an input (it is what Model/Matcher.v computes from market data). *)
From RQ Require Import Model.Num Model.Position Model.Matcher.
Open Scope Q_scope.

Inductive status := PendingNew | Active | SFilled | SCancelled | SRejected | PendingCancel.
Inductive place := Nowhere | InOpen | InAuction.          (* membership in _open_orders / _open_auction_orders *)
Record ostate := { os_status : status; os_qty : Q; os_filled : Q; os_avg : Q; os_tcost : Q; os_place : place }.

Definition is_final (s : status) : bool := match s with PendingNew | Active | PendingCancel => false | _ => true end.
Definition with_status (o : ostate) (s : status) (p : place) : ostate :=
  {| os_status := s; os_qty := os_qty o; os_filled := os_filled o; os_avg := os_avg o; os_tcost := os_tcost o; os_place := p |}.
(* Order.mark_rejected / mark_cancelled: refuse to leave a final state *)
Definition mark (o : ostate) (s : status) : ostate := if is_final (os_status o) then o else with_status o s (os_place o).
(* Order.fill *)
Definition order_fill (o : ostate) (price qty fee : Q) : ostate :=
  let nf := qadd (os_filled o) qty in
  {| os_status := if qeq_b (qsub (os_qty o) nf) 0 then SFilled else os_status o;
     os_qty := os_qty o; os_filled := nf;
     os_avg := qdiv (qadd (qmul (os_avg o) (os_filled o)) (qmul price qty)) nf;
     os_tcost := qadd (os_tcost o) fee; os_place := os_place o |}.

Inductive oev :=
| EvPendingNew | EvCreationPass | EvTrade (price qty fee : Q) | EvUnsolicited (s : status) | EvPendingCancel | EvCancellationPass.
Inductive oin :=
| ISubmit (auction : bool)            (* broker.submit_order of a validated order in / outside the auction phase *)
| IMatch (r : outcome) (fee : Q)      (* one matcher.match call inside a _match round *)
| ICancel                             (* broker.cancel_order *)
| IBeforeTrading | IAfterTrading.

Definition out (o : ostate) : ostate := with_status o (os_status o) Nowhere.

Definition ostep (o : ostate) (i : oin) : ostate * list oev :=
  match i with
  | ISubmit auction =>
      match os_status o, os_place o with
      | PendingNew, Nowhere => (with_status o Active (if auction then InAuction else InOpen), [EvPendingNew; EvCreationPass])
      | _, _ => (o, [])
      end
  | IMatch r fee =>
      match os_place o with
      | Nowhere => (o, [])
      | _ =>
          if is_final (os_status o) then
            (* a final order still listed would be dropped and, if rejected / cancelled, announced again *)
            (out o, match os_status o with SRejected => [EvUnsolicited SRejected] | SCancelled => [EvUnsolicited SCancelled] | _ => [] end)
          else
            match r with
            | NoMatch => (with_status o (os_status o) InOpen, [])         (* survivors of a round live in _open_orders *)
            | Rejected _ => (out (mark o SRejected), [EvUnsolicited SRejected])
            | Cancelled _ => (out (mark o SCancelled), [EvUnsolicited SCancelled])
            | Filled price qty _ rest_cancelled =>
                let o1 := order_fill o price qty fee in
                if is_final (os_status o1) then (out o1, [EvTrade price qty fee])
                else if rest_cancelled then (out (mark o1 SCancelled), [EvTrade price qty fee; EvUnsolicited SCancelled])
                else (with_status o1 (os_status o1) InOpen, [EvTrade price qty fee])
            end
      end
  | ICancel =>
      if is_final (os_status o) then (o, [])
      else (out (mark o SCancelled), [EvPendingCancel; EvCancellationPass])
  | IBeforeTrading =>
      match os_place o with
      | InOpen => (with_status o Active InOpen, [EvCreationPass])
      | _ => (o, [])
      end
  | IAfterTrading =>
      match os_place o with
      | InOpen => (out (mark o SRejected), [EvUnsolicited SRejected])
      | _ => (o, [])
      end
  end.

Fixpoint orun (o : ostate) (ins : list oin) : ostate * list oev :=
  match ins with
  | [] => (o, [])
  | i :: t => let r := ostep o i in let r' := orun (fst r) t in (fst r', snd r ++ snd r')
  end.

Definition fresh_order (qty : Q) : ostate :=
  {| os_status := PendingNew; os_qty := qty; os_filled := 0; os_avg := 0; os_tcost := 0; os_place := Nowhere |}.

(* the announced protocol as an automaton over the events of one order *)
Inductive pstate := P0 | P1 | P2 | P3 | PDone | PFail.
Definition pstep (p : pstate) (e : oev) : pstate :=
  match p, e with
  | P0, EvPendingNew => P1
  | P1, EvCreationPass => P2
  | P2, EvTrade _ _ _ => P2
  | P2, EvUnsolicited _ => PDone
  | P2, EvPendingCancel => P3
  | P3, EvCancellationPass => PDone
  | _, _ => PFail
  end.
Definition prun (p : pstate) (evs : list oev) : pstate := fold_left pstep evs p.

(* sums over the trades announced for the order *)
Fixpoint traded_qty (evs : list oev) : Q := match evs with [] => 0 | EvTrade _ q _ :: t => q + traded_qty t | _ :: t => traded_qty t end.
Fixpoint traded_value (evs : list oev) : Q := match evs with [] => 0 | EvTrade p q _ :: t => p * q + traded_value t | _ :: t => traded_value t end.
Fixpoint traded_fees (evs : list oev) : Q := match evs with [] => 0 | EvTrade _ _ f :: t => f + traded_fees t | _ :: t => traded_fees t end.
