(* The account kernel as an event machine: every handler of Account / Position that moves cash, quantities or
   value, cut at the granularity at which the running code can be observed. *)
From RQ Require Import Model.Num Model.Position Model.Account.
Open Scope Q_scope.

Inductive aev :=
| ETrade (i : nat) (t : trade) (ord : option (Q * Q))   (* a fill (order = Some (quantity, reserve)) or a system trade *)
| EReserve (r : Q)                                      (* ORDER_PENDING_NEW *)
| ERelease (r : Q)                                      (* ORDER_UNSOLICITED_UPDATE / ORDER_CANCELLATION_PASS *)
| EMark (i : nat) (price : Q)                           (* _on_bar *)
| EDeposit (x : Q)                                      (* accepted immediate deposit (x > 0) / withdrawal (x < 0) *)
| EDepositPending (d : Z) (x : Q)
| EArrive (today : Z)                                   (* pending deposits received before trading *)
| EFinance (x : Q) | ERepay (x : Q) | EInterest
| EReset (i : nat)                                      (* Position.before_trading *)
| EBook (i : nat) (dps : Q) (payable : Z)               (* dividend book closure *)
| EPay (i : nat) (today : Z)                            (* dividend payable date, no reinvestment (reinvestment = EPay; ETrade) *)
| ESplit (i : nat) (r : Q)
| EDelist (i : nat) (cash_return : bool)                (* delisting without successor *)
| ESettleFut (i : nat) (settle : option Q)              (* daily mark-to-market *)
| EExpire (i : nat)                                     (* expiry close-out after marking *)
| EMgmt (fee : Q)
| ELiquidate (enabled : bool).

Definition on_entry (a : account) (i : nat) (f : pcfg -> pos -> pos * Q) : account :=
  match nth_error (a_pos a) i with
  | None => a
  | Some (c, p) => set_entry a i (fst (f c p)) (snd (f c p))
  end.

Definition astep (g : acfg) (a : account) (e : aev) : account :=
  match e with
  | ETrade i t ord => acc_apply_trade a i t ord
  | EReserve r => with_frozen a (qadd (a_frozen a) r)
  | ERelease r => with_frozen a (qsub (a_frozen a) r)
  | EMark i price => mark a i price
  | EDeposit x => deposit_now a x
  | EDepositPending d x => deposit_pending a d x
  | EArrive today =>
      {| a_total_cash := qadd (a_total_cash a) (fst (arrive today (a_pending a))); a_frozen := a_frozen a; a_liab := a_liab a;
         a_pending := snd (arrive today (a_pending a)); a_mgmt_fees := a_mgmt_fees a; a_pos := a_pos a |}
  | EFinance x => finance a x
  | ERepay x => repay a x
  | EInterest => accrue_interest g a
  | EReset i => on_entry a i (fun _ p => (bt_reset p, 0))
  | EBook i dps payable => on_entry a i (fun _ p => (bt_book p (Some (dps, payable)), 0))
  | EPay i today => on_entry a i (fun _ p => fst (bt_pay p today false 1))
  | ESplit i r => on_entry a i (fun _ p => (bt_split p (Some r), 0))
  | EDelist i cr => on_entry a i (fun _ p => fst (stock_delist p None cr))
  | ESettleFut i s => on_entry a i (fun c p => match pc_kind c with FuturePos => fut_settle c p s | StockPos => (p, 0) end)
  | EExpire i => on_entry a i (fun c p => match pc_kind c with FuturePos => fut_expire c p | StockPos => (p, 0) end)
  | EMgmt fee => charge_mgmt a fee
  | ELiquidate en => forced_liquidation g a en
  end.

Definition arun (g : acfg) (a : account) (evs : list aev) : account := fold_left (astep g) evs a.

(* ---- the ledger the property describes, written from the events alone (plus the booked receivable / the mark) ---- *)
Definition entry (a : account) (i : nat) : option (pcfg * pos) := nth_error (a_pos a) i.

(* what an event contributes to total cash *)
Definition cash_contrib (g : acfg) (a : account) (e : aev) : Q :=
  match e with
  | ETrade i t _ =>
      match entry a i with
      | None => 0
      | Some (c, p) =>
          match pc_kind c with
          | StockPos => match t_effect t with Open => - (t_price t * t_qty t) - t_fee t | _ => t_price t * t_qty t - t_fee t end
          | FuturePos => match t_effect t with
                         | Open => - t_fee t
                         | _ => (t_price t - p_avg p) * t_qty t * pc_mult c * dirf c - t_fee t   (* realised against the carrying price *)
                         end
          end
      end
  | EDeposit x => x
  | EArrive today => fst (arrive today (a_pending a))
  | EFinance x => x
  | ERepay x => - (x + qmin 0 (qsub (a_liab a) x))
  | EPay i today =>
      match entry a i with
      | Some (_, p) => match p_recv p with Some (d, v) => if (d =? today)%Z then v else 0 | None => 0 end
      | None => 0
      end
  | EDelist i cr =>
      match entry a i with
      | Some (_, p) => if qeq_b (p_qty p) 0 then 0 else if cr then p_last p * p_qty p else 0
      | None => 0
      end
  | ESettleFut i s =>
      match entry a i with
      | Some (c, p) => match pc_kind c with StockPos => 0 | FuturePos =>
                       if qeq_b (p_qty p) 0 then 0
                       else p_qty p * ((match s with Some x => x | None => p_last p end) - p_avg p) * pc_mult c * dirf c end
      | None => 0
      end
  | EExpire i =>
      match entry a i with
      | Some (c, p) => match pc_kind c with StockPos => 0 | FuturePos => (p_last p - p_avg p) * p_qty p * pc_mult c * dirf c end
      | None => 0
      end
  | EMgmt fee => - fee
  | ELiquidate en => if qle_b (total_value g a) 0 && en then - a_total_cash a else 0
  | _ => 0
  end.
Fixpoint audit_cash (g : acfg) (a : account) (evs : list aev) : Q :=
  match evs with [] => 0 | e :: t => cash_contrib g a e + audit_cash g (astep g a e) t end.

(* what an event contributes to reserved cash *)
Definition frozen_contrib (e : aev) : Q :=
  match e with
  | ETrade _ t ord => - release_trade ord (t_qty t)
  | EReserve r => r
  | ERelease r => - r
  | _ => 0
  end.
