(* Execution phases and the finite obligations over the table of API phase guards (Gen/ApiPhases.v). *)
From Coq Require Import List String Bool.
Import ListNotations.
Open Scope string_scope.

Inductive xphase := XOnInit | XBeforeTrading | XOpenAuction | XOnBar | XOnTick | XAfterTrading | XScheduled | XGlobal | XFinalized.
Definition xphase_eqb (a b : xphase) : bool :=
  match a, b with
  | XOnInit, XOnInit | XBeforeTrading, XBeforeTrading | XOpenAuction, XOpenAuction | XOnBar, XOnBar | XOnTick, XOnTick
  | XAfterTrading, XAfterTrading | XScheduled, XScheduled | XGlobal, XGlobal | XFinalized, XFinalized => true
  | _, _ => false
  end.
Definition mem_phase (p : xphase) (l : list xphase) : bool := existsb (xphase_eqb p) l.
Fixpoint lookup {A} (name : string) (t : list (string * A)) : option A :=
  match t with [] => None | (k, v) :: r => if String.eqb k name then Some v else lookup name r end.

(* the order-placing APIs, the cash-flow APIs and the registration APIs named by the properties *)
Definition order_apis : list string :=
  ["order_shares"; "order_lots"; "order_value"; "order_percent"; "order_target_value"; "order_target_percent"; "order_target_portfolio";
   "buy_open"; "sell_open"; "buy_close"; "sell_close"; "order"; "order_to"; "submit_order"; "exercise"].
Definition flow_apis : list string := ["deposit"; "withdraw"; "finance"; "repay"].
Definition registration_apis : list string := ["scheduler.run_daily"; "scheduler.run_weekly"; "scheduler.run_monthly"].

(* guarded and refused during init, before_trading and after_trading *)
Definition order_api_guarded (t : list (string * option (list xphase))) (name : string) : bool :=
  match lookup name t with
  | Some (Some phases) => negb (mem_phase XOnInit phases) && negb (mem_phase XBeforeTrading phases) && negb (mem_phase XAfterTrading phases)
  | _ => false
  end.
Definition only_in_init (t : list (string * option (list xphase))) (name : string) : bool :=
  match lookup name t with
  | Some (Some phases) => forallb (xphase_eqb XOnInit) phases && negb (match phases with [] => true | _ => false end)
  | _ => false
  end.
Definition api_allows (t : list (string * option (list xphase))) (name : string) (p : xphase) : bool :=
  match lookup name t with
  | Some (Some phases) => mem_phase p phases
  | Some None => true
  | None => false
  end.
(* every phase event E is published as PRE_E, E, POST_E *)
Definition event_split_brackets (t : list (string * list string)) : bool :=
  forallb (fun kv => match snd kv with
                     | [a; b; c] => String.eqb a ("PRE_" ++ fst kv) && String.eqb b (fst kv) && String.eqb c ("POST_" ++ fst kv)
                     | _ => false
                     end) t &&
  forallb (fun e => match lookup e t with Some _ => true | None => false end) ["BEFORE_TRADING"; "OPEN_AUCTION"; "BAR"; "AFTER_TRADING"; "SETTLEMENT"].

(* a handler registered with subscribe_event (Strategy.wrap_user_event_handler): the events of a day phase - also their PRE_ / POST_
   brackets - are handled in that phase; every other event (orders, trades, settlement ...) in the phase that is running when it is
   published: the phase of the innermost day-phase event being published (EventBus keeps that stack - the broker raises order events from
   its own BEFORE_TRADING / AFTER_TRADING listeners, outside any phase context), else the phase on the stack; `enclosing` stands for that.  t is the table Strategy._EVENT_PHASE; fallback_enclosing says that an event without an entry keeps the enclosing phase
   (false: the handler is forced into GLOBAL, where the order APIs and the unrestricted views are open). *)
Definition handler_phase (t : list (string * xphase)) (fallback_enclosing : bool) (ev : string) (enclosing : xphase) : xphase :=
  match lookup ev t with Some p => p | None => if fallback_enclosing then enclosing else XGlobal end.
Definition day_phase_events : list (string * xphase) :=
  [("BEFORE_TRADING", XBeforeTrading); ("OPEN_AUCTION", XOpenAuction); ("BAR", XOnBar); ("TICK", XOnTick); ("AFTER_TRADING", XAfterTrading)].
Definition handlers_follow_split (split : list (string * list string)) (t : list (string * xphase)) (fb : bool) : bool :=
  fb && forallb (fun kv => match lookup (fst kv) split with
                           | Some parts => forallb (fun part => match lookup part t with Some p => xphase_eqb p (snd kv) | None => false end) parts
                           | None => false
                           end) day_phase_events.
Definition closed_phase_events : list string :=
  ["PRE_BEFORE_TRADING"; "BEFORE_TRADING"; "POST_BEFORE_TRADING"; "PRE_AFTER_TRADING"; "AFTER_TRADING"; "POST_AFTER_TRADING";
   "PRE_SETTLEMENT"; "SETTLEMENT"; "POST_SETTLEMENT"].      (* settlement comes after the close: trades it raises (expiry, delisting) must not let a handler order *)

(* EventBus.publish_event: the system listeners in registration order until one returns a truthy value, then every user listener.
   `delivered ls e` = how many system listeners the event reaches. *)
Fixpoint delivered {E} (ls : list (E -> bool)) (e : E) : nat :=
  match ls with [] => 0%nat | l :: t => if l e then 1%nat else S (delivered t e) end.
(* events that only an embedding application publishes (live trading: persist / restore on demand); a back-test never does *)
Definition external_events : list string := ["DO_RESTORE"; "DO_PERSIST"].
Definition in_strs (x : string) (l : list string) : bool := existsb (String.eqb x) l.
(* the listeners the lifecycle model relies on (Gen/Listeners.v must contain them) *)
Definition expected_phase_listeners : list (string * string) :=
  [("core.strategy:Strategy.before_trading", "BEFORE_TRADING"); ("core.strategy:Strategy.open_auction", "OPEN_AUCTION"); ("core.strategy:Strategy.handle_bar", "BAR");
   ("core.strategy:Strategy.after_trading", "AFTER_TRADING");
   ("mod.rqalpha_mod_sys_simulation.simulation_broker:SimulationBroker.before_trading", "BEFORE_TRADING");
   ("mod.rqalpha_mod_sys_simulation.simulation_broker:SimulationBroker.on_bar", "BAR");
   ("mod.rqalpha_mod_sys_simulation.simulation_broker:SimulationBroker.after_trading", "AFTER_TRADING");
   ("portfolio.account:Account._on_before_trading", "PRE_BEFORE_TRADING"); ("portfolio.account:Account._on_settlement", "SETTLEMENT");
   ("portfolio.account:Account.apply_trade", "TRADE"); ("portfolio.__init__:Portfolio._pre_before_trading", "PRE_BEFORE_TRADING");
   ("core.strategy_universe:StrategyUniverse._clear_de_listed", "AFTER_TRADING")].
