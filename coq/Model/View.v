(* No look-ahead (C07): what each market-data accessor reads, as a function of the whole market history and the clock.
   rqalpha/data/bar_dict_price_board.py (_get_bar), data_proxy.py (get_bar, get_open_auction_bar, current_snapshot),
   apis/api_base.py (current_snapshot, history_bars), model/bar.py (PartialBarObject / BarObject), environment.get_bar.
   Daily frequency; a history is the list of one instrument's day bars in the bundle (any order of dates is allowed in the
   statements - the accessors below only look a date up or count a prefix). *)
From RQ Require Import Model.Num Model.Calendar.
Open Scope Z_scope.

Record dbar := { d_dt : Z; d_open : Q; d_close : Q; d_high : Q; d_low : Q; d_lu : Q; d_ld : Q; d_vol : Q; d_turn : Q }.
Inductive vphase := VBeforeTrading | VOpenAuction | VOnBar | VAfterTrading | VSettlement.

(* data_source.get_bar(instrument, dt, '1d') *)
Fixpoint bar_at (bars : list dbar) (d : Z) : option dbar :=
  match bars with [] => None | b :: t => if d_dt b =? d then Some b else bar_at t d end.

(* an observation: open close high low last volume total_turnover limit_up limit_down; None = not available (NaN / no such attribute) *)
Definition obs := list (option Q).
Definition no_view : obs := [None; None; None; None; None; None; None; None; None].
Definition full_view (b : dbar) : obs :=
  [Some (d_open b); Some (d_close b); Some (d_high b); Some (d_low b); Some (d_close b); Some (d_vol b); Some (d_turn b); Some (d_lu b); Some (d_ld b)].
(* BaseDataSource.OPEN_AUCTION_BAR_FIELDS + last := open, wrapped in a PartialBarObject *)
Definition auction_view (b : dbar) : obs :=
  [Some (d_open b); None; None; None; Some (d_open b); Some (d_vol b); Some (d_turn b); Some (d_lu b); Some (d_ld b)].
(* daily current_snapshot in the auction: a tick whose last = high = low = open (a tick has no close) *)
Definition auction_tick (b : dbar) : obs :=
  [Some (d_open b); None; Some (d_open b); Some (d_open b); Some (d_open b); Some (d_vol b); Some (d_turn b); Some (d_lu b); Some (d_ld b)].
Definition tick_view (b : dbar) : obs :=
  [Some (d_open b); None; Some (d_high b); Some (d_low b); Some (d_close b); Some (d_vol b); Some (d_turn b); Some (d_lu b); Some (d_ld b)].
Definition on_bar {A} (f : dbar -> A) (dflt : A) (o : option dbar) : A := match o with Some b => f b | None => dflt end.

(* BarDictPriceBoard._get_bar: last price, limits (what positions are marked with, what validators read) *)
Definition board_bar (cal : list Z) (bars : list dbar) (ph : vphase) (d : Z) : obs :=
  match ph with
  | VBeforeTrading => on_bar full_view no_view (bar_at bars (prev_trading_date cal d 1))
  | VOpenAuction => on_bar auction_view no_view (bar_at bars d)
  | _ => on_bar full_view no_view (bar_at bars d)
  end.
(* bar_dict[id] handed to open_auction / handle_bar; the matcher reads the same object (Environment.get_bar / get_open_auction_bar) *)
Definition bar_dict_bar (bars : list dbar) (ph : vphase) (d : Z) : obs :=
  match ph with
  | VOpenAuction => on_bar auction_view no_view (bar_at bars d)
  | _ => on_bar full_view no_view (bar_at bars d)
  end.
(* api current_snapshot, back-test, daily *)
Definition snapshot (cal : list Z) (bars : list dbar) (ph : vphase) (d : Z) : obs :=
  match ph with
  | VBeforeTrading => on_bar tick_view no_view (bar_at bars (prev_trading_date cal d 1))
  | VOpenAuction => on_bar auction_tick no_view (bar_at bars d)
  | _ => on_bar tick_view no_view (bar_at bars d)
  end.
(* Position.last_price of a position that has never been marked: the board's last price *)
Definition lazy_last_price (cal : list Z) (bars : list dbar) (ph : vphase) (d : Z) : option Q := nth 4 (board_bar cal bars ph d) None.

(* history_bars(id, n, '1d', field, ...) as the API serves it in a daily back-test: end date by phase, window, adjustment at the current date *)
Definition hphase_of (ph : vphase) : hphase :=
  match ph with VBeforeTrading => HBeforeTrading | VOpenAuction => HOpenAuction | VOnBar => HOnBar | _ => HAfterTrading end.
Definition api_history (cal : list Z) (bars : list hbar) (table : list (Z * Q)) (is_cs no_adjust_kind : bool) (ph : vphase) (d n : Z)
           (skip : bool) (adj : adjust_type) : list hbar :=
  let e := history_end false false (hphase_of ph) d (prev_trading_date cal d 1) in
  adjust_window (history_window bars skip is_cs (fst e) n) table adj no_adjust_kind d.

(* ---- two histories that agree up to a moment ---- *)
(* a common prefix, then bars that are all in the future of the moment; at the auction of day d the two bars of day d may
   differ in what the auction does not show *)
Definition later_than (d : Z) (l : list dbar) : Prop := Forall (fun b => d < d_dt b) l.
Definition not_before (d : Z) (l : list dbar) : Prop := Forall (fun b => d <= d_dt b) l.
Definition agree (ph : vphase) (d : Z) (h1 h2 : list dbar) : Prop :=
  exists p s1 s2, h1 = p ++ s1 /\ h2 = p ++ s2 /\
    match ph with
    | VBeforeTrading => not_before d s1 /\ not_before d s2
    | VOpenAuction =>
        (later_than d s1 /\ later_than d s2) \/
        (exists b1 b2 t1 t2, s1 = b1 :: t1 /\ s2 = b2 :: t2 /\ d_dt b1 = d /\ d_dt b2 = d /\ auction_view b1 = auction_view b2 /\
                             later_than d t1 /\ later_than d t2)
    | _ => later_than d s1 /\ later_than d s2
    end.
Definition hagree (t : Z) (h1 h2 : list hbar) : Prop :=
  exists p s1 s2, h1 = p ++ s1 /\ h2 = p ++ s2 /\ Forall (fun b => t < h_dt b) s1 /\ Forall (fun b => t < h_dt b) s2.
Definition tagree (t : Z) (t1 t2 : list (Z * Q)) : Prop :=
  exists p s1 s2, t1 = p ++ s1 /\ t2 = p ++ s2 /\ p <> [] /\ Forall (fun r => t < fst r) s1 /\ Forall (fun r => t < fst r) s2.
(* the last date whose whole bar is visible *)
Definition visible_day (cal : list Z) (ph : vphase) (d : Z) : Z :=
  match ph with VBeforeTrading | VOpenAuction => prev_trading_date cal d 1 | _ => d end.

(* ---- a run as a whole: an engine + strategy that reads the market only through a view of the moment ---- *)
Section Run.
  Variables (State Obs Data View : Type).
  Variable view : Data -> nat -> View.                  (* everything the accessors can return at step t *)
  Variable step : State -> nat -> View -> State * Obs.  (* engine and strategy together: any feedback from observations to orders *)
  Fixpoint run_from (data : Data) (s : State) (t : nat) (n : nat) : list Obs :=
    match n with
    | O => []
    | S k => let r := step s t (view data t) in snd r :: run_from data (fst r) (S t) k
    end.
End Run.
