(* Front-end validation: Environment.can_submit_order (environment.py) over the chain
   PositionValidator (sys_accounts), PriceValidator, IsTradingValidator, CashValidator, SelfTradeValidator (sys_risk). *)
From RQ Require Import Model.Num Model.Position Model.Closable.
Open Scope Q_scope.

Record vcfg := { v_position : bool; v_price : bool; v_trading : bool; v_cash : bool; v_self : bool }.
Inductive vreason := VPositionToday | VPosition | VLimitUp | VLimitDown | VNotListing | VSuspended | VCash | VSelfTrade.

Record vorder := { vo_side : side; vo_effect : effect; vo_limit : bool; vo_price : Q (* limit price *); vo_qty : Q }.
Record vctx := {
  vx_closable : ccfg * cstate;            (* the position the order would close, with its resting closing orders *)
  vx_limit_up : option Q; vx_limit_down : option Q;   (* price board, None = nan *)
  vx_is_index : bool; vx_is_cs : bool;
  vx_listed : bool;                        (* instrument.listing_at(trading_dt) *)
  vx_suspended : bool;
  vx_cash : Q;                             (* account.cash *)
  vx_cost : Q;                             (* calc_cash_occupation(frozen_price, quantity) + order transaction cost *)
  vx_opposite : list Q                     (* prices of resting orders on the other side (0 for market orders); self-trade check *)
}.

(* Python round(x, 4): half-even on x * 10^4 *)
Definition round4 (x : Q) : Q := qdiv (zq (qround_even (qmul x 10000))) 10000.

Definition position_check (x : vctx) (o : vorder) : option vreason :=
  match vo_effect o with
  | Open => None
  | CloseToday => if validate_close (fst (vx_closable x)) (snd (vx_closable x)) true (vo_qty o) then None else Some VPositionToday
  | Close => if validate_close (fst (vx_closable x)) (snd (vx_closable x)) false (vo_qty o) then None else Some VPosition
  end.
Definition price_check (x : vctx) (o : vorder) : option vreason :=
  if negb (vo_limit o) then None
  (* vx_limit_up / vx_limit_down are the price board's limits already rounded to 4 places: round(limit, 4) returns a float,
     which the exact model cannot reproduce, so the rounded values are inputs *)
  else if (match vx_limit_up x with Some lu => qlt_b lu (vo_price o) | None => false end) then Some VLimitUp
  else if (match vx_limit_down x with Some ld => qlt_b (vo_price o) ld | None => false end) then Some VLimitDown
  else None.
Definition trading_check (x : vctx) (o : vorder) : option vreason :=
  if negb (vx_is_index x) && negb (vx_listed x) then Some VNotListing
  else if vx_is_cs x && vx_suspended x then Some VSuspended else None.
Definition cash_check (x : vctx) (o : vorder) : option vreason :=
  match vo_effect o with
  | Open => if qle_b (vx_cost x) (vx_cash x) then None else Some VCash
  | _ => None
  end.
Definition self_trade_check (x : vctx) (o : vorder) : option vreason :=
  match vx_opposite x with
  | [] => None
  | _ => if negb (vo_limit o) then Some VSelfTrade
         else if existsb (fun p => match vo_side o with Buy => qle_b p (vo_price o) | Sell => qle_b (vo_price o) p end) (vx_opposite x)
              then Some VSelfTrade else None
  end.

Definition first_some (l : list (option vreason)) : option vreason :=
  fold_right (fun r acc => match r with Some v => Some v | None => acc end) None l.
(* the chain in registration order; the first veto wins *)
Definition validate (g : vcfg) (x : vctx) (o : vorder) : option vreason :=
  first_some [ (if v_position g then position_check x o else None);
               (if v_price g then price_check x o else None);
               (if v_trading g then trading_check x o else None);
               (if v_cash g then cash_check x o else None);
               (if v_self g then self_trade_check x o else None) ].
