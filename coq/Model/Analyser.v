(* The analysis report: AnalyserMod._collect_daily / _collect_trade / tear_down (rqalpha/mod/rqalpha_mod_sys_analyser/mod.py),
   Portfolio.total_returns / annualized_returns.  pandas, rqrisk and float rounding (round(x, n)) are runtime. *)
From RQ Require Import Model.Num Model.Portfolio.
Open Scope Q_scope.

Record day_state := { ds_date : Z; ds_cash : Q; ds_total_value : Q; ds_market_value : Q; ds_nav : Q; ds_units : Q; ds_static_nav : Q;
                      ds_daily_return : Q }.
(* one record per settled day, in order: the report's portfolio table (values before _safe_convert) *)
Definition collect_daily (days : list day_state) : list day_state := map (fun d => d) days.
(* round(x, n) keeps the value within half a unit of the n-th decimal place *)
Definition half_unit (n : Z) : Q := qdiv 1 (qmul 2 (zq (10 ^ n))).
Definition rounded_ok (n : Z) (raw reported : Q) : bool := qle_b (qabs (qsub reported raw)) (qadd (half_unit n) (qmul tol (qmax 1 (qabs raw)))).

(* summary: total return and its compounding, benchmark return *)
Definition total_return_of (navs : list Q) : Q := lastq 1 navs - 1.
Fixpoint bench_returns (prev : Q) (closes : list Q) : list Q :=
  match closes with [] => [] | c :: t => (c / prev - 1) :: bench_returns c t end.
Fixpoint prod1 (rs : list Q) : Q := match rs with [] => 1 | r :: t => (1 + r) * prod1 t end.

(* generate_benchmark_daily_returns_and_portfolio: a benchmark is a list of (instrument, weight); each day's benchmark return is the
   weighted sum of the members' daily returns divided by the sum of the weights *)
Fixpoint wsum (weights : list Q) (xs : list Q) : Q :=
  match weights, xs with w :: ws, x :: t => w * x + wsum ws t | _, _ => 0 end.
Definition bench_day (weights : list Q) (member_returns : list Q) : Q := wsum weights member_returns / qsum weights.
(* days is the list of the members' returns per day *)
Definition bench_series (weights : list Q) (days : list (list Q)) : list Q := map (bench_day weights) days.
Definition transpose1 (rs : list Q) : list (list Q) := map (fun r => [r]) rs.

Section Annualised.
  Variable pow : Q -> Q -> Q.           (* real exponentiation: runtime (Python float power) *)
  Definition annualized_returns (nav : Q) (ndays : Z) : Q := if qle_b nav 0 then -1 else pow nav (252 / zq ndays) - 1.
End Annualised.
