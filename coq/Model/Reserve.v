(* Reserved cash bookkeeping of Account (_on_order_pending_new / apply_trade / _on_order_unsolicited_update)
   against the broker's book of open orders. *)
From RQ Require Import Model.Num Model.Account.
Open Scope Q_scope.

Record rorder := { r_id : nat; r_qty : Q; r_filled : Q; r_reserve : Q }.
Record rstate := { rs_frozen : Q; rs_book : list rorder }.
Inductive rev :=
| RPendingNew (o : rorder)          (* ORDER_PENDING_NEW: reserve r_reserve o *)
| RTrade (id : nat) (q : Q)         (* TRADE of q on order id *)
| RTerminal (id : nat).             (* ORDER_UNSOLICITED_UPDATE or ORDER_CANCELLATION_PASS *)

Fixpoint rfind (id : nat) (l : list rorder) : option rorder :=
  match l with [] => None | o :: t => if Nat.eqb (r_id o) id then Some o else rfind id t end.
Fixpoint rremove (id : nat) (l : list rorder) : list rorder :=
  match l with [] => [] | o :: t => if Nat.eqb (r_id o) id then t else o :: rremove id t end.
Fixpoint rreplace (o' : rorder) (l : list rorder) : list rorder :=
  match l with [] => [] | o :: t => if Nat.eqb (r_id o) (r_id o') then o' :: t else o :: rreplace o' t end.

Definition rstep (s : rstate) (e : rev) : rstate :=
  match e with
  | RPendingNew o => {| rs_frozen := qadd (rs_frozen s) (r_reserve o); rs_book := rs_book s ++ [o] |}
  | RTrade id q =>
      match rfind id (rs_book s) with
      | None => s
      | Some o =>
          let o' := {| r_id := r_id o; r_qty := r_qty o; r_filled := qadd (r_filled o) q; r_reserve := r_reserve o |} in
          {| rs_frozen := qsub (rs_frozen s) (release_trade (Some (r_qty o, r_reserve o)) q);
             rs_book := if qeq_b (r_filled o') (r_qty o') then rremove id (rs_book s) else rreplace o' (rs_book s) |}
      end
  | RTerminal id =>
      match rfind id (rs_book s) with
      | None => s
      | Some o => {| rs_frozen := qsub (rs_frozen s) (release_terminal (r_qty o) (r_filled o) (r_reserve o));
                     rs_book := rremove id (rs_book s) |}
      end
  end.

(* the unfilled fraction of the initial reserve *)
Definition rshare (o : rorder) : Q := (r_qty o - r_filled o) / r_qty o * r_reserve o.
Fixpoint rtotal (l : list rorder) : Q := match l with [] => 0 | o :: t => rshare o + rtotal t end.
