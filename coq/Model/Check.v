(* Comparison functions used by the generated correspondence cases (never by a theorem). *)
From RQ Require Import Model.Num Model.Costs Model.Position Model.Account Model.AccountRun Model.Reserve Model.Closable Model.Portfolio.
Open Scope Q_scope.

Definition recv_eq (a b : option (Z * Q)) : bool :=
  match a, b with
  | Some (d, x), Some (d', y) => (d =? d')%Z && approx x y
  | None, None => true
  | _, _ => false
  end.
Definition pos_eq (s : Q) (a b : pos) : bool :=
  approx (p_qty a) (p_qty b) && approx (p_old a) (p_old b) && approx (p_lold a) (p_lold b) &&
  approx (p_avg a) (p_avg b) && approx_scale s (p_trade_cost a) (p_trade_cost b) && approx (p_tcost a) (p_tcost b) &&
  approx (p_non_closable a) (p_non_closable b) && approx (p_last a) (p_last b) && recv_eq (p_recv a) (p_recv b).

(* TRADE step: position, total cash and reserved cash *)
Definition chk_trade (c : pcfg) (p : pos) (t : trade) (ord : option (Q * Q)) (cash0 frozen0 : Q) (p' : pos) (cash1 frozen1 : Q) : bool :=
  let a := {| a_total_cash := cash0; a_frozen := frozen0; a_liab := 0; a_pending := []; a_mgmt_fees := 0; a_pos := [(c, p)] |} in
  let a' := acc_apply_trade a 0 t ord in
  match a_pos a' with
  | [(_, q)] => pos_eq (qabs (qmul (t_price t) (t_qty t))) q p' && approx_scale (qabs cash0) (a_total_cash a') cash1 &&
                approx_scale (qabs frozen0) (a_frozen a') frozen1
  | _ => false
  end.
Definition chk_ct_amount (c : pcfg) (p : pos) (amount : Q) (e : effect) (ct : Q) : bool := approx (calc_close_today_amount c p amount e) ct.

(* order events *)
Definition chk_reserve_stock (sc : scost) (is_cs sell is_open : bool) (price qty reserve : Q) : bool :=
  approx (reserve_of_order is_open (qmul price qty) (order_cost sc is_cs sell price qty)) reserve.
Definition chk_reserve_future (f : fcost) (is_open is_ct : bool) (price qty margin_rate reserve : Q) : bool :=
  approx (reserve_of_order is_open (qmul (qmul (qmul price qty) (fc_mult f)) margin_rate) (fut_order_cost f is_open is_ct price qty)) reserve.
Definition chk_frozen_new (frozen0 reserve frozen1 : Q) : bool := approx_scale (qabs frozen0) (qadd frozen0 reserve) frozen1.
Definition chk_frozen_terminal (frozen0 oq filled reserve frozen1 : Q) : bool :=
  approx_scale (qabs frozen0) (qsub frozen0 (release_terminal oq filled reserve)) frozen1.

(* public views against the private state of the same moment *)
Definition chk_pos_views (c : pcfg) (rate prev_close : Q) (p : pos) (mv eq mg tp pp : Q) (has_prev : bool) : bool :=
  approx (market_value c p) mv && approx (equity c p) eq && approx (margin c rate p) mg &&
  approx_scale (qabs (p_trade_cost p)) (trading_pnl c p) tp && (negb has_prev || approx_scale (qabs (qmul (p_lold p) prev_close)) (position_pnl c prev_close p) pp).
Definition chk_acc_views (cash0 frozen liab fin_rate : Q) (pending : list (Z * Q)) (sum_equity sum_margin : Q) (tv cash_view : Q) : bool :=
  let interest := qdiv (qmul liab fin_rate) 365 in
  approx_scale (qabs cash0) (cash0 + sum_equity - liab - interest + sum_pending pending) tv &&
  approx_scale (qabs cash0) (cash0 - sum_margin - frozen) cash_view.
Definition chk_closable (g : ccfg) (s : cstate) (cl tcl : Q) : bool := approx (closable g s) cl && approx (today_closable s) tcl.

(* before trading / settlement of one entry, and the account's cash over the whole step *)
Inductive bt_item := BtStock (c : pcfg) (p : pos) (today : Z) (dv : option (Q * Z)) (split : option Q) (reinvest : bool) (lot fee : Q).
Definition bt_run (it : bt_item) : pos * Q :=
  match it with BtStock c p today dv split reinvest lot fee => stock_before_trading c p today dv split reinvest lot fee end.
Definition chk_stock_bt (it : bt_item) (p' : pos) : bool :=
  match it with BtStock c p _ _ _ _ _ _ => pos_eq (qabs (qmul (p_last p) (p_qty p))) (fst (bt_run it)) p' end.
Fixpoint bt_cash (items : list bt_item) : Q := match items with [] => 0 | it :: t => qadd (snd (bt_run it)) (bt_cash t) end.
Definition chk_bt_cash (items : list bt_item) (arrived cash0 cash1 : Q) : bool :=
  approx_scale (qabs cash0) (qadd (qadd cash0 arrived) (bt_cash items)) cash1.
Definition chk_future_bt (p p' : pos) : bool := pos_eq 0 (bt_reset p) p'.

Inductive st_item :=
| StFuture (c : pcfg) (p : pos) (s : option Q) (expire : bool)
| StDelist (p : pos) (conv : option Q) (cash_return : bool).
Definition st_run (it : st_item) : pos * Q * option (Q * Q) :=
  match it with
  | StFuture c p s expire =>
      let r := fut_settle c p s in
      if expire && negb (qeq_b (p_qty p) 0) then (fst (fut_expire c (fst r)), qadd (snd r) (snd (fut_expire c (fst r))), None) else (fst r, snd r, None)
  | StDelist p conv cash_return => stock_delist p conv cash_return
  end.
Definition chk_settle_pos (it : st_item) (p' : pos) : bool :=
  match it with
  | StFuture _ p _ _ => pos_eq (qabs (qmul (p_last p) (p_qty p))) (fst (fst (st_run it))) p'
  | StDelist p _ _ => pos_eq (qabs (qmul (p_last p) (p_qty p))) (fst (fst (st_run it))) p'
  end.
(* the successor of a converted holding: an OPEN trade at cost / ratio for quantity * ratio, then marked at last / ratio *)
Definition chk_conversion_succ (c : pcfg) (ps p : pos) (ratio : Q) (ps' : pos) : bool :=
  match snd (stock_delist p (Some ratio) true) with
  | None => pos_eq 0 ps ps'
  | Some (price, amount) =>
      let r := fst (stock_apply_trade c ps {| t_effect := Open; t_price := price; t_qty := amount; t_fee := 0 |}) in
      pos_eq (qabs (qmul price amount))
        {| p_qty := p_qty r; p_old := p_old r; p_lold := p_lold r; p_avg := p_avg r; p_trade_cost := p_trade_cost r; p_tcost := p_tcost r;
           p_non_closable := p_non_closable r; p_last := qdiv (p_last p) ratio; p_recv := p_recv r |} ps'
  end.
Fixpoint st_cash (items : list st_item) : Q :=
  match items with
  | [] => 0
  | it :: t => qadd (qsub (snd (fst (st_run it))) (match snd (st_run it) with Some (a, b) => qmul a b | None => 0 end)) (st_cash t)
  end.
Definition chk_settle_cash (items : list st_item) (fee cash0 cash1 : Q) : bool :=
  approx_scale (qabs cash0) (qsub (qadd cash0 (st_cash items)) fee) cash1.

(* account-level flows *)
Definition chk_deposit (cash0 x cash1 : Q) : bool := approx_scale (qabs cash0) (qadd cash0 x) cash1.
Definition chk_finance (cash0 liab0 x cash1 liab1 : Q) : bool :=
  let a := finance {| a_total_cash := cash0; a_frozen := 0; a_liab := liab0; a_pending := []; a_mgmt_fees := 0; a_pos := [] |} x in
  approx_scale (qabs cash0) (a_total_cash a) cash1 && approx (a_liab a) liab1.
Definition chk_repay (cash0 liab0 x cash1 liab1 : Q) : bool :=
  let a := repay {| a_total_cash := cash0; a_frozen := 0; a_liab := liab0; a_pending := []; a_mgmt_fees := 0; a_pos := [] |} x in
  approx_scale (qabs cash0) (a_total_cash a) cash1 && approx (a_liab a) liab1.
Definition chk_arrive (today : Z) (pending : list (Z * Q)) (arrived : Q) (left : list (Z * Q)) : bool :=
  approx_scale (qabs (sum_pending pending)) (fst (arrive today pending)) arrived &&
  approx_scale (qabs (sum_pending pending)) (sum_pending (snd (arrive today pending))) (sum_pending left) &&
  Nat.eqb (length (snd (arrive today pending))) (length left).
Definition chk_interest (liab0 rate liab1 : Q) : bool :=
  let g := {| ac_future := false; ac_fin_rate := rate; ac_margin_rate := fun _ => 0 |} in
  approx (a_liab (accrue_interest g {| a_total_cash := 0; a_frozen := 0; a_liab := liab0; a_pending := []; a_mgmt_fees := 0; a_pos := [] |})) liab1.

(* portfolio *)
Definition chk_nav (units tv nav : Q) : bool := approx (unit_net_value {| pf_units := units; pf_static := 1 |} tv) nav.
Definition chk_deposit_units (units tv0 tv1 units1 : Q) : bool :=
  approx_scale (qabs units) (pf_units (pf_deposit {| pf_units := units; pf_static := 1 |} tv0 tv1)) units1.
(* a flow into a portfolio whose unit net value is 0 must be refused *)
Definition chk_flow_guard (units tv0 : Q) (raised : bool) : bool :=
  match pf_deposit_checked {| pf_units := units; pf_static := 1 |} tv0 tv0 with None => raised | Some _ => true end.
Definition chk_latch (units tv static1 : Q) : bool := approx (pf_static (latch {| pf_units := units; pf_static := 1 |} tv)) static1.
Definition chk_daily_returns (units static tv r : Q) : bool := approx (daily_returns {| pf_units := units; pf_static := static |} tv) r.

(* the pre-open purge of emptied holdings: dropped exactly when every entry has quantity 0 and equity 0 *)
Definition chk_purge (entries : list (pcfg * pos)) (gone : bool) : bool := Bool.eqb (purgeable entries) gone.

(* ---- matching (C05 C06) and the order lifecycle (C04) ---- *)
From RQ Require Import Model.Matcher Model.Order.
Definition reason_eqb (a b : reason) : bool :=
  match a, b with
  | RListedToday, RListedToday | RLimitUp, RLimitUp | RLimitDown, RLimitDown | RNoVolume, RNoVolume
  | RVolumeCap, RVolumeCap | RSlipCash, RSlipCash | RPartial, RPartial => true
  | _, _ => false
  end.
Definition outcome_eq (a b : outcome) : bool :=
  match a, b with
  | NoMatch, NoMatch => true
  | Rejected r, Rejected r' => reason_eqb r r'
  | Cancelled r, Cancelled r' => reason_eqb r r'
  | Filled p q ct rc, Filled p' q' ct' rc' => approx p p' && approx q q' && approx ct ct' && Bool.eqb rc rc'
  | _, _ => false
  end.
Definition stock_fee (sc : scost) (e : cm_entry) (is_cs sell : bool) : Q -> Q -> Q -> Q :=
  fun p q _ => qadd (fst (trade_commission sc e p q)) (trade_tax sc is_cs sell p q).
Definition future_fee (f : fcost) (is_open : bool) : Q -> Q -> Q -> Q := fun p q ct => fut_commission f is_open p q ct.
Definition chk_match (g : mcfg) (i : mins) (bar abar pb : mbar) (auction : bool) (turnover : Q) (o : morder)
           (fee_of : Q -> Q -> Q -> Q) (occ_factor avail : Q) (c : pcfg) (p : pos) (expected : outcome) : bool :=
  outcome_eq (match_one g i bar abar pb auction turnover o fee_of (fun price => qmul (qmul price (mo_qty o)) occ_factor) avail
                        (fun q => calc_close_today_amount c p q (mo_effect o))) expected.

Definition status_eqb (a b : status) : bool :=
  match a, b with
  | PendingNew, PendingNew | Active, Active | SFilled, SFilled | SCancelled, SCancelled | SRejected, SRejected | PendingCancel, PendingCancel => true
  | _, _ => false
  end.
Definition oev_eq (a b : oev) : bool :=
  match a, b with
  | EvPendingNew, EvPendingNew | EvCreationPass, EvCreationPass | EvPendingCancel, EvPendingCancel | EvCancellationPass, EvCancellationPass => true
  | EvTrade p q f, EvTrade p' q' f' => approx p p' && approx q q' && approx f f'
  | EvUnsolicited s, EvUnsolicited s' => status_eqb s s'
  | _, _ => false
  end.
Fixpoint oevs_eq (a b : list oev) : bool :=
  match a, b with
  | [], [] => true
  | x :: s, y :: t => oev_eq x y && oevs_eq s t
  | _, _ => false
  end.
(* the auction flag the broker passes to the matcher: true exactly while the order sits in _open_auction_orders *)
Fixpoint flags_of (o : ostate) (ins : list oin) : list bool :=
  match ins with
  | [] => []
  | IMatch r f :: t =>
      match os_place o with
      | Nowhere => flags_of (fst (ostep o (IMatch r f))) t
      | InAuction => true :: flags_of (fst (ostep o (IMatch r f))) t
      | InOpen => false :: flags_of (fst (ostep o (IMatch r f))) t
      end
  | i :: t => flags_of (fst (ostep o i)) t
  end.
Fixpoint bools_eq (a b : list bool) : bool :=
  match a, b with [], [] => true | x :: s, y :: t => Bool.eqb x y && bools_eq s t | _, _ => false end.
Definition chk_order (qty : Q) (ins : list oin) (flags : list bool) (evs : list oev) (st : status) (filled avg tcost : Q) : bool :=
  let r := orun (fresh_order qty) ins in
  bools_eq (flags_of (fresh_order qty) ins) flags &&
  oevs_eq (snd r) evs && status_eqb (os_status (fst r)) st && approx (os_filled (fst r)) filled &&
  approx (os_avg (fst r)) avg && approx (os_tcost (fst r)) tcost &&
  negb (match prun P0 (snd r) with PFail => true | _ => false end).

(* ---- calendar and history (C20) ---- *)
From RQ Require Import Model.Calendar.
Fixpoint zlist_eq (a b : list Z) : bool :=
  match a, b with [], [] => true | x :: s, y :: t => (x =? y)%Z && zlist_eq s t | _, _ => false end.
Fixpoint rows_eq (a b : list hbar) : bool :=
  match a, b with
  | [], [] => true
  | x :: s, y :: t => (h_dt x =? h_dt y)%Z && approx (h_price x) (h_price y) && approx_scale (qabs (h_volume x)) (h_volume x) (h_volume y) && rows_eq s t
  | _, _ => false
  end.
Definition chk_prev (cal : list Z) (d n r : Z) : bool := (prev_trading_date cal d n =? r)%Z.
Definition chk_next (cal : list Z) (d n r : Z) : bool := (next_trading_date cal d n =? r)%Z.
Definition chk_dates (cal : list Z) (a b : Z) (r : list Z) : bool := zlist_eq (trading_dates cal a b) r.
Definition chk_count (cal : list Z) (a b r : Z) : bool := (count_trading_dates cal a b =? r)%Z.
Definition chk_history (cal : list Z) (bars : list hbar) (table : list (Z * Q)) (is_cs no_adjust_kind sys_minute include_now : bool)
           (ph : hphase) (calendar_d trading_d n : Z) (skip : bool) (adj : adjust_type) (expected : list hbar) : bool :=
  let e := history_end sys_minute include_now ph calendar_d (prev_trading_date cal trading_d 1) in
  rows_eq (adjust_window (history_window bars skip is_cs (fst e) n) table adj no_adjust_kind trading_d) expected.

(* ---- scheduler (C17) ---- *)
From RQ Require Import Model.Scheduler.
Fixpoint ords_eq (a : list cday) (b : list Z) : bool :=
  match a, b with [], [] => true | x :: s, y :: t => (c_ord x =? y)%Z && ords_eq s t | _, _ => false end.
Fixpoint sched_bars (ranges : list (Z * Z)) (daily : bool) (s : sched) (today : cday) (rules : list (day_rule * time_rule))
         (bars : list (Z * list bool)) : bool :=
  match bars with
  | [] => true
  | (m, fired) :: t =>
      bools_eq (map (fires ranges daily false (at_bar s m) today) rules) fired &&
      sched_bars ranges daily (after_bar (at_bar s m)) today rules t
  end.
Definition chk_sched_day (cal : list cday) (ranges : list (Z * Z)) (daily : bool) (start_minute : Z) (s_prev : sched) (today : cday)
           (rules : list (day_rule * time_rule)) (fired_bt : list bool) (bars : list (Z * list bool)) (week month : list Z) : bool :=
  let s1 := next_day cal start_minute s_prev today in
  ords_eq (sc_week s1) week && ords_eq (sc_month s1) month &&
  bools_eq (map (fires ranges daily true s1 today) rules) fired_bt &&
  sched_bars ranges daily s1 today rules bars.

(* ---- lifecycle (C08) ---- *)
From RQ Require Import Model.EventLoop.
Definition pev_eqb (a b : pev) : bool :=
  match a, b with
  | PSettlement d, PSettlement d' => (d =? d')%Z
  | PBeforeTrading d t, PBeforeTrading d' t' | POpenAuction d t, POpenAuction d' t' | PBar d t, PBar d' t' | PAfterTrading d t, PAfterTrading d' t' =>
      ((d =? d') && (t =? t'))%Z
  | _, _ => false
  end.
Fixpoint pevs_eq (a b : list pev) : bool :=
  match a, b with [], [] => true | x :: s, y :: t => pev_eqb x y && pevs_eq s t | _, _ => false end.
Definition chk_daily_run (cal : list Z) (start_date end_date : Z) (observed : list pev) : bool :=
  let days := run_days cal start_date end_date in
  pevs_eq (exec_run (daily_events days) (lastz days)) observed.
(* minute frequency: per day the minutes of the session and the minutes at which a universe change was pending *)
Definition minute_events (days : list (Z * list Z * list Z)) : list sev :=
  flat_map (fun x => match x with (d, mins, chg) =>
                       minute_day (S (S (length chg))) d (fun _ => mins) (fun k m => existsb (Z.eqb m) (skipn k chg)) O None true end) days.
Definition chk_minute_run (days : list (Z * list Z * list Z)) (end_date : Z) (observed : list pev) : bool :=
  pevs_eq (exec_run (minute_events days) end_date) observed.

(* ---- sizing and validation (C15 C16) ---- *)
From RQ Require Import Model.Sizing Model.Validators.
Definition side_eqb (a b : side) : bool := match a, b with Buy, Buy | Sell, Sell => true | _, _ => false end.
Definition effect_eqb (a b : effect) : bool := match a, b with Open, Open | Close, Close | CloseToday, CloseToday => true | _, _ => false end.
Definition intent_eq (a b : option intent) : bool :=
  match a, b with
  | None, None => true
  | Some (Intent s e q), Some (Intent s' e' q') => side_eqb s s' && effect_eqb e e' && approx q q'
  | _, _ => false
  end.
Fixpoint intents_eq (a b : list intent) : bool :=
  match a, b with [], [] => true | x :: s, y :: t => intent_eq (Some x) (Some y) && intents_eq s t | _, _ => false end.
Definition stock_fee_fn (sc : scost) (is_cs : bool) (price : Q) : Z -> Q := fun a => order_cost sc is_cs false price (zq a).
(* order_shares / order_lots / order / order_to with auto_switch_order_value *)
Definition shares_auto_intent (i : sins) (amount quantity : Q) (auto : bool) (cash price : Q) (fee : Z -> Q) (closable : Q) : option intent :=
  match order_shares_intent i amount quantity with
  | Some (Intent Buy Open q) =>
      if auto && qlt_b cash (qadd (qmul price q) (fee (qtrunc q))) then order_value_intent i cash cash price fee closable quantity
      else Some (Intent Buy Open q)
  | r => r
  end.
Definition chk_intent (model observed : option intent) : bool := intent_eq model observed.
Definition legs_of (l : list (side * effect * Q)) : list intent := map (fun x => match x with (s, e, q) => Intent s e q end) l.
Definition chk_legs (model : option (list intent)) (observed : list intent) : bool :=
  match model with None => match observed with [] => true | _ => false end | Some l => intents_eq l observed end.
Definition vreason_eqb (a b : vreason) : bool :=
  match a, b with
  | VPositionToday, VPositionToday | VPosition, VPosition | VLimitUp, VLimitUp | VLimitDown, VLimitDown | VNotListing, VNotListing
  | VSuspended, VSuspended | VCash, VCash | VSelfTrade, VSelfTrade => true
  | _, _ => false
  end.
Definition chk_validate (g : vcfg) (x : vctx) (o : vorder) (observed : option vreason) : bool :=
  match validate g x o, observed with
  | None, None => true
  | Some a, Some b => vreason_eqb a b
  | _, _ => false
  end.

(* ---- mod life cycle (C19) ---- *)
From RQ Require Import Model.ModLife.
Definition code_eqb (a b : exit_code) : bool :=
  match a, b with ExitSuccess, ExitSuccess | ExitUserError, ExitUserError | ExitInternalError, ExitInternalError => true | _, _ => false end.
Definition lev_eqb (a b : lev) : bool :=
  match a, b with
  | LStart m, LStart m' => Nat.eqb m m'
  | LCallback k, LCallback k' => Nat.eqb k k'
  | LTearDown m c r, LTearDown m' c' r' => Nat.eqb m m' && code_eqb c c' && Bool.eqb r r'
  | LResult b, LResult b' => Bool.eqb b b'
  | _, _ => false
  end.
Fixpoint levs_eq (a b : list lev) : bool :=
  match a, b with [], [] => true | x :: s, y :: t => lev_eqb x y && levs_eq s t | _, _ => false end.
Definition chk_modlife (mods : list modspec) (n : nat) (f : fault) (observed : list lev) : bool := levs_eq (run_mods mods n f) observed.

(* ---- analysis report (C18) ---- *)
From RQ Require Import Model.Analyser.
Definition chk_report_day (raw_cash raw_tv raw_mv raw_nav raw_units raw_static : Q) (cash tv mv nav units static : Q) : bool :=
  rounded_ok 4 raw_cash cash && rounded_ok 4 raw_tv tv && rounded_ok 4 raw_mv mv && rounded_ok 6 raw_nav nav &&
  approx raw_units units && rounded_ok 4 raw_static static.
Definition chk_total_return (navs : list Q) (total_returns : Q) : bool :=
  approx (total_return_of navs) total_returns && approx (qsub (compound 1 navs) 1) total_returns.
Definition chk_benchmark_return (prev : Q) (closes : list Q) (r : Q) : bool :=
  approx (qsub (prod1 (bench_returns prev closes)) 1) r && approx (qsub (qdiv (lastq prev closes) prev) 1) r.
(* a one-instrument benchmark given with weight w: the analyser's weighted combination, compounded *)
Definition chk_weighted_benchmark_return (w prev : Q) (closes : list Q) (r : Q) : bool :=
  approx (qsub (Qred (prod1 (map Qred (bench_series [w] (transpose1 (bench_returns prev closes)))))) 1) r.

(* ---- no look-ahead (C07): the accessors evaluated on the part of the history visible at the moment ---- *)
From RQ Require Import Model.View.
Fixpoint obs_eq (a b : obs) : bool :=
  match a, b with
  | [], [] => true
  | Some x :: s, Some y :: t => approx x y && obs_eq s t
  | None :: s, None :: t => obs_eq s t
  | _, _ => false
  end.
Definition chk_view_bar (bars : list dbar) (ph : vphase) (d : Z) (observed : obs) : bool := obs_eq (bar_dict_bar bars ph d) observed.
Definition chk_view_snapshot (cal : list Z) (bars : list dbar) (ph : vphase) (d : Z) (observed : obs) : bool := obs_eq (snapshot cal bars ph d) observed.
Definition chk_view_last (cal : list Z) (bars : list dbar) (ph : vphase) (d : Z) (observed : option Q) : bool :=
  obs_eq [lazy_last_price cal bars ph d] [observed].
Definition chk_view_history (cal : list Z) (bars : list hbar) (table : list (Z * Q)) (is_cs no_adjust_kind : bool) (ph : vphase) (d n : Z)
           (skip : bool) (adj : adjust_type) (expected : list hbar) : bool :=
  rows_eq (api_history cal bars table is_cs no_adjust_kind ph d n skip adj) expected.

(* ---- isolation (C13) ---- *)
From RQ Require Import Model.Isolation.
Definition switches_eqb (a b : switches) : bool :=
  Bool.eqb (sw_reinvest a) (sw_reinvest b) && Bool.eqb (sw_cash_return a) (sw_cash_return b) && Bool.eqb (sw_t1 a) (sw_t1 b).
(* the process state a run finds at init: what the previous run left (prev), then boot with this run's configuration *)
Definition chk_boot (prev cfg observed : switches) (prev_margin_on : bool) (env_is_current : bool) (has_future prev_future_apis observed_future_apis : bool) : bool :=
  let p := boot cfg has_future 1 {| pr_switches := prev; pr_env := 0; pr_cache := [(0, 0)%Z]; pr_margin_on := prev_margin_on; pr_next_id := 0;
                                    pr_future_apis := prev_future_apis |} in
  switches_eqb (pr_switches p) observed && env_is_current && (pr_env p =? 1)%Z && match pr_cache p with [] => true | _ => false end &&
  Bool.eqb (pr_future_apis p) observed_future_apis.
Fixpoint zinsert (x : Z) (l : list Z) : list Z := match l with [] => [x] | y :: t => if (x <=? y)%Z then x :: l else y :: zinsert x t end.
Definition zsort (l : list Z) : list Z := fold_right zinsert [] l.
Definition chk_contracts (data : list instr) (und d : Z) (observed : list Z) : bool := zlist_eq (zsort (contracts data und d)) observed.
Definition chk_find (data : list instr) (id : Z) (found : bool) : bool :=
  Bool.eqb (match find_instr data id with Some _ => true | None => false end) found.

(* ---- persist / resume (C14) ---- *)
From RQ Require Import Model.Persist.
Fixpoint poss_eq (a b : list (pcfg * pos)) : bool :=
  match a, b with [], [] => true | x :: s, y :: t => pos_eq 0 (snd x) (snd y) && poss_eq s t | _, _ => false end.
Fixpoint pend_eq (a b : list (Z * Q)) : bool :=
  match a, b with [], [] => true | (d, x) :: s, (d', y) :: t => (d =? d')%Z && approx x y && pend_eq s t | _, _ => false end.
Definition acc_eqb (a b : account) : bool :=
  approx (a_total_cash a) (a_total_cash b) && approx (a_frozen a) (a_frozen b) && approx (a_liab a) (a_liab b) &&
  pend_eq (a_pending a) (a_pending b) && approx (a_mgmt_fees a) (a_mgmt_fees b) && poss_eq (a_pos a) (a_pos b).
(* the account the stopped run held at its persistence point, pushed through persist / restore, is the account the resumed run starts from *)
Definition chk_resume_account (stopped resumed : account) : bool :=
  acc_eqb (restore_acc (map fst (a_pos stopped)) (persist_acc stopped)) resumed.
Definition oz (z : Z) : option Z := if (z =? 0)%Z then None else Some z.
Definition chk_resume_events (last_bt last_settle : Z) (days : list Z) (observed : list pev) : bool :=
  pevs_eq (snd (xrun {| x_last_bt := oz last_bt; x_last_settle := oz last_settle |} (daily_events days) (lastz days))) observed.
Definition chk_report_dates (earlier current observed : list Z) : bool :=
  zlist_eq (map fst (merge_series (map (fun d => (d, 0%Q)) earlier) (map (fun d => (d, 0%Q)) current))) observed.

(* ---- the broker's books (C05 auction rule, C04): the matcher calls the model makes for the recorded submissions / bars / cancels / closes,
        with the recorded outcome of each call as the oracle, against the recorded calls ---- *)
From RQ Require Import Model.Broker.
Definition fin_of (table : list (nat * nat)) : nat -> nat -> bool := fun id k => existsb (fun p => Nat.eqb (fst p) id && Nat.eqb (snd p) k) table.
Definition bphase_eqb (a b : bphase) : bool := match a, b with BAuction, BAuction | BTrading, BTrading => true | _, _ => false end.
Fixpoint bcalls_eq (a : list bcall) (b : list (nat * bool * bphase)) : bool :=
  match a, b with
  | [], [] => true
  | c :: s, (id, fl, ph) :: t => Nat.eqb (c_id c) id && Bool.eqb (c_auction c) fl && bphase_eqb (c_phase c) ph && bcalls_eq s t
  | _, _ => false
  end.
Definition chk_broker_calls (final_calls : list (nat * nat)) (ops : list bop) (observed : list (nat * bool * bphase)) : bool :=
  bcalls_eq (List.rev (bk_calls (brun (fin_of final_calls) ops))) observed.
