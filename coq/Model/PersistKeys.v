(* The keys the persist model (Model/Persist.v) relies on, per class; Gen/PersistKeys.v is regenerated from get_state / set_state and
   must contain them, written and read back. *)
From Coq Require Import List String Bool.
From RQ Require Import Model.Globals.
Import ListNotations.
Open Scope string_scope.

Fixpoint keys_of (c : string) (t : list (string * list string)) : list string :=
  match t with [] => [] | (k, v) :: r => if String.eqb k c then v else keys_of c r end.
Fixpoint flag_of (c : string) (t : list (string * bool)) : bool :=
  match t with [] => true | (k, v) :: r => if String.eqb k c then v else flag_of c r end.
Definition required_keys : list (string * list string) :=
  [("Position", ["old_quantity"; "logical_old_quantity"; "quantity"; "avg_price"; "trade_cost"; "transaction_cost"; "last_price"; "prev_close"]);
   ("StockPosition", ["dividend_receivable"; "non_closable"; "pending_transform"]);
   ("Account", ["positions"; "positions_order"; "frozen_cash"; "total_cash"; "cash_liabilities"; "pending_deposit_withdraw"; "management_fees"]);
   ("Portfolio", ["static_unit_net_value"; "units"; "start_date"; "accounts"]);
   ("Executor", ["last_before_trading"; "last_settlement"]);
   ("AnalyserMod", ["portfolio_daily_returns"; "benchmark_daily_returns"; "benchmark_dates"; "total_portfolios"; "sub_accounts"; "positions"; "trades"; "daily_pnl"])].
(* get_state of these classes writes a plain record: no entry is filtered out by a condition *)
Definition unfiltered_classes : list string := ["Position"; "StockPosition"; "Account"; "Portfolio"; "Executor"].
