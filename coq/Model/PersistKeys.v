(* The keys the persist model (Model/Persist.v) relies on, per class; Gen/PersistKeys.v is regenerated from get_state / set_state and
   must contain them, written and read back. *)
From Coq Require Import List String Bool.
From RQ Require Import Model.Globals.
Import ListNotations.
Open Scope string_scope.

Fixpoint keys_of (c : string) (t : list (string * list string)) : list string :=
  match t with [] => [] | (k, v) :: r => if String.eqb k c then v else keys_of c r end.
Fixpoint flag_of (c : string) (t : list (string * bool)) : bool :=
  match t with [] => true | (k, v) :: r => if String.eqb k c then v else flag_of c r end.
Definition required_keys : list (string * list string) :=
  [("Position", ["old_quantity"; "logical_old_quantity"; "quantity"; "avg_price"; "trade_cost"; "transaction_cost"; "last_price"; "prev_close"]);
   ("StockPosition", ["dividend_receivable"; "non_closable"; "pending_transform"]);
   ("Account", ["positions"; "positions_order"; "frozen_cash"; "total_cash"; "cash_liabilities"; "pending_deposit_withdraw"; "management_fees"]);
   ("Portfolio", ["static_unit_net_value"; "units"; "start_date"; "accounts"]);
   ("Executor", ["last_before_trading"; "last_settlement"]);
   ("AnalyserMod", ["portfolio_daily_returns"; "benchmark_daily_returns"; "benchmark_dates"; "total_portfolios"; "sub_accounts"; "positions"; "trades"; "daily_pnl"])].
(* get_state of these classes writes a plain record: no entry is filtered out by a condition *)
Definition unfiltered_classes : list string := ["Position"; "StockPosition"; "Account"; "Portfolio"; "Executor"].

(* field-level round trip: get_state reads the value of key k from the attribute self.A and set_state stores state[k] back into the SAME
   attribute (a key written from a derived view - e.g. the public start_date, which is the current run's - would restore something else) *)
Fixpoint assoc (k : string) (t : list (string * string)) : option string :=
  match t with [] => None | (a, b) :: r => if String.eqb a k then Some b else assoc k r end.
Fixpoint fields_of (c : string) (t : list (string * list (string * string))) : list (string * string) :=
  match t with [] => [] | (k, v) :: r => if String.eqb k c then v else fields_of c r end.
Definition same_field (c k : string) (w r : list (string * list (string * string))) : bool :=
  match assoc k (fields_of c w), assoc k (fields_of c r) with Some a, Some b => String.eqb a b | _, _ => false end.
Definition round_trip_fields : list (string * list string) :=
  [("Position", ["old_quantity"; "logical_old_quantity"; "quantity"; "avg_price"; "trade_cost"; "transaction_cost"; "last_price"; "prev_close"]);
   ("Account", ["frozen_cash"; "total_cash"; "cash_liabilities"; "management_fees"]);
   ("Portfolio", ["static_unit_net_value"; "units"; "start_date"]);
   ("Executor", ["last_before_trading"; "last_settlement"])].
