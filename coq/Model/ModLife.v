(* Mod life cycle and failure containment: ModHandler.set_env / start_up / tear_down (rqalpha/mod/__init__.py) and the single
   try / except / else around the run (main.run, _exception_handler).  Python's exception propagation is modelled, not verified. *)
From RQ Require Import Model.Num.
Open Scope Z_scope.

Record modspec := { md_id : nat; md_priority : Z; md_teardown_raises : bool }.
Inductive exit_code := ExitSuccess | ExitUserError | ExitInternalError.
Inductive fault := NoFault | UserFault (at_callback : nat) | InternalFault (at_callback : nat).
Inductive lev :=
| LStart (m : nat) | LCallback (k : nat) | LTearDown (m : nat) (code : exit_code) (raised : bool) | LResult (has_report : bool).

(* self._mod_list.sort(key=priority): a stable sort *)
Fixpoint insert_mod (m : modspec) (l : list modspec) : list modspec :=
  match l with
  | [] => [m]
  | x :: t => if md_priority m <? md_priority x then m :: l else x :: insert_mod m t
  end.
Definition sort_mods (l : list modspec) : list modspec := fold_left (fun acc m => insert_mod m acc) l [].

Definition code_of (f : fault) : exit_code := match f with NoFault => ExitSuccess | UserFault _ => ExitUserError | InternalFault _ => ExitInternalError end.
Definition fault_at (f : fault) : option nat := match f with NoFault => None | UserFault k | InternalFault k => Some k end.
(* the callbacks 0 .. n-1 run in order until the one that raises (which is entered and is the last) *)
Fixpoint callbacks (k : nat) (n : nat) (stop : option nat) : list lev :=
  match n with
  | O => []
  | S n' => LCallback k :: (if (match stop with Some s => Nat.eqb s k | None => false end) then [] else callbacks (S k) n' stop)
  end.
Definition run_mods (mods : list modspec) (ncallbacks : nat) (f : fault) : list lev :=
  let order := sort_mods mods in
  map (fun m => LStart (md_id m)) order ++
  callbacks 0 ncallbacks (fault_at f) ++
  map (fun m => LTearDown (md_id m) (code_of f) (md_teardown_raises m)) (rev order) ++
  [LResult (match f with NoFault => true | _ => false end)].
