(* Account: rqalpha/portfolio/account.py.  Positions are a list of (static config, position) entries, one per
   (instrument, direction); instruments are list indices. *)
From RQ Require Import Model.Num Model.Position.
Open Scope Q_scope.

Record account := {
  a_total_cash : Q;              (* _total_cash *)
  a_frozen : Q;                  (* _frozen_cash *)
  a_liab : Q;                    (* _cash_liabilities *)
  a_pending : list (Z * Q);      (* _pending_deposit_withdraw (receiving date, amount), sorted by date *)
  a_mgmt_fees : Q;               (* _management_fees *)
  a_pos : list (pcfg * pos)
}.
Record acfg := { ac_future : bool; ac_fin_rate : Q (* financing rate / year *); ac_margin_rate : nat -> Q (* per entry *) }.

Definition with_pos (a : account) (l : list (pcfg * pos)) : account :=
  {| a_total_cash := a_total_cash a; a_frozen := a_frozen a; a_liab := a_liab a; a_pending := a_pending a;
     a_mgmt_fees := a_mgmt_fees a; a_pos := l |}.
Definition with_cash (a : account) (c : Q) : account :=
  {| a_total_cash := c; a_frozen := a_frozen a; a_liab := a_liab a; a_pending := a_pending a;
     a_mgmt_fees := a_mgmt_fees a; a_pos := a_pos a |}.
Definition with_frozen (a : account) (f : Q) : account :=
  {| a_total_cash := a_total_cash a; a_frozen := f; a_liab := a_liab a; a_pending := a_pending a;
     a_mgmt_fees := a_mgmt_fees a; a_pos := a_pos a |}.

(* ---- views ---- *)
Fixpoint sum_pos (f : pcfg -> pos -> Q) (l : list (pcfg * pos)) : Q :=
  match l with [] => 0 | (c, p) :: t => f c p + sum_pos f t end.
Fixpoint sum_pending (l : list (Z * Q)) : Q := match l with [] => 0 | (_, x) :: t => x + sum_pending t end.
Definition position_equity (a : account) : Q := sum_pos equity (a_pos a).
Definition interest (g : acfg) (a : account) : Q := qdiv (qmul (a_liab a) (ac_fin_rate g)) 365.
Fixpoint sum_margin (g : acfg) (n : nat) (l : list (pcfg * pos)) : Q :=
  match l with [] => 0 | (c, p) :: t => margin c (ac_margin_rate g n) p + sum_margin g (S n) t end.
Definition acc_margin (g : acfg) (a : account) : Q := sum_margin g 0 (a_pos a).
(* Account.total_value *)
Definition total_value (g : acfg) (a : account) : Q :=
  a_total_cash a + position_equity a - a_liab a - interest g a + sum_pending (a_pending a).
(* Account.cash : available cash *)
Definition cash (g : acfg) (a : account) : Q := a_total_cash a - acc_margin g a - a_frozen a.

(* ---- order events ---- *)
(* Account.apply_trade release of reserved cash; ord = Some (order quantity, init_frozen_cash) *)
Definition release_trade (ord : option (Q * Q)) (q : Q) : Q :=
  match ord with
  | None => 0
  | Some (oq, reserve) => if negb (qeq_b q oq) then qmul (qdiv q oq) reserve else reserve
  end.
(* Account._on_order_unsolicited_update (also used for ORDER_CANCELLATION_PASS) *)
Definition release_terminal (oq filled reserve : Q) : Q :=
  if negb (qeq_b filled 0) then qmul (qdiv (qsub oq filled) oq) reserve else reserve.
(* Account._frozen_cash_of_order: cash occupation (OPEN only) + estimated fees *)
Definition reserve_of_order (is_open : bool) (occupation fees : Q) : Q := qadd (if is_open then occupation else 0) fees.

(* Account.apply_trade on entry i *)
Definition acc_apply_trade (a : account) (i : nat) (t : trade) (ord : option (Q * Q)) : account :=
  match nth_error (a_pos a) i with
  | None => with_frozen a (qsub (a_frozen a) (release_trade ord (t_qty t)))
  | Some (c, p) =>
      let r := pos_apply_trade c p t in
      {| a_total_cash := qadd (a_total_cash a) (snd r); a_frozen := qsub (a_frozen a) (release_trade ord (t_qty t));
         a_liab := a_liab a; a_pending := a_pending a; a_mgmt_fees := a_mgmt_fees a; a_pos := upd i (c, fst r) (a_pos a) |}
  end.

(* Account._on_bar for one entry *)
Definition mark (a : account) (i : nat) (price : Q) : account :=
  match nth_error (a_pos a) i with
  | None => a
  | Some (c, p) =>
      with_pos a (upd i (c, {| p_qty := p_qty p; p_old := p_old p; p_lold := p_lold p; p_avg := p_avg p; p_trade_cost := p_trade_cost p;
                               p_tcost := p_tcost p; p_non_closable := p_non_closable p; p_last := price; p_recv := p_recv p |}) (a_pos a))
  end.

(* Account.deposit_withdraw (accepted, immediate) / finance_repay *)
Definition deposit_ok (g : acfg) (a : account) (amount : Q) : bool := negb (qlt_b amount 0 && qlt_b (cash g a) (qmul amount (-1))).
Definition deposit_now (a : account) (amount : Q) : account := with_cash a (qadd (a_total_cash a) amount).
Fixpoint insert_pending (d : Z) (x : Q) (l : list (Z * Q)) : list (Z * Q) :=
  match l with
  | [] => [(d, x)]
  | (d', x') :: t => if (d <? d')%Z then (d, x) :: l else (d', x') :: insert_pending d x t
  end.
Definition deposit_pending (a : account) (d : Z) (amount : Q) : account :=
  {| a_total_cash := a_total_cash a; a_frozen := a_frozen a; a_liab := a_liab a; a_pending := insert_pending d amount (a_pending a);
     a_mgmt_fees := a_mgmt_fees a; a_pos := a_pos a |}.
Definition finance (a : account) (amount : Q) : account :=
  {| a_total_cash := qadd (a_total_cash a) amount; a_frozen := a_frozen a; a_liab := qadd (a_liab a) amount; a_pending := a_pending a;
     a_mgmt_fees := a_mgmt_fees a; a_pos := a_pos a |}.
(* repay: amount > 0 is the repaid sum *)
Definition repay (a : account) (amount : Q) : account :=
  {| a_total_cash := qsub (a_total_cash a) (qadd amount (qmin 0 (qsub (a_liab a) amount))); a_frozen := a_frozen a;
     a_liab := qmax 0 (qsub (a_liab a) amount); a_pending := a_pending a; a_mgmt_fees := a_mgmt_fees a; a_pos := a_pos a |}.

(* ---- before trading ---- *)
(* pending deposits whose date has come *)
Fixpoint arrive (today : Z) (l : list (Z * Q)) : Q * list (Z * Q) :=
  match l with
  | [] => (0, [])
  | (d, x) :: t => if (d <=? today)%Z then let r := arrive today t in (qadd x (fst r), snd r) else (0, l)
  end.
Definition accrue_interest (g : acfg) (a : account) : account :=
  if qlt_b 0 (a_liab a) then
    {| a_total_cash := a_total_cash a; a_frozen := a_frozen a; a_liab := qadd (a_liab a) (interest g a); a_pending := a_pending a;
       a_mgmt_fees := a_mgmt_fees a; a_pos := a_pos a |}
  else a.

(* ---- settlement ---- *)
Definition charge_mgmt (a : account) (fee : Q) : account :=
  {| a_total_cash := qsub (a_total_cash a) fee; a_frozen := a_frozen a; a_liab := a_liab a; a_pending := a_pending a;
     a_mgmt_fees := qadd (a_mgmt_fees a) fee; a_pos := a_pos a |}.
Definition forced_liquidation (g : acfg) (a : account) (enabled : bool) : account :=
  if qle_b (total_value g a) 0 && enabled then
    {| a_total_cash := 0; a_frozen := a_frozen a; a_liab := a_liab a; a_pending := a_pending a; a_mgmt_fees := a_mgmt_fees a; a_pos := [] |}
  else a.

(* replace entry i and move cash *)
Definition set_entry (a : account) (i : nat) (p : pos) (dcash : Q) : account :=
  match nth_error (a_pos a) i with
  | None => a
  | Some (c, _) => {| a_total_cash := qadd (a_total_cash a) dcash; a_frozen := a_frozen a; a_liab := a_liab a; a_pending := a_pending a;
                      a_mgmt_fees := a_mgmt_fees a; a_pos := upd i (c, p) (a_pos a) |}
  end.

(* Account._on_before_trading, first step: an instrument's entries (long and short) are dropped when every one of them has quantity 0 AND
   equity 0 - an emptied holding whose dividend is still receivable has equity and must stay until the payable date *)
Definition purgeable (entries : list (pcfg * pos)) : bool :=
  forallb (fun e => qeq_b (p_qty (snd e)) 0 && qeq_b (equity (fst e) (snd e)) 0) entries.
