(* C07  No look-ahead: the past never depends on future market data (partial: daily accessors are modelled; minute bars and
   attribute access outside the modelled accessors are explored by the two-world runs only). *)
From RQ Require Import Model.Num Model.Calendar Model.View Model.Phases Proofs.NumFacts Proofs.CalendarFacts Proofs.ViewFacts Proofs.PhasesFacts Gen.ApiPhases Gen.Calendar.
Open Scope Z_scope.

(* two market histories that agree up to the moment (day d, phase ph) give the same answer from every accessor *)
Theorem C07_price_board : forall cal ph d h1 h2, 1 <= cnt_lt d cal -> agree ph d h1 h2 -> board_bar cal h1 ph d = board_bar cal h2 ph d.
Proof. exact board_noninterference. Qed.
Theorem C07_bar_dict_and_matcher_bar : forall ph d h1 h2, ph <> VBeforeTrading -> agree ph d h1 h2 -> bar_dict_bar h1 ph d = bar_dict_bar h2 ph d.
Proof. exact bar_dict_noninterference. Qed.
Theorem C07_snapshot : forall cal ph d h1 h2, 1 <= cnt_lt d cal -> agree ph d h1 h2 -> snapshot cal h1 ph d = snapshot cal h2 ph d.
Proof. exact snapshot_noninterference. Qed.
Theorem C07_unmarked_last_price : forall cal ph d h1 h2, 1 <= cnt_lt d cal -> agree ph d h1 h2 ->
  lazy_last_price cal h1 ph d = lazy_last_price cal h2 ph d.
Proof. exact last_price_noninterference. Qed.
(* before the open and in the auction close, high and low of the day are not observable *)
Theorem C07_auction_hides : forall b, nth 1 (auction_view b) None = None /\ nth 2 (auction_view b) None = None /\ nth 3 (auction_view b) None = None.
Proof. exact auction_hides_close_high_low. Qed.
Theorem C07_auction_independent : forall b c h l,
  auction_view b = auction_view {| d_dt := d_dt b; d_open := d_open b; d_close := c; d_high := h; d_low := l; d_lu := d_lu b; d_ld := d_ld b;
                                   d_vol := d_vol b; d_turn := d_turn b |}.
Proof. exact auction_independent_of_close_high_low. Qed.
(* history windows end at the previous trading day before the open and in the auction, and never read past the visible day *)
Theorem C07_history_ends_yesterday : forall cal ph d n bars is_cs skip, 1 <= cnt_lt d cal -> 0 < n -> ph = VBeforeTrading \/ ph = VOpenAuction ->
  Forall (fun b => h_dt b < d) (history_window bars skip is_cs (visible_day cal ph d) n).
Proof. exact history_ends_yesterday. Qed.
(* ... and with price adjustment they depend only on bars up to the visible day and factor rows already in effect *)
Theorem C07_history : forall cal ph d n h1 h2 T1 T2 is_cs k skip adj,
  1 <= cnt_lt d cal -> 0 < n -> hagree (visible_day cal ph d) h1 h2 -> tagree d T1 T2 ->
  api_history cal h1 T1 is_cs k ph d n skip adj = api_history cal h2 T2 is_cs k ph d n skip adj.
Proof. exact api_history_noninterference. Qed.
(* whatever the strategy and the engine do with what they read (any feedback): traces agree up to the cut-off *)
Theorem C07_run : forall (State Obs Data View : Type) (view : Data -> nat -> View) (step : State -> nat -> View -> State * Obs) d1 d2 n m s t0,
  (forall t, (t0 <= t < t0 + n)%nat -> view d1 t = view d2 t) ->
  firstn n (run_from State Obs Data View view step d1 s t0 (n + m)) = firstn n (run_from State Obs Data View view step d2 s t0 (n + m)).
Proof. exact run_prefix_noninterference. Qed.

(* the hypotheses are met by histories that really differ after the cut-off *)
Definition ex_b (d : Z) (c : Q) : dbar := {| d_dt := d; d_open := 10; d_close := c; d_high := c + 1; d_low := 9; d_lu := 11; d_ld := 9; d_vol := 100; d_turn := 1000 |}.
Example C07_example :
  agree VOpenAuction 20200103 [ex_b 20200102 10; ex_b 20200103 (21 # 2); ex_b 20200106 10] [ex_b 20200102 10; ex_b 20200103 (19 # 2); ex_b 20200106 8] /\
  1 <= cnt_lt 20200103 [20200102; 20200103; 20200106] /\
  board_bar [20200102; 20200103; 20200106] [ex_b 20200102 10; ex_b 20200103 (21 # 2)] VBeforeTrading 20200103 = full_view (ex_b 20200102 10).
Proof.
  split; [|split; vm_compute; [discriminate | reflexivity]].
  exists [ex_b 20200102 10], [ex_b 20200103 (21 # 2); ex_b 20200106 10], [ex_b 20200103 (19 # 2); ex_b 20200106 8].
  split; [reflexivity|]. split; [reflexivity|]. right.
  exists (ex_b 20200103 (21 # 2)), (ex_b 20200103 (19 # 2)), [ex_b 20200106 10], [ex_b 20200106 8].
  repeat split; try reflexivity; repeat constructor.
Qed.

(* a handler registered with subscribe_event reads the market through the same phase-dependent accessors as the strategy's own callbacks:
   the handler of BEFORE_TRADING / OPEN_AUCTION events (and of their PRE_ / POST_ brackets) runs in that phase - never in GLOBAL, where the
   accessors show the whole bar of the day - and a handler of an order / trade event keeps the phase in which the event was raised
   (regenerated from Strategy._EVENT_PHASE / wrap_user_event_handler and Executor.EVENT_SPLIT_MAP) *)
Theorem C07_event_handlers_read_through_the_phase :
  (forall e p parts part enclosing, In (e, p) day_phase_events -> lookup e event_split = Some parts -> In part parts ->
     handler_phase handler_phase_table handler_fallback_enclosing part enclosing = p) /\
  (forall ev enclosing, lookup ev handler_phase_table = None ->
     handler_phase handler_phase_table handler_fallback_enclosing ev enclosing = enclosing).
Proof. exact (handler_phase_sound event_split handler_phase_table handler_fallback_enclosing handler_phases_ok). Qed.

(* weekly history with include_now and the bar's mavg / vwap (the code's end-date rules, regenerated in Gen/Calendar.v): before the open
   and in the auction the window ends at the previous trading day, in a minute run also during the day - never at today's complete day bar *)
Theorem C07_weekly_and_mavg_end_yesterday : forall sys_minute ph today prev, pre_open ph = true ->
  gen_weekly_history_end sys_minute true ph today prev = prev /\ gen_mavg_end sys_minute true ph today prev = prev.
Proof. intros m ph c p H. rewrite gen_weekly_history_end_eq, gen_mavg_end_eq. unfold weekly_history_end, mavg_end.
  destruct ph; try discriminate H; destruct m; split; reflexivity. Qed.
Theorem C07_weekly_end_intraday_minute : forall ph today prev, after_close ph = false ->
  gen_weekly_history_end true true ph today prev = prev /\ gen_mavg_end true true ph today prev = prev.
Proof. intros ph c p H. rewrite gen_weekly_history_end_eq, gen_mavg_end_eq. unfold weekly_history_end, mavg_end.
  destruct ph; try discriminate H; split; reflexivity. Qed.

Print Assumptions C07_price_board.
Print Assumptions C07_bar_dict_and_matcher_bar.
Print Assumptions C07_snapshot.
Print Assumptions C07_unmarked_last_price.
Print Assumptions C07_auction_hides.
Print Assumptions C07_auction_independent.
Print Assumptions C07_history_ends_yesterday.
Print Assumptions C07_history.
Print Assumptions C07_run.
Print Assumptions C07_event_handlers_read_through_the_phase.
Print Assumptions C07_weekly_and_mavg_end_yesterday.
Print Assumptions C07_weekly_end_intraday_minute.
