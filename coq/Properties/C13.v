(* C13  Backtests are deterministic and isolated from other runs and unrelated data (partial: the inventory of process-wide state is
   modelled by hand and compared with the code by the regenerated Gen/Globals.v and by the in-process run sequences). *)
From RQ Require Import Model.Num Model.Position Model.Account Model.AccountRun Model.Isolation Proofs.NumFacts Proofs.IsolationFacts.
Open Scope Z_scope.

(* a new run erases the switches, the environment and the memoised results earlier runs left behind *)
Theorem C13_boot_forgets : forall cfg hf rid p p',
  pr_switches (boot cfg hf rid p) = pr_switches (boot cfg hf rid p') /\ pr_env (boot cfg hf rid p) = pr_env (boot cfg hf rid p') /\
  pr_cache (boot cfg hf rid p) = pr_cache (boot cfg hf rid p').
Proof. exact boot_forgets. Qed.
(* whatever ran before in the process, the run's outcome is the same (order / trade ids renamed) *)
Theorem C13_independent_of_earlier_runs_partial : forall data cfg hf rid ops p p', wf_ops false ops -> api_safe hf ops ->
  norm (pr_next_id p) (prun data (boot cfg hf rid p) ops) = norm (pr_next_id p') (prun data (boot cfg hf rid p') ops).
Proof. exact run_independent_of_history. Qed.
(* the full statement (without api_safe) is false of the faithful model, as it is of the code: known finding D21 *)
Theorem C13_independent_of_earlier_runs_refuted : exists data cfg rid p p',
  norm (pr_next_id p) (prun data (boot cfg false rid p) [PFutureApi]) <> norm (pr_next_id p') (prun data (boot cfg false rid p') [PFutureApi]).
Proof. exact api_registry_leaks. Qed.
(* without the cache reset an earlier run's data would be visible *)
Theorem C13_stale_cache_would_leak : exists data data' key p, data key <> data' key /\
  prun data' (pfinal data p [PCached key]) [PCached key] <> prun data' {| pr_switches := pr_switches p; pr_env := 0; pr_cache := []; pr_margin_on := false; pr_next_id := 0; pr_future_apis := false |} [PCached key].
Proof. exact stale_cache_would_leak. Qed.
(* instruments the strategy never references do not change what it is served *)
Theorem C13_lookup_in_superset : forall keep data id, keep id = true -> find_instr (restrict keep data) id = find_instr data id.
Proof. exact find_in_superset. Qed.
Theorem C13_contracts_in_superset : forall keep data und d,
  (forall i, In i data -> i_future i = true -> i_und i = und -> keep (i_id i) = true) ->
  contracts (restrict keep data) und d = contracts data und d.
Proof. exact contracts_in_superset. Qed.
Theorem C13_contracts_only_of_product : forall data und d id, In id (contracts data und d) ->
  exists i, In i data /\ i_id i = id /\ i_und i = und /\ i_future i = true /\ i_listed i <= d <= i_delisted i.
Proof. exact contracts_only_of_product. Qed.

(* the account kernel: extra positions (instruments in the data set the strategy never trades or marks) are carried along unchanged and do not
   change the cash or any other position, for every event list that only names the strategy's own entries (forced liquidation, which sums over
   all positions, excluded) *)
Theorem C13_account_frame : forall g evs a extra, Forall (local_to (length (a_pos a))) evs ->
  arun g (extend a extra) evs = extend (arun g a evs) extra.
Proof. exact arun_frame. Qed.

Example C13_example :
  wf_ops false [PSwitch 0; PCached 3; PMargin [0%Q]; POpenFuture; PMargin [5%Q]; PNewId] /\
  api_safe true [PSwitch 0; PFutureApi] /\
  prun (fun k => k * 2) (boot {| sw_reinvest := true; sw_cash_return := false; sw_t1 := true |} false 2
                              {| pr_switches := {| sw_reinvest := false; sw_cash_return := true; sw_t1 := false |}; pr_env := 1; pr_cache := [(3, 99)];
                                 pr_margin_on := true; pr_next_id := 50; pr_future_apis := false |})
       [PSwitch 0; PCached 3; PEnv; PMargin [0%Q]] = [OB true; OZ 6; OZ 2; OQ 0%Q].
Proof. split; [cbn; repeat split; intros; try discriminate; repeat constructor | split; [intros H; discriminate H | vm_compute; reflexivity]]. Qed.

Print Assumptions C13_boot_forgets.
Print Assumptions C13_independent_of_earlier_runs_partial.
Print Assumptions C13_independent_of_earlier_runs_refuted.
Print Assumptions C13_stale_cache_would_leak.
Print Assumptions C13_lookup_in_superset.
Print Assumptions C13_contracts_in_superset.
Print Assumptions C13_contracts_only_of_product.
Print Assumptions C13_account_frame.
