(* C15  Order-sizing APIs: whole lots, never over the requested value, cash or holdings. *)
From RQ Require Import Model.Num Model.Position Model.Sizing Proofs.NumFacts Proofs.SizingFacts.
Open Scope Q_scope.

(* lot rounding: a whole number of lots, not more than requested (in absolute value), less than one lot short *)
Theorem C15_round : forall i q, s_ksh i = false -> (0 < s_lot i)%Z ->
  dec_div q (zq (s_lot i)) == q / zq (s_lot i) ->
  let r := round_order_quantity i q in
  (s_lot i | r)%Z /\ (0 <= q -> 0 <= zq r /\ zq r <= q /\ q - zq r < zq (s_lot i)) /\ (q <= 0 -> zq r <= 0 /\ q <= zq r /\ zq r - q < zq (s_lot i)).
Proof. exact round_lot_spec. Qed.
Theorem C15_round_star_market : forall i q, s_ksh i = true ->
  (qabs q < 200 -> round_order_quantity i q = 0%Z) /\ (200 <= qabs q -> round_order_quantity i q = qtrunc q).
Proof. exact round_ksh_spec. Qed.
(* the value-sized buy: the largest whole-lot amount (not above the lot-rounded floor(budget/price)) whose price x amount + estimated fee
   fits the budget = min(request, available cash) *)
Theorem C15_value_buy : forall lot price budget fee, (0 < lot)%Z -> forall k, (0 <= k)%Z ->
  let r := budget_loop (S (Z.to_nat ((k * lot) / lot))) lot price budget fee (k * lot)%Z in
  (lot | r)%Z /\ (0 <= r <= k * lot)%Z /\ (r <> 0%Z -> zq r * price + fee r <= budget) /\
  (forall j, (0 <= j <= k)%Z -> (r < j * lot)%Z -> ~ (zq (j * lot) * price + fee (j * lot)%Z <= budget)).
Proof. exact budget_loop_spec. Qed.
(* a value-sized sell never exceeds the closable holding *)
Theorem C15_sell_bound : forall i cash_amount cash price fee closable a, 0 <= closable -> 0 < price -> cash_amount <= 0 ->
  dec_div cash_amount price <= 0 ->
  order_value_amount i cash_amount cash price fee closable = Some a -> - closable <= a /\ a <= 0.
Proof. exact value_sell_bounded. Qed.
(* a request that rounds to zero creates no order *)
Theorem C15_zero_noop : forall i amount cq, qeq_b (stock_submit_amount i amount (qlt_b 0 amount) cq) 0 = true -> order_shares_intent i amount cq = None.
Proof. exact zero_is_noop. Qed.
(* futures order / order_to: close-yesterday, close-today, open - in that order; the quantities add up to the request *)
Theorem C15_future_legs : forall (quantity : Q) (target : bool) (lq sq lold ltod sold stod : Q),
  0 <= lold -> 0 <= ltod -> 0 <= sold -> 0 <= stod ->
  let q0 := if target then qsub quantity (qsub lq sq) else quantity in
  let l := future_order_requests quantity target lq sq lold ltod sold stod in
  ~ q0 == 0 ->
  ranks_sorted 0 l /\ req_total l == qabs q0 /\ (forall s e q, In (s, e, q) l -> s = (if qlt_b 0 q0 then Buy else Sell) /\ 0 < q).
Proof. exact future_requests_spec. Qed.
Theorem C15_future_leg_quantities : forall s e q avail, 0 <= avail -> 0 < q ->
  let r := close_leg s e q avail in
  req_total (fst r) + qmax (snd r) 0 == q /\ snd r <= q /\ (forall s' e' q', In (s', e', q') (fst r) -> s' = s /\ e' = e /\ 0 < q').
Proof. exact close_leg_spec. Qed.

Example C15_example :
  let i := {| s_lot := 100; s_ksh := false |} in
  round_order_quantity i 250 = 200%Z /\ round_order_quantity i (-250) = (-200)%Z /\
  order_value_amount i 10000 100000 (999 # 100) (fun a => qmax 5 (zq a * (999 # 100) * (8 # 10000))) 0 = Some 1000 /\
  order_value_amount i 10000 100000 10 (fun a => qmax 5 (zq a * 10 * (8 # 10000))) 0 = Some 900 /\
  order_shares_intent i (-150) 150 = Some (Intent Sell Close 150) /\ order_shares_intent i (-150) 400 = Some (Intent Sell Close 100) /\
  future_order_requests (-7) false 8 0 5 3 0 0 = [(Sell, Close, 5); (Sell, CloseToday, 2)].
Proof. repeat split; vm_compute; reflexivity. Qed.

(* the hypotheses about the 10-digit decimal context are satisfiable (and it does round: -716 / 3.5800000000000000711 -> -200) *)
Example C15_decimal_context : dec_div 250 100 == 250 / 100 /\ dec_div (-3000) 10 <= 0 /\
  qtrunc (dec_div (-716) (2015360833248297 # 562949953421312)) = (-200)%Z /\ qtrunc (qdiv (-716) (2015360833248297 # 562949953421312)) = (-199)%Z.
Proof. repeat split; vm_compute; try reflexivity; discriminate. Qed.

Print Assumptions C15_round.
Print Assumptions C15_round_star_market.
Print Assumptions C15_value_buy.
Print Assumptions C15_sell_bound.
Print Assumptions C15_zero_noop.
Print Assumptions C15_future_legs.
Print Assumptions C15_future_leg_quantities.
