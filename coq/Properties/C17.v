(* C17  Scheduler fires exactly on the trading days and times its rules denote. *)
From RQ Require Import Model.Num Model.Scheduler Model.Phases Proofs.SchedulerFacts Gen.ApiPhases.
From Coq Require Import List String.
Open Scope Z_scope.

(* for every well-formed calendar and every sequence of trading days the caches hold the trading days of today's week / month *)
Theorem C17_week_cache : forall cal s prev today start, cwf cal -> In prev cal -> In today cal -> c_ord prev < c_ord today ->
  sc_week s = fill_week cal prev -> sc_week (next_day cal start s today) = fill_week cal today.
Proof. exact week_cache. Qed.
Theorem C17_month_cache : forall cal s prev today start, cwf cal -> In prev cal -> In today cal -> c_ord prev < c_ord today ->
  sc_month s = fill_month cal prev -> sc_month (next_day cal start s today) = fill_month cal today.
Proof. exact month_cache. Qed.
Theorem C17_first_day : forall cal s today start, sc_week s = [] -> sc_month s = [] ->
  sc_week (next_day cal start s today) = fill_week cal today /\ sc_month (next_day cal start s today) = fill_month cal today.
Proof. exact first_day_cache. Qed.
Theorem C17_daily : forall s today, day_ok s today DAlways = true.
Proof. exact daily_fires. Qed.
Theorem C17_weekday : forall s today wd, day_ok s today (DWeekday wd) = true <-> weekday_of today = wd.
Proof. exact weekday_rule. Qed.
Theorem C17_nth_from_front : forall l n today, 0 <= n ->
  (nth_is l n today = true <-> exists d, nth_error l (Z.to_nat n) = Some d /\ c_ord d = c_ord today).
Proof. exact nth_front. Qed.
Theorem C17_nth_from_back : forall l n today, n < 0 ->
  (nth_is l n today = true <-> (Z.to_nat (- n) <= List.length l)%nat /\ exists d, nth_error l (List.length l - Z.to_nat (- n)) = Some d /\ c_ord d = c_ord today).
Proof. exact nth_back. Qed.
Theorem C17_never_in_shorter_bucket : forall l n today,
  (0 <= n /\ Z.of_nat (List.length l) <= n) \/ (n < 0 /\ Z.of_nat (List.length l) < - n) -> nth_is l n today = false.
Proof. exact nth_short_bucket. Qed.
(* at most once per day: a bar time fires at the first bar at or after it *)
Theorem C17_once_per_day : forall ranges s n bars, 0 < n -> increasing_from (sc_last_minute s) bars -> (fire_count ranges s n bars <= 1)%nat.
Proof. exact fires_at_most_once. Qed.
Theorem C17_first_bar_at_or_after : forall ranges s n m, in_ranges ranges n = true -> 0 < n -> sc_last_minute s < n -> n <= m ->
  should_trigger ranges false false (at_bar s m) n = true.
Proof. exact fires_at_first_bar_at_or_after. Qed.
(* phases: before-trading rules run only in the before-trading slot, bar rules never there; bar functions run under SCHEDULED where
   every order API is allowed, before-trading functions under BEFORE_TRADING where every order API is refused (regenerated table) *)
Theorem C17_before_trading_slot : forall ranges daily bt s, time_ok ranges daily bt s TBeforeTrading = bt.
Proof. exact before_trading_rule_only_before_trading. Qed.
Theorem C17_bar_rule_not_before_trading : forall ranges daily s n, should_trigger ranges daily true s n = false.
Proof. exact minute_rule_never_before_trading. Qed.
Theorem C17_phase_of_scheduled_functions : sched_bar_phase = XScheduled /\ sched_before_trading_phase = XBeforeTrading.
Proof. exact sched_phases_ok. Qed.
Theorem C17_may_order_at_bar : forallb (fun name => api_allows api_phases name XScheduled) order_apis = true.
Proof. exact scheduled_may_order. Qed.
Theorem C17_may_not_order_before_trading : forallb (fun name => order_api_guarded api_phases name) order_apis = true.
Proof. exact order_apis_guarded. Qed.

Example C17_example :
  let cal := map (fun o => {| c_ord := o; c_ym := 202001 |}) [737426; 737427; 737430; 737431; 737432; 737433; 737434] in
  let today := {| c_ord := 737430; c_ym := 202001 |} in
  let s := next_day cal 0 {| sc_week := []; sc_month := []; sc_last_minute := 0; sc_current_minute := 0 |} today in
  map c_ord (sc_week s) = [737430; 737431; 737432; 737433; 737434] /\ nth_is (sc_week s) 0 today = true /\ nth_is (sc_week s) (-5) today = true /\
  nth_is (sc_month s) 2 today = true /\ weekday_of today = 0.
Proof. repeat split; vm_compute; reflexivity. Qed.

Print Assumptions C17_week_cache.
Print Assumptions C17_month_cache.
Print Assumptions C17_first_day.
Print Assumptions C17_daily.
Print Assumptions C17_weekday.
Print Assumptions C17_nth_from_front.
Print Assumptions C17_nth_from_back.
Print Assumptions C17_never_in_shorter_bucket.
Print Assumptions C17_once_per_day.
Print Assumptions C17_first_bar_at_or_after.
Print Assumptions C17_before_trading_slot.
Print Assumptions C17_bar_rule_not_before_trading.
Print Assumptions C17_phase_of_scheduled_functions.
Print Assumptions C17_may_order_at_bar.
Print Assumptions C17_may_not_order_before_trading.
