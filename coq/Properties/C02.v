(* C02  Futures account: margin and daily mark-to-market conserve value. *)
From RQ Require Import Model.Num Model.Position Model.Account Model.AccountRun
  Proofs.NumFacts Proofs.PositionFacts Proofs.AccountFacts.
Open Scope Q_scope.

(* cash ledger of the futures account: realised profit of closes against the carrying price, daily marks, fees, flows *)
Theorem C02_cash_ledger : forall g evs a, a_total_cash (arun g a evs) == a_total_cash a + audit_cash g a evs.
Proof. exact cash_ledger. Qed.
(* a closing fill realises (fill price - carrying price) * quantity * multiplier, signed by direction, minus fees; an open costs its fees *)
Theorem C02_close_realises : forall c p t, is_future c -> t_effect t <> Open ->
  snd (pos_apply_trade c p t) == (t_price t - p_avg p) * t_qty t * pc_mult c * dirf c - t_fee t.
Proof. exact future_close_cash. Qed.
Theorem C02_open_costs_fees : forall c p t, is_future c -> t_effect t = Open -> snd (pos_apply_trade c p t) == - t_fee t.
Proof. exact future_open_cash. Qed.
(* total value moves by the distance between fill and mark only *)
Theorem C02_value_trade : forall c p t, is_future c -> 0 <= p_qty p -> 0 < t_qty t ->
  equity c (fst (pos_apply_trade c p t)) + snd (pos_apply_trade c p t) ==
  equity c p + sgn t * (p_last p - t_price t) * t_qty t * pc_mult c * dirf c - t_fee t.
Proof. exact future_trade_value. Qed.
(* margin per direction = quantity * latest price * multiplier * (margin rate * margin multiplier) *)
Theorem C02_margin : forall c rate p, is_future c -> margin c rate p == rate * (pc_mult c * (p_last p * p_qty p)).
Proof. exact future_margin. Qed.
(* available cash = total value - unrealised profit - margin - reserved cash (liabilities / pending are 0 in a futures account) *)
Theorem C02_available : forall g a,
  cash g a == total_value g a - position_equity a - acc_margin g a - a_frozen a + a_liab a + interest g a - sum_pending (a_pending a).
Proof. exact available_cash. Qed.
(* daily settlement: unrealised profit goes to cash, the carrying price is rebased, total value moves only by settle - last *)
Theorem C02_settlement_value : forall g a i s c p, nth_error (a_pos a) i = Some (c, p) -> pc_kind c = FuturePos ->
  total_value g (astep g a (ESettleFut i s)) ==
  total_value g a + p_qty p * ((match s with Some x => x | None => p_last p end) - p_last p) * pc_mult c * dirf c.
Proof. exact value_settle. Qed.
Theorem C02_settlement_rebases : forall c p s, qeq_b (p_qty p) 0 = false ->
  p_avg (fst (fut_settle c p s)) = p_last (fst (fut_settle c p s)) /\
  p_last (fst (fut_settle c p s)) = match s with Some x => x | None => p_last p end.
Proof. exact fut_settle_rebased. Qed.
(* expiry after marking: closed at the final settlement price, nothing realised, neither position nor margin left *)
Theorem C02_expiry : forall c p, is_future c -> p_avg p == p_last p ->
  snd (fut_expire c p) == 0 /\ p_qty (fst (fut_expire c p)) = 0 /\ p_old (fst (fut_expire c p)) = 0.
Proof. exact fut_expire_flat. Qed.
Theorem C02_expiry_value : forall g a i c p, nth_error (a_pos a) i = Some (c, p) -> pc_kind c = FuturePos -> p_avg p == p_last p ->
  total_value g (astep g a (EExpire i)) == total_value g a.
Proof. exact value_expire. Qed.
(* forced liquidation flattens the account to exactly zero *)
Theorem C02_forced_liquidation : forall g a, qle_b (total_value g a) 0 = true ->
  a_pos (astep g a (ELiquidate true)) = [] /\ a_total_cash (astep g a (ELiquidate true)) = 0.
Proof. exact liquidation_flat. Qed.
Theorem C02_forced_liquidation_value : forall g a, qle_b (total_value g a) 0 = true -> a_liab a == 0 -> a_pending a = [] ->
  total_value g (astep g a (ELiquidate true)) == 0.
Proof. exact liquidation_value. Qed.

Example C02_example :
  let c := {| pc_kind := FuturePos; pc_long := true; pc_mult := 10; pc_tplus := false |} in
  let p0 := {| p_qty := 0; p_old := 0; p_lold := 0; p_avg := 0; p_trade_cost := 0; p_tcost := 0; p_non_closable := 0; p_last := 3000; p_recv := None |} in
  let a := {| a_total_cash := 100000; a_frozen := 0; a_liab := 0; a_pending := []; a_mgmt_fees := 0; a_pos := [(c, p0)] |} in
  let g := {| ac_future := true; ac_fin_rate := 0; ac_margin_rate := fun _ => 1 # 10 |} in
  let evs := [ETrade 0 {| t_effect := Open; t_price := 3000; t_qty := 2; t_fee := 6 |} None; EMark 0 3010;
              ESettleFut 0 (Some 3012); ETrade 0 {| t_effect := Close; t_price := 3020; t_qty := 1; t_fee := 3 |} None] in
  total_value g (arun g a evs) == 100000 - 6 + 2 * 12 * 10 + 1 * 8 * 10 - 3 /\ acc_margin g (arun g a evs) == (1 # 10) * (10 * (3012 * 1)).
Proof. split; vm_compute; reflexivity. Qed.

Print Assumptions C02_cash_ledger.
Print Assumptions C02_close_realises.
Print Assumptions C02_open_costs_fees.
Print Assumptions C02_value_trade.
Print Assumptions C02_margin.
Print Assumptions C02_available.
Print Assumptions C02_settlement_value.
Print Assumptions C02_settlement_rebases.
Print Assumptions C02_expiry.
Print Assumptions C02_expiry_value.
Print Assumptions C02_forced_liquidation.
Print Assumptions C02_forced_liquidation_value.
