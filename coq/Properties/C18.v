(* C18  The analysis report equals what actually happened in the run (partial: pandas / rqrisk / float rounding are runtime). *)
From RQ Require Import Model.Num Model.Portfolio Model.Analyser Model.ModLife Proofs.NumFacts Proofs.PortfolioFacts Proofs.AnalyserFacts Proofs.ModLifeFacts.
Open Scope Q_scope.

(* exactly one portfolio record per settled trading day (the number of settlements is the number of trading days: C08) *)
Theorem C18_one_record_per_day : forall days, length (collect_daily days) = length days /\ map ds_date (collect_daily days) = map ds_date days.
Proof. exact one_record_per_day. Qed.
(* total return = final unit net value - 1 = compounded daily returns - 1 *)
Theorem C18_total_return : forall navs, Forall (fun n => ~ n == 0) navs -> total_return_of navs == compound 1 navs - 1.
Proof. exact total_return_compounds. Qed.
(* benchmark return = ratio of benchmark closes *)
Theorem C18_benchmark_return : forall closes prev, ~ prev == 0 -> Forall (fun c => ~ c == 0) closes ->
  prod1 (bench_returns prev closes) == lastq prev closes / prev.
Proof. exact benchmark_telescopes. Qed.
(* ... also when the benchmark is given with a weight ("id:w", {id: w}): the weighted combination of one member is the member, and only the
   proportions of the weights matter *)
Theorem C18_weighted_benchmark_return : forall w closes prev, ~ w == 0 -> ~ prev == 0 -> Forall (fun c => ~ c == 0) closes ->
  prod1 (bench_series [w] (transpose1 (bench_returns prev closes))) == lastq prev closes / prev.
Proof. exact weighted_single_benchmark. Qed.
Theorem C18_benchmark_weights_are_proportions : forall k ws xs, ~ k == 0 -> ~ qsum ws == 0 -> bench_day (map (Qmult k) ws) xs == bench_day ws xs.
Proof. exact bench_day_scale. Qed.
(* a run that failed returns no report *)
Theorem C18_failed_run_no_report : forall mods n f, f <> NoFault -> In (LResult true) (run_mods mods n f) -> False.
Proof. exact failed_run_has_no_report. Qed.

Example C18_example : prod1 (bench_returns 1000 [1010; 990; 1020]) == 1020 / 1000 /\ total_return_of [101 # 100; 99 # 100] == -1 # 100.
Proof. split; vm_compute; reflexivity. Qed.

Print Assumptions C18_one_record_per_day.
Print Assumptions C18_total_return.
Print Assumptions C18_benchmark_return.
Print Assumptions C18_weighted_benchmark_return.
Print Assumptions C18_benchmark_weights_are_proportions.
Print Assumptions C18_failed_run_no_report.
