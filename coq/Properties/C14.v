(* C14  A run resumed from persisted state continues exactly like the uninterrupted run (partial: serialisation - jsonpickle, pickle -
   and the strategy context / universe / broker order book are runtime and compared by the split runs only). *)
From RQ Require Import Model.Num Model.Calendar Model.Position Model.Account Model.AccountRun Model.EventLoop Model.Persist
     Proofs.NumFacts Proofs.PersistFacts.
From RQ Require Import Model.Globals Model.PersistKeys Gen.PersistKeys.
Open Scope Z_scope.

(* what is written and read back loses nothing of a position or an account ... *)
Theorem C14_position_roundtrip : forall p, restore_pos (persist_pos p) = p.
Proof. exact pos_roundtrip. Qed.
Theorem C14_account_roundtrip : forall a, restore_acc (map fst (a_pos a)) (persist_acc a) = a.
Proof. exact acc_roundtrip. Qed.
(* ... so the restored account continues exactly like the original one, whatever happens next *)
Theorem C14_account_continuation : forall g a evs, arun g (restore_acc (map fst (a_pos a)) (persist_acc a)) evs = arun g a evs.
Proof. exact acc_continuation. Qed.
(* a persisted state without the last price would not do *)
Theorem C14_last_price_is_needed : exists p x, x <> p_last p /\
  {| p_qty := p_qty p; p_old := p_old p; p_lold := p_lold p; p_avg := p_avg p; p_trade_cost := p_trade_cost p; p_tcost := p_tcost p;
     p_non_closable := p_non_closable p; p_last := x; p_recv := p_recv p |} <> p.
Proof. exact last_price_is_needed. Qed.
(* stop after any day's after-trading, resume on the next event: together exactly the events of the uninterrupted run
   (the pending settlement is published once, by the resumed run) *)
Theorem C14_split_at_end_of_day : forall evs1 evs2 end_date,
  let first := xfold fresh evs1 in
  let resumed := xrun (fst first) evs2 end_date in
  snd first ++ snd resumed = snd (xrun fresh (evs1 ++ evs2) end_date) /\ fst resumed = fst (xrun fresh (evs1 ++ evs2) end_date).
Proof. exact split_at_after_trading. Qed.
(* stop at a normal exit (the last day is settled): the resumed run does not settle that day again *)
Theorem C14_split_at_normal_exit : forall d ls d' t rest end_date, d' <> d -> ls <> Some d ->
  snd (xrun (unsettled d ls) (SBeforeTrading d' t :: rest) end_date) = PSettlement d :: snd (xrun (settled d) (SBeforeTrading d' t :: rest) end_date) /\
  fst (xrun (unsettled d ls) (SBeforeTrading d' t :: rest) end_date) = fst (xrun (settled d) (SBeforeTrading d' t :: rest) end_date).
Proof. exact split_at_normal_exit. Qed.
(* the resumable executor is the executor of the lifecycle model (C08) when nothing was persisted *)
Theorem C14_fresh_run_is_lifecycle_run : forall evs end_date, snd (xrun fresh evs end_date) = exec_run evs end_date.
Proof. exact fresh_run_is_lifecycle_run. Qed.
(* the series of the resumed run's report: the days before the resume, then the resumed days, nothing twice *)
Theorem C14_report_series : forall before overlap current d0 x rest, current = (d0, x) :: rest ->
  Forall (fun r => fst r < d0) before -> Forall (fun r => d0 <= fst r) overlap ->
  merge_series (before ++ overlap) current = before ++ current.
Proof. exact merged_series_dates. Qed.

Example C14_example :
  snd (xrun fresh (daily_events [20200102; 20200103]) 20200103) =
  snd (xfold fresh (daily_events [20200102])) ++ snd (xrun (fst (xfold fresh (daily_events [20200102]))) (daily_events [20200103]) 20200103) /\
  In (PSettlement 20200102) (snd (xrun (fst (xfold fresh (daily_events [20200102]))) (daily_events [20200103]) 20200103)).
Proof. split; vm_compute; [reflexivity | auto]. Qed.

(* Tie A: what get_state writes and set_state reads back, regenerated from the source on every run (Gen/PersistKeys.v): every key the
   persist model relies on is written and read back, nothing is filtered out, and every scalar field goes back into the very attribute
   it was read from (a key written from a derived view - the public start_date is the CURRENT run's - would restore something else) *)
Theorem C14_code_state_records :
  forallb (fun ck => forallb (fun k => mem_str k (keys_of (fst ck) written)) (snd ck)) required_keys = true /\
  forallb (fun ck => forallb (fun k => mem_str k (keys_of (fst ck) read_back)) (snd ck)) required_keys = true /\
  forallb (fun c => negb (flag_of c filtered)) unfiltered_classes = true /\
  forallb (fun ck => forallb (fun k => same_field (fst ck) k written_from restored_to) (snd ck)) round_trip_fields = true.
Proof. split; [exact required_keys_written|]. split; [exact required_keys_read_back|]. split; [exact nothing_filtered_out|exact fields_round_trip]. Qed.

Print Assumptions C14_position_roundtrip.
Print Assumptions C14_account_roundtrip.
Print Assumptions C14_account_continuation.
Print Assumptions C14_last_price_is_needed.
Print Assumptions C14_split_at_end_of_day.
Print Assumptions C14_split_at_normal_exit.
Print Assumptions C14_fresh_run_is_lifecycle_run.
Print Assumptions C14_report_series.
Print Assumptions C14_code_state_records.
