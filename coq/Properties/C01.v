(* C01  Stock account ledger: cash, holdings and total value are conserved. *)
From RQ Require Import Model.Num Model.Position Model.Account Model.AccountRun
  Proofs.NumFacts Proofs.PositionFacts Proofs.AccountFacts.
Open Scope Q_scope.

(* For EVERY list of kernel events (fills, reservations, marks, deposits, financing, dividends, splits, delistings,
   settlements, fees) the account's total cash is the starting cash plus the ledger written from the events:
   -cost of buys +proceeds of sells -fees +flows +dividends paid +delisting payouts -management fees. *)
Theorem C01_cash_ledger : forall g evs a, a_total_cash (arun g a evs) == a_total_cash a + audit_cash g a evs.
Proof. exact cash_ledger. Qed.

(* a stock fill moves cash by exactly -(price*qty)-fees / +(price*qty)-fees and the holding by the signed quantity *)
Theorem C01_trade_cash : forall c p t, is_stock c -> t_effect t <> CloseToday ->
  snd (pos_apply_trade c p t) == - (sgn t) * (t_price t * t_qty t) - t_fee t.
Proof. exact stock_trade_cash. Qed.
Theorem C01_trade_quantity : forall c p t, is_stock c ->
  p_qty (fst (pos_apply_trade c p t)) == p_qty p + sgn t * t_qty t.
Proof. exact stock_trade_qty. Qed.

(* total value: value appears or disappears only through price movement, flows and fees *)
Theorem C01_value_trade : forall g a i t ord c p,
  nth_error (a_pos a) i = Some (c, p) ->
  (pc_kind c = StockPos -> t_effect t <> CloseToday) ->
  (pc_kind c = FuturePos -> 0 <= p_qty p /\ 0 < t_qty t) ->
  total_value g (astep g a (ETrade i t ord)) ==
  total_value g a + sgn t * (p_last p - t_price t) * t_qty t * (match pc_kind c with StockPos => 1 | FuturePos => pc_mult c * dirf c end) - t_fee t.
Proof. exact value_trade. Qed.
Theorem C01_value_mark : forall g a i price c p,
  nth_error (a_pos a) i = Some (c, p) ->
  total_value g (astep g a (EMark i price)) ==
  total_value g a + p_qty p * (price - p_last p) * (match pc_kind c with StockPos => 1 | FuturePos => pc_mult c * dirf c end).
Proof. exact value_mark. Qed.
Theorem C01_value_deposit : forall g a x, total_value g (astep g a (EDeposit x)) == total_value g a + x.
Proof. exact value_deposit. Qed.
Theorem C01_value_pending_arrives : forall g a today, total_value g (astep g a (EArrive today)) == total_value g a.
Proof. exact value_arrive. Qed.
Theorem C01_value_mgmt_fee : forall g a fee, total_value g (astep g a (EMgmt fee)) == total_value g a - fee.
Proof. exact value_mgmt. Qed.
(* reserved cash moves only by order events; reservations never touch total cash *)
Theorem C01_reserve_separate : forall g a e, (forall en, e <> ELiquidate en) -> a_frozen (astep g a e) == a_frozen a + frozen_contrib e.
Proof. exact frozen_step. Qed.

Example C01_example :
  let c := {| pc_kind := StockPos; pc_long := true; pc_mult := 1; pc_tplus := true |} in
  let p0 := {| p_qty := 0; p_old := 0; p_lold := 0; p_avg := 0; p_trade_cost := 0; p_tcost := 0; p_non_closable := 0; p_last := 10; p_recv := None |} in
  let a := {| a_total_cash := 100000; a_frozen := 0; a_liab := 0; a_pending := []; a_mgmt_fees := 0; a_pos := [(c, p0)] |} in
  let g := {| ac_future := false; ac_fin_rate := 0; ac_margin_rate := fun _ => 0 |} in
  let evs := [ETrade 0 {| t_effect := Open; t_price := 10; t_qty := 1000; t_fee := 8 |} None; EMark 0 11;
              ETrade 0 {| t_effect := Close; t_price := 11; t_qty := 400; t_fee := 9 |} None; EDeposit 500] in
  a_total_cash (arun g a evs) == 100000 - 10000 - 8 + 4400 - 9 + 500 /\ total_value g (arun g a evs) == 100000 + 1000 - 17 + 500.
Proof. split; vm_compute; reflexivity. Qed.

Print Assumptions C01_cash_ledger.
Print Assumptions C01_trade_cash.
Print Assumptions C01_trade_quantity.
Print Assumptions C01_value_trade.
Print Assumptions C01_value_mark.
Print Assumptions C01_value_deposit.
Print Assumptions C01_value_pending_arrives.
Print Assumptions C01_value_mgmt_fee.
Print Assumptions C01_reserve_separate.
