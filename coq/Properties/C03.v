(* C03  Net value, units and returns accounting is consistent and flow-neutral. *)
From RQ Require Import Model.Num Model.Position Model.Account Model.AccountRun Model.Portfolio
  Proofs.NumFacts Proofs.PositionFacts Proofs.AccountFacts Proofs.PortfolioFacts.
Open Scope Q_scope.

Theorem C03_nav_times_units : forall p tv, ~ pf_units p == 0 -> unit_net_value p tv * pf_units p == tv.
Proof. exact nav_units. Qed.
(* deposits and withdrawals (immediate or pending: both raise total value at once, C01_value_deposit / value_deposit_pending)
   change units but never the unit net value *)
Theorem C03_flow_neutral : forall p tv0 tv1, ~ pf_units p == 0 -> ~ tv0 == 0 -> ~ tv1 == 0 ->
  unit_net_value (pf_deposit p tv0 tv1) tv1 == unit_net_value p tv0.
Proof. exact deposit_flow_neutral. Qed.
(* the hypothesis above is the code's own guard: a flow into a portfolio whose unit net value is 0 is refused before anything changes *)
Theorem C03_flow_refused_when_worthless : forall p tv0 tv1, qeq_b (unit_net_value p tv0) 0 = true -> pf_deposit_checked p tv0 tv1 = None.
Proof. exact deposit_refused_when_worthless. Qed.
Theorem C03_flow_accepted_otherwise : forall p tv0 tv1, qeq_b (unit_net_value p tv0) 0 = false -> pf_deposit_checked p tv0 tv1 = Some (pf_deposit p tv0 tv1).
Proof. exact deposit_accepted_otherwise. Qed.
Theorem C03_pending_counts_at_once : forall g a d x, total_value g (astep g a (EDepositPending d x)) == total_value g a + x.
Proof. exact value_deposit_pending. Qed.
Theorem C03_pending_arrival_neutral : forall g a today, total_value g (astep g a (EArrive today)) == total_value g a.
Proof. exact value_arrive. Qed.
(* nothing else changes units: the latch keeps them (all other kernel steps do not mention the portfolio record) *)
Theorem C03_latch_keeps_units : forall p tv, pf_units (latch p tv) = pf_units p.
Proof. exact latch_keeps_units. Qed.
(* each day's return is closing nav over previous close minus one; compounding reproduces total returns *)
Theorem C03_daily_return : forall p tv_prev tv, daily_returns (latch p tv_prev) tv == unit_net_value p tv / unit_net_value p tv_prev - 1.
Proof. exact daily_return_def. Qed.
Theorem C03_compounding : forall navs prev, ~ prev == 0 -> Forall (fun n => ~ n == 0) navs -> compound prev navs == lastq prev navs / prev.
Proof. exact compound_telescopes. Qed.
(* daily P&L of an entry (position + trading - costs) = its change of value since the previous close, for every day of
   trades and marks; stock entries (partial: dividend / split days are covered by C12, interest by the account) *)
Theorem C03_pnl_decomposition_stock_partial : forall c p evs prev_close,
  is_stock c -> pc_mult c == 1 -> pc_long c = true -> p_trade_cost p == 0 -> p_tcost p == 0 ->
  Forall (fun e => forall t, e = DTrade t -> t_effect t <> CloseToday) evs ->
  let s := drun c p evs in
  entry_daily_pnl c prev_close (fst s) == (equity c (fst s) + snd s) - (prev_close * p_lold p + receivable p).
Proof. exact stock_daily_pnl. Qed.
Theorem C03_pnl_decomposition_future_partial : forall c p evs,
  is_future c -> 0 <= p_qty p -> p_trade_cost p == 0 -> p_tcost p == 0 -> p_lold p == p_qty p ->
  fwf_run c (p, 0) evs ->
  let s := drun c p evs in
  entry_daily_pnl c (p_avg p) (fst s) == equity c (fst s) + snd s.
Proof. exact future_daily_pnl. Qed.

Example C03_example :
  let p := {| pf_units := 100000; pf_static := 1 |} in
  unit_net_value (pf_deposit p 110000 115000) 115000 == 11 # 10 /\ compound 1 [11 # 10; 12 # 10; 9 # 10] == 9 # 10.
Proof. split; vm_compute; reflexivity. Qed.

Print Assumptions C03_nav_times_units.
Print Assumptions C03_flow_neutral.
Print Assumptions C03_flow_refused_when_worthless.
Print Assumptions C03_flow_accepted_otherwise.
Print Assumptions C03_pending_counts_at_once.
Print Assumptions C03_pending_arrival_neutral.
Print Assumptions C03_latch_keeps_units.
Print Assumptions C03_daily_return.
Print Assumptions C03_compounding.
Print Assumptions C03_pnl_decomposition_stock_partial.
Print Assumptions C03_pnl_decomposition_future_partial.
