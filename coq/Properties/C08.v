(* C08  Trading-day lifecycle and clocks: each phase once, in order, settled once. *)
From RQ Require Import Model.Num Model.Calendar Model.EventLoop Model.Phases Proofs.CalendarFacts Proofs.EventLoopFacts Proofs.PhasesFacts Gen.ApiPhases Gen.Listeners.
From Coq Require Import List String.
Open Scope Z_scope.

(* the days of a run are exactly the trading days of the requested range *)
Theorem C08_days : forall cal a b, sinc cal -> run_days cal a b = filter (fun x => (a <=? x) && (x <=? b)) cal.
Proof. exact trading_dates_is_slice. Qed.
(* daily frequency: for every strictly increasing list of trading days the published phase events are exactly
   BT OA BAR AT per day, one SETTLEMENT between a day's AT and the next day's BT and one after the last day *)
Theorem C08_daily_run : forall days, sinc days -> days <> [] -> exec_run (daily_events days) (lastz days) = spec_days None days.
Proof. exact daily_run_is_spec. Qed.
Theorem C08_settled_once_per_day : forall days, sinc days -> days <> [] -> count_settle (exec_run (daily_events days) (lastz days)) = List.length days.
Proof. exact one_settlement_per_day. Qed.
Theorem C08_settlement_after_last_day : forall days prev, days <> [] -> exists l, spec_days prev days = l ++ [PSettlement (lastz days)].
Proof. exact spec_ends_with_settlement. Qed.
Theorem C08_clocks_monotone : forall days prev lo, sinc days -> (match days with d :: _ => fst lo < d | [] => True end) ->
  mono lo (times (spec_days prev days)).
Proof. exact clocks_monotone. Qed.
(* minute frequency: whatever universe changes happen during the day, the bars come in strictly increasing time order *)
Theorem C08_minute_bars_increasing : forall fuel d minutes_of changed, (forall k, sinc (minutes_of k)) -> forall k last btflag,
  sinc (bars_of (minute_day fuel d minutes_of changed k last btflag)) /\
  forall x, In x (bars_of (minute_day fuel d minutes_of changed k last btflag)) -> ge_last last x.
Proof. exact minute_bars_increasing. Qed.
(* every phase event is published as PRE_E, E, POST_E (regenerated EVENT_SPLIT_MAP) *)
Theorem C08_brackets : event_split_brackets event_split = true.
Proof. exact event_split_ok. Qed.
(* every order-placing API is refused during init, before_trading and after_trading (regenerated phase table) *)
Theorem C08_order_phases : forallb (fun name => order_api_guarded api_phases name) order_apis = true.
Proof. exact order_apis_guarded. Qed.
(* ... also from a handler registered with subscribe_event: the handler of every part (PRE_E, E, POST_E) of a day-phase event runs in
   that phase whatever is on the phase stack, an event without an entry keeps the enclosing phase (regenerated Strategy._EVENT_PHASE and
   wrap_user_event_handler), and no order or cash-flow API is admitted in a handler of a before_trading / after_trading event *)
Theorem C08_handler_phases :
  (forall e p parts part enclosing, In (e, p) day_phase_events -> lookup e event_split = Some parts -> In part parts ->
     handler_phase handler_phase_table handler_fallback_enclosing part enclosing = p) /\
  (forall ev enclosing, lookup ev handler_phase_table = None ->
     handler_phase handler_phase_table handler_fallback_enclosing ev enclosing = enclosing).
Proof. exact (handler_phase_sound event_split handler_phase_table handler_fallback_enclosing handler_phases_ok). Qed.
Theorem C08_handlers_cannot_order_when_closed :
  forallb (fun name => forallb (fun ev => negb (api_allows api_phases name (handler_phase handler_phase_table handler_fallback_enclosing ev XGlobal)))
                               closed_phase_events) (order_apis ++ flow_apis) = true.
Proof. exact handlers_cannot_order_when_closed. Qed.

(* an event published on the bus reaches every system listener unless one of them returns a truthy value (EventBus.publish_event); no
   system listener of an event a back-test publishes can return a value (regenerated inventory of every add_listener / prepend_listener call, Gen/Listeners.v),
   and the listeners the lifecycle relies on - the strategy's callbacks, the broker's and the accounts' phase handlers - are registered *)
Theorem C08_event_reaches_every_listener : forall (E : Type) (ls : list (E -> bool)) (e : E),
  (forall l, In l ls -> l e = false) -> delivered ls e = List.length ls.
Proof. exact @delivered_to_all. Qed.
Theorem C08_no_listener_swallows_events :
  forallb (fun r => negb (snd r) || in_strs (snd (fst (fst r))) external_events) system_listeners = true /\
  forallb (fun le => existsb (fun r => String.eqb (fst (fst (fst r))) (fst le) && String.eqb (snd (fst (fst r))) (snd le)) system_listeners)
          expected_phase_listeners = true.
Proof. split; [exact no_listener_returns_a_value|exact phase_listeners_present]. Qed.

Example C08_example :
  exec_run (daily_events [20200102; 20200103]) 20200103 =
  [PBeforeTrading 20200102 0; POpenAuction 20200102 0; PBar 20200102 900; PAfterTrading 20200102 930; PSettlement 20200102;
   PBeforeTrading 20200103 0; POpenAuction 20200103 0; PBar 20200103 900; PAfterTrading 20200103 930; PSettlement 20200103] /\
  bars_of (minute_day 5 1 (fun _ => [571; 572; 573; 574]) (fun k m => (k =? 0)%nat && (m =? 573)) 0 None true) = [571; 572; 573; 574].
Proof. split; vm_compute; reflexivity. Qed.

Print Assumptions C08_days.
Print Assumptions C08_daily_run.
Print Assumptions C08_settled_once_per_day.
Print Assumptions C08_settlement_after_last_day.
Print Assumptions C08_clocks_monotone.
Print Assumptions C08_minute_bars_increasing.
Print Assumptions C08_brackets.
Print Assumptions C08_order_phases.
Print Assumptions C08_handler_phases.
Print Assumptions C08_handlers_cannot_order_when_closed.
Print Assumptions C08_event_reaches_every_listener.
Print Assumptions C08_no_listener_swallows_events.
