(* C10  Positions never go negative: closable quantity, T+1 and close-today rules. *)
From RQ Require Import Model.Num Model.Position Model.Closable Proofs.NumFacts Proofs.PositionFacts Proofs.ClosableFacts.
Open Scope Q_scope.

(* For every sequence of opening fills, closing submissions (validated), fills of resting closes, drops and day
   roll-overs: quantities stay non-negative and every resting close stays covered. *)
Theorem C10_invariant : forall g evs s, CInv g s -> cwf_run g s evs -> CInv g (fold_left (cstep g) evs s).
Proof. exact closable_invariant. Qed.
Theorem C10_never_negative : forall g s, CInv g s -> 0 <= cs_qty s /\ 0 <= cs_old s /\ 0 <= closable g s /\ 0 <= today_closable s.
Proof. exact never_negative. Qed.
(* shares bought on day T are not closable on day T (T+1 on) *)
Theorem C10_t1 : forall g s q, cc_stock g = true -> cc_t1 g = true -> cc_tplus g = true ->
  closable g (cstep g s (COpenFill q)) == closable g s.
Proof. exact t1_blocks_today. Qed.
(* ordinary closes consume yesterday's quantity before today's; close-today leaves yesterday's alone *)
Theorem C10_old_first : forall c p t, t_effect t = Close -> p_old (fst (pos_apply_trade c p t)) == p_old p - qmin (t_qty t) (p_old p).
Proof. exact close_old_first. Qed.
Theorem C10_close_today_keeps_old : forall c p t, is_future c -> t_effect t = CloseToday -> p_old (fst (pos_apply_trade c p t)) = p_old p.
Proof. exact close_today_keeps_old. Qed.
(* a rejected close changes nothing *)
Theorem C10_reject_noop : forall g s id today q, validate_close g s today q = false -> cstep g s (CSubmit id today q) = s.
Proof. exact reject_noop. Qed.

(* the state the unrepaired validator admitted (CLOSE 8 resting on 8 lots of which 3 are today's, then CLOSE_TODAY 3)
   is rejected by the model of the repaired one *)
Example C10_example :
  let g := {| cc_stock := false; cc_t1 := false; cc_tplus := false |} in
  let s := {| cs_qty := 8; cs_old := 5; cs_nc := 0; cs_book := [{| co_id := 1; co_today := false; co_unfilled := 8 |}] |} in
  validate_close g s true 3 = false /\ validate_close g {| cs_qty := 8; cs_old := 5; cs_nc := 0; cs_book := [] |} true 3 = true.
Proof. split; vm_compute; reflexivity. Qed.

Print Assumptions C10_invariant.
Print Assumptions C10_never_negative.
Print Assumptions C10_t1.
Print Assumptions C10_old_first.
Print Assumptions C10_close_today_keeps_old.
Print Assumptions C10_reject_noop.
