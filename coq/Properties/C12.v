(* C12  Corporate actions, delisting and expiry never change account value when applied. *)
From RQ Require Import Model.Num Model.Position Model.Account Model.AccountRun
  Proofs.NumFacts Proofs.PositionFacts Proofs.AccountFacts.
Open Scope Q_scope.

(* ex-date: value moves from the marked price into the receivable (no earlier receivable outstanding) *)
Theorem C12_dividend_ex : forall g a i dps payable c p, nth_error (a_pos a) i = Some (c, p) -> pc_kind c = StockPos ->
  total_value g (astep g a (EBook i dps payable)) == total_value g a - receivable p.
Proof. exact value_book. Qed.
(* payable date: the receivable - record-date quantity x dividend per share - becomes cash *)
Theorem C12_dividend_pay : forall g a i today c p, nth_error (a_pos a) i = Some (c, p) -> pc_kind c = StockPos ->
  total_value g (astep g a (EPay i today)) == total_value g a.
Proof. exact value_pay. Qed.
Theorem C12_dividend_amount : forall p today lot d v, p_recv p = Some (d, v) -> d = today ->
  snd (fst (bt_pay p today false lot)) = v /\ p_recv (fst (fst (bt_pay p today false lot))) = None.
Proof. exact pay_amount. Qed.
Theorem C12_receivable_is_record_quantity : forall p dps payable,
  p_recv (bt_book p (Some (dps, payable))) = Some (payable, qmul (p_qty p) dps).
Proof. reflexivity. Qed.
(* selling between record and payable date does not touch the receivable *)
Theorem C12_sell_between : forall c p t, is_stock c -> p_recv (fst (pos_apply_trade c p t)) = p_recv p.
Proof. exact stock_trade_recv. Qed.
(* split with an integral result: quantity x ratio, prices / ratio, value unchanged *)
Theorem C12_split : forall g a i r k c p, nth_error (a_pos a) i = Some (c, p) -> pc_kind c = StockPos -> 0 < r -> qmul (p_qty p) r == zq k ->
  total_value g (astep g a (ESplit i r)) == total_value g a.
Proof. exact value_split. Qed.
Theorem C12_split_scales : forall p r, p_avg (bt_split p (Some r)) = qdiv (p_avg p) r /\ p_last (bt_split p (Some r)) = qdiv (p_last p) r.
Proof. exact split_scales. Qed.
(* delisting with payout at the last price *)
Theorem C12_delist_payout : forall g a i c p, nth_error (a_pos a) i = Some (c, p) -> pc_kind c = StockPos ->
  total_value g (astep g a (EDelist i true)) == total_value g a.
Proof. exact value_delist. Qed.
(* futures expiry after the daily mark *)
Theorem C12_expiry : forall g a i c p, nth_error (a_pos a) i = Some (c, p) -> pc_kind c = FuturePos -> p_avg p == p_last p ->
  total_value g (astep g a (EExpire i)) == total_value g a.
Proof. exact value_expire. Qed.
(* conversion into a successor at the published ratio: the holding's cash refund equals what the successor trade costs,
   and the successor is worth the old holding *)
Theorem C12_conversion : forall p ratio cr price amount, 0 < ratio -> qeq_b (p_qty p) 0 = false ->
  snd (stock_delist p (Some ratio) cr) = Some (price, amount) ->
  snd (fst (stock_delist p (Some ratio) cr)) == price * amount /\ amount * (p_last p / ratio) == p_last p * p_qty p.
Proof. exact conversion_neutral. Qed.

(* the finding D10 kept visible: a split whose result is not integral is rounded to the nearest share; value changes *)
Example C12_fractional_split_refuted :
  exists p r, ~ (p_last (bt_split p (Some r)) * p_qty (bt_split p (Some r)) == p_last p * p_qty p).
Proof. exists {| p_qty := 150; p_old := 150; p_lold := 150; p_avg := 10; p_trade_cost := 0; p_tcost := 0; p_non_closable := 0; p_last := 23; p_recv := None |}, (115 # 100).
  vm_compute. intro H. discriminate H. Qed.
(* the finding D11 kept visible: a second book closure before the first payable date overwrites the receivable *)
Example C12_overlapping_dividend_refuted :
  exists p, receivable p > 0 /\ receivable (bt_book p (Some (1 # 10, 20200110%Z))) < receivable p + qmul (p_qty p) (1 # 10).
Proof. exists {| p_qty := 1000; p_old := 1000; p_lold := 1000; p_avg := 10; p_trade_cost := 0; p_tcost := 0; p_non_closable := 0; p_last := 10; p_recv := Some (20200108%Z, 500) |}.
  split; vm_compute; reflexivity. Qed.

(* the pre-open purge of emptied holdings (Account._on_before_trading) drops nothing of value: every dropped entry has equity 0, and an
   emptied holding whose dividend is still receivable is never dropped - it has to survive until the payable date *)
Theorem C12_purge_drops_no_value : forall entries, purgeable entries = true -> Forall (fun e => equity (fst e) (snd e) == 0) entries.
Proof. exact purgeable_equity_zero. Qed.
Theorem C12_purge_keeps_receivable : forall c p d v, pc_kind c = StockPos -> p_recv p = Some (d, v) -> ~ v == 0 -> p_qty p == 0 ->
  purgeable [(c, p)] = false.
Proof. exact purgeable_keeps_receivable. Qed.

Print Assumptions C12_dividend_ex.
Print Assumptions C12_dividend_pay.
Print Assumptions C12_dividend_amount.
Print Assumptions C12_receivable_is_record_quantity.
Print Assumptions C12_sell_between.
Print Assumptions C12_split.
Print Assumptions C12_split_scales.
Print Assumptions C12_delist_payout.
Print Assumptions C12_expiry.
Print Assumptions C12_conversion.
Print Assumptions C12_purge_drops_no_value.
Print Assumptions C12_purge_keeps_receivable.
