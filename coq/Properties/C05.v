(* C05  Fills execute only at the price the matching rule prescribes. *)
From RQ Require Import Model.Num Model.Position Model.Matcher Proofs.NumFacts Proofs.MatcherFacts.
From RQ Require Import Model.Broker Proofs.BrokerFacts Gen.BrokerProg.
Open Scope Q_scope.

Section C05.
  Variables (g : mcfg) (i : mins) (bar auction_bar pb : mbar) (auction : bool) (turnover : Q) (o : morder)
            (fee_of : Q -> Q -> Q -> Q) (occupation : Q -> Q) (avail : Q) (ct_of : Q -> Q).
  Notation M := (match_one g i bar auction_bar pb auction turnover o fee_of occupation avail ct_of).

  (* the reference is the rule's price of the bar it matches in (close / next open / vwap / auction open), valid and positive;
     the trade price is that reference (auction) or the reference moved by the slippage model *)
  Theorem C05_reference : forall price qty ct rc, M = Filled price qty ct rc ->
    exists deal, valid_price (deal_price g i bar auction_bar auction) = Some deal /\ 0 < deal /\
                 price = (if auction then deal else slip_price g i pb o deal).
  Proof. exact (fill_price_reference g i bar auction_bar pb auction turnover o fee_of occupation avail ct_of). Qed.
  (* slippage only moves the price against the order *)
  Theorem C05_adverse : forall price qty ct rc deal, M = Filled price qty ct rc ->
    valid_price (deal_price g i bar auction_bar auction) = Some deal ->
    0 <= m_slip_rate g -> 0 <= i_tick i -> band_ok pb deal ->
    match mo_side o with Buy => deal <= price | Sell => price <= deal end.
  Proof. exact (fill_price_adverse g i bar auction_bar pb auction turnover o fee_of occupation avail ct_of). Qed.
  (* never outside the day's price-limit band *)
  Theorem C05_band : forall price qty ct rc deal lu ld, M = Filled price qty ct rc ->
    valid_price (deal_price g i bar auction_bar auction) = Some deal ->
    valid_price (b_limit_up pb) = Some lu -> valid_price (b_limit_down pb) = Some ld -> ld <= lu -> ld <= deal <= lu ->
    (m_slip g = LimitPrice -> mo_limit o = true -> ld <= mo_price o <= lu) ->
    ld <= price <= lu.
  Proof. exact (fill_price_in_band g i bar auction_bar pb auction turnover o fee_of occupation avail ct_of). Qed.
  (* a limit order fills only with the reference at or better than its limit; with zero slippage the price is the reference *)
  Theorem C05_limit : forall price qty ct rc deal, M = Filled price qty ct rc -> mo_limit o = true ->
    valid_price (deal_price g i bar auction_bar auction) = Some deal ->
    match mo_side o with Buy => deal <= mo_price o | Sell => mo_price o <= deal end.
  Proof. exact (limit_respected g i bar auction_bar pb auction turnover o fee_of occupation avail ct_of). Qed.
  Theorem C05_zero_slippage : forall price qty ct rc deal, M = Filled price qty ct rc ->
    valid_price (deal_price g i bar auction_bar auction) = Some deal -> m_slip_rate g == 0 -> band_ok pb deal ->
    (m_slip g = LimitPrice -> mo_limit o = false) -> price == deal.
  Proof. exact (zero_slippage_price g i bar auction_bar pb auction turnover o fee_of occupation avail ct_of). Qed.
  (* no fill from a bar without a valid price *)
  Theorem C05_no_invalid : valid_price (deal_price g i bar auction_bar auction) = None -> M = NoMatch \/ M = Rejected RListedToday.
  Proof. exact (no_fill_without_price g i bar auction_bar pb auction turnover o fee_of occupation avail ct_of). Qed.
End C05.

Example C05_example :
  let g := {| m_matching := CurrentBarClose; m_price_limit := true; m_inactive_limit := true; m_volume_limit := true;
              m_volume_percent := 1 # 4; m_slip := PriceRatio; m_slip_rate := 1 # 100 |} in
  let i := {| i_lot := 100; i_mult := 1; i_tick := 1 # 100; i_listed_today := false |} in
  let bar := {| b_open := Some 10; b_close := Some (109 # 10); b_volume := Some 4000; b_turnover := Some 42000; b_limit_up := Some 11; b_limit_down := Some 9 |} in
  let o := {| mo_side := Buy; mo_effect := Open; mo_limit := false; mo_price := 0; mo_qty := 2500; mo_filled := 0; mo_reserve := 30000 |} in
  match_one g i bar bar bar false 0 o (fun _ _ _ => 5) (fun p => p * 2500) 100000 (fun _ => 0) = Filled 11 1000 0 true.
Proof. vm_compute. reflexivity. Qed.

(* which orders the broker hands to the matcher, when and with which flag: while the auction is on every call carries the auction flag (an order
   resting since earlier in the auction waits for the bar), and the flag is set only on the first call of an order (new ids per submission) *)
Theorem C05_auction_rule : forall fin ops, auction_calls_flagged (brun fin ops).
Proof. exact auction_rule. Qed.
Theorem C05_auction_flag_only_on_first_call : forall fin ops,
  ok_ops fin {| bk_open := []; bk_auction := []; bk_final := []; bk_calls := [] |} ops -> flag_first (bk_calls (brun fin ops)).
Proof. exact flag_only_on_first_call. Qed.

(* Tie A: SimulationBroker's methods, regenerated from the source on every run as programs over the primitives of Model/Broker.v
   (Gen/BrokerProg.v): the program of `_match` interprets to the model's matching round, and on_bar / before_trading / after_trading /
   cancel_order / submit_order are the programs the model was written for (an order leaves BOTH books on cancel, final orders are collected
   from BOTH books, the matchers are updated BEFORE the bar's orders are matched, everything still open is rejected at the close ...) *)
Theorem C05_code_broker_is_model :
  (forall fin ph s, interp fin ph gen_match s = bmatch fin s ph) /\
  prog_eqb gen_on_bar expected_on_bar && prog_eqb gen_before_trading expected_before_trading && prog_eqb gen_after_trading expected_after_trading &&
  prog_eqb gen_cancel expected_cancel && prog_eqb gen_submit expected_submit && listeners_as_expected = true.
Proof. split; [exact gen_match_is_model|exact gen_programs_as_modelled]. Qed.

Print Assumptions C05_reference.
Print Assumptions C05_auction_rule.
Print Assumptions C05_auction_flag_only_on_first_call.
Print Assumptions C05_adverse.
Print Assumptions C05_band.
Print Assumptions C05_limit.
Print Assumptions C05_zero_slippage.
Print Assumptions C05_no_invalid.
Print Assumptions C05_code_broker_is_model.
