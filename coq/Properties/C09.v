(* C09  Buying power: orders are covered by cash, reserved cash is conserved. *)
From RQ Require Import Model.Num Model.Account Model.Reserve Proofs.NumFacts Proofs.ReserveFacts.
From RQ Require Import Model.Broker Proofs.BrokerFacts Gen.BrokerProg.
From RQ Require Import Model.Matcher Model.Order Proofs.OrderFacts Proofs.ComposeFacts Proofs.ComposeManyFacts.
Open Scope Q_scope.

(* For every protocol-conforming interleaving of submissions, fills and terminal announcements of any number of
   orders, reserved cash equals the sum over open orders of the unfilled fraction of their initial reserve. *)
Theorem C09_frozen_invariant : forall evs s, RInv s -> wf_run s evs -> RInv (fold_left rstep evs s).
Proof. exact frozen_invariant. Qed.
Theorem C09_frozen_nonneg : forall s, RInv s -> 0 <= rs_frozen s.
Proof. exact frozen_nonneg. Qed.
Theorem C09_frozen_zero_when_no_open : forall s, RInv s -> rs_book s = [] -> rs_frozen s == 0.
Proof. exact frozen_zero_when_no_open. Qed.
(* pro-rata release by fills, the remainder by cancellation / rejection / expiry *)
Theorem C09_release_trade : forall o q, 0 < r_qty o -> release_trade (Some (r_qty o, r_reserve o)) q == q / r_qty o * r_reserve o.
Proof. exact release_trade_share. Qed.
Theorem C09_release_terminal : forall o, 0 < r_qty o -> release_terminal (r_qty o) (r_filled o) (r_reserve o) == rshare o.
Proof. exact release_terminal_share. Qed.
(* under current-bar matching without slippage a fill of an opening order is covered by what it releases:
   price <= frozen price and pro-rata fees <= estimate  =>  price*q + fee <= released reserve *)
Theorem C09_no_overdraft_step : forall price fprice q oq fee est reserve,
  0 < oq -> 0 < q -> q <= oq -> price <= fprice -> 0 <= fprice -> fee <= q / oq * est ->
  reserve == fprice * oq + est -> price * q + fee <= q / oq * reserve.
Proof. exact open_fill_covered. Qed.

(* composition with C04: the protocol hypothesis `wf_run` above is not an assumption about the broker - the per-order lifecycle machine of
   Model/Order.v (whose correspondence with SimulationBroker is C04's) emits, for ANY inputs the broker can produce, events that form a
   conforming run; so over an order's whole life reserved cash is the unfilled fraction of its reserve and nothing stays reserved once it is
   final.  (`ins_ok`: fills positive and within the remainder - proved of the matcher in C06 - and day boundaries in order - C08.) *)
Theorem C09_protocol_discharged_by_lifecycle : forall id qty reserve ins, 0 < qty -> 0 <= reserve -> ins_ok (fresh_order qty) ins ->
  let s0 := {| rs_frozen := 0; rs_book := [] |} in
  let o := fst (orun (fresh_order qty) ins) in
  let evs := revs_of id qty reserve (snd (orun (fresh_order qty) ins)) in
  wf_run s0 evs /\ RInv (fold_left rstep evs s0) /\
  (os_status o <> Active -> rs_frozen (fold_left rstep evs s0) == 0) /\
  (os_status o = Active -> rs_frozen (fold_left rstep evs s0) == (qty - os_filled o) / qty * reserve).
Proof. exact lifecycle_discharges_reserve_protocol. Qed.
(* ... and for ANY number of orders and ANY interleaving of their lives (a list of (order id, input) pairs): the whole event stream the
   account hears is a conforming run, reserved cash is the sum over the open orders of the unfilled fraction of their reserves, never
   negative, and zero - with an empty book - whenever no order is open.  No protocol assumption is left in C09. *)
Theorem C09_every_interleaving : forall qtys reserves l, (forall k, 0 < qtys k) -> (forall k, 0 <= reserves k) ->
  let os0 := fun k => fresh_order (qtys k) in
  let s0 := {| rs_frozen := 0; rs_book := [] |} in
  gins_ok os0 l ->
  let evs := gevs qtys reserves os0 l in
  let sf := fold_left rstep evs s0 in
  wf_run s0 evs /\ RInv sf /\ 0 <= rs_frozen sf /\
  ((forall k, os_status (gfinal os0 l k) <> Active) -> rs_book sf = [] /\ rs_frozen sf == 0).
Proof. exact interleaved_lifecycles_discharge_the_protocol. Qed.
Example C09_interleaving_example :
  let qtys := fun k : nat => 1000 in let reserves := fun k : nat => 10008 in
  let l := [(1%nat, ISubmit false); (2%nat, ISubmit false); (1%nat, IMatch (Filled 10 300 0 false) 3); (2%nat, ICancel);
            (1%nat, IAfterTrading)] in
  gins_ok (fun k => fresh_order (qtys k)) l /\
  gevs qtys reserves (fun k => fresh_order (qtys k)) l =
    [RPendingNew (mk 1 1000 10008 0); RPendingNew (mk 2 1000 10008 0); RTrade 1 300; RTerminal 2; RTerminal 1].
Proof. cbv zeta. split; [|vm_compute; reflexivity]. cbn. repeat split; try exact I; try discriminate; vm_compute; try reflexivity; discriminate. Qed.

(* non-vacuity: submitted in the auction, a partial fill of 300, a bar without a match, a second fill whose rest is cancelled *)
Example C09_composition_example :
  let ins := [ISubmit true; IMatch (Filled 10 300 0 false) 3; IMatch NoMatch 0; IMatch (Filled 10 500 0 true) 5] in
  ins_ok (fresh_order 1000) ins /\
  os_status (fst (orun (fresh_order 1000) ins)) = SCancelled /\
  revs_of 7 1000 10008 (snd (orun (fresh_order 1000) ins)) =
    [RPendingNew {| r_id := 7; r_qty := 1000; r_filled := 0; r_reserve := 10008 |}; RTrade 7 300; RTrade 7 500; RTerminal 7].
Proof. cbv zeta. split; [|split; vm_compute; reflexivity]. cbn. repeat split; try exact I; try discriminate; vm_compute; try reflexivity; discriminate. Qed.

Example C09_example :
  let o := {| r_id := 1; r_qty := 1000; r_filled := 0; r_reserve := 10008 |} in
  let s := fold_left rstep [RPendingNew o; RTrade 1 300; RTerminal 1] {| rs_frozen := 0; rs_book := [] |} in
  rs_frozen s == 0 /\ rs_book s = [] /\
  rs_frozen (fold_left rstep [RPendingNew o; RTrade 1 300] {| rs_frozen := 0; rs_book := [] |}) == (700 # 1000) * 10008.
Proof. repeat split; vm_compute; reflexivity. Qed.

(* Tie A: SimulationBroker's methods, regenerated from the source on every run as programs over the primitives of Model/Broker.v
   (Gen/BrokerProg.v): the program of `_match` interprets to the model's matching round, and on_bar / before_trading / after_trading /
   cancel_order / submit_order are the programs the model was written for (an order leaves BOTH books on cancel, final orders are collected
   from BOTH books, the matchers are updated BEFORE the bar's orders are matched, everything still open is rejected at the close ...) *)
Theorem C09_code_broker_is_model :
  (forall fin ph s, interp fin ph gen_match s = bmatch fin s ph) /\
  prog_eqb gen_on_bar expected_on_bar && prog_eqb gen_before_trading expected_before_trading && prog_eqb gen_after_trading expected_after_trading &&
  prog_eqb gen_cancel expected_cancel && prog_eqb gen_submit expected_submit && listeners_as_expected = true.
Proof. split; [exact gen_match_is_model|exact gen_programs_as_modelled]. Qed.

Print Assumptions C09_frozen_invariant.
Print Assumptions C09_frozen_nonneg.
Print Assumptions C09_frozen_zero_when_no_open.
Print Assumptions C09_release_trade.
Print Assumptions C09_release_terminal.
Print Assumptions C09_no_overdraft_step.
Print Assumptions C09_code_broker_is_model.
Print Assumptions C09_protocol_discharged_by_lifecycle.
Print Assumptions C09_every_interleaving.
