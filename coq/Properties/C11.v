(* C11  Transaction costs follow the published schedule, independent of fill splitting.
   Only statements; every proof is `exact <lemma of Proofs/CostsFacts.v>`. *)
From RQ Require Import Model.Num Model.Costs Proofs.NumFacts Proofs.CostsFacts.
Open Scope Q_scope.

(* However an order is split into fills (any non-empty list of (price, quantity) with non-negative
   commission each), the commissions charged on its trades add up to max(minimum, rate*mult*turnover). *)
Theorem C11_split_independent : forall c fills,
  0 <= sc_min c -> Forall (fun f => 0 <= fill_cost c f) fills -> fills <> [] ->
  run_commission c None fills == qmax (sc_min c) (sc_rate c * sc_mult c * turnover fills).
Proof. exact split_independent_turnover. Qed.

(* stamp tax: only sells of common stock, at rate in force times the multiplier; the point-in-time rate
   switches on 2023-08-28 *)
Theorem C11_tax : forall c is_cs sell p q,
  trade_tax c is_cs sell p q == if is_cs && sell then (p * q) * sc_tax_rate c * sc_tax_mult c else 0.
Proof. exact trade_tax_spec. Qed.
Theorem C11_pit_rate : forall d, pit_tax_rate d = if (d <? 20230828)%Z then 1 # 1000 else 1 # 2000.
Proof. exact pit_tax_rate_spec. Qed.

(* futures: by-money or by-volume schedule, the close-today rate applied to exactly `ct` *)
Theorem C11_futures : forall f is_open p q ct,
  fut_commission f is_open p q ct ==
  fc_cmult f *
  (if fc_by_money f then
     if is_open then p * q * fc_mult f * fc_open f
     else p * (q - ct) * fc_mult f * fc_close f + p * ct * fc_mult f * fc_close_today f
   else if is_open then q * fc_open f else (q - ct) * fc_close f + ct * fc_close_today f).
Proof. exact fut_commission_spec. Qed.

(* fees are never negative (for non-negative prices, quantities, rates) *)
Theorem C11_nonneg_commission : forall c e p q,
  0 <= sc_min c -> 0 <= fill_cost c (p, q) -> (forall r, e = Some r -> 0 <= r) ->
  0 <= fst (trade_commission c e p q) /\ (forall r, snd (trade_commission c e p q) = Some r -> 0 <= r).
Proof. exact trade_commission_nonneg. Qed.
Theorem C11_nonneg_tax : forall c is_cs sell m,
  0 <= m -> 0 <= sc_tax_rate c -> 0 <= sc_tax_mult c -> 0 <= stock_tax c is_cs sell m.
Proof. exact stock_tax_nonneg. Qed.
Theorem C11_nonneg_futures : forall f is_open p q ct,
  0 <= p -> 0 <= ct -> ct <= q -> 0 <= fc_mult f -> 0 <= fc_open f -> 0 <= fc_close f -> 0 <= fc_close_today f ->
  0 <= fc_cmult f -> 0 <= fut_commission f is_open p q ct.
Proof. exact fut_commission_nonneg. Qed.

(* non-vacuity: a three-fill order below / across / above the 5-yuan minimum *)
Example C11_example :
  let c := {| sc_rate := 1 # 1250; sc_mult := 1; sc_min := 5; sc_tax_rate := 1 # 2000; sc_tax_mult := 1 |} in
  run_commission c None [(10, 100); (10, 300); (10, 2000)] == qmax 5 ((1 # 1250) * 1 * 24000) /\
  run_commission c None [(10, 100)] == 5.
Proof. split; vm_compute; reflexivity. Qed.

(* which schedule a contract follows (FutureInfoStore.get_future_info): its own bundle entry or its underlying's, overridden by the
   configuration's entry for the contract or for the underlying - and an entry keyed by one contract never reaches another contract, so two
   contracts of one underlying differ exactly by their own entries *)
Theorem C11_schedule_frame : forall dc du cc cu c c' u o f, c <> c' ->
  future_schedule dc du (set_at cc c' o) cu c u = future_schedule dc du cc cu c u /\
  future_schedule (set_at dc c' f) du cc cu c u = future_schedule dc du cc cu c u.
Proof. intros dc du cc cu c c' u o f N. split; [exact (schedule_frame_custom dc du cc cu c c' u o N)|exact (schedule_frame_default dc du cc cu c c' u f N)]. Qed.
Theorem C11_schedule_siblings : forall dc du cc cu c c' u, dc c = None -> dc c' = None -> cc c = None -> cc c' = None ->
  future_schedule dc du cc cu c u = future_schedule dc du cc cu c' u.
Proof. exact schedule_siblings. Qed.
Theorem C11_schedule_contract_override : forall dc du cc cu c u f o, pick (dc c) (du u) = Some f -> cc c = Some o ->
  future_schedule dc du cc cu c u = Some (apply_override f o).
Proof. exact schedule_contract_override_wins. Qed.
Example C11_schedule_example :
  let f := {| fc_by_money := true; fc_mult := 10; fc_open := 1 # 10000; fc_close := 1 # 10000; fc_close_today := 2 # 10000; fc_cmult := 1 |} in
  let o := {| ov_by_money := Some false; ov_open := Some 3; ov_close := None; ov_close_today := Some 0 |} in
  let du := fun u => if Nat.eqb u 0 then Some f else None in
  let cc := set_at (fun _ => None) 7%nat (Some o) in
  future_schedule (fun _ => None) du cc (fun _ => None) 7 0 = Some (apply_override f o) /\
  future_schedule (fun _ => None) du cc (fun _ => None) 8 0 = Some f /\ fc_by_money (apply_override f o) = false.
Proof. cbv zeta. repeat split. Qed.

Print Assumptions C11_split_independent.
Print Assumptions C11_tax.
Print Assumptions C11_pit_rate.
Print Assumptions C11_futures.
Print Assumptions C11_nonneg_commission.
Print Assumptions C11_nonneg_tax.
Print Assumptions C11_nonneg_futures.
Print Assumptions C11_schedule_frame.
Print Assumptions C11_schedule_siblings.
Print Assumptions C11_schedule_contract_override.
