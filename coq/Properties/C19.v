(* C19  Failure containment: mods start / tear down once; errors never look like success. *)
From RQ Require Import Model.Num Model.ModLife Proofs.ModLifeFacts.
From Coq Require Import Sorted Permutation.

(* every enabled mod is started exactly once, in priority order *)
Theorem C19_start_order : forall l, Sorted prio_le (sort_mods l).
Proof. exact sort_mods_sorted. Qed.
Theorem C19_each_mod_once : forall l, Permutation l (sort_mods l).
Proof. exact sort_mods_perm. Qed.
(* every run - whatever the fault point, whichever teardown raises - is: all starts, the callbacks up to the fault, all
   teardowns in reverse start order with the exit code of the fault's origin, then the result *)
Theorem C19_run_shape : forall mods n f,
  run_mods mods n f = map (fun m => LStart (md_id m)) (sort_mods mods) ++ callbacks 0 n (fault_at f) ++
                      map (fun m => LTearDown (md_id m) (code_of f) (md_teardown_raises m)) (rev (sort_mods mods)) ++
                      [LResult (match f with NoFault => true | _ => false end)].
Proof. exact run_shape. Qed.
Theorem C19_teardown_once_reverse : forall mods n f,
  exists pre, run_mods mods n f = pre ++ map (fun m => LTearDown (md_id m) (code_of f) (md_teardown_raises m)) (rev (sort_mods mods)) ++
                                   [LResult (match f with NoFault => true | _ => false end)] /\
              forall e, In e pre -> forall m c r, e <> LTearDown m c r.
Proof. exact teardown_reverse. Qed.
Theorem C19_exit_code : forall mods n f e, In e (run_mods mods n f) -> forall m c r, e = LTearDown m c r -> c = code_of f.
Proof. exact teardown_codes. Qed.
Theorem C19_failed_run_returns_nothing : forall mods n f, f <> NoFault -> In (LResult true) (run_mods mods n f) -> False.
Proof. exact failed_run_has_no_report. Qed.
(* after an exception in callback s no later callback runs *)
Theorem C19_no_callback_after_fault : forall k n s, (k <= s < k + n)%nat -> callbacks k n (Some s) = map LCallback (seq k (S s - k)).
Proof. exact callbacks_stop. Qed.
Theorem C19_all_callbacks_without_fault : forall k n, callbacks k n None = map LCallback (seq k n).
Proof. exact callbacks_none. Qed.

Example C19_example :
  run_mods [{| md_id := 1; md_priority := 200; md_teardown_raises := true |}; {| md_id := 2; md_priority := 50; md_teardown_raises := false |};
            {| md_id := 3; md_priority := 200; md_teardown_raises := false |}] 5 (UserFault 2) =
  [LStart 2; LStart 1; LStart 3; LCallback 0; LCallback 1; LCallback 2;
   LTearDown 3 ExitUserError false; LTearDown 1 ExitUserError true; LTearDown 2 ExitUserError false; LResult false].
Proof. vm_compute. reflexivity. Qed.

Print Assumptions C19_start_order.
Print Assumptions C19_each_mod_once.
Print Assumptions C19_run_shape.
Print Assumptions C19_teardown_once_reverse.
Print Assumptions C19_exit_code.
Print Assumptions C19_failed_run_returns_nothing.
Print Assumptions C19_no_callback_after_fault.
Print Assumptions C19_all_callbacks_without_fault.
