(* C04  Order lifecycle: legal transitions, fill accounting, nothing left dangling. *)
From RQ Require Import Model.Num Model.Position Model.Matcher Model.Order Proofs.NumFacts Proofs.OrderFacts.
From RQ Require Import Model.Broker Proofs.BrokerFacts Gen.BrokerProg.
Open Scope Q_scope.

(* one broker step on an order: well-formedness is kept, the status moves along a legal edge, the emitted events
   advance the protocol automaton, and the order's fill bookkeeping moves by exactly the announced trade *)
Theorem C04_step : forall o i, OWF o -> in_ok o i ->
  OWF (fst (ostep o i)) /\ prun (pstate_of o) (snd (ostep o i)) = pstate_of (fst (ostep o i)) /\
  legal (os_status o) (os_status (fst (ostep o i))) /\
  os_filled (fst (ostep o i)) == os_filled o + traded_qty (snd (ostep o i)) /\
  os_avg (fst (ostep o i)) * os_filled (fst (ostep o i)) == os_avg o * os_filled o + traded_value (snd (ostep o i)) /\
  os_tcost (fst (ostep o i)) == os_tcost o + traded_fees (snd (ostep o i)).
Proof. exact ostep_ok. Qed.
(* for every sequence of submissions, match rounds (any outcomes), cancels and day boundaries the events of an order
   follow  PENDING_NEW CREATION_PASS TRADE* (UNSOLICITED_UPDATE | PENDING_CANCEL CANCELLATION_PASS)?  *)
Theorem C04_protocol : forall qty ins, 0 < qty -> ins_ok (fresh_order qty) ins ->
  prun P0 (snd (orun (fresh_order qty) ins)) <> PFail.
Proof. exact protocol_respected. Qed.
(* filled = sum of trade quantities <= quantity; FILLED iff equal; average price is quantity weighted; cost = sum of fees *)
Theorem C04_fill_accounting : forall qty ins, 0 < qty -> ins_ok (fresh_order qty) ins ->
  let o := fst (orun (fresh_order qty) ins) in let evs := snd (orun (fresh_order qty) ins) in
  os_filled o == traded_qty evs /\ os_filled o <= os_qty o /\ (os_status o = SFilled <-> os_filled o == os_qty o) /\
  os_avg o * os_filled o == traded_value evs /\ os_tcost o == traded_fees evs.
Proof. exact fill_accounting. Qed.
Theorem C04_final_absorbing : forall o i, OWF o -> is_final (os_status o) = true -> ostep o i = (o, []).
Proof. exact final_absorbing. Qed.
Theorem C04_nothing_open_after_close : forall o, OWF o -> os_place (fst (ostep o IAfterTrading)) <> InOpen.
Proof. exact OrderFacts.nothing_open_after_close. Qed.
Theorem C04_returned_final_or_listed : forall o, OWF o -> os_status o <> PendingNew -> is_final (os_status o) = true \/ os_place o <> Nowhere.
Proof. exact handed_back_is_final_or_listed. Qed.

Example C04_example :
  let ins := [ISubmit true; IMatch (Filled 10 300 0 false) 5; IMatch NoMatch 0; IMatch (Filled 11 700 0 false) 6; ICancel; IAfterTrading] in
  let r := orun (fresh_order 1000) ins in
  os_status (fst r) = SFilled /\ snd r = [EvPendingNew; EvCreationPass; EvTrade 10 300 5; EvTrade 11 700 6] /\
  os_avg (fst r) == (107 # 10) /\ os_tcost (fst r) == 11.
Proof. repeat split; vm_compute; reflexivity. Qed.

(* Tie A: SimulationBroker's methods, regenerated from the source on every run as programs over the primitives of Model/Broker.v
   (Gen/BrokerProg.v): the program of `_match` interprets to the model's matching round, and on_bar / before_trading / after_trading /
   cancel_order / submit_order are the programs the model was written for (an order leaves BOTH books on cancel, final orders are collected
   from BOTH books, the matchers are updated BEFORE the bar's orders are matched, everything still open is rejected at the close ...) *)
Theorem C04_code_broker_is_model :
  (forall fin ph s, interp fin ph gen_match s = bmatch fin s ph) /\
  prog_eqb gen_on_bar expected_on_bar && prog_eqb gen_before_trading expected_before_trading && prog_eqb gen_after_trading expected_after_trading &&
  prog_eqb gen_cancel expected_cancel && prog_eqb gen_submit expected_submit && listeners_as_expected = true.
Proof. split; [exact gen_match_is_model|exact gen_programs_as_modelled]. Qed.

Print Assumptions C04_step.
Print Assumptions C04_protocol.
Print Assumptions C04_fill_accounting.
Print Assumptions C04_final_absorbing.
Print Assumptions C04_nothing_open_after_close.
Print Assumptions C04_returned_final_or_listed.
Print Assumptions C04_code_broker_is_model.
