(* C20  History and calendar APIs return exactly the right window, correctly adjusted. *)
From RQ Require Import Model.Num Model.Calendar Proofs.NumFacts Proofs.CalendarFacts.

(* previous and next trading date are inverse on trading days (calendar strictly increasing) *)
Theorem C20_next_prev : forall l k, sinc l -> (0 < k < length l)%nat ->
  next_trading_date l (prev_trading_date l (nth k l 0%Z) 1) 1 = nth k l 0%Z.
Proof. exact next_prev. Qed.
Theorem C20_prev_next : forall l k, sinc l -> (S k < length l)%nat ->
  prev_trading_date l (next_trading_date l (nth k l 0%Z) 1) 1 = nth k l 0%Z.
Proof. exact prev_next. Qed.
(* saturation at the calendar ends, stated explicitly *)
Theorem C20_prev_saturates : forall l d, cnt_ltn d l = O -> prev_trading_date l d 1 = nthz 0 l.
Proof. exact prev_saturates. Qed.
Theorem C20_next_saturates : forall l d, cnt_len d l = length l -> next_trading_date l d 1 = lastz l.
Proof. exact next_saturates. Qed.
(* get_trading_dates is the sorted calendar slice between its bounds; day counts equal slice lengths *)
Theorem C20_slice : forall l a b, sinc l -> trading_dates l a b = filter (fun x => (a <=? x)%Z && (x <=? b)%Z) l.
Proof. exact trading_dates_is_slice. Qed.
Theorem C20_count : forall l a b, sinc l -> lenz (trading_dates l a b) = Z.max 0 (count_trading_dates l a b).
Proof. exact count_is_length. Qed.
(* the history window: the last N bars dated <= the end date, nothing after it, in order *)
Theorem C20_window : forall dts bars dt n, (0 < n)%Z -> map h_dt bars = dts -> sinc dts ->
  let w := slicez (fst (window_bounds dts dt n)) (snd (window_bounds dts dt n)) bars in
  w = skipn (cnt_len dt dts - Z.to_nat n) (firstn (cnt_len dt dts) bars) /\
  (forall b, In b w -> (h_dt b <= dt)%Z) /\ lenz w = Z.min n (cnt_le dt dts).
Proof. exact window_is_last_n. Qed.
(* the end date: previous trading day before the open and in the auction, the current bar inside handle_bar (daily) *)
Theorem C20_end_before_open : forall sys_minute inc cal prev ph, ph = HBeforeTrading \/ ph = HOpenAuction ->
  history_end sys_minute inc ph cal prev = (prev, false).
Proof. exact history_end_before_open. Qed.
Theorem C20_end_daily_bar : forall inc cal prev ph, ph = HOnBar \/ ph = HScheduled \/ ph = HAfterTrading ->
  history_end false inc ph cal prev = (cal, false).
Proof. exact history_end_daily_bar. Qed.
Theorem C20_end_minute_day_bars : forall cal prev ph, ph = HOnBar \/ ph = HScheduled -> history_end true false ph cal prev = (prev, false).
Proof. exact history_end_minute_day_bars. Qed.
(* adjustment: prices scale by F(bar date) / F(base), volumes inversely; bars at the base factor are unadjusted *)
Theorem C20_adjust : forall bars table adj orig, adj <> AdjNone ->
  (forall d, ~ factor_for table d == 0) -> ~ adj_base table adj orig == 0 ->
  Forall2 (adj_rel table (adj_base table adj orig)) bars (adjust_window bars table adj false orig).
Proof. exact adjust_scales. Qed.
Theorem C20_most_recent_unadjusted : forall table base b b', ~ base == 0 -> adj_rel table base b b' ->
  factor_for table (h_dt b) == base -> h_price b' == h_price b /\ h_volume b' == h_volume b.
Proof. exact adjust_identity_at_base. Qed.
Theorem C20_adjust_none : forall bars table orig k, adjust_window bars table AdjNone k orig = bars.
Proof. exact adjust_none_is_identity. Qed.

Example C20_example :
  let cal := [20200102; 20200103; 20200106; 20200107; 20200110]%Z in
  prev_trading_date cal 20200106 1 = 20200103%Z /\ next_trading_date cal 20200104 1 = 20200106%Z /\
  trading_dates cal 20200103 20200108 = [20200103; 20200106; 20200107]%Z /\ count_trading_dates cal 20200103 20200108 = 3%Z /\
  prev_trading_date cal 20200102 1 = 20200102%Z /\ next_trading_date cal 20200110 3 = 20200110%Z.
Proof. repeat split; vm_compute; reflexivity. Qed.

Print Assumptions C20_next_prev.
Print Assumptions C20_prev_next.
Print Assumptions C20_prev_saturates.
Print Assumptions C20_next_saturates.
Print Assumptions C20_slice.
Print Assumptions C20_count.
Print Assumptions C20_window.
Print Assumptions C20_end_before_open.
Print Assumptions C20_end_daily_bar.
Print Assumptions C20_end_minute_day_bars.
Print Assumptions C20_adjust.
Print Assumptions C20_most_recent_unadjusted.
Print Assumptions C20_adjust_none.
