(* C06  Matching honours price limits, liquidity limits and lot sizes. *)
From RQ Require Import Model.Num Model.Position Model.Matcher Proofs.NumFacts Proofs.MatcherFacts.
Open Scope Q_scope.

Section C06.
  Variables (g : mcfg) (i : mins) (bar auction_bar pb : mbar) (auction : bool) (turnover : Q) (o : morder)
            (fee_of : Q -> Q -> Q -> Q) (occupation : Q -> Q) (avail : Q) (ct_of : Q -> Q).
  Notation M := (match_one g i bar auction_bar pb auction turnover o fee_of occupation avail ct_of).
  Notation vol := (if auction then b_volume auction_bar else b_volume bar).
  Notation unfilled := (qsub (mo_qty o) (mo_filled o)).

  (* with price_limit on, no buy fills at or above limit-up and no sell at or below limit-down *)
  Theorem C06_limit_up_down : forall price qty ct rc deal, M = Filled price qty ct rc ->
    valid_price (deal_price g i bar auction_bar auction) = Some deal -> m_price_limit g = true ->
    match mo_side o with Buy => ge_opt deal (b_limit_up pb) = false | Sell => le_opt deal (b_limit_down pb) = false end.
  Proof. exact (no_fill_at_limit g i bar auction_bar pb auction turnover o fee_of occupation avail ct_of). Qed.
  (* with inactive_limit on, nothing fills in a bar with zero volume *)
  Theorem C06_inactive : forall price qty ct rc, M = Filled price qty ct rc -> m_inactive_limit g = true -> forall v, vol = Some v -> ~ v == 0.
  Proof. exact (no_fill_without_volume g i bar auction_bar pb auction turnover o fee_of occupation avail ct_of). Qed.
  (* every fill is positive, at most the remainder, whole lots or the entire remainder, and - with volume_limit on - keeps the
     bar's accumulated turnover within round(volume * percent) *)
  Theorem C06_fill_shape_and_cap : forall price qty ct rc, M = Filled price qty ct rc -> 0 < unfilled -> 0 < i_lot i ->
    0 < qty /\ qty <= unfilled /\ (qty == unfilled \/ exists k : Z, qty == zq k * i_lot i) /\
    (m_volume_limit g = true -> forall v, vol = Some v -> turnover + qty <= zq (qround_even (qmul v (m_volume_percent g)))).
  Proof. exact (fill_quantity_shape g i bar auction_bar pb auction turnover o fee_of occupation avail ct_of). Qed.
  (* a market order never stays partially open; a limit order is never cancelled by the matcher after a fill *)
  Theorem C06_market_no_rest : forall price qty ct rc, M = Filled price qty ct rc -> mo_limit o = false -> rc = negb (qeq_b (qsub unfilled qty) 0).
  Proof. exact (market_rest_cancelled g i bar auction_bar pb auction turnover o fee_of occupation avail ct_of). Qed.
  Theorem C06_limit_rests : forall price qty ct rc, M = Filled price qty ct rc -> mo_limit o = true -> rc = false.
  Proof. exact (limit_never_cancelled g i bar auction_bar pb auction turnover o fee_of occupation avail ct_of). Qed.
End C06.

(* the cap is a whole number of lots inside round(volume * percent) - turnover *)
Theorem C06_cap_bound : forall g i turnover v, 0 < i_lot i ->
  volume_cap g i v turnover <= zq (qround_even (qmul v (m_volume_percent g))) - turnover.
Proof. intros g i turnover v. exact (volume_cap_bound g i turnover v). Qed.

Example C06_example :
  let g := {| m_matching := CurrentBarClose; m_price_limit := true; m_inactive_limit := true; m_volume_limit := true;
              m_volume_percent := 1 # 4; m_slip := PriceRatio; m_slip_rate := 0 |} in
  let i := {| i_lot := 100; i_mult := 1; i_tick := 1 # 100; i_listed_today := false |} in
  volume_cap g i 4250 300 = 700 /\ volume_cap g i 4250 1000 = 0.
Proof. split; vm_compute; reflexivity. Qed.

Print Assumptions C06_limit_up_down.
Print Assumptions C06_inactive.
Print Assumptions C06_fill_shape_and_cap.
Print Assumptions C06_market_no_rest.
Print Assumptions C06_limit_rests.
Print Assumptions C06_cap_bound.
