(* C06  Matching honours price limits, liquidity limits and lot sizes. *)
From RQ Require Import Model.Num Model.Position Model.Matcher Model.MatcherRun Proofs.NumFacts Proofs.MatcherFacts Proofs.MatcherRunFacts Gen.MatcherCap.
Open Scope Q_scope.

Section C06.
  Variables (g : mcfg) (i : mins) (bar auction_bar pb : mbar) (auction : bool) (turnover : Q) (o : morder)
            (fee_of : Q -> Q -> Q -> Q) (occupation : Q -> Q) (avail : Q) (ct_of : Q -> Q).
  Notation M := (match_one g i bar auction_bar pb auction turnover o fee_of occupation avail ct_of).
  Notation vol := (if auction then b_volume auction_bar else b_volume bar).
  Notation unfilled := (qsub (mo_qty o) (mo_filled o)).

  (* with price_limit on, no buy fills at or above limit-up and no sell at or below limit-down *)
  Theorem C06_limit_up_down : forall price qty ct rc deal, M = Filled price qty ct rc ->
    valid_price (deal_price g i bar auction_bar auction) = Some deal -> m_price_limit g = true ->
    match mo_side o with Buy => ge_opt deal (b_limit_up pb) = false | Sell => le_opt deal (b_limit_down pb) = false end.
  Proof. exact (no_fill_at_limit g i bar auction_bar pb auction turnover o fee_of occupation avail ct_of). Qed.
  (* with inactive_limit on, nothing fills in a bar with zero volume *)
  Theorem C06_inactive : forall price qty ct rc, M = Filled price qty ct rc -> m_inactive_limit g = true -> forall v, vol = Some v -> ~ v == 0.
  Proof. exact (no_fill_without_volume g i bar auction_bar pb auction turnover o fee_of occupation avail ct_of). Qed.
  (* every fill is positive, at most the remainder, whole lots or the entire remainder, and - with volume_limit on - keeps the
     bar's accumulated turnover within round(volume * percent) *)
  Theorem C06_fill_shape_and_cap : forall price qty ct rc, M = Filled price qty ct rc -> 0 < unfilled -> 0 < i_lot i ->
    0 < qty /\ qty <= unfilled /\ (qty == unfilled \/ exists k : Z, qty == zq k * i_lot i) /\
    (m_volume_limit g = true -> forall v, vol = Some v -> turnover + qty <= zq (qround_even (qmul v (m_volume_percent g)))).
  Proof. exact (fill_quantity_shape g i bar auction_bar pb auction turnover o fee_of occupation avail ct_of). Qed.
  (* a market order never stays partially open; a limit order is never cancelled by the matcher after a fill *)
  Theorem C06_market_no_rest : forall price qty ct rc, M = Filled price qty ct rc -> mo_limit o = false -> rc = negb (qeq_b (qsub unfilled qty) 0).
  Proof. exact (market_rest_cancelled g i bar auction_bar pb auction turnover o fee_of occupation avail ct_of). Qed.
  Theorem C06_limit_rests : forall price qty ct rc, M = Filled price qty ct rc -> mo_limit o = true -> rc = false.
  Proof. exact (limit_never_cancelled g i bar auction_bar pb auction turnover o fee_of occupation avail ct_of). Qed.
End C06.

(* the cap is a whole number of lots inside round(volume * percent) - turnover *)
Theorem C06_cap_bound : forall g i turnover v, 0 < i_lot i ->
  volume_cap g i v turnover <= zq (qround_even (qmul v (m_volume_percent g))) - turnover.
Proof. intros g i turnover v. exact (volume_cap_bound g i turnover v). Qed.

(* the matcher as a state machine (Model/MatcherRun.v): for EVERY sequence of matcher calls and updates, the quantity traded in an
   instrument since the last update (added up from the trades, as a listener would) equals the matcher's booked turnover and never
   exceeds round(volume * fraction) - whatever the orders, their interleaving across instruments and accounts, and the outcomes of
   the other calls.  `governed` only asks that the calls on k see the same bar volume and fraction, an open remainder and a lot size. *)
Theorem C06_total_per_bar : forall k v pct ops, Forall (governed k v pct) ops ->
  fills_of k (ms_fills (mrun ops)) == tget (ms_turnover (mrun ops)) k /\
  fills_of k (ms_fills (mrun ops)) <= Qmax 0 (zq (qround_even (qmul v pct))).
Proof. exact total_fills_per_bar. Qed.

(* ... and, as the property words it, never exceeds that fraction ROUNDED DOWN TO WHOLE LOTS - also after an odd-lot liquidation has made
   the bar's turnover odd (D34: the code used to round only what was left, so 150 odd shares + 600 could reach 750 of an allowance of 700) *)
Theorem C06_total_per_bar_whole_lots : forall k v pct lot ops, Forall (governed_lots k v pct lot) ops ->
  fills_of k (ms_fills (mrun ops)) <= Qmax 0 (qmul (zq (Qfloor (qdiv (zq (qround_even (qmul v pct))) lot))) lot).
Proof. exact total_fills_per_bar_lots. Qed.
Example C06_odd_turnover_example :
  let g := {| m_matching := CurrentBarClose; m_price_limit := false; m_inactive_limit := false; m_volume_limit := true;
              m_volume_percent := 1 # 4; m_slip := PriceRatio; m_slip_rate := 0 |} in
  let i := {| i_lot := 100; i_mult := 1; i_tick := 1 # 100; i_listed_today := false |} in
  lot_cap g i 3000 = 700 /\ volume_cap g i 3000 150 = 500 /\ volume_cap g i 3000 0 = 700.
Proof. repeat split; vm_compute; reflexivity. Qed.

(* non-vacuity of the whole-lot statement: an odd-lot sale of 150 shares (a full liquidation), then an oversized market buy against a bar of
   3000 shares at 25 % (allowance 750, in whole lots 700): 150 + 500 are traded - inside 700, where the old arithmetic reached 750 *)
Example C06_whole_lots_example :
  let g := {| m_matching := CurrentBarClose; m_price_limit := false; m_inactive_limit := false; m_volume_limit := true;
              m_volume_percent := 1 # 4; m_slip := PriceRatio; m_slip_rate := 0 |} in
  let i := {| i_lot := 100; i_mult := 1; i_tick := 1 # 100; i_listed_today := false |} in
  let b := {| b_open := Some 10; b_close := Some 10; b_volume := Some 3000; b_turnover := Some 30000; b_limit_up := Some 11; b_limit_down := Some 9 |} in
  let a sd q := {| a_g := g; a_i := i; a_bar := b; a_abar := b; a_pb := b; a_auction := false;
                   a_o := {| mo_side := sd; mo_effect := Open; mo_limit := false; mo_price := 0; mo_qty := q; mo_filled := 0; mo_reserve := 0 |};
                   a_fee := fun _ _ _ => 0; a_occ := fun _ => 0; a_avail := 0; a_ct := fun _ => 0 |} in
  let ops := [MMatch 3 (a Sell 150); MMatch 3 (a Buy 10000000)] in
  Forall (governed_lots 3%nat 3000 (1 # 4) 100) ops /\ fills_of 3 (ms_fills (mrun ops)) == 650 /\ tget (ms_turnover (mrun ops)) 3 = 650.
Proof. cbv zeta. split; [|split; vm_compute; reflexivity].
  repeat constructor; intros _; (repeat split; try reflexivity); vm_compute; reflexivity. Qed.

(* non-vacuity: three market orders of 500 / 400 / 300 shares against a bar of 4250 shares at 25 % (cap 1000 after lot rounding):
   500 + 400 + 100 are traded, the booked turnover is 1000, and an update clears it *)
Example C06_total_example :
  let g := {| m_matching := CurrentBarClose; m_price_limit := true; m_inactive_limit := true; m_volume_limit := true;
              m_volume_percent := 1 # 4; m_slip := PriceRatio; m_slip_rate := 0 |} in
  let i := {| i_lot := 100; i_mult := 1; i_tick := 1 # 100; i_listed_today := false |} in
  let b := {| b_open := Some 10; b_close := Some 10; b_volume := Some 4250; b_turnover := Some 42500; b_limit_up := Some 11; b_limit_down := Some 9 |} in
  let a q := {| a_g := g; a_i := i; a_bar := b; a_abar := b; a_pb := b; a_auction := false;
                a_o := {| mo_side := Buy; mo_effect := Open; mo_limit := false; mo_price := 0; mo_qty := q; mo_filled := 0; mo_reserve := 0 |};
                a_fee := fun _ _ _ => 0; a_occ := fun _ => 0; a_avail := 0; a_ct := fun _ => 0 |} in
  let ops := [MMatch 3 (a 500); MMatch 3 (a 400); MMatch 7 (a 200); MMatch 3 (a 300)] in
  Forall (governed 3%nat 4250 (1 # 4)) ops /\ tget (ms_turnover (mrun ops)) 3 = 1000 /\ fills_of 3 (ms_fills (mrun ops)) == 1000 /\
  tget (ms_turnover (mrun (ops ++ [MUpdate]))) 3 = 0.
Proof. cbv zeta. split; [|split; [|split]]; try (vm_compute; reflexivity).
  repeat constructor; intros _; (repeat split; try reflexivity); vm_compute; reflexivity. Qed.

Example C06_example :
  let g := {| m_matching := CurrentBarClose; m_price_limit := true; m_inactive_limit := true; m_volume_limit := true;
              m_volume_percent := 1 # 4; m_slip := PriceRatio; m_slip_rate := 0 |} in
  let i := {| i_lot := 100; i_mult := 1; i_tick := 1 # 100; i_listed_today := false |} in
  volume_cap g i 4250 300 = 700 /\ volume_cap g i 4250 1000 = 0.
Proof. split; vm_compute; reflexivity. Qed.

(* Tie A: the liquidity-cap block of DefaultBarMatcher.match, regenerated from the source on every run (Gen/MatcherCap.v), is the model's
   fill_amount / volume_cap - for a known volume and for a missing (NaN) one - and the turnover is booked right after the fill, cleared by update *)
Theorem C06_code_cap_is_model : forall g i v turnover unfilled is_market,
  gen_fill (m_volume_limit g) true v (m_volume_percent g) turnover (i_lot i) unfilled is_market = model_fill g i (Some v) turnover unfilled is_market /\
  gen_fill (m_volume_limit g) false v (m_volume_percent g) turnover (i_lot i) unfilled is_market = model_fill g i None turnover unfilled is_market.
Proof. intros. split; [apply gen_fill_eq|apply gen_fill_nan_eq]. Qed.
Theorem C06_code_turnover_bookkeeping : turnover_booked_right_after_the_fill = true /\ update_clears_turnover = true.
Proof. exact turnover_bookkeeping_ok. Qed.

Print Assumptions C06_limit_up_down.
Print Assumptions C06_inactive.
Print Assumptions C06_fill_shape_and_cap.
Print Assumptions C06_market_no_rest.
Print Assumptions C06_limit_rests.
Print Assumptions C06_cap_bound.
Print Assumptions C06_total_per_bar.
Print Assumptions C06_total_per_bar_whole_lots.
Print Assumptions C06_code_cap_is_model.
Print Assumptions C06_code_turnover_bookkeeping.
