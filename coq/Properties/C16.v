(* C16  Pre-trade validation rejects untradable orders without side effects. *)
From RQ Require Import Model.Num Model.Position Model.Closable Model.Validators Model.Phases Proofs.NumFacts Proofs.ValidatorsFacts Gen.ApiPhases.
From Coq Require Import List String.
Open Scope Q_scope.

(* an order is submitted iff every enabled validator passes it *)
Theorem C16_verdict : forall g x o,
  validate g x o = None <->
  (v_position g = true -> position_check x o = None) /\ (v_price g = true -> price_check x o = None) /\
  (v_trading g = true -> trading_check x o = None) /\ (v_cash g = true -> cash_check x o = None) /\
  (v_self g = true -> self_trade_check x o = None).
Proof. exact validate_none_iff. Qed.
Theorem C16_first_veto_wins : forall g x o r, v_position g = true -> position_check x o = Some r -> validate g x o = Some r.
Proof. exact first_veto. Qed.
Theorem C16_price_veto_next : forall g x o r, (v_position g = true -> position_check x o = None) -> v_price g = true -> price_check x o = Some r ->
  validate g x o = Some r.
Proof. exact price_veto_after_position. Qed.
Theorem C16_not_listed : forall x o, vx_is_index x = false -> vx_listed x = false -> trading_check x o = Some VNotListing.
Proof. exact not_listed_rejected. Qed.
Theorem C16_suspended : forall x o, vx_listed x = true -> vx_is_cs x = true -> vx_suspended x = true -> trading_check x o = Some VSuspended.
Proof. exact suspended_rejected. Qed.
Theorem C16_limit_band : forall x o lu ld, vo_limit o = true -> vx_limit_up x = Some lu -> vx_limit_down x = Some ld ->
  (price_check x o = None <-> ld <= vo_price o /\ vo_price o <= lu).
Proof. exact limit_outside_band_rejected. Qed.
Theorem C16_cash : forall x o, vo_effect o = Open -> (cash_check x o = None <-> vx_cost x <= vx_cash x).
Proof. exact uncovered_open_rejected. Qed.
Theorem C16_closable : forall x o, vo_effect o = Close ->
  (position_check x o = None <-> vo_qty o <= closable (fst (vx_closable x)) (snd (vx_closable x))).
Proof. exact oversized_close_rejected. Qed.
(* a call in a phase where ordering is forbidden is refused (regenerated phase table) *)
Theorem C16_forbidden_phase : forallb (fun name => order_api_guarded api_phases name) order_apis = true.
Proof. exact order_apis_guarded. Qed.

Print Assumptions C16_verdict.
Print Assumptions C16_first_veto_wins.
Print Assumptions C16_price_veto_next.
Print Assumptions C16_not_listed.
Print Assumptions C16_suspended.
Print Assumptions C16_limit_band.
Print Assumptions C16_cash.
Print Assumptions C16_closable.
Print Assumptions C16_forbidden_phase.
