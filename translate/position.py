# -*- coding: utf-8 -*-
"""Position.apply_trade / StockPosition.apply_trade / FuturePosition.apply_trade / calc_close_today_amount  ->  coq/Gen/PosArith.v
(Tie A for C01 C02 C10)"""
import ast
import os

from .pyq import Tr, Unsupported, find_func

BASE = 'rqalpha/portfolio/position.py'
MODEL = 'rqalpha/mod/rqalpha_mod_sys_accounts/position_model.py'
STATE = {'self._transaction_cost': 'tcost', 'self._quantity': 'qty', 'self._avg_price': 'avg', 'self._old_quantity': 'old', 'self._trade_cost': 'trade_cost',
         'self._non_closable': 'nc'}
FIELD = {'tcost': 'p_tcost', 'qty': 'p_qty', 'avg': 'p_avg', 'old': 'p_old', 'trade_cost': 'p_trade_cost', 'nc': 'p_non_closable'}
READS = {'self._transaction_cost': '(p_tcost p)', 'self._quantity': '(p_qty p)', 'self._avg_price': '(p_avg p)', 'self._old_quantity': '(p_old p)',
         'self._trade_cost': '(p_trade_cost p)', 'self._non_closable': '(p_non_closable p)',
         'trade.transaction_cost': 'fee', 'trade.last_price': 'price', 'trade.last_quantity': 'qty',
         'cmp:trade.position_effect == POSITION_EFFECT.OPEN': 'is_open', 'cmp:trade.position_effect == POSITION_EFFECT.CLOSE': 'is_close',
         'cmp:trade.position_effect == POSITION_EFFECT.CLOSE_TODAY': 'is_close_today'}


def record(env, base='p'):
    base = env.get('$__base', base)

    def f(k):
        return env.get('$' + k, '(%s %s)' % (FIELD[k], base))
    return ('{| p_qty := %s; p_old := %s; p_lold := p_lold %s; p_avg := %s; p_trade_cost := %s; p_tcost := %s; p_non_closable := %s; p_last := p_last %s; p_recv := p_recv %s |}'
            % (f('qty'), f('old'), base, f('avg'), f('trade_cost'), f('tcost'), f('nc'), base, base))


def generate(repo):
    t_base = ast.parse(open(os.path.join(repo, BASE)).read())
    t_model = ast.parse(open(os.path.join(repo, MODEL)).read())
    out = ['(* generated from %s and %s -- do not edit *)' % (BASE, MODEL), 'From RQ Require Import Model.Num Model.Position.', 'Open Scope Q_scope.', '']

    def result(env, r):
        return 'None' if r == '$raise' else '(Some (%s, %s))' % (record(env), r)
    # Position.apply_trade
    f = find_func(t_base, 'Position', 'apply_trade')
    tr = Tr(names=dict(READS), state=STATE)
    out.append('Definition gen_base_apply_trade (p : pos) (price qty fee : Q) (is_open is_close : bool) : option (pos * Q) :=\n  %s.' % tr.block(f.body, {}, result))
    # StockPosition.apply_trade: the base effect, then the T+1 bookkeeping
    f = find_func(t_model, 'StockPosition', 'apply_trade')
    names = dict(READS)
    names['cmp:self._market_tplus >= 1'] = 'tplus'
    tr = Tr(names=names, state=STATE, calls={'super(StockPosition, self).apply_trade': lambda a, e, env: 'BASE_DELTA'})

    def stock_result(env, r):
        if r != 'BASE_DELTA':
            raise Unsupported('StockPosition.apply_trade must return the base delta, returns %s' % r)
        nc = env.get('$nc')
        if set(k for k in env if k.startswith('$')) - {'$nc'}:
            raise Unsupported('StockPosition.apply_trade writes more than _non_closable: %s' % sorted(env))
        return nc if nc is not None else '(p_non_closable p)'
    out.append('(* _non_closable after StockPosition.apply_trade; every other field and the cash delta are the base method\'s *)')
    out.append('Definition gen_stock_non_closable (p : pos) (qty : Q) (is_open tplus : bool) : Q :=\n  %s.' % tr.block(f.body, {}, stock_result))
    # FuturePosition.apply_trade
    f = find_func(t_model, 'FuturePosition', 'apply_trade')
    names = dict(READS)
    names.update({'self.contract_multiplier': 'mult', 'self._direction_factor': 'dirf'})

    def call_super(env):
        # the state after Position.apply_trade (generated above, proved equal to the model's base_apply_trade below)
        for k in FIELD:
            env['$' + k] = '(%s (fst (base_apply_trade p t)))' % FIELD[k]
        env['$__base'] = '(fst (base_apply_trade p t))'
    tr = Tr(names=names, state=STATE, calls={'stmt:super(FuturePosition, self).apply_trade(trade)': call_super})
    out.append('Definition gen_future_apply_trade (p : pos) (t : trade) (price qty fee mult dirf : Q) (is_open is_close_today : bool) : option (pos * Q) :=\n  %s.'
               % tr.block(f.body, {}, result))
    # FuturePosition.calc_close_today_amount
    f = find_func(t_model, 'FuturePosition', 'calc_close_today_amount')
    tr = Tr(names={'cmp:position_effect == POSITION_EFFECT.CLOSE_TODAY': 'is_close_today', 'trade_amount': 'amount', 'self.today_quantity': '(qsub (p_qty p) (p_old p))',
                   'self._old_quantity': '(p_old p)'})
    out.append('Definition gen_close_today_amount (p : pos) (amount : Q) (is_close_today : bool) : Q :=\n  %s.' % tr.block(f.body, {}, lambda env, r: r))
    out.append('''
Definition eff_open (e : effect) : bool := match e with Open => true | _ => false end.
Definition eff_close (e : effect) : bool := match e with Close => true | _ => false end.
Definition eff_close_today (e : effect) : bool := match e with CloseToday => true | _ => false end.
Lemma gen_base_apply_trade_eq : forall p t, t_effect t <> CloseToday ->
  gen_base_apply_trade p (t_price t) (t_qty t) (t_fee t) (eff_open (t_effect t)) (eff_close (t_effect t)) = Some (base_apply_trade p t).
Proof.
  intros p t H. unfold gen_base_apply_trade, base_apply_trade. destruct (t_effect t); cbn [eff_open eff_close]; try congruence;
    try (destruct (qlt_b (p_qty p) 0)); reflexivity.
Qed.
Lemma gen_stock_non_closable_eq : forall c p t,
  gen_stock_non_closable (fst (base_apply_trade p t)) (t_qty t) (eff_open (t_effect t)) (pc_tplus c) = p_non_closable (fst (stock_apply_trade c p t)).
Proof.
  intros c p t. unfold gen_stock_non_closable, stock_apply_trade. destruct (t_effect t); cbn [eff_open andb]; try reflexivity.
  destruct (pc_tplus c); reflexivity.
Qed.
Lemma gen_future_apply_trade_eq : forall c p t,
  gen_future_apply_trade p t (t_price t) (t_qty t) (t_fee t) (pc_mult c) (dirf c) (eff_open (t_effect t)) (eff_close_today (t_effect t)) = Some (future_apply_trade c p t).
Proof.
  intros c p t. unfold gen_future_apply_trade, future_apply_trade. destruct (t_effect t) eqn:E; cbn [eff_open eff_close_today];
    unfold base_apply_trade; rewrite ?E; cbn [fst snd p_qty p_old p_lold p_avg p_trade_cost p_tcost p_non_closable p_last p_recv]; reflexivity.
Qed.
Lemma gen_close_today_amount_eq : forall c p amount e, pc_kind c = FuturePos ->
  gen_close_today_amount p amount (eff_close_today e) = calc_close_today_amount c p amount e.
Proof.
  intros c p amount e H. unfold gen_close_today_amount, calc_close_today_amount. rewrite H. destruct e; cbn [eff_close_today]; reflexivity.
Qed.''')
    return '\n'.join(out) + '\n', ['gen_base_apply_trade_eq', 'gen_stock_non_closable_eq', 'gen_future_apply_trade_eq', 'gen_close_today_amount_eq']
