# Gen module name -> translator module
MODULES = {
    'Costs': 'costs',
    'Calendar': 'calendar',
    'ApiPhases': 'api_phases',
    'Globals': 'globals',
    'PersistKeys': 'persist_keys',
    'Slippage': 'slippage',
    'PosArith': 'position',
    'ValidatorChain': 'validator_chain',
    'Reserve': 'reserve',
    'MatcherCap': 'matcher',
    'BrokerProg': 'broker',
    'Listeners': 'listeners',
}
