# Gen module name -> translator module
MODULES = {
    'Costs': 'costs',
}
