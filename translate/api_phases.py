# -*- coding: utf-8 -*-
"""The @ExecutionContext.enforce_phase(...) table of every exported API  ->  coq/Gen/ApiPhases.v  (Tie A for C08 C16 C17)
and Executor.EVENT_SPLIT_MAP."""
import ast
import os

from .pyq import Unsupported

FILES = ['rqalpha/apis/api_base.py', 'rqalpha/apis/api_abstract.py', 'rqalpha/mod/rqalpha_mod_sys_accounts/api/api_stock.py',
         'rqalpha/mod/rqalpha_mod_sys_accounts/api/api_future.py']
SCHED = 'rqalpha/mod/rqalpha_mod_sys_scheduler/scheduler.py'
EXECUTOR = 'rqalpha/core/executor.py'
STRATEGY = 'rqalpha/core/strategy.py'
PH = {'ON_INIT': 'XOnInit', 'BEFORE_TRADING': 'XBeforeTrading', 'OPEN_AUCTION': 'XOpenAuction', 'ON_BAR': 'XOnBar', 'ON_TICK': 'XOnTick',
      'AFTER_TRADING': 'XAfterTrading', 'SCHEDULED': 'XScheduled', 'GLOBAL': 'XGlobal', 'FINALIZED': 'XFinalized'}


def deco_info(fn):
    exported = False
    phases = None
    for d in fn.decorator_list:
        txt = ast.unparse(d)
        if txt == 'export_as_api' or txt.startswith('export_as_api('):
            exported = True
        if isinstance(d, ast.Call) and ast.unparse(d.func) == 'ExecutionContext.enforce_phase':
            phases = []
            for a in d.args:
                t = ast.unparse(a)
                if not t.startswith('EXECUTION_PHASE.') or t.split('.')[1] not in PH:
                    raise Unsupported('enforce_phase argument %s on %s' % (t, fn.name))
                phases.append(PH[t.split('.')[1]])
    return exported, phases


def find_method(tree, cls, name):
    for c in tree.body:
        if isinstance(c, ast.ClassDef) and c.name == cls:
            for n in c.body:
                if isinstance(n, ast.FunctionDef) and n.name == name:
                    return n
    raise Unsupported('anchor missing: %s.%s' % (cls, name))


def generate(repo):
    rows = []
    for f in FILES:
        tree = ast.parse(open(os.path.join(repo, f)).read())
        for n in tree.body:
            if isinstance(n, ast.FunctionDef):
                exported, phases = deco_info(n)
                if exported:
                    rows.append((n.name, phases))
    tree = ast.parse(open(os.path.join(repo, SCHED)).read())
    for n in tree.body:
        if isinstance(n, ast.ClassDef) and n.name == 'Scheduler':
            for m in n.body:
                if isinstance(m, ast.FunctionDef) and m.name in ('run_daily', 'run_weekly', 'run_monthly'):
                    _, phases = deco_info(m)
                    rows.append(('scheduler.' + m.name, phases))
    # scheduled functions run under SCHEDULED (bar rules) / BEFORE_TRADING (before-trading rules)
    sched_phase = {}
    for n in ast.walk(tree):
        if isinstance(n, ast.FunctionDef) and n.name in ('next_bar_', 'before_trading_'):
            ph = [ast.unparse(w.items[0].context_expr) for w in ast.walk(n) if isinstance(w, ast.With) and 'ExecutionContext(' in ast.unparse(w.items[0].context_expr)]
            if len(ph) != 1 or not ph[0].startswith('ExecutionContext(EXECUTION_PHASE.'):
                raise Unsupported('scheduler %s: execution context %s' % (n.name, ph))
            sched_phase[n.name] = PH[ph[0][len('ExecutionContext(EXECUTION_PHASE.'):-1]]
    if set(sched_phase) != {'next_bar_', 'before_trading_'}:
        raise Unsupported('scheduler phases not found')
    # Executor.EVENT_SPLIT_MAP
    tree = ast.parse(open(os.path.join(repo, EXECUTOR)).read())
    split = None
    for n in ast.walk(tree):
        if isinstance(n, ast.Assign) and ast.unparse(n.targets[0]) == 'EVENT_SPLIT_MAP':
            split = []
            for k, v in zip(n.value.keys, n.value.values):
                split.append((ast.unparse(k).replace('EVENT.', ''), [ast.unparse(x).replace('EVENT.', '') for x in v.elts]))
    if split is None:
        raise Unsupported('EVENT_SPLIT_MAP not found')
    # Strategy.wrap_user_event_handler: in which phase a handler registered with subscribe_event runs
    tree = ast.parse(open(os.path.join(repo, STRATEGY)).read())
    table, fallback, seen = [], None, False
    for c in tree.body:
        if isinstance(c, ast.ClassDef) and c.name == 'Strategy':
            for n in c.body:
                if isinstance(n, ast.Assign) and ast.unparse(n.targets[0]) == '_EVENT_PHASE':
                    if not isinstance(n.value, ast.Dict):
                        raise Unsupported('_EVENT_PHASE is not a dict literal')
                    for k, v in zip(n.value.keys, n.value.values):
                        kt, vt = ast.unparse(k), ast.unparse(v)
                        if not kt.startswith('EVENT.') or not vt.startswith('EXECUTION_PHASE.') or vt.split('.')[1] not in PH:
                            raise Unsupported('_EVENT_PHASE entry %s: %s' % (kt, vt))
                        table.append((kt[len('EVENT.'):], PH[vt.split('.')[1]]))
                if isinstance(n, ast.FunctionDef) and n.name == 'wrap_user_event_handler':
                    inner = [x for x in n.body if isinstance(x, ast.FunctionDef)]
                    if len(inner) != 1:
                        raise Unsupported('wrap_user_event_handler: shape')
                    body = inner[0].body
                    withs = [x for x in ast.walk(inner[0]) if isinstance(x, ast.With) and 'ExecutionContext(' in ast.unparse(x.items[0].context_expr)]
                    if len(withs) != 1:
                        raise Unsupported('wrap_user_event_handler: execution context')
                    ctx = ast.unparse(withs[0].items[0].context_expr)
                    pre = [ast.unparse(x) for x in body if not isinstance(x, ast.With)]
                    if ctx == 'ExecutionContext(EXECUTION_PHASE.GLOBAL)' and not pre:
                        table, fallback = [], False          # every handler forced into GLOBAL
                    elif ctx == 'ExecutionContext(phase)' and pre == [
                            'phase = self._EVENT_PHASE.get(event.event_type)',
                            'if phase is None:\n    for event_type in reversed(Environment.get_instance().event_bus.publishing()):\n'
                            '        phase = self._EVENT_PHASE.get(event_type)\n        if phase is not None:\n            break',
                            'if phase is None:\n    phase = ExecutionContext.phase()']:
                        # the phase of the innermost day-phase event being published, else the phase on the stack
                        fallback = True
                        bus = ast.parse(open(os.path.join(repo, 'rqalpha/core/events.py')).read())
                        pub = find_method(bus, 'EventBus', 'publish_event')
                        shape = [ast.unparse(x).split('\n')[0] for x in pub.body]
                        if shape != ['self._publishing.append(event.event_type)', 'try:'] or not isinstance(pub.body[1], ast.Try) or \
                                [ast.unparse(x) for x in pub.body[1].finalbody] != ['self._publishing.pop()']:
                            raise Unsupported('EventBus.publish_event does not keep the stack of events being published: %s' % shape)
                    else:
                        raise Unsupported('wrap_user_event_handler: %s / %s' % (ctx, pre))
                    seen = True
    if not seen or fallback is None:
        raise Unsupported('wrap_user_event_handler not found')
    out = ['(* generated from the enforce_phase decorators of %s, %s and %s -- do not edit *)' % (', '.join(FILES), SCHED, EXECUTOR),
           'From Coq Require Import List String Bool.', 'From RQ Require Import Model.Phases.', 'Import ListNotations.', 'Open Scope string_scope.', '']
    out.append('Definition api_phases : list (string * option (list xphase)) := [')
    out.append(';\n'.join('  ("%s", %s)' % (name, 'None' if ph is None else 'Some [%s]' % '; '.join(ph)) for name, ph in sorted(rows)))
    out.append('].')
    out.append('Definition sched_bar_phase : xphase := %s.\nDefinition sched_before_trading_phase : xphase := %s.' % (sched_phase['next_bar_'], sched_phase['before_trading_']))
    out.append('Definition event_split : list (string * list string) := [')
    out.append(';\n'.join('  ("%s", [%s])' % (k, '; '.join('"%s"' % x for x in v)) for k, v in split))
    out.append('].')
    out.append('Definition handler_phase_table : list (string * xphase) := [%s].' % '; '.join('("%s", %s)' % kv for kv in table))
    out.append('Definition handler_fallback_enclosing : bool := %s.' % ('true' if fallback else 'false'))
    # the finite obligations, re-proved against the regenerated table on every run
    out.append('''
Lemma order_apis_guarded : forallb (fun name => order_api_guarded api_phases name) order_apis = true.
Proof. vm_compute. reflexivity. Qed.
Lemma flow_apis_guarded : forallb (fun name => order_api_guarded api_phases name) flow_apis = true.
Proof. vm_compute. reflexivity. Qed.
Lemma registration_only_in_init : forallb (fun name => only_in_init api_phases name) registration_apis = true.
Proof. vm_compute. reflexivity. Qed.
Lemma sched_phases_ok : sched_bar_phase = XScheduled /\\ sched_before_trading_phase = XBeforeTrading.
Proof. split; reflexivity. Qed.
Lemma event_split_ok : event_split_brackets event_split = true.
Proof. vm_compute. reflexivity. Qed.
Lemma scheduled_may_order : forallb (fun name => api_allows api_phases name XScheduled) order_apis = true.
Proof. vm_compute. reflexivity. Qed.
Lemma handler_phases_ok : handlers_follow_split event_split handler_phase_table handler_fallback_enclosing = true.
Proof. vm_compute. reflexivity. Qed.
Lemma handlers_cannot_order_when_closed :
  forallb (fun name => forallb (fun ev => negb (api_allows api_phases name (handler_phase handler_phase_table handler_fallback_enclosing ev XGlobal)))
                               closed_phase_events) (order_apis ++ flow_apis) = true.
Proof. vm_compute. reflexivity. Qed.''')
    return '\n'.join(out) + '\n', ['order_apis_guarded', 'flow_apis_guarded', 'registration_only_in_init', 'sched_phases_ok', 'event_split_ok', 'scheduled_may_order', 'handler_phases_ok', 'handlers_cannot_order_when_closed']
