# -*- coding: utf-8 -*-
"""slippage.py -> coq/Gen/Slippage.v  (Tie A for C05)"""
import ast
import os

from .pyq import Tr, Unsupported, find_func

SRC = 'rqalpha/mod/rqalpha_mod_sys_simulation/slippage.py'


def generate(repo):
    tree = ast.parse(open(os.path.join(repo, SRC)).read())
    out = ['(* generated from %s -- do not edit *)' % SRC, 'From RQ Require Import Model.Num Model.Position Model.Matcher.', 'Open Scope Q_scope.', '',
           'Definition okb (x : option Q) : bool := match x with Some _ => true | None => false end.',
           'Definition valq (x : option Q) : Q := match x with Some v => v | None => 0 end.', '']
    common_names = {'cmp:order.position_effect == POSITION_EFFECT.EXERCISE': 'exercise', 'cmp:order.side == SIDE.BUY': 'buy', 'self.rate': 'rate',
                    'price': 'price', 'limit_up': '(valq lu)', 'limit_down': '(valq ld)'}
    common_calls = {'Environment.get_instance': lambda a, e, env: 'ENV',
                    'env.price_board.get_limit_up': lambda a, e, env: '(valq lu)', 'env.price_board.get_limit_down': lambda a, e, env: '(valq ld)',
                    'is_valid_price': lambda a, e, env: '(okb lu)' if ast.unparse(e.args[0]) == 'limit_up' else ('(okb ld)' if ast.unparse(e.args[0]) == 'limit_down' else 'UNKNOWN_VALIDITY'),
                    'Environment.get_instance().data_proxy.instrument(order.order_book_id).tick_size': lambda a, e, env: 'tick'}

    def result(env, r):
        return 'None' if r == '$raise' else '(Some %s)' % r
    # PriceRatioSlippage
    f = find_func(tree, 'PriceRatioSlippage', 'get_trade_price')
    tr = Tr(names=dict(common_names), calls=common_calls)
    body = tr.block(f.body, {}, result)
    out.append('Definition gen_price_ratio (rate price : Q) (exercise buy : bool) (lu ld : option Q) : option Q :=\n  %s.' % body)
    # TickSizeSlippage
    f = find_func(tree, 'TickSizeSlippage', 'get_trade_price')
    names = dict(common_names)
    names.pop('price')
    tr = Tr(names=names, calls=common_calls)
    body = tr.block(f.body, {'price': 'price'}, result)
    out.append('Definition gen_tick_size (rate tick price : Q) (exercise buy : bool) (lu ld : option Q) : option Q :=\n  %s.' % body)
    # LimitPriceSlippage
    f = find_func(tree, 'LimitPriceSlippage', 'get_trade_price')
    tr = Tr(names={'cmp:order.type == ORDER_TYPE.LIMIT': 'is_limit', 'order.price': 'order_price', 'price': 'price'})
    body = tr.block(f.body, {}, result)
    out.append('Definition gen_limit_price (is_limit : bool) (order_price price : Q) : option Q :=\n  %s.' % body)
    # the rate LimitPriceSlippage reports to the matcher (the cash re-check is skipped when it is 0)
    init = find_func(tree, 'LimitPriceSlippage', '__init__')
    rate = None
    for s in init.body:
        if isinstance(s, ast.Assign) and ast.unparse(s.targets[0]) == 'self.rate' and isinstance(s.value, ast.Constant):
            rate = s.value.value
    if rate is None:
        raise Unsupported('LimitPriceSlippage.__init__ does not set self.rate to a constant')
    out.append('Definition gen_limit_price_rate : Q := %s.' % ('%d' % rate if float(rate).is_integer() else 'UNSUPPORTED_RATE'))
    out.append('''
Definition side_buy (s : side) : bool := match s with Buy => true | Sell => false end.
Lemma gen_price_ratio_eq : forall g i pb o price, m_slip g = PriceRatio ->
  gen_price_ratio (m_slip_rate g) price false (side_buy (mo_side o)) (valid_price (b_limit_up pb)) (valid_price (b_limit_down pb)) = Some (slip_price g i pb o price).
Proof.
  intros g i pb o price H. unfold gen_price_ratio, slip_price, clamp. rewrite H.
  destruct (valid_price (b_limit_up pb)), (valid_price (b_limit_down pb)), (mo_side o); reflexivity.
Qed.
(* the tick-size model refuses a non-positive price; otherwise it is the model's clamp *)
Lemma gen_tick_size_eq : forall g i pb o price, m_slip g = TickSize -> qlt_b 0 (slip_price g i pb o price) = true ->
  gen_tick_size (m_slip_rate g) (i_tick i) price false (side_buy (mo_side o)) (valid_price (b_limit_up pb)) (valid_price (b_limit_down pb)) = Some (slip_price g i pb o price).
Proof.
  intros g i pb o price H Hp. unfold gen_tick_size. unfold slip_price, clamp in *. rewrite H in *.
  destruct (valid_price (b_limit_up pb)), (valid_price (b_limit_down pb)), (mo_side o); cbn [okb valq side_buy] in *;
    unfold qle_b, qlt_b in *;
    match goal with |- (if Qle_bool ?x 0 then _ else _) = _ => destruct (Qle_bool x 0); [discriminate Hp | reflexivity] end.
Qed.
Lemma gen_limit_price_eq : forall g i pb o price, m_slip g = LimitPrice ->
  gen_limit_price (mo_limit o) (mo_price o) price = Some (slip_price g i pb o price).
Proof. intros g i pb o price H. unfold gen_limit_price, slip_price. rewrite H. destruct (mo_limit o); reflexivity. Qed.
Lemma gen_limit_price_rate_zero : gen_limit_price_rate = 0.
Proof. reflexivity. Qed.''')
    return '\n'.join(out) + '\n', ['gen_price_ratio_eq', 'gen_tick_size_eq', 'gen_limit_price_eq', 'gen_limit_price_rate_zero']
