# -*- coding: utf-8 -*-
"""The keys get_state writes and set_state reads for the objects that decide later behaviour  ->  coq/Gen/PersistKeys.v  (Tie A for C14)."""
import ast
import os

from .pyq import Unsupported

CLASSES = [('rqalpha/portfolio/position.py', 'Position'), ('rqalpha/mod/rqalpha_mod_sys_accounts/position_model.py', 'StockPosition'),
           ('rqalpha/portfolio/account.py', 'Account'), ('rqalpha/portfolio/__init__.py', 'Portfolio'), ('rqalpha/core/executor.py', 'Executor'),
           ('rqalpha/mod/rqalpha_mod_sys_analyser/mod.py', 'AnalyserMod')]


def const_str(n):
    return n.value if isinstance(n, ast.Constant) and isinstance(n.value, str) else None


def written_keys(fn):
    keys = []
    for n in ast.walk(fn):
        if isinstance(n, ast.Dict):
            for k in n.keys:
                s = const_str(k) if k is not None else None
                if s is not None:
                    keys.append(s)
    return keys


def read_keys(fn):
    keys = []
    for n in ast.walk(fn):
        if isinstance(n, ast.Subscript):
            s = const_str(n.slice)
            if s is not None:
                keys.append(s)
        elif isinstance(n, ast.Call) and isinstance(n.func, ast.Attribute) and n.func.attr == 'get' and n.args:
            s = const_str(n.args[0])
            if s is not None:
                keys.append(s)
    return keys


def generate(repo):
    rows = []
    for path, cls in CLASSES:
        tree = ast.parse(open(os.path.join(repo, path)).read())
        node = next((n for n in ast.walk(tree) if isinstance(n, ast.ClassDef) and n.name == cls), None)
        if node is None:
            raise Unsupported('class %s not found in %s' % (cls, path))
        gs = next((m for m in node.body if isinstance(m, ast.FunctionDef) and m.name == 'get_state'), None)
        ss = next((m for m in node.body if isinstance(m, ast.FunctionDef) and m.name == 'set_state'), None)
        if gs is None or ss is None:
            raise Unsupported('%s lacks get_state / set_state' % cls)
        # a get_state that filters what it writes (an `if` inside a comprehension or a conditional around a key) is not a plain record
        cond = any(isinstance(n, ast.comprehension) and n.ifs for n in ast.walk(gs)) or any(isinstance(n, (ast.If, ast.IfExp)) for n in ast.walk(gs))
        rows.append((cls, sorted(set(written_keys(gs))), sorted(set(read_keys(ss))), cond))

    def strs(l):
        return '[%s]' % '; '.join('"%s"' % x for x in l)
    out = ['(* generated from the get_state / set_state methods of %s -- do not edit *)' % ', '.join(c for _, c in CLASSES),
           'From Coq Require Import List String Bool.', 'From RQ Require Import Model.Globals Model.PersistKeys.', 'Import ListNotations.', 'Open Scope string_scope.', '',
           'Definition written : list (string * list string) := [%s].' % ';\n  '.join('("%s", %s)' % (c, strs(w)) for c, w, _, _ in rows),
           'Definition read_back : list (string * list string) := [%s].' % ';\n  '.join('("%s", %s)' % (c, strs(r)) for c, _, r, _ in rows),
           'Definition filtered : list (string * bool) := [%s].' % '; '.join('("%s", %s)' % (c, 'true' if f else 'false') for c, _, _, f in rows), '''
Lemma required_keys_written : forallb (fun ck => forallb (fun k => mem_str k (keys_of (fst ck) written)) (snd ck)) required_keys = true.
Proof. vm_compute. reflexivity. Qed.
Lemma required_keys_read_back : forallb (fun ck => forallb (fun k => mem_str k (keys_of (fst ck) read_back)) (snd ck)) required_keys = true.
Proof. vm_compute. reflexivity. Qed.
Lemma nothing_filtered_out : forallb (fun c => negb (flag_of c filtered)) unfiltered_classes = true.
Proof. vm_compute. reflexivity. Qed.''']
    return '\n'.join(out) + '\n', ['required_keys_written', 'required_keys_read_back', 'nothing_filtered_out']
