# -*- coding: utf-8 -*-
"""The keys get_state writes and set_state reads for the objects that decide later behaviour  ->  coq/Gen/PersistKeys.v  (Tie A for C14)."""
import ast
import os

from .pyq import Unsupported

CLASSES = [('rqalpha/portfolio/position.py', 'Position'), ('rqalpha/mod/rqalpha_mod_sys_accounts/position_model.py', 'StockPosition'),
           ('rqalpha/portfolio/account.py', 'Account'), ('rqalpha/portfolio/__init__.py', 'Portfolio'), ('rqalpha/core/executor.py', 'Executor'),
           ('rqalpha/mod/rqalpha_mod_sys_analyser/mod.py', 'AnalyserMod')]


def const_str(n):
    return n.value if isinstance(n, ast.Constant) and isinstance(n.value, str) else None


def written_keys(fn):
    keys = []
    for n in ast.walk(fn):
        if isinstance(n, ast.Dict):
            for k in n.keys:
                s = const_str(k) if k is not None else None
                if s is not None:
                    keys.append(s)
    return keys


def read_keys(fn):
    keys = []
    for n in ast.walk(fn):
        if isinstance(n, ast.Subscript):
            s = const_str(n.slice)
            if s is not None:
                keys.append(s)
        elif isinstance(n, ast.Call) and isinstance(n.func, ast.Attribute) and n.func.attr == 'get' and n.args:
            s = const_str(n.args[0])
            if s is not None:
                keys.append(s)
    return keys


def self_attr(node):
    """the first `self.<attr>` read inside an expression (None if there is none)"""
    for n in ast.walk(node):
        if isinstance(n, ast.Attribute) and isinstance(n.value, ast.Name) and n.value.id == 'self':
            return n.attr
    return None


def written_from(fn):
    """key -> the attribute of self its value is read from (plain `'key': <expr over self.attr>` entries of dict literals)"""
    out = {}
    for n in ast.walk(fn):
        if isinstance(n, ast.Dict):
            for k, v in zip(n.keys, n.values):
                s = const_str(k) if k is not None else None
                if s is not None:
                    a = self_attr(v)
                    if a is not None and s not in out:
                        out[s] = a
    return out


def restored_to(fn):
    """key -> the attribute of self that set_state assigns from state[key] / state.get(key)"""
    out = {}
    for n in ast.walk(fn):
        if isinstance(n, ast.Assign) and len(n.targets) == 1:
            t = n.targets[0]
            if isinstance(t, ast.Attribute) and isinstance(t.value, ast.Name) and t.value.id == 'self':
                ks = read_keys(n.value)
                if ks and ks[0] not in out:
                    out[ks[0]] = t.attr
    return out


def generate(repo):
    rows = []
    prov = []
    for path, cls in CLASSES:
        tree = ast.parse(open(os.path.join(repo, path)).read())
        node = next((n for n in ast.walk(tree) if isinstance(n, ast.ClassDef) and n.name == cls), None)
        if node is None:
            raise Unsupported('class %s not found in %s' % (cls, path))
        gs = next((m for m in node.body if isinstance(m, ast.FunctionDef) and m.name == 'get_state'), None)
        ss = next((m for m in node.body if isinstance(m, ast.FunctionDef) and m.name == 'set_state'), None)
        if gs is None or ss is None:
            raise Unsupported('%s lacks get_state / set_state' % cls)
        # a get_state that filters what it writes (an `if` inside a comprehension or a conditional around a key) is not a plain record
        cond = any(isinstance(n, ast.comprehension) and n.ifs for n in ast.walk(gs)) or any(isinstance(n, (ast.If, ast.IfExp)) for n in ast.walk(gs))
        rows.append((cls, sorted(set(written_keys(gs))), sorted(set(read_keys(ss))), cond))
        prov.append((cls, sorted(written_from(gs).items()), sorted(restored_to(ss).items())))

    def strs(l):
        return '[%s]' % '; '.join('"%s"' % x for x in l)
    out = ['(* generated from the get_state / set_state methods of %s -- do not edit *)' % ', '.join(c for _, c in CLASSES),
           'From Coq Require Import List String Bool.', 'From RQ Require Import Model.Globals Model.PersistKeys.', 'Import ListNotations.', 'Open Scope string_scope.', '',
           'Definition written : list (string * list string) := [%s].' % ';\n  '.join('("%s", %s)' % (c, strs(w)) for c, w, _, _ in rows),
           'Definition read_back : list (string * list string) := [%s].' % ';\n  '.join('("%s", %s)' % (c, strs(r)) for c, _, r, _ in rows),
           'Definition filtered : list (string * bool) := [%s].' % '; '.join('("%s", %s)' % (c, 'true' if f else 'false') for c, _, _, f in rows),
           'Definition written_from : list (string * list (string * string)) := [%s].' % ';\n  '.join(
               '("%s", [%s])' % (c, '; '.join('("%s", "%s")' % kv for kv in w)) for c, w, _ in prov),
           'Definition restored_to : list (string * list (string * string)) := [%s].' % ';\n  '.join(
               '("%s", [%s])' % (c, '; '.join('("%s", "%s")' % kv for kv in r)) for c, _, r in prov), '''
Lemma fields_round_trip : forallb (fun ck => forallb (fun k => same_field (fst ck) k written_from restored_to) (snd ck)) round_trip_fields = true.
Proof. vm_compute. reflexivity. Qed.
Lemma required_keys_written : forallb (fun ck => forallb (fun k => mem_str k (keys_of (fst ck) written)) (snd ck)) required_keys = true.
Proof. vm_compute. reflexivity. Qed.
Lemma required_keys_read_back : forallb (fun ck => forallb (fun k => mem_str k (keys_of (fst ck) read_back)) (snd ck)) required_keys = true.
Proof. vm_compute. reflexivity. Qed.
Lemma nothing_filtered_out : forallb (fun c => negb (flag_of c filtered)) unfiltered_classes = true.
Proof. vm_compute. reflexivity. Qed.''']
    return '\n'.join(out) + '\n', ['required_keys_written', 'required_keys_read_back', 'nothing_filtered_out', 'fields_round_trip']
