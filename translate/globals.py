# -*- coding: utf-8 -*-
"""Inventory of process-wide state in the engine  ->  coq/Gen/Globals.v  (Tie A for C13).

Scans the engine's source for the places where state can outlive a run: mutable class-level attributes, mutable module-level
names, assignments to class attributes from functions, `global` statements, and whether the three entry points clear the
memoised functions before running.  Model/Isolation.v's process model classifies every item; the lemmas below are re-proved
against the regenerated inventory on every run."""
import ast
import glob
import os

from .pyq import Unsupported

SCOPE = ['rqalpha/__init__.py', 'rqalpha/environment.py', 'rqalpha/main.py', 'rqalpha/utils/functools.py', 'rqalpha/portfolio/*.py', 'rqalpha/core/*.py',
         'rqalpha/model/order.py', 'rqalpha/model/trade.py', 'rqalpha/data/data_proxy.py', 'rqalpha/data/bar_dict_price_board.py',
         'rqalpha/data/base_data_source/data_source.py', 'rqalpha/mod/__init__.py', 'rqalpha/mod/rqalpha_mod_sys_accounts/*.py',
         'rqalpha/mod/rqalpha_mod_sys_simulation/*.py', 'rqalpha/mod/rqalpha_mod_sys_risk/*.py', 'rqalpha/mod/rqalpha_mod_sys_transaction_cost/*.py',
         'rqalpha/mod/rqalpha_mod_sys_scheduler/*.py']
MUTABLE_CALLS = ('dict', 'list', 'set', 'defaultdict', 'OrderedDict', 'deque', 'WeakKeyDictionary', 'WeakValueDictionary', 'count', 'id_gen', 'ContextStack',
                 'local', 'Lock', 'RLock')
ENTRY = 'rqalpha/__init__.py'


def is_mutable(v):
    if isinstance(v, (ast.List, ast.Dict, ast.Set, ast.ListComp, ast.DictComp, ast.SetComp)):
        return True
    if isinstance(v, ast.Call):
        f = v.func
        n = f.id if isinstance(f, ast.Name) else (f.attr if isinstance(f, ast.Attribute) else '')
        return n in MUTABLE_CALLS
    return False


def target_names(node):
    tgs = node.targets if isinstance(node, ast.Assign) else [node.target]
    out = []
    for t in tgs:
        if isinstance(t, ast.Name):
            out.append(t.id)
        elif isinstance(t, (ast.Tuple, ast.List)):
            out.extend(e.id for e in t.elts if isinstance(e, ast.Name))
    return out


def class_writes(fn, classes):
    """assignments `Class.attr = ...` / `cls.attr = ...` inside a function, with the nesting depth under if / for / while / try / with"""
    out = []

    def walk(stmts, depth):
        for s in stmts:
            if isinstance(s, (ast.Assign, ast.AugAssign, ast.AnnAssign)):
                tgs = s.targets if isinstance(s, ast.Assign) else [s.target]
                for t in tgs:
                    if isinstance(t, ast.Attribute) and isinstance(t.value, ast.Name) and (t.value.id in classes or t.value.id == 'cls' or t.value.id[:1].isupper()):
                        out.append(('%s.%s' % (t.value.id, t.attr), depth))
            elif isinstance(s, ast.Expr) and isinstance(s.value, ast.Call) and ast.unparse(s.value.func) == 'setattr' and s.value.args:
                a0 = ast.unparse(s.value.args[0])
                if a0 in classes or a0.endswith('__class__') or a0 == 'cls':
                    out.append(('setattr(%s)' % a0, depth))
            elif isinstance(s, ast.Delete):
                for t in s.targets:
                    if isinstance(t, ast.Attribute) and (ast.unparse(t.value).endswith('__class__') or ast.unparse(t.value) in classes):
                        out.append(('del(%s.%s)' % (ast.unparse(t.value), t.attr), depth))
            for fld in ('body', 'orelse', 'finalbody', 'handlers'):
                sub = getattr(s, fld, None)
                if isinstance(sub, list) and not isinstance(s, (ast.FunctionDef, ast.ClassDef, ast.AsyncFunctionDef)):
                    inner = []
                    for x in sub:
                        inner.extend(x.body if isinstance(x, ast.ExceptHandler) else [x])
                    walk(inner, depth + 1)
    walk(fn.body, 0)
    return out


def generate(repo):
    files = []
    for pat in SCOPE:
        got = sorted(glob.glob(os.path.join(repo, pat)))
        if not got:
            raise Unsupported('no file matches %s' % pat)
        files.extend(got)
    class_state, module_state, writes, globs = [], [], [], []
    for path in files:
        rel = os.path.relpath(path, repo)
        stem = rel[len('rqalpha/'):-3].replace('/', '.')
        tree = ast.parse(open(path).read())
        classes = {n.name for n in ast.walk(tree) if isinstance(n, ast.ClassDef)}
        for n in tree.body:
            if isinstance(n, (ast.Assign, ast.AnnAssign)) and n.value is not None and is_mutable(n.value):
                for name in target_names(n):
                    if name != '__all__':
                        module_state.append('%s:%s' % (stem, name))
        for n in ast.walk(tree):
            if isinstance(n, ast.ClassDef):
                for m in n.body:
                    if isinstance(m, (ast.Assign, ast.AnnAssign)) and m.value is not None and is_mutable(m.value):
                        for name in target_names(m):
                            class_state.append('%s.%s' % (n.name, name))
            elif isinstance(n, (ast.FunctionDef, ast.AsyncFunctionDef)):
                for w, depth in class_writes(n, classes):
                    writes.append('%s:%s:%s:%d' % (stem, n.name, w, depth))
                for g in ast.walk(n):
                    if isinstance(g, (ast.Global, ast.Nonlocal)) and isinstance(g, ast.Global):
                        for name in g.names:
                            globs.append('%s:%s:%s' % (stem, n.name, name))
    # entry points: clear_all_cached_functions() is called before run(...)
    tree = ast.parse(open(os.path.join(repo, ENTRY)).read())
    entries = []
    for n in tree.body:
        if isinstance(n, ast.FunctionDef) and n.name in ('run_file', 'run_code', 'run_func'):
            cleared = False
            ok = False
            for s in n.body:
                txt = ast.unparse(s)
                if isinstance(s, ast.Expr) and txt.startswith('clear_all_cached_functions()'):
                    cleared = True
                if isinstance(s, ast.Return) and 'run(' in txt:
                    ok = cleared
            entries.append((n.name, ok))
    if sorted(e[0] for e in entries) != ['run_code', 'run_file', 'run_func']:
        raise Unsupported('entry points not found: %s' % entries)
    # clear_all_cached_functions clears every registered function; lru_cache registers every function it wraps
    ft = ast.parse(open(os.path.join(repo, 'rqalpha/utils/functools.py')).read())
    reg_ok = clear_ok = False
    for n in ft.body:
        if isinstance(n, ast.FunctionDef) and n.name == 'lru_cache':
            reg_ok = 'cached_functions.append(func)' in ast.unparse(n)
        if isinstance(n, ast.FunctionDef) and n.name == 'clear_all_cached_functions':
            body = ast.unparse(n)
            clear_ok = 'for func in cached_functions' in body and 'func.cache_clear()' in body
    # functools.lru_cache used directly (not through the registering wrapper) would escape the reset
    direct = []
    for path in files:
        rel = os.path.relpath(path, repo)
        if rel == 'rqalpha/utils/functools.py':
            continue
        tree = ast.parse(open(path).read())
        for n in ast.walk(tree):
            if isinstance(n, ast.ImportFrom) and n.module == 'functools' and any(a.name in ('lru_cache', 'cache', 'cached_property') and a.name != 'cached_property' for a in n.names):
                direct.append(rel[len('rqalpha/'):-3].replace('/', '.'))

    def strs(l):
        return '[%s]' % '; '.join('"%s"' % x for x in l)
    out = ['(* generated from %s -- do not edit *)' % ', '.join(SCOPE), 'From Coq Require Import List String Bool.', 'From RQ Require Import Model.Globals.',
           'Import ListNotations.', 'Open Scope string_scope.', '',
           'Definition class_state : list string := %s.' % strs(sorted(class_state)),
           'Definition module_state : list string := %s.' % strs(sorted(module_state)),
           'Definition class_attr_writes : list string := %s.' % strs(sorted(writes)),
           'Definition global_statements : list string := %s.' % strs(sorted(globs)),
           'Definition direct_lru_cache : list string := %s.' % strs(sorted(set(direct))),
           'Definition entries_clear_caches : list (string * bool) := [%s].' % '; '.join('("%s", %s)' % (a, 'true' if b else 'false') for a, b in sorted(entries)),
           'Definition cache_registry_ok : bool := %s.' % ('true' if reg_ok and clear_ok else 'false'), '''
Lemma class_state_classified : forallb (fun x => mem_str x (map fst known_class_state)) class_state = true.
Proof. vm_compute. reflexivity. Qed.
Lemma module_state_classified : forallb (fun x => mem_str x (map fst known_module_state)) module_state = true.
Proof. vm_compute. reflexivity. Qed.
Lemma switches_rewritten_at_start_up : forallb (fun w => mem_str w class_attr_writes) required_class_writes = true.
Proof. vm_compute. reflexivity. Qed.
Lemma no_other_class_attr_writes : forallb (fun w => mem_str w allowed_class_writes) class_attr_writes = true.
Proof. vm_compute. reflexivity. Qed.
Lemma no_global_statements : global_statements = [].
Proof. reflexivity. Qed.
Lemma caches_cleared_by_every_entry : forallb snd entries_clear_caches = true /\\ List.length entries_clear_caches = 3%nat /\\ cache_registry_ok = true /\\ direct_lru_cache = [].
Proof. vm_compute. repeat split; reflexivity. Qed.''']
    return '\n'.join(out) + '\n', ['class_state_classified', 'module_state_classified', 'switches_rewritten_at_start_up', 'no_other_class_attr_writes',
                                   'no_global_statements', 'caches_cleared_by_every_entry']
