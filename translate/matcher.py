# -*- coding: utf-8 -*-
"""DefaultBarMatcher.match: the liquidity-cap block (`if self._volume_limit:` ... the quantity of the fill) and the booking of the
turnover  ->  coq/Gen/MatcherCap.v  (Tie A for C06)"""
import ast
import os

from .pyq import Tr, Unsupported, find_func

SRC = 'rqalpha/mod/rqalpha_mod_sys_simulation/matcher.py'


def strip_reasons(stmts):
    """drop `reason = _(...)` (message text only); everything else stays and must translate"""
    out = []
    for s in stmts:
        if isinstance(s, ast.Assign) and len(s.targets) == 1 and isinstance(s.targets[0], ast.Name) and s.targets[0].id == 'reason':
            continue
        if isinstance(s, ast.If):
            s = ast.If(test=s.test, body=strip_reasons(s.body), orelse=strip_reasons(s.orelse))
        out.append(s)
    return out


def generate(repo):
    tree = ast.parse(open(os.path.join(repo, SRC)).read())
    f = find_func(tree, 'DefaultBarMatcher', 'match')
    blocks = [s for s in f.body if isinstance(s, ast.If) and ast.unparse(s.test) == 'self._volume_limit']
    if len(blocks) != 1:
        raise Unsupported('DefaultBarMatcher.match: expected exactly one `if self._volume_limit:` block, found %d' % len(blocks))
    # `fill` must not be touched anywhere else before the trade is made
    others = [s for s in f.body if s is not blocks[0] and any(isinstance(n, ast.Name) and n.id == 'fill' and isinstance(n.ctx, ast.Store) for n in ast.walk(s))]
    if others:
        raise Unsupported('DefaultBarMatcher.match: `fill` assigned outside the volume-limit block')

    def cancel(env):
        env['$cancelled'] = 'true'
    tr = Tr(names={'self._volume_limit': 'vlimit', 'cmp:volume == volume': 'vol_valid', 'self._volume_percent': 'pct', 'instrument.round_lot': 'lot',
                   'order.unfilled_quantity': 'unfilled', 'cmp:order.type == ORDER_TYPE.MARKET': 'is_market'},
            calls={'self._get_bar_volume': lambda a, e, env: 'volume', 'round': lambda a, e, env: '(zq (qround_even %s))' % a[0],
                   'sub:self._turnover': lambda e, env, t: 'turnover' if ast.unparse(e.slice) == 'order.order_book_id' else (_ for _ in ()).throw(Unsupported('turnover key')),
                   'stmt:order.mark_cancelled(reason)': cancel})

    def result(env, r):
        if r is not None:
            raise Unsupported('the volume-limit block returns a value: %s' % r)
        if 'fill' in env:
            return '(GFill %s)' % env['fill']
        return 'GCancel' if env.get('$cancelled') else 'GNone'
    body = tr.block(strip_reasons([blocks[0]]), {}, result)
    # the turnover is raised by the fill right after order.fill(trade), before the trade is announced and before the rest of a market order is cancelled
    names = [ast.unparse(s) for s in f.body]
    try:
        i_fill = names.index('order.fill(trade)')
    except ValueError:
        raise Unsupported('order.fill(trade) not found at the top level of match')
    book = names[i_fill + 1] if i_fill + 1 < len(names) else ''
    booked = book == 'self._turnover[order.order_book_id] += fill'
    later_returns = any(isinstance(n, ast.Return) for s in f.body[i_fill + 1:i_fill + 1] for n in ast.walk(s))
    n_book = sum(1 for s in ast.walk(f) if isinstance(s, ast.AugAssign) and ast.unparse(s.target).startswith('self._turnover['))
    upd = find_func(tree, 'DefaultBarMatcher', 'update')
    clears = [ast.unparse(s) for s in upd.body] == ['self._turnover.clear()']
    out = ['(* generated from %s -- do not edit *)' % SRC, 'From RQ Require Import Model.Num Model.Position Model.Matcher.', 'Open Scope Q_scope.', '',
           'Inductive gfill := GNone | GCancel | GFill (q : Q).',
           'Definition gen_fill (vlimit vol_valid : bool) (volume pct turnover lot unfilled : Q) (is_market : bool) : gfill :=\n  %s.' % body,
           'Definition turnover_booked_right_after_the_fill : bool := %s.' % ('true' if booked and n_book == 1 and not later_returns else 'false'),
           'Definition update_clears_turnover : bool := %s.' % ('true' if clears else 'false'),
           '''
Definition model_fill (g : mcfg) (i : mins) (vol : option Q) (turnover unfilled : Q) (is_market : bool) : gfill :=
  match fill_amount g i vol turnover unfilled with None => if is_market then GCancel else GNone | Some f => GFill f end.
Lemma gen_fill_eq : forall g i v turnover unfilled is_market,
  gen_fill (m_volume_limit g) true v (m_volume_percent g) turnover (i_lot i) unfilled is_market = model_fill g i (Some v) turnover unfilled is_market.
Proof. intros. unfold gen_fill, model_fill, fill_amount, volume_cap, lot_cap. destruct (m_volume_limit g); [|reflexivity].
  destruct (qle_b _ 0); [destruct is_market; reflexivity|reflexivity]. Qed.
Lemma gen_fill_nan_eq : forall g i v turnover unfilled is_market,
  gen_fill (m_volume_limit g) false v (m_volume_percent g) turnover (i_lot i) unfilled is_market = model_fill g i None turnover unfilled is_market.
Proof. intros. unfold gen_fill, model_fill, fill_amount. destruct (m_volume_limit g); reflexivity. Qed.
Lemma turnover_bookkeeping_ok : turnover_booked_right_after_the_fill = true /\\ update_clears_turnover = true.
Proof. split; reflexivity. Qed.''']
    return '\n'.join(out) + '\n', ['gen_fill_eq', 'gen_fill_nan_eq', 'turnover_bookkeeping_ok']
