# -*- coding: utf-8 -*-
"""SimulationBroker's methods (_match, on_bar, before_trading, after_trading, cancel_order, submit_order) as programs over the primitives
of Model/Broker.v  ->  coq/Gen/BrokerProg.v  (Tie A for C04 C05 C06 C09).  Every statement must be recognised; anything else is
Unsupported (a broken tie, never a silent skip)."""
import ast
import os
import re

from .pyq import Unsupported, find_func

SRC = 'rqalpha/mod/rqalpha_mod_sys_simulation/simulation_broker.py'
NONFINAL = "lambda a_and_o: not (a_and_o[1].is_final() or (order_book_id and a_and_o[1].order_book_id != order_book_id))"


def norm(s):
    return re.sub(r'\s+', ' ', ast.unparse(s)).strip()


def strip_msgs(stmts):
    """message texts (the argument of _( ... ).format(...)) do not matter: replace them by MSG"""
    class T(ast.NodeTransformer):
        def visit_Call(self, n):
            self.generic_visit(n)
            f = ast.unparse(n.func)
            if f == '_' or f == 'MSG.format':
                return ast.Name(id='MSG', ctx=ast.Load())
            return n
    return [T().visit(s) for s in stmts]


MATCH = {
    'order_filter = ' + NONFINAL: None,
    "if ExecutionContext.phase() != EXECUTION_PHASE.OPEN_AUCTION: for account, order in filter(order_filter, self._open_orders): "
    "self._get_matcher(order.order_book_id).match(account, order, open_auction=False)": 'PMatchOpenUnlessAuction',
    "for account, order in filter(order_filter, self._open_auction_orders): self._get_matcher(order.order_book_id).match(account, order, open_auction=True)":
        'PMatchAuctionBook',
    "final_orders = [(a, o) for a, o in chain(self._open_orders, self._open_auction_orders) if o.is_final()]": 'PCollectFinalBoth',
    "self._open_orders = [(a, o) for a, o in chain(self._open_orders, self._open_auction_orders) if not o.is_final()]": 'PRestBoth',
    "self._open_auction_orders.clear()": 'PClearAuction',
    "for account, order in final_orders: if order.status == ORDER_STATUS.REJECTED or order.status == ORDER_STATUS.CANCELLED: "
    "self._env.event_bus.publish_event(Event(EVENT.ORDER_UNSOLICITED_UPDATE, account=account, order=order))": 'PAnnounceFinal',
}
ON_BAR = {"for matcher in self._matchers.values(): matcher.update(event)": 'PUpdateMatchers', "self._match()": 'PMatch'}
BEFORE = {
    "for matcher in self._matchers.values(): turnover = getattr(matcher, '_turnover', None) if turnover: turnover.clear()": 'PClearTurnover',
    "for account, order in self._open_orders: order.active() self._env.event_bus.publish_event(Event(EVENT.ORDER_CREATION_PASS, account=account, order=order))":
        'PReactivateOpen',
}
AFTER = {
    "for account, order in self._open_orders: order.mark_rejected(MSG) "
    "self._env.event_bus.publish_event(Event(EVENT.ORDER_UNSOLICITED_UPDATE, account=account, order=order))": 'PRejectOpen',
    "self._open_orders = []": 'PEmptyOpen',
}
CANCEL = {
    "if order.is_final(): return": 'PReturnIfFinal',
    "account = self._env.get_account(order.order_book_id)": None,
    "self._env.event_bus.publish_event(Event(EVENT.ORDER_PENDING_CANCEL, account=account, order=order))": 'PPendingCancel',
    "order.mark_cancelled(MSG)": 'PMarkCancelled',
    "self._env.event_bus.publish_event(Event(EVENT.ORDER_CANCELLATION_PASS, account=account, order=order))": 'PCancellationPass',
    "for open_orders in (self._open_orders, self._open_auction_orders): try: open_orders.remove((account, order)) except ValueError: pass": 'PRemoveFromBothBooks',
}
SUBMIT = {
    "self._check_subscribe(order)": 'PCheckSubscribe',
    "if order.position_effect == POSITION_EFFECT.MATCH: raise TypeError(MSG)": 'PRefuseMatchEffect',
    "account = self._env.get_account(order.order_book_id)": None,
    "self._env.event_bus.publish_event(Event(EVENT.ORDER_PENDING_NEW, account=account, order=order))": 'PPendingNew',
    "if order.is_final(): return": 'PReturnIfFinal',
    "if order.position_effect == POSITION_EFFECT.EXERCISE: return self._open_exercise_orders.append((account, order))": 'PExerciseBook',
    "if ExecutionContext.phase() == EXECUTION_PHASE.OPEN_AUCTION: self._open_auction_orders.append((account, order)) else: self._open_orders.append((account, order))":
        'PAppendByPhase',
    "order.active()": 'PActivate',
    "self._env.event_bus.publish_event(Event(EVENT.ORDER_CREATION_PASS, account=account, order=order))": 'PCreationPass',
    "if self._match_immediately: self._match()": 'PMatchIfImmediate',
}


def program(tree, name, table):
    f = find_func(tree, 'SimulationBroker', name)
    prog = []
    body = [s for s in f.body if not (isinstance(s, ast.Expr) and isinstance(s.value, ast.Constant))]
    for s in strip_msgs(body):
        t = norm(s)
        if t not in table:
            raise Unsupported('SimulationBroker.%s: unrecognised statement: %s' % (name, t[:160]))
        if table[t]:
            prog.append(table[t])
    return prog


def generate(repo):
    tree = ast.parse(open(os.path.join(repo, SRC)).read())
    progs = dict(gen_match=program(tree, '_match', MATCH), gen_on_bar=program(tree, 'on_bar', ON_BAR), gen_before_trading=program(tree, 'before_trading', BEFORE),
                 gen_after_trading=program(tree, 'after_trading', AFTER), gen_cancel=program(tree, 'cancel_order', CANCEL), gen_submit=program(tree, 'submit_order', SUBMIT))
    init = find_func(tree, 'SimulationBroker', '__init__')
    regs = sorted(norm(s) for s in ast.walk(init) if isinstance(s, ast.Expr) and 'event_bus.add_listener' in ast.unparse(s))
    want = sorted(['self._env.event_bus.add_listener(EVENT.BEFORE_TRADING, self.before_trading)', 'self._env.event_bus.add_listener(EVENT.BAR, self.on_bar)',
                   'self._env.event_bus.add_listener(EVENT.TICK, self.on_tick)', 'self._env.event_bus.add_listener(EVENT.AFTER_TRADING, self.after_trading)',
                   'self._env.event_bus.add_listener(EVENT.PRE_SETTLEMENT, self.pre_settlement)'])
    out = ['(* generated from %s -- do not edit *)' % SRC, 'From Coq Require Import List Bool.', 'From RQ Require Import Model.Broker Proofs.BrokerFacts.', 'Import ListNotations.', '']
    for k, v in progs.items():
        out.append('Definition %s : list bprim := [%s].' % (k, '; '.join(v)))
    out.append('Definition listeners_as_expected : bool := %s.' % ('true' if regs == want else 'false'))
    out.append('''
Lemma gen_match_is_model : forall fin ph s, interp fin ph gen_match s = bmatch fin s ph.
Proof. intros. assert (E : gen_match = expected_match) by (apply prog_eqb_eq; vm_compute; reflexivity). rewrite E. apply interp_expected_match. Qed.
Lemma gen_programs_as_modelled :
  prog_eqb gen_on_bar expected_on_bar && prog_eqb gen_before_trading expected_before_trading && prog_eqb gen_after_trading expected_after_trading &&
  prog_eqb gen_cancel expected_cancel && prog_eqb gen_submit expected_submit && listeners_as_expected = true.
Proof. vm_compute. reflexivity. Qed.''')
    return '\n'.join(out) + '\n', ['gen_match_is_model', 'gen_programs_as_modelled']
