# -*- coding: utf-8 -*-
"""Account's reserved-cash arithmetic (_frozen_cash_of_order, _on_order_pending_new, apply_trade's release, _on_order_unsolicited_update)
->  coq/Gen/Reserve.v  (Tie A for C09)"""
import ast
import os

from .pyq import Tr, Unsupported, find_func

SRC = 'rqalpha/portfolio/account.py'


def generate(repo):
    tree = ast.parse(open(os.path.join(repo, SRC)).read())
    out = ['(* generated from %s -- do not edit *)' % SRC, 'From RQ Require Import Model.Num Model.Position Model.Account.', 'Open Scope Q_scope.', '']
    base = {'cmp:event.account != self': 'false', 'event.order': 'ORDER', 'order.filled_quantity': 'filled', 'order.unfilled_quantity': '(qsub oq filled)',
            'order.quantity': 'oq', 'order.init_frozen_cash': 'reserve', 'self._frozen_cash': 'frozen'}

    def fro(env, r):
        if r not in (None, '$raise'):
            raise Unsupported('reserved-cash handler returns a value: %s' % r)
        return env.get('$frozen', 'frozen')
    # _on_order_unsolicited_update
    f = find_func(tree, 'Account', '_on_order_unsolicited_update')
    tr = Tr(names=dict(base), state={'self._frozen_cash': 'frozen'})
    out.append('Definition gen_terminal (frozen oq filled reserve : Q) : Q :=\n  %s.' % tr.block(f.body, {}, fro))
    # _on_order_pending_new
    f = find_func(tree, 'Account', '_on_order_pending_new')
    tr = Tr(names=dict(base), state={'self._frozen_cash': 'frozen'},
            calls={'stmt:order.set_frozen_cash(self._frozen_cash_of_order(order))': lambda env: None})
    out.append('Definition gen_pending_new (frozen reserve : Q) : Q :=\n  %s.' % tr.block(f.body, {}, fro))
    # apply_trade: the release of the reserve (the first statement that touches _frozen_cash)
    f = find_func(tree, 'Account', 'apply_trade')
    rel = [s for s in f.body if isinstance(s, ast.If) and '_frozen_cash' in ast.unparse(s)]
    others = [s for s in f.body if s not in rel and '_frozen_cash' in ast.unparse(s)]
    if len(rel) != 1 or others:
        raise Unsupported('Account.apply_trade: expected exactly one statement releasing _frozen_cash')
    names = dict(base)
    names.update({'order': 'has_order', 'cmp:trade.position_effect != POSITION_EFFECT.MATCH': 'not_match', 'trade.last_quantity': 'q'})
    tr = Tr(names=names, state={'self._frozen_cash': 'frozen'})
    out.append('Definition gen_release_trade (frozen q oq reserve : Q) (has_order not_match : bool) : Q :=\n  %s.' % tr.block(rel, {}, fro))
    # _frozen_cash_of_order
    f = find_func(tree, 'Account', '_frozen_cash_of_order')
    tr = Tr(names={'cmp:order.position_effect == POSITION_EFFECT.OPEN': 'is_open'},
            calls={'self._env.data_proxy.instrument': lambda a, e, env: 'INS', 'instrument.calc_cash_occupation': lambda a, e, env: 'occupation',
                   'self._env.get_order_transaction_cost': lambda a, e, env: 'fees'})
    out.append('Definition gen_reserve_of_order (is_open : bool) (occupation fees : Q) : Q :=\n  %s.' % tr.block(f.body, {}, lambda env, r: r))
    out.append('''
Lemma gen_terminal_eq : forall frozen oq filled reserve, gen_terminal frozen oq filled reserve = qsub frozen (release_terminal oq filled reserve).
Proof. intros. unfold gen_terminal, release_terminal. destruct (negb (qeq_b filled 0)); reflexivity. Qed.
Lemma gen_pending_new_eq : forall frozen reserve, gen_pending_new frozen reserve = qadd frozen reserve.
Proof. reflexivity. Qed.
Lemma gen_release_trade_eq : forall frozen q oq reserve, gen_release_trade frozen q oq reserve true true = qsub frozen (release_trade (Some (oq, reserve)) q).
Proof. intros. unfold gen_release_trade, release_trade. cbn [andb]. destruct (negb (qeq_b q oq)); reflexivity. Qed.
Lemma gen_release_trade_without_order : forall frozen q oq reserve nm, gen_release_trade frozen q oq reserve false nm = frozen.
Proof. reflexivity. Qed.
Lemma gen_reserve_of_order_eq : forall is_open occupation fees, gen_reserve_of_order is_open occupation fees = reserve_of_order is_open occupation fees.
Proof. intros. unfold gen_reserve_of_order, reserve_of_order. destruct is_open; reflexivity. Qed.''')
    return '\n'.join(out) + '\n', ['gen_terminal_eq', 'gen_pending_new_eq', 'gen_release_trade_eq', 'gen_release_trade_without_order', 'gen_reserve_of_order_eq']
