# -*- coding: utf-8 -*-
"""Which front-end validators are registered, under which switch, in which order  ->  coq/Gen/ValidatorChain.v  (Tie A for C16)"""
import ast
import os

from .pyq import Unsupported, find_func

RISK = 'rqalpha/mod/rqalpha_mod_sys_risk/mod.py'
ACC = 'rqalpha/mod/rqalpha_mod_sys_accounts/mod.py'
ENV = 'rqalpha/environment.py'


def generate(repo):
    tree = ast.parse(open(os.path.join(repo, RISK)).read())
    f = find_func(tree, 'RiskManagerMod', 'start_up')
    chain = []
    for s in f.body:
        if isinstance(s, ast.Expr) and isinstance(s.value, ast.Constant):
            continue
        ok = (isinstance(s, ast.If) and not s.orelse and len(s.body) == 1 and isinstance(s.body[0], ast.Expr) and isinstance(s.body[0].value, ast.Call)
              and ast.unparse(s.body[0].value.func) == 'env.add_frontend_validator' and len(s.body[0].value.args) == 1 and not s.body[0].value.keywords
              and ast.unparse(s.test).startswith('mod_config.') and isinstance(s.test, ast.Attribute))
        if not ok:
            raise Unsupported('RiskManagerMod.start_up: unexpected statement %s' % ast.unparse(s)[:80])
        arg = s.body[0].value.args[0]
        if not (isinstance(arg, ast.Call) and isinstance(arg.func, ast.Name) and ast.unparse(arg) == '%s(env)' % arg.func.id):
            raise Unsupported('RiskManagerMod.start_up: validator expression %s' % ast.unparse(arg))
        chain.append((ast.unparse(s.test)[len('mod_config.'):], arg.func.id))
    # the position validator of the accounts mod: per instrument type, under its two switches
    tree = ast.parse(open(os.path.join(repo, ACC)).read())
    f = find_func(tree, 'AccountMod', 'start_up')
    typed = []
    for s in ast.walk(f):
        if isinstance(s, ast.If) and ast.unparse(s.test) in ('mod_config.validate_future_position', 'mod_config.validate_stock_position'):
            calls = [c for c in ast.walk(s) if isinstance(c, ast.Call) and ast.unparse(c.func) == 'env.add_frontend_validator']
            if len(calls) != 1 or ast.unparse(calls[0].args[0]) != 'pos_validator' or len(calls[0].args) != 2:
                raise Unsupported('AccountMod.start_up: position validator registration %s' % ast.unparse(s)[:100])
            typed.append((ast.unparse(s.test)[len('mod_config.'):], ast.unparse(calls[0].args[1])))
    pv = [n for n in ast.walk(f) if isinstance(n, ast.Assign) and ast.unparse(n.targets[0]) == 'pos_validator']
    if len(pv) != 1 or ast.unparse(pv[0].value) != 'PositionValidator()':
        raise Unsupported('AccountMod.start_up: pos_validator is not PositionValidator()')
    # Environment: validators registered for the instrument type run before the default ones; the first reason vetoes
    tree = ast.parse(open(os.path.join(repo, ENV)).read())
    g = find_func(tree, 'Environment', '_get_frontend_validators')
    typed_first = ast.unparse(g.body[-1]) == 'return chain(self._frontend_validators.get(instrument_type, []), self._default_frontend_validators)'
    c = find_func(tree, 'Environment', 'can_submit_order')
    src = ast.unparse(c)
    first_veto = ('for v in self._get_frontend_validators(instrument_type):' in src and 'reason = v.validate_submission(order, account)' in src
                  and 'if reason:' in src and 'return False' in src)
    out = ['(* generated from %s, %s, %s -- do not edit *)' % (RISK, ACC, ENV), 'From Coq Require Import List String Bool.', 'From RQ Require Import Model.Globals.',
           'Import ListNotations.', 'Open Scope string_scope.', '',
           'Definition risk_chain : list (string * string) := [%s].' % '; '.join('("%s", "%s")' % x for x in chain),
           'Definition position_validator_registrations : list (string * string) := [%s].' % '; '.join('("%s", "%s")' % x for x in typed),
           'Definition typed_validators_first : bool := %s.' % ('true' if typed_first else 'false'),
           'Definition first_reason_vetoes : bool := %s.' % ('true' if first_veto else 'false'), '''
Lemma chain_is_the_modelled_chain : risk_chain = expected_risk_chain /\\ position_validator_registrations = expected_position_registrations /\\
  typed_validators_first = true /\\ first_reason_vetoes = true.
Proof. repeat split; reflexivity. Qed.''']
    return '\n'.join(out) + '\n', ['chain_is_the_modelled_chain']
