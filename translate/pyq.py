# -*- coding: utf-8 -*-
"""Fail-closed translator from a tiny subset of Python (ast) to Gallina text over the Num layer.

Accepted: assignments to local names and to registered state attributes (self.x = e, self.x += e,
self.x -= e, self.x /= e, self.x *= e), `if / elif / else`, `return`, + - * /, unary minus, comparisons, and / or / not,
conditional expressions, min / max / abs, int literals and simple decimal literals, attribute reads
and calls mapped through an explicit table.  ANYTHING else raises Unsupported: an edit the translator
cannot express is a broken tie, never a silent skip.
"""
import ast
import os
from fractions import Fraction


class Unsupported(Exception):
    pass


def find_func(tree, cls, fn):
    for n in tree.body:
        if cls is None and isinstance(n, ast.FunctionDef) and n.name == fn:
            return n
        if isinstance(n, ast.ClassDef) and n.name == cls:
            for f in n.body:
                if isinstance(f, ast.FunctionDef) and f.name == fn:
                    return f
    raise Unsupported('anchor missing: %s.%s' % (cls, fn))


def qlit(v):
    fr = Fraction(str(v)) if isinstance(v, float) else Fraction(v)
    if fr.denominator == 1:
        return '%d' % fr.numerator if fr.numerator >= 0 else '(-%d)' % (-fr.numerator)
    n = fr.numerator
    return '(%d # %d)' % (n, fr.denominator) if n >= 0 else '((-%d) # %d)' % (-n, fr.denominator)


class Tr(object):
    """names: unparsed expression text -> Gallina text (reads)
    state: attribute text (e.g. 'self._quantity') -> field key; the final state is env['$' + key]
    calls: function text -> callable(args as Gallina strings, raw ast args, env) -> Gallina text
    bools: set of unparsed expressions that are booleans (used as `if x:` tests)"""

    def __init__(self, names=None, state=None, calls=None, consts=None, zmode=False):
        self.names = names or {}
        self.state = state or {}
        self.calls = calls or {}
        self.consts = consts or {}
        self.zmode = zmode        # integer arithmetic (Z) instead of Q

    # ---- expressions -------------------------------------------------------------------------
    def expr(self, e, env):
        txt = ast.unparse(e)
        if txt in self.state and ('$' + self.state[txt]) in env:
            return env['$' + self.state[txt]]
        if txt in self.names:
            return self.names[txt]
        if isinstance(e, ast.Name):
            if e.id in env:
                return env[e.id]
            raise Unsupported('unknown name %s' % e.id)
        if isinstance(e, ast.Attribute):
            raise Unsupported('unknown attribute %s' % txt)
        if isinstance(e, ast.Constant):
            if isinstance(e.value, bool):
                return 'true' if e.value else 'false'
            if isinstance(e.value, (int, float)):
                return qlit(e.value) if not self.zmode else '%d' % e.value
            raise Unsupported('constant %r' % (e.value,))
        if isinstance(e, ast.UnaryOp):
            if isinstance(e.op, ast.USub):
                if isinstance(e.operand, ast.Constant):
                    return qlit(-e.operand.value)
                return '(%s %s)' % ('Z.opp' if self.zmode else 'qneg', self.expr(e.operand, env))
            if isinstance(e.op, ast.Not):
                return '(negb %s)' % self.expr(e.operand, env)
            raise Unsupported('unary %s' % txt)
        if isinstance(e, ast.BinOp):
            ops = ({ast.Add: 'Z.add', ast.Sub: 'Z.sub', ast.Mult: 'Z.mul'} if self.zmode else
                   {ast.Add: 'qadd', ast.Sub: 'qsub', ast.Mult: 'qmul', ast.Div: 'qdiv'})
            op = ops.get(type(e.op))
            if isinstance(e.op, ast.FloorDiv) and not self.zmode:
                return '(zq (Qfloor (qdiv %s %s)))' % (self.expr(e.left, env), self.expr(e.right, env))
            if not op:
                raise Unsupported('binop %s' % txt)
            return '(%s %s %s)' % (op, self.expr(e.left, env), self.expr(e.right, env))
        if isinstance(e, ast.Compare):
            if len(e.ops) != 1:
                raise Unsupported('chained comparison %s' % txt)
            key = 'cmp:' + txt
            if key in self.names:
                return self.names[key]
            a, b = self.expr(e.left, env), self.expr(e.comparators[0], env)
            o = e.ops[0]
            if self.zmode:
                m = {ast.Gt: '(%s <? %s)%%Z' % (b, a), ast.Lt: '(%s <? %s)%%Z' % (a, b), ast.GtE: '(%s <=? %s)%%Z' % (b, a),
                     ast.LtE: '(%s <=? %s)%%Z' % (a, b), ast.Eq: '(%s =? %s)%%Z' % (a, b),
                     ast.NotEq: '(negb (%s =? %s)%%Z)' % (a, b)}
            else:
                m = {ast.Gt: '(qlt_b %s %s)' % (b, a), ast.Lt: '(qlt_b %s %s)' % (a, b), ast.GtE: '(qle_b %s %s)' % (b, a),
                     ast.LtE: '(qle_b %s %s)' % (a, b), ast.Eq: '(qeq_b %s %s)' % (a, b),
                     ast.NotEq: '(negb (qeq_b %s %s))' % (a, b)}
            if type(o) not in m:
                raise Unsupported('comparison %s' % txt)
            return m[type(o)]
        if isinstance(e, ast.BoolOp):
            parts = [self.expr(v, env) for v in e.values]
            op = 'andb' if isinstance(e.op, ast.And) else 'orb'
            out = parts[-1]
            for p in reversed(parts[:-1]):
                out = '(%s %s %s)' % (op, p, out)
            return out
        if isinstance(e, ast.IfExp):
            return '(if %s then %s else %s)' % (self.expr(e.test, env), self.expr(e.body, env), self.expr(e.orelse, env))
        if isinstance(e, ast.Call):
            f = ast.unparse(e.func)
            if f in self.calls:
                args = []
                for a in e.args:
                    try:
                        args.append(self.expr(a, env))
                    except Unsupported:
                        # the handler decides which arguments matter; using this one breaks the Coq build
                        args.append('(UNTRANSLATED_ARG %s)' % ast.unparse(a).replace(' ', '_')[:20])
                return self.calls[f](args, e, env)
            if f in ('max', 'min') and len(e.args) == 2 and not e.keywords:
                nm = ('Z.' + f) if self.zmode else ('q' + f)
                return '(%s %s %s)' % (nm, self.expr(e.args[0], env), self.expr(e.args[1], env))
            if f == 'abs' and len(e.args) == 1:
                return '(%s %s)' % ('Z.abs' if self.zmode else 'qabs', self.expr(e.args[0], env))
            raise Unsupported('call %s' % txt)
        if isinstance(e, ast.Subscript):
            key = 'sub:' + ast.unparse(e.value)
            if key in self.calls:
                return self.calls[key](e, env, self)
            raise Unsupported('subscript %s' % txt)
        if isinstance(e, ast.Tuple):
            return '(%s)' % ', '.join(self.expr(x, env) for x in e.elts)
        raise Unsupported('expression %s' % txt[:80])

    # ---- statements --------------------------------------------------------------------------
    def block(self, stmts, env, result):
        """result(env, returned_expr_or_None) -> Gallina text of the function's value at a return point."""
        env = dict(env)
        stmts = [s for s in stmts if not (isinstance(s, ast.Expr) and isinstance(s.value, ast.Constant))]
        for i, s in enumerate(stmts):
            rest = stmts[i + 1:]
            if isinstance(s, ast.Assign):
                if len(s.targets) != 1:
                    # a = b = v
                    v = self.expr(s.value, env)
                    for t in s.targets:
                        self._store(t, v, env)
                    continue
                self._store(s.targets[0], self.expr(s.value, env), env)
                continue
            if isinstance(s, ast.AugAssign):
                cur = self.expr(s.target, env)
                ops = ({ast.Add: 'Z.add', ast.Sub: 'Z.sub', ast.Mult: 'Z.mul'} if self.zmode else
                       {ast.Add: 'qadd', ast.Sub: 'qsub', ast.Mult: 'qmul', ast.Div: 'qdiv'})
                op = ops.get(type(s.op))
                if not op:
                    raise Unsupported('augassign %s' % ast.unparse(s))
                self._store(s.target, '(%s %s %s)' % (op, cur, self.expr(s.value, env)), env)
                continue
            if isinstance(s, ast.If):
                test = self.expr(s.test, env)
                a = self.block(list(s.body) + rest, env, result) if not self._returns(s.body) else self.block(s.body, env, result)
                if s.orelse:
                    b = self.block(list(s.orelse) + rest, env, result) if not self._returns(s.orelse) else self.block(s.orelse, env, result)
                else:
                    b = self.block(rest, env, result)
                return '(if %s then %s else %s)' % (test, a, b)
            if isinstance(s, ast.Return):
                return result(env, self.expr(s.value, env) if s.value is not None else None)
            if isinstance(s, ast.Raise):
                return result(env, '$raise')
            if isinstance(s, ast.Pass):
                continue
            key = 'stmt:' + ast.unparse(s)
            if key in self.names:      # explicitly whitelisted side-effect-free statement (logging)
                continue
            if key in self.calls:      # a whitelisted statement with a modelled effect on the state: handler(env) updates env in place
                self.calls[key](env)
                continue
            raise Unsupported('statement %s' % ast.unparse(s)[:100])
        return result(env, None)

    def _returns(self, stmts):
        """every path through stmts ends in return / raise"""
        if not stmts:
            return False
        last = stmts[-1]
        if isinstance(last, (ast.Return, ast.Raise)):
            return True
        if isinstance(last, ast.If):
            return self._returns(last.body) and bool(last.orelse) and self._returns(last.orelse)
        return False

    def _store(self, target, value, env):
        txt = ast.unparse(target)
        if isinstance(target, ast.Name):
            env[target.id] = value
        elif txt in self.state:
            env['$' + self.state[txt]] = value
        else:
            raise Unsupported('store to %s' % txt)


def write_if_changed(path, text):
    try:
        if open(path).read() == text:
            return False
    except IOError:
        pass
    d = os.path.dirname(path)
    if d and not os.path.isdir(d):
        os.makedirs(d, exist_ok=True)
    with open(path, 'w') as f:
        f.write(text)
    return True


# the standard proof of  Gen = Model : unfold both, case on every test, reflexivity
EQ_PROOF = ('Proof. intros. unfold %s, %s. cbv zeta.\n'
            '  repeat match goal with |- context [if ?b then _ else _] => destruct b end; reflexivity. Qed.')
