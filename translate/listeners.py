# -*- coding: utf-8 -*-
"""Every system listener registered on the event bus  ->  coq/Gen/Listeners.v  (Tie A for C08 C19).
EventBus.publish_event stops delivering an event to the remaining system listeners as soon as one returns a truthy value, so a listener that
returns a value can silently swallow a phase event (the strategy's after_trading, the broker's close-of-day sweep ...).  The inventory lists
each registration with whether the listener can return a value; anything the translator cannot resolve is Unsupported."""
import ast
import os

from .pyq import Unsupported

ALLOWED_DECORATORS = {'run_when_strategy_not_hold', 'lru_cache(None)'}


def returns_value(fn):
    """does any `return <expr>` belong to fn itself (not to a nested function / lambda)?"""
    def walk(n):
        for c in ast.iter_child_nodes(n):
            if isinstance(c, (ast.FunctionDef, ast.AsyncFunctionDef, ast.Lambda, ast.ClassDef)):
                continue
            if isinstance(c, ast.Return) and c.value is not None and not (isinstance(c.value, ast.Constant) and c.value.value is None):
                return True
            if walk(c):
                return True
        return False
    return walk(fn)


def generate(repo):
    rows = []
    base = os.path.join(repo, 'rqalpha')
    for dp, dn, fn in sorted(os.walk(base)):
        dn.sort()
        if os.sep + 'examples' in dp or os.sep + 'cmds' in dp:
            continue
        for f in sorted(fn):
            if not f.endswith('.py'):
                continue
            path = os.path.join(dp, f)
            src = open(path).read()
            if 'add_listener' not in src and 'prepend_listener' not in src:
                continue
            rel = os.path.relpath(path, repo)
            tree = ast.parse(src)
            for cls in [n for n in ast.walk(tree) if isinstance(n, ast.ClassDef)]:
                methods = {m.name: m for m in cls.body if isinstance(m, ast.FunctionDef)}
                for call in [n for m in methods.values() for n in ast.walk(m) if isinstance(n, ast.Call)]:
                    if not (isinstance(call.func, ast.Attribute) and call.func.attr in ('add_listener', 'prepend_listener')):
                        continue
                    if cls.name == 'EventBus':
                        continue
                    if any(k.arg == 'user' and isinstance(k.value, ast.Constant) and k.value.value is True for k in call.keywords):
                        continue        # user listeners: their return value is ignored
                    if len(call.args) < 2:
                        raise Unsupported('%s: listener registration without two positional arguments: %s' % (rel, ast.unparse(call)[:80]))
                    ev = ast.unparse(call.args[0])
                    if not ev.startswith('EVENT.'):
                        raise Unsupported('%s: event is not a literal EVENT member: %s' % (rel, ev))
                    lst = call.args[1]
                    name = None
                    if isinstance(lst, ast.Attribute) and isinstance(lst.value, ast.Name) and lst.value.id == 'self':
                        name = lst.attr
                    elif isinstance(lst, ast.Lambda) and isinstance(lst.body, ast.IfExp) and isinstance(lst.body.body, ast.Call) and \
                            isinstance(lst.body.body.func, ast.Attribute) and ast.unparse(lst.body.body.func.value) == 'self' and ast.unparse(lst.body.orelse) == 'None':
                        name = lst.body.body.func.attr          # lambda e: self.m(...) if cond else None
                    if name is None or name not in methods:
                        raise Unsupported('%s: cannot resolve listener %s' % (rel, ast.unparse(lst)[:80]))
                    m = methods[name]
                    for d in m.decorator_list:
                        if ast.unparse(d) not in ALLOWED_DECORATORS:
                            raise Unsupported('%s: listener %s.%s is wrapped by %s' % (rel, cls.name, name, ast.unparse(d)))
                    rows.append(('%s:%s.%s' % (rel[len('rqalpha/'):-3].replace('/', '.'), cls.name, name), ev[len('EVENT.'):], call.func.attr == 'prepend_listener', returns_value(m)))
    rows = sorted(set(rows))
    out = ['(* generated from every event_bus.add_listener / prepend_listener call of the engine -- do not edit *)',
           'From Coq Require Import List String Bool.', 'From RQ Require Import Model.Phases.', 'Import ListNotations.', 'Open Scope string_scope.', '',
           'Definition system_listeners : list (string * string * bool * bool) := [  (* listener, event, prepended, can return a value *)']
    out.append(';\n'.join('  ("%s", "%s", %s, %s)' % (a, b, 'true' if c else 'false', 'true' if d else 'false') for a, b, c, d in rows))
    out.append('].')
    out.append('''
Lemma no_listener_returns_a_value : forallb (fun r => negb (snd r) || in_strs (snd (fst (fst r))) external_events) system_listeners = true.
Proof. vm_compute. reflexivity. Qed.
Lemma phase_listeners_present : forallb (fun le => existsb (fun r => String.eqb (fst (fst (fst r))) (fst le) && String.eqb (snd (fst (fst r))) (snd le)) system_listeners)
  expected_phase_listeners = true.
Proof. vm_compute. reflexivity. Qed.''')
    return '\n'.join(out) + '\n', ['no_listener_returns_a_value', 'phase_listeners_present']
