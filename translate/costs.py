# -*- coding: utf-8 -*-
"""deciders.py -> coq/Gen/Costs.v  (Tie A for C11, used by C09)"""
import ast
import os

from .pyq import Tr, Unsupported, find_func, qlit, EQ_PROOF

SRC = 'rqalpha/mod/rqalpha_mod_sys_transaction_cost/deciders.py'


def generate(repo):
    path = os.path.join(repo, SRC)
    tree = ast.parse(open(path).read())
    out = ['(* generated from %s -- do not edit *)' % SRC,
           'From RQ Require Import Model.Num Model.Costs.', 'Open Scope Q_scope.', '']
    lemmas = []

    # --- StockTransactionCostDecider.get_trade_commission
    f = find_func(tree, 'StockTransactionCostDecider', 'get_trade_commission')
    tr = Tr(names={'trade.order_id': 'tt', 'cmp:order_id not in self.commission_map': '(cm_absent e)',
                   'self.commission_map[order_id]': '(cm_read c e)', 'trade.last_price': 'price',
                   'trade.last_quantity': 'qty', 'self.commission_rate': '(sc_rate c)',
                   'self.commission_multiplier': '(sc_mult c)', 'self.min_commission': '(sc_min c)'},
            state={'self.commission_map[order_id]': 'e'})
    body = tr.block(f.body, {}, lambda env, r: '(%s, %s)' % (r, ('Some %s' % env['$e']) if '$e' in env else 'e'))
    out.append('Definition gen_trade_commission (c : scost) (e : cm_entry) (price qty : Q) : Q * cm_entry :=\n  %s.' % body)
    lemmas.append(('gen_trade_commission_eq', 'forall c e price qty, gen_trade_commission c e price qty = trade_commission c e price qty',
                   ('gen_trade_commission', 'trade_commission')))

    # --- _get_order_commission
    f = find_func(tree, 'StockTransactionCostDecider', '_get_order_commission')
    tr = Tr(names={'self.commission_rate': '(sc_rate c)', 'self.commission_multiplier': '(sc_mult c)',
                   'self.min_commission': '(sc_min c)', 'price': 'price', 'quantity': 'qty'})
    body = tr.block(f.body, {}, lambda env, r: r)
    out.append('Definition gen_order_commission (c : scost) (price qty : Q) : Q :=\n  %s.' % body)
    lemmas.append(('gen_order_commission_eq', 'forall c price qty, gen_order_commission c price qty = order_commission c price qty',
                   ('gen_order_commission', 'order_commission')))

    # --- CNStockTransactionCostDecider._get_tax
    f = find_func(tree, 'CNStockTransactionCostDecider', '_get_tax')
    tr = Tr(names={"cmp:instrument.type != 'CS'": '(negb is_cs)', 'cmp:side == SIDE.SELL': 'sell',
                   'self.tax_rate': '(sc_tax_rate c)', 'self.tax_multiplier': '(sc_tax_mult c)', 'cost_money': 'cost_money'},
            calls={'Environment.get_instance().get_instrument': lambda a, e, env: 'ins'})
    body = tr.block(f.body, {}, lambda env, r: r)
    out.append('Definition gen_stock_tax (c : scost) (is_cs sell : bool) (cost_money : Q) : Q :=\n  %s.' % body)
    lemmas.append(('gen_stock_tax_eq', 'forall c is_cs sell m, gen_stock_tax c is_cs sell m = stock_tax c is_cs sell m',
                   ('gen_stock_tax', 'stock_tax')))

    # --- get_trade_tax, get_order_transaction_cost (stock)
    f = find_func(tree, 'StockTransactionCostDecider', 'get_trade_tax')
    tr = Tr(names={'trade.order_book_id': 'oid', 'trade.side': 'side', 'trade.last_price': 'price', 'trade.last_quantity': 'qty'},
            calls={'self._get_tax': lambda a, e, env: '(stock_tax c is_cs sell %s)' % a[2]})
    body = tr.block(f.body, {}, lambda env, r: r)
    out.append('Definition gen_trade_tax (c : scost) (is_cs sell : bool) (price qty : Q) : Q :=\n  %s.' % body)
    lemmas.append(('gen_trade_tax_eq', 'forall c is_cs sell p q, gen_trade_tax c is_cs sell p q = trade_tax c is_cs sell p q',
                   ('gen_trade_tax', 'trade_tax')))
    f = find_func(tree, 'StockTransactionCostDecider', 'get_order_transaction_cost')
    tr = Tr(names={'order.order_book_id': 'oid', 'order.side': 'side', 'order.frozen_price': 'price', 'order.quantity': 'qty'},
            calls={'self._get_tax': lambda a, e, env: '(stock_tax c is_cs sell %s)' % a[2],
                   'self._get_order_commission': lambda a, e, env: '(order_commission c %s %s)' % (a[2], a[3])})
    body = tr.block(f.body, {}, lambda env, r: r)
    out.append('Definition gen_order_cost (c : scost) (is_cs sell : bool) (price qty : Q) : Q :=\n  %s.' % body)
    lemmas.append(('gen_order_cost_eq', 'forall c is_cs sell p q, gen_order_cost c is_cs sell p q = order_cost c is_cs sell p q',
                   ('gen_order_cost', 'order_cost')))

    # --- set_tax_rate + constants
    change = None
    for n in tree.body:
        if isinstance(n, ast.Assign) and ast.unparse(n.targets[0]) == 'STOCK_PIT_TAX_CHANGE_DATE':
            c = n.value
            if not (isinstance(c, ast.Call) and ast.unparse(c.func) == 'datetime' and len(c.args) == 3
                    and all(isinstance(a, ast.Constant) for a in c.args)):
                raise Unsupported('STOCK_PIT_TAX_CHANGE_DATE = %s' % ast.unparse(c))
            change = c.args[0].value * 10000 + c.args[1].value * 100 + c.args[2].value
    if change is None:
        raise Unsupported('STOCK_PIT_TAX_CHANGE_DATE missing')
    f = find_func(tree, 'CNStockTransactionCostDecider', 'set_tax_rate')
    tr = Tr(names={'cmp:event.trading_dt < STOCK_PIT_TAX_CHANGE_DATE': '(d <? %d)%%Z' % change}, state={'self.tax_rate': 'tax'})
    body = tr.block(f.body, {}, lambda env, r: env['$tax'])
    out.append('Definition gen_pit_tax_rate (d : Z) : Q :=\n  %s.' % body)
    lemmas.append(('gen_pit_tax_rate_eq', 'forall d, gen_pit_tax_rate d = pit_tax_rate d', ('gen_pit_tax_rate', 'pit_tax_rate')))
    f = find_func(tree, 'CNStockTransactionCostDecider', '__init__')
    rate = tax0 = None
    pit_listener = False
    for s in ast.walk(f):
        if isinstance(s, ast.Call) and ast.unparse(s.func).endswith('.__init__') and s.args:
            if not isinstance(s.args[0], ast.Constant):
                raise Unsupported('stock commission rate is not a literal')
            rate = s.args[0].value
        if isinstance(s, ast.Assign) and ast.unparse(s.targets[0]) == 'self.tax_rate':
            if not isinstance(s.value, ast.Constant):
                raise Unsupported('initial tax rate is not a literal')
            tax0 = s.value.value
        if isinstance(s, ast.If) and ast.unparse(s.test) == 'pit_tax':
            pit_listener = 'EVENT.PRE_BEFORE_TRADING' in ast.unparse(s) and 'self.set_tax_rate' in ast.unparse(s)
    if rate is None or tax0 is None or not pit_listener:
        raise Unsupported('CNStockTransactionCostDecider.__init__ shape changed')
    out.append('Definition gen_cn_stock_rate : Q := %s.\nDefinition gen_cn_init_tax_rate : Q := %s.' % (qlit(rate), qlit(tax0)))
    out.append('Lemma gen_cn_consts_eq : gen_cn_stock_rate = cn_stock_rate /\\ gen_cn_init_tax_rate = cn_init_tax_rate.\nProof. split; reflexivity. Qed.')

    # --- CNFutureTransactionCostDecider._get_commission
    f = find_func(tree, 'CNFutureTransactionCostDecider', '_get_commission')
    tr = Tr(names={'cmp:info.commission_type == COMMISSION_TYPE.BY_MONEY': '(fc_by_money f)',
                   'cmp:position_effect == POSITION_EFFECT.OPEN': 'is_open',
                   'self.env.get_instrument(order_book_id).contract_multiplier': '(fc_mult f)',
                   'info.open_commission_ratio': '(fc_open f)', 'info.close_commission_ratio': '(fc_close f)',
                   'info.close_commission_today_ratio': '(fc_close_today f)', 'self.commission_multiplier': '(fc_cmult f)',
                   'price': 'price', 'quantity': 'qty', 'close_today_quantity': 'ct'},
            calls={'self.env.data_proxy.get_futures_trading_parameters': lambda a, e, env: 'info'})
    body = tr.block(f.body, {}, lambda env, r: r)
    out.append('Definition gen_fut_commission (f : fcost) (is_open : bool) (price qty ct : Q) : Q :=\n  %s.' % body)
    lemmas.append(('gen_fut_commission_eq', 'forall f o p q ct, gen_fut_commission f o p q ct = fut_commission f o p q ct',
                   ('gen_fut_commission', 'fut_commission')))
    # --- futures get_order_transaction_cost / get_trade_commission
    f = find_func(tree, 'CNFutureTransactionCostDecider', 'get_order_transaction_cost')
    tr = Tr(names={'cmp:order.position_effect == POSITION_EFFECT.CLOSE_TODAY': 'is_ct', 'order.quantity': 'qty',
                   'order.frozen_price': 'price', 'order.order_book_id': 'oid', 'order.position_effect': 'eff',
                   'order.trading_datetime.date()': 'dt'},
            calls={'self._get_commission': lambda a, e, env: '(fut_commission f is_open %s %s %s)' % (a[2], a[3], a[4])})
    body = tr.block(f.body, {}, lambda env, r: r)
    out.append('Definition gen_fut_order_cost (f : fcost) (is_open is_ct : bool) (price qty : Q) : Q :=\n  %s.' % body)
    lemmas.append(('gen_fut_order_cost_eq', 'forall f o t p q, gen_fut_order_cost f o t p q = fut_order_cost f o t p q',
                   ('gen_fut_order_cost', 'fut_order_cost')))
    f = find_func(tree, 'CNFutureTransactionCostDecider', 'get_trade_commission')
    tr = Tr(names={'trade.order_book_id': 'oid', 'trade.position_effect': 'eff', 'trade.last_price': 'price',
                   'trade.last_quantity': 'qty', 'trade.close_today_amount': 'ct', 'trade.trading_datetime.date()': 'dt'},
            calls={'self._get_commission': lambda a, e, env: '(fut_commission f is_open %s %s %s)' % (a[2], a[3], a[4])})
    body = tr.block(f.body, {}, lambda env, r: r)
    out.append('Definition gen_fut_trade_commission (f : fcost) (is_open : bool) (price qty ct : Q) : Q :=\n  %s.' % body)
    lemmas.append(('gen_fut_trade_commission_eq', 'forall f o p q ct, gen_fut_trade_commission f o p q ct = fut_commission f o p q ct',
                   ('gen_fut_trade_commission', 'fut_commission')))
    f = find_func(tree, 'CNFutureTransactionCostDecider', 'get_trade_tax')
    if ast.unparse(f.body[-1]) != 'return 0':
        raise Unsupported('futures get_trade_tax is no longer 0')

    for name, stmt, (g, m) in lemmas:
        out.append('Lemma %s : %s.\n%s' % (name, stmt, EQ_PROOF % (g, m)))
    return '\n'.join(out) + '\n', [l[0] for l in lemmas] + ['gen_cn_consts_eq']
