# -*- coding: utf-8 -*-
"""trading_dates_mixin.py, the daily window of data_source.history_bars, api_base.history_bars' end date and
adjust._factor_for_date  ->  coq/Gen/Calendar.v   (Tie A for C20, used by C07 C17)"""
import ast
import os

from .pyq import Tr, Unsupported, find_func, EQ_PROOF

MIXIN = 'rqalpha/data/trading_dates_mixin.py'
DS = 'rqalpha/data/base_data_source/data_source.py'
API = 'rqalpha/apis/api_base.py'
ADJ = 'rqalpha/data/base_data_source/adjust.py'


def ss_handler(listname):
    def h(args, e, env):
        side = 'left'
        for kw in e.keywords:
            if kw.arg == 'side' and isinstance(kw.value, ast.Constant):
                side = kw.value.value
            else:
                raise Unsupported('searchsorted keyword %s' % kw.arg)
        if side not in ('left', 'right') or len(e.args) != 1:
            raise Unsupported('searchsorted call %s' % ast.unparse(e))
        return '(%s %s %s)' % ('cnt_le' if side == 'right' else 'cnt_lt', args[0], listname)
    return h


def sub_handler(listname):
    def h(e, env, tr):
        sl = e.slice
        if isinstance(sl, ast.Slice):
            if sl.step is not None:
                raise Unsupported('slice step')
            lo = tr.expr(sl.lower, env) if sl.lower is not None else '0'
            if sl.upper is None:
                raise Unsupported('open slice')
            return '(slicez %s %s %s)' % (lo, tr.expr(sl.upper, env), listname)
        if isinstance(sl, ast.UnaryOp) and isinstance(sl.op, ast.USub) and isinstance(sl.operand, ast.Constant) and sl.operand.value == 1:
            return '(lastz %s)' % listname
        return '(nthz %s %s)' % (tr.expr(sl, env), listname)
    return h


def mixin_tr():
    return Tr(zmode=True,
              names={'n': 'n'},
              calls={'trading_dates.searchsorted': ss_handler('cal'), 'sub:trading_dates': sub_handler('cal'),
                     'self.get_trading_calendar': lambda a, e, env: 'cal', '_to_timestamp': lambda a, e, env: a[0],
                     'len': lambda a, e, env: '(lenz %s)' % a[0]})


def generate(repo):
    out = ['(* generated from %s, %s, %s, %s -- do not edit *)' % (MIXIN, DS, API, ADJ),
           'From RQ Require Import Model.Num Model.Calendar.', 'Open Scope Z_scope.', '']
    lemmas = []
    tree = ast.parse(open(os.path.join(repo, MIXIN)).read())
    specs = [('get_previous_trading_date', 'gen_prev_trading_date', 'prev_trading_date', '(cal : list Z) (date n : Z) : Z', 'cal date n'),
             ('get_next_trading_date', 'gen_next_trading_date', 'next_trading_date', '(cal : list Z) (date n : Z) : Z', 'cal date n'),
             ('get_trading_dates', 'gen_trading_dates', 'trading_dates', '(cal : list Z) (start_date end_date : Z) : list Z', 'cal start_date end_date'),
             ('count_trading_dates', 'gen_count_trading_dates', 'count_trading_dates', '(cal : list Z) (start_date end_date : Z) : Z', 'cal start_date end_date'),
             ('get_n_trading_dates_until', 'gen_n_trading_dates_until', 'n_trading_dates_until', '(cal : list Z) (dt n : Z) : list Z', 'cal dt n')]
    for pyname, gname, mname, sig, args in specs:
        f = find_func(tree, 'TradingDatesMixin', pyname)
        tr = mixin_tr()
        env = {a.arg: a.arg for a in f.args.args if a.arg not in ('self', 'trading_calendar_type')}
        env['trading_dates'] = 'cal'
        body = tr.block(f.body, env, lambda env, r: r)
        out.append('Definition %s %s :=\n  %s.' % (gname, sig, body))
        lemmas.append((gname + '_eq', 'forall %s, %s %s = %s %s' % (args, gname, args, mname, args), (gname, mname)))

    # ---- the daily window of BaseDataSource.history_bars
    tree = ast.parse(open(os.path.join(repo, DS)).read())
    f = find_func(tree, 'BaseDataSource', 'history_bars')
    idx = None
    for k, s in enumerate(f.body):
        if ast.unparse(s) == 'dt = np.uint64(convert_date_to_int(dt))':
            idx = k
    if idx is None or idx + 3 >= len(f.body):
        raise Unsupported('history_bars daily window statements not found')
    stmts = f.body[idx + 1: idx + 4]
    if ast.unparse(stmts[2]) != 'bars = bars[left:i]':
        raise Unsupported('history_bars daily window: %s' % ast.unparse(stmts[2]))
    tr = Tr(zmode=True, calls={"bars['datetime'].searchsorted": ss_handler('dts')})
    env = {'dt': 'dt', 'bar_count': 'bar_count'}
    env['i'] = tr.expr(stmts[0].value, env)
    if not (isinstance(stmts[0], ast.Assign) and ast.unparse(stmts[0].targets[0]) == 'i' and isinstance(stmts[1], ast.Assign) and ast.unparse(stmts[1].targets[0]) == 'left'):
        raise Unsupported('history_bars daily window shape')
    env['left'] = tr.expr(stmts[1].value, env)
    out.append('Definition gen_window_bounds (dts : list Z) (dt bar_count : Z) : Z * Z :=\n  (%s, %s).' % (env['left'], env['i']))
    lemmas.append(('gen_window_bounds_eq', 'forall dts dt n, gen_window_bounds dts dt n = window_bounds dts dt n', ('gen_window_bounds', 'window_bounds')))
    # the suspended-day filter
    f2 = find_func(tree, 'BaseDataSource', '_filtered_day_bars')
    if ast.unparse(f2.body[-1]) != "return bars[bars['volume'] > 0]":
        raise Unsupported('_filtered_day_bars: %s' % ast.unparse(f2.body[-1]))
    cond = [s for s in f.body if isinstance(s, ast.If) and ast.unparse(s.test) == "skip_suspended and instrument.type == 'CS'"]
    if not cond or ast.unparse(cond[0].body[0]) != 'bars = self._filtered_day_bars(instrument)':
        raise Unsupported('history_bars: suspended filter condition changed')

    # ---- api_base.history_bars : end date by phase
    tree = ast.parse(open(os.path.join(repo, API)).read())
    f = find_func(tree, None, 'history_bars')
    blk = [s for s in f.body if isinstance(s, ast.If) and ast.unparse(s.test) == "frequency == '1d'"]
    if len(blk) != 1:
        raise Unsupported('api history_bars: 1d block not found')
    tr = Tr(names={"cmp:sys_frequency in ['1m', 'tick']": 'sys_minute', 'include_now': 'include_now',
                   'cmp:ExecutionContext.phase() != EXECUTION_PHASE.AFTER_TRADING': '(negb (match ph with HAfterTrading => true | _ => false end))',
                   'cmp:ExecutionContext.phase() in (EXECUTION_PHASE.BEFORE_TRADING, EXECUTION_PHASE.OPEN_AUCTION)': '(match ph with HBeforeTrading | HOpenAuction => true | _ => false end)',
                   "cmp:sys_frequency == '1d'": '(negb sys_minute)',
                   'Environment.get_instance().config.base.frequency': 'SYSFREQ'},
            state={'dt': 'dt', 'include_now': 'inc'},
            calls={'env.data_proxy.get_previous_trading_date': lambda a, e, env: 'prev_trading_dt'})
    # assignments to the plain names dt / include_now are tracked as state
    body = blk[0].body
    env = {'$dt': 'calendar_dt', '$inc': 'include_now', 'sys_frequency': 'SYSFREQ'}
    body = [s for s in body if not (isinstance(s, ast.Assign) and ast.unparse(s.targets[0]) == 'sys_frequency')]
    # Tr stores plain names in env directly; map them through the state table by renaming
    class T2(Tr):
        def _store(self, target, value, env):
            txt = ast.unparse(target)
            if txt in self.state:
                env['$' + self.state[txt]] = value
            else:
                Tr._store(self, target, value, env)
    tr.__class__ = T2
    text = tr.block(body, env, lambda env, r: '(%s, %s)' % (env['$dt'], env['$inc']))
    out.append('Open Scope Q_scope.')
    out.append('Definition gen_history_end (sys_minute include_now : bool) (ph : hphase) (calendar_dt prev_trading_dt : Z) : Z * bool :=\n  %s.' % text)
    out.append('Lemma gen_history_end_eq : forall m i ph c p, gen_history_end m i ph c p = history_end m i ph c p.\n'
               'Proof. intros m i ph c p. unfold gen_history_end, history_end. destruct m, i, ph; reflexivity. Qed.')
    out.append('Close Scope Q_scope.')
    # ---- weekly frequency: the end date while today's bar is incomplete
    wk = [s for s in f.body if isinstance(s, ast.If) and ast.unparse(s.test).startswith("frequency == '1w'")]
    if len(wk) != 1 or [ast.unparse(x) for x in wk[0].body] != ['dt = env.data_proxy.get_previous_trading_date(env.trading_dt.date())'] or wk[0].orelse:
        raise Unsupported('api history_bars: weekly end-date block not found or changed')
    trw = Tr(names={"cmp:frequency == '1w'": 'true', 'include_now': 'include_now',
                    'cmp:ExecutionContext.phase() in (EXECUTION_PHASE.BEFORE_TRADING, EXECUTION_PHASE.OPEN_AUCTION)': '(pre_open ph)',
                    "cmp:env.config.base.frequency in ['1m', 'tick']": 'sys_minute',
                    'cmp:ExecutionContext.phase() != EXECUTION_PHASE.AFTER_TRADING': '(negb (after_close ph))'})
    out.append('Definition gen_weekly_history_end (sys_minute include_now : bool) (ph : hphase) (calendar_dt prev_trading_dt : Z) : Z :=\n'
               '  if %s then prev_trading_dt else calendar_dt.' % trw.expr(wk[0].test, {}))
    out.append('Lemma gen_weekly_history_end_eq : forall m i ph c p, gen_weekly_history_end m i ph c p = weekly_history_end m i ph c p.\n'
               'Proof. intros m i ph c p. unfold gen_weekly_history_end, weekly_history_end. destruct m, i, ph; reflexivity. Qed.')
    # the weekly block must come before the call and after the daily block (dt is what the call passes on)
    # ---- BarObject.mavg / vwap: the end of the averaged window
    btree = ast.parse(open(os.path.join(repo, 'rqalpha/model/bar.py')).read())
    ends = []
    for nm in ('mavg', 'vwap'):
        fb = find_func(btree, 'BarObject', nm)
        ifs = [s for s in fb.body if isinstance(s, ast.If) and [ast.unparse(x) for x in s.body] == ['dt = env.data_proxy.get_previous_trading_date(env.calendar_dt.date())']]
        pre = [ast.unparse(s) for s in fb.body if isinstance(s, ast.Assign) and ast.unparse(s.targets[0]) == 'dt']
        if len(ifs) != 1 or pre != ['dt = env.calendar_dt']:
            raise Unsupported('BarObject.%s: end-date block not found or changed' % nm)
        trm = Tr(names={"cmp:env.config.base.frequency == '1m'": 'sys_minute', "cmp:frequency == '1d'": 'daily',
                        'cmp:ExecutionContext.phase() == EXECUTION_PHASE.BEFORE_TRADING': '(match ph with HBeforeTrading => true | _ => false end)',
                        'cmp:ExecutionContext.phase() == EXECUTION_PHASE.OPEN_AUCTION': '(match ph with HOpenAuction => true | _ => false end)'})
        ends.append(trm.expr(ifs[0].test, {}))
    if ends[0] != ends[1]:
        raise Unsupported('BarObject.mavg and vwap end their windows differently')
    out.append('Definition gen_mavg_end (sys_minute daily : bool) (ph : hphase) (calendar_dt prev_trading_dt : Z) : Z :=\n'
               '  if %s then prev_trading_dt else calendar_dt.' % ends[0])
    out.append('Lemma gen_mavg_end_eq : forall m d ph c p, gen_mavg_end m d ph c p = mavg_end m d ph c p.\n'
               'Proof. intros m d ph c p. unfold gen_mavg_end, mavg_end. destruct m, d, ph; reflexivity. Qed.')
    # the call passes adjust_orig=env.trading_dt and dt / include_now on
    call = f.body[-1]
    if not (isinstance(call, ast.Return) and 'adjust_orig=env.trading_dt' in ast.unparse(call) and 'include_now=include_now' in ast.unparse(call)):
        raise Unsupported('api history_bars: final call changed: %s' % ast.unparse(call)[:120])

    # ---- adjust._factor_for_date
    tree = ast.parse(open(os.path.join(repo, ADJ)).read())
    f = find_func(tree, None, '_factor_for_date')
    src = [ast.unparse(s) for s in f.body]
    if src != ['pos = bisect_right(dates, d)', 'return factors[pos - 1]']:
        raise Unsupported('_factor_for_date changed: %s' % src)
    pf = [n for n in tree.body if isinstance(n, ast.Assign) and ast.unparse(n.targets[0]) == 'PRICE_FIELDS']
    if not pf or sorted(ast.literal_eval(pf[0].value)) != sorted(['open', 'close', 'high', 'low', 'limit_up', 'limit_down', 'acc_net_value', 'unit_net_value']):
        raise Unsupported('PRICE_FIELDS changed')

    for name, stmt, (g, m) in lemmas:
        out.append('Lemma %s : %s.\n%s' % (name, stmt, EQ_PROOF % (g, m)))
    return '\n'.join(out) + '\n', [l[0] for l in lemmas] + ['gen_history_end_eq', 'gen_weekly_history_end_eq', 'gen_mavg_end_eq']
