# -*- coding: utf-8 -*-
"""C08 Trading-day lifecycle and clocks: each phase once, in order, settled once."""
import datetime
import random

from checks import acct_prop
from checks.acct import Ctx, dint_of
from harness import scenario, steps, world as W
from lib.core import zlit, blit

PRELUDE = 'From RQ Require Import Model.Num Model.Calendar Model.EventLoop Model.Check.\nOpen Scope Z_scope.\n'
CORE = {'BEFORE_TRADING': 'PBeforeTrading', 'OPEN_AUCTION': 'POpenAuction', 'BAR': 'PBar', 'AFTER_TRADING': 'PAfterTrading', 'SETTLEMENT': 'PSettlement'}
ORDER_OPS = ('order_shares', 'order_lots', 'order_value', 'order_percent', 'order_target_value', 'order_target_percent', 'order', 'order_to',
             'submit_order', 'buy_open', 'sell_open', 'buy_close', 'sell_close')


def gen(rng, tier):
    freq = '1m' if rng.random() < 0.35 else '1d'
    wo = dict(ndays=rng.randint(6, 30) if freq == '1d' else rng.randint(4, 8), holiday_p=rng.choice([0, 0.15, 0.3]), gap_p=rng.choice([0, 0.05]),
              actions=False, expiry=False, start=rng.choice([datetime.date(2020, 1, 2), datetime.date(2020, 4, 28)]))
    leaving = freq == '1d' and rng.random() < 0.35
    if leaving:
        # instruments that leave the market inside the range (a de-listed stock, an expiring contract) while they are in the universe
        wo.update(delist=True, expiry=True, ndays=rng.randint(9, 20))
    scn = scenario.gen_trading(rng, dict(freq=freq, world=wo, flows=False, stocks=rng.randint(1, 2), futures=rng.random() < 0.4, p_cancel=0.05,
                                         actions_per_phase=(0, 0, 1, 2)))
    if leaving and scn['meta']['active_stocks']:
        scn['universe'] = sorted(set((scn.get('universe') or []) + list(scn['meta']['active_stocks']) + [W.STOCKS[2]] + list(W.FUTS)))
    w = W.gen_world(random.Random(scn['world_seed']), scn['world_opts'])
    days = w.days
    nd = len(days)
    # ranges starting / ending on non-trading days, single-day ranges
    r = rng.random()
    if r < 0.25:
        i = rng.randint(1, nd - 2)
        scn['start_i'] = scn['end_i'] = i
    else:
        a = rng.randint(1, max(1, nd // 2))
        b = rng.randint(a, nd - 2)
        scn['start_i'], scn['end_i'] = a, b
    if rng.random() < 0.5:
        scn['start_date'] = str(days[scn['start_i']] - datetime.timedelta(days=rng.randint(0, 2)))
        scn['end_date'] = str(days[scn['end_i']] + datetime.timedelta(days=rng.randint(0, 2)))
        if datetime.date.fromisoformat(scn['start_date']) <= days[0]:
            scn['start_date'] = str(days[1])
        if datetime.date.fromisoformat(scn['end_date']) >= days[-1]:
            scn['end_date'] = str(days[-2])
    script = {k: v for k, v in scn['script'].items() if scn['start_i'] <= int(k.split('|')[0]) <= scn['end_i']}
    stocks, futs = scn['meta']['active_stocks'], scn['meta']['futs']
    ids = stocks + futs
    # order-placing calls in the phases where they must be refused
    for i in range(scn['start_i'], scn['end_i'] + 1):
        for ph in ('before_trading', 'after_trading'):
            if rng.random() < 0.3:
                oid = rng.choice(ids)
                act = scenario.future_action(rng, oid) if oid in W.FUTS else scenario.stock_action(rng, oid)
                script.setdefault('%d|%s|0' % (i, ph), []).append(act)
        if freq == '1m' and rng.random() < 0.5:
            # universe changes in the middle of the day
            ks = [0, 29, 59, 119, 120, 179, 209, 239] if stocks and not futs else list(range(8))
            k = rng.choice(ks)
            pool = (W.STOCKS + [W.ETF]) if stocks and not futs else W.FUTS
            script.setdefault('%d|handle_bar|%d' % (i, k), []).append(dict(op=rng.choice(['subscribe', 'update_universe', 'unsubscribe']),
                                                                         ids=[rng.choice(pool)] if rng.random() < 0.7 else list(pool)))
    if rng.random() < 0.4:
        oid = rng.choice(ids)
        script.setdefault('-1|init|0', []).append(scenario.future_action(rng, oid) if oid in W.FUTS else scenario.stock_action(rng, oid))
    if rng.random() < 0.3:
        # handlers registered with subscribe_event that try to place an order: of the closed phases' events and their brackets, and of the order
        # events the broker raises from its own before_trading / after_trading processing (a limit order resting until the close)
        subs = []
        for _ in range(rng.randint(1, 3)):
            oid = rng.choice(ids)
            act = scenario.future_action(rng, oid) if oid in W.FUTS else scenario.stock_action(rng, oid)
            subs.append(dict(ev=rng.choice(['PRE_BEFORE_TRADING', 'BEFORE_TRADING', 'POST_BEFORE_TRADING', 'PRE_AFTER_TRADING', 'AFTER_TRADING', 'POST_AFTER_TRADING',
                                            'ORDER_UNSOLICITED_UPDATE', 'ORDER_UNSOLICITED_UPDATE', 'ORDER_CREATION_PASS', 'TRADE', 'PRE_SETTLEMENT', 'POST_SETTLEMENT']), acts=[act], every=1, max=rng.choice([3, 10])))
        scn['subs'] = subs
        rest = rng.choice(ids)
        for i in range(scn['start_i'], scn['end_i'] + 1):
            if rng.random() < 0.6:
                ks = [k for k in script if k.startswith('%d|handle_bar|' % i)]
                key = ks[0] if ks else '%d|handle_bar|0' % i
                script.setdefault(key, []).append(dict(op='buy_open', id=rest, amt=1, style=['lim', 0.93]) if rest in W.FUTS
                                                  else dict(op='order_shares', id=rest, amt=100, style=['lim', 0.93]))
    scn['script'] = script
    if rng.random() < 0.3:
        scn['callbacks'] = rng.sample(['before_trading', 'open_auction', 'handle_bar', 'after_trading'], rng.randint(1, 3))
    return scn


def mins(s):
    return int(s[11:13]) * 60 + int(s[14:16])


def analyse(scn, out):
    cx = Ctx(scn, out)
    trace = cx.trace
    cal = [W.dint(d) for d in cx.days]
    daily = cx.cfg['base']['frequency'] == '1d'
    sd = int(out['cfg']['base']['start_date'].replace('-', ''))
    ed = int(out['cfg']['base']['end_date'].replace('-', ''))
    exp_days = [d for d in cal if sd <= d <= ed]
    pubs = []          # published core events
    seq = []           # all phase events incl PRE_/POST_
    last_clock = None
    universe_changes = {}
    for m in trace:
        if m['k'] == 'ev0':
            ev = m['ev']
            base = ev[4:] if ev.startswith('PRE_') else (ev[5:] if ev.startswith('POST_') else ev)
            if base in CORE:
                seq.append((ev, m['snap']['cal']))
            if ev in CORE:
                d = dint_of(m['snap']['trd'])
                pubs.append((ev, d, mins(m['snap']['cal'])))
            if ev == 'POST_UNIVERSE_CHANGED' and m['snap'].get('phase') in ('ON_BAR', 'SCHEDULED'):
                universe_changes.setdefault(dint_of(m['snap']['trd']), []).append(mins(m['snap']['cal']))
        clock = (m['snap']['cal'], m['snap']['trd'])
        if last_clock and (clock[0] < last_clock[0] or clock[1] < last_clock[1]):
            cx.hit('C08.clock_backwards', dict(kind=m['k']), dict(before=last_clock, after=clock, mark=m.get('ev') or m.get('ph')))
        last_clock = clock
    # ---- correspondence
    if pubs or exp_days:
        obs = '[%s]' % '; '.join(('PSettlement %s' % zlit(d)) if ev == 'SETTLEMENT' else '%s %s %s' % (CORE[ev], zlit(d), zlit(t)) for ev, d, t in pubs)
        if daily:
            cx.case('lifecycle.daily', 'chk_daily_run [%s]%%Z %s %s %s' % ('; '.join(str(x) for x in cal), zlit(sd), zlit(ed), obs),
                    dict(start=sd, end=ed, n_events=len(pubs), days=exp_days[:3]))
        else:
            fut_only = 'future' in cx.cfg['base']['accounts'] and 'stock' not in cx.cfg['base']['accounts']
            dl = []
            for d in exp_days:
                if fut_only:
                    ms = sorted(set(int(str(b['datetime'])[8:10]) * 60 + int(str(b['datetime'])[10:12]) for oid in W.FUTS for b in (cx.w.minutes or {}).get(oid, []) if b['datetime'] // 1000000 == d))
                else:
                    ms = list(range(571, 691)) + list(range(781, 901))
                    if 'future' in cx.cfg['base']['accounts']:
                        ms = None      # mixed accounts: the union of sessions depends on the subscribed contracts; monitors only
                if ms is None:
                    dl = None
                    break
                # a change during bar m is found pending at the next minute
                chg = []
                for c in sorted(set(universe_changes.get(d, []))):
                    nxt = [x for x in ms if x > c]
                    if nxt:
                        chg.append(nxt[0])
                dl.append('(%s, [%s]%%Z, [%s]%%Z)' % (zlit(d), '; '.join(str(x) for x in ms), '; '.join(str(x) for x in sorted(set(chg)))))
            if dl is not None:
                cx.case('lifecycle.minute', 'chk_minute_run [%s] %s %s' % ('; '.join(dl), zlit(exp_days[-1] if exp_days else 0), obs),
                        dict(start=sd, end=ed, n_events=len(pubs), universe_changes=universe_changes))
    # ---- monitors, straight from the property text
    days_seen = []
    for ev, d, t in pubs:
        if ev == 'BEFORE_TRADING':
            days_seen.append(d)
    if days_seen != exp_days:
        cx.hit('C08.days', dict(missing=len(set(exp_days) - set(days_seen)), extra=len(set(days_seen) - set(exp_days)), dup=len(days_seen) != len(set(days_seen))),
               dict(seen=days_seen, expected=exp_days, start=sd, end=ed))
    # per day shape of the published events
    by_day = {}
    for ev, d, t in pubs:
        by_day.setdefault(d, []).append((ev, t))
    for d, evs in by_day.items():
        names = [e for e, _ in evs]
        core = [n for n in names if n != 'SETTLEMENT']
        ok = len(core) >= 4 and core[0] == 'BEFORE_TRADING' and core[1] == 'OPEN_AUCTION' and core[-1] == 'AFTER_TRADING' and all(n == 'BAR' for n in core[2:-1]) and len(core) >= 4
        if not ok:
            cx.hit('C08.shape', dict(seq=' '.join(n[:2] for n in core)[:60]), dict(day=d, events=names[:12]))
        bars = [t for e, t in evs if e == 'BAR']
        if any(b <= a for a, b in zip(bars, bars[1:])):
            cx.hit('C08.bars_not_increasing', {}, dict(day=d, bars=bars))
        if names.count('SETTLEMENT') != 1 or names[-1] != 'SETTLEMENT':
            cx.hit('C08.settlement', dict(count=names.count('SETTLEMENT'), last=names[-1]), dict(day=d, events=names[-6:]))
    cx.keys.add(repr(('L', daily, len(exp_days) if len(exp_days) < 3 else 3, bool(scn.get('start_date')), bool(universe_changes), tuple(sorted(scn.get('callbacks', ['all']))))))
    # strategy callbacks: exactly one before_trading, one open_auction, bars, one after_trading per day and in this order
    cbs = scn.get('callbacks', ['before_trading', 'open_auction', 'handle_bar', 'after_trading'])
    per = {}
    for m in trace:
        if m['k'] == 'user0' and m['ph'] in ('before_trading', 'open_auction', 'handle_bar', 'after_trading'):
            per.setdefault(dint_of(m['snap']['trd']), []).append(m['ph'])
    order = {'before_trading': 0, 'open_auction': 1, 'handle_bar': 2, 'after_trading': 3}
    for d in exp_days:
        got = per.get(d, [])
        for ph in ('before_trading', 'open_auction', 'after_trading'):
            if ph in cbs and got.count(ph) != 1:
                cx.hit('C08.callback_count', dict(ph=ph, n=got.count(ph)), dict(day=d, callbacks=got[:10]))
        if 'handle_bar' in cbs and got.count('handle_bar') < 1:
            cx.hit('C08.callback_count', dict(ph='handle_bar', n=0), dict(day=d, callbacks=got[:10]))
        if [order[p] for p in got] != sorted(order[p] for p in got):
            cx.hit('C08.callback_order', {}, dict(day=d, callbacks=got[:12]))
    for d in per:
        if d not in exp_days:
            cx.hit('C08.callback_outside_range', {}, dict(day=d))
    # brackets: PRE_E, E, POST_E consecutively
    i = 0
    while i < len(seq):
        ev = seq[i][0]
        if ev.startswith('PRE_'):
            base = ev[4:]
            if not (i + 2 < len(seq) and seq[i + 1][0] == base and seq[i + 2][0] == 'POST_' + base):
                cx.hit('C08.brackets', dict(event=base), dict(around=[x[0] for x in seq[max(0, i - 1):i + 4]]))
            i += 3
        else:
            cx.hit('C08.brackets', dict(event=ev, case='unbracketed'), dict(around=[x[0] for x in seq[max(0, i - 2):i + 3]]))
            i += 1
    # order-placing APIs are refused during init, before_trading and after_trading
    spans = steps.event_spans(trace)
    for i0, i1 in steps.api_spans(trace):
        m0, m1 = trace[i0], trace[i1]
        if m0['act']['op'] in ORDER_OPS and m0['ph'] in ('init', 'before_trading', 'after_trading'):
            inner = [n for a, b, n in spans if i0 < a < i1]
            exc = m1.get('exc')
            refused = bool(exc) and 'You cannot call' in (exc.get('msg') or '')
            cx.keys.add(repr(('REFUSE', m0['ph'], m0['act']['op'])))
            if not refused or any(n.startswith('ORDER') or n == 'TRADE' for n in inner):
                cx.hit('C08.order_not_refused', dict(op=m0['act']['op'], ph=m0['ph']), dict(act=m0['act'], exc=exc, events=inner[:6], ret=m1.get('ret')))
    # ... also from a handler registered with subscribe_event: no order may come into being while a BEFORE_TRADING / AFTER_TRADING event (or one of
    # its brackets) is being published
    closed = None
    for m in trace:
        if m['k'] == 'ev0' and m['ev'] in ('PRE_BEFORE_TRADING', 'BEFORE_TRADING', 'POST_BEFORE_TRADING', 'PRE_AFTER_TRADING', 'AFTER_TRADING', 'POST_AFTER_TRADING',
                                          'PRE_SETTLEMENT', 'SETTLEMENT', 'POST_SETTLEMENT'):
            closed = m['ev']
        elif m['k'] == 'ev1' and m['ev'] == closed:
            closed = None
        elif m['k'] == 'ev0' and closed and (m['ev'] == 'ORDER_PENDING_NEW' or (m['ev'] == 'TRADE' and ((m.get('payload') or {}).get('trade') or {}).get('order_id') is not None)):
            # (the engine's own trades at settlement / before the open - expiry, delisting, reinvestment - carry no order)
            cx.hit('C08.order_not_refused', dict(op='handler', ph=closed), dict(event=m['ev'], during=closed, dt=m['snap']['cal'], payload=m.get('payload')))
    if scn.get('subs'):
        cx.keys.add(repr(('SUBS', tuple(sorted(set(x['ev'] for x in scn['subs']))))))
    return cx


globals().update(acct_prop.make(
    'C08', components=['lifecycle.'], clauses=['C08.'], gen=gen, analyser=analyse, prelude=PRELUDE,
    coq=['Model/Calendar.v', 'Model/EventLoop.v', 'Model/Phases.v', 'Proofs/CalendarFacts.v', 'Proofs/EventLoopFacts.v', 'Proofs/PhasesFacts.v', 'Gen/ApiPhases.v', 'Gen/Listeners.v'], gen_mods=['ApiPhases', 'Listeners'],
    rule=('random calendars (holidays, gaps), single-day ranges, ranges starting / ending on non-trading days, daily and minute frequency (stock: 240 '
          'bars a day, futures: the data source\'s minutes), strategies with any subset of callbacks, universe changes in the middle of the day, universes whose members are de-listed / expire inside the range, '
          'order calls in init / before_trading / after_trading and from handlers of those phases\' events and of the order events the broker raises while it processes them; a case is one whole run: the published BEFORE_TRADING / OPEN_AUCTION / BAR / '
          'AFTER_TRADING / SETTLEMENT sequence with its clocks replayed through Model/EventLoop.v; distinct non-trivial = distinct (frequency x '
          'range length x off-calendar bounds x universe changes x callback subset) classes plus refused (phase x API) pairs'),
    assumptions=['minute runs with a stock and a futures account together are covered by the monitors only (the union of sessions is data dependent)']))
COQ = [c for c in COQ if not c.startswith(('Model/Position', 'Model/Account', 'Model/Reserve', 'Model/Closable', 'Model/Portfolio', 'Model/Costs', 'Proofs/Position', 'Proofs/Account'))]
