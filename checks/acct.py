# -*- coding: utf-8 -*-
"""Shared analysis of a recorded run for the accounting properties (C01 C02 C03 C09 C10 C12).

analyse(scn, out) cuts the trace into steps, emits
  * correspondence cases (Gallina boolean terms over Model/Check.v) tagged with a component, and
  * monitor hits: the property texts evaluated directly on the trace (independent of the Coq model).
Every property module keeps the components / clauses it owns.
"""
import math
from fractions import Fraction

from harness import steps, world as W
from lib.core import qlit, blit, olit, zlit

PRELUDE = 'From RQ Require Import Model.Num Model.Costs Model.Position Model.Account Model.AccountRun Model.Reserve Model.Closable Model.Portfolio Model.Check.\nOpen Scope Q_scope.\n'


class Skip(Exception):
    pass


def q(x):
    if x is None or (isinstance(x, float) and (math.isnan(x) or math.isinf(x))) or isinstance(x, str):
        raise Skip()
    return qlit(x)


def pos_lit(d, last_override=None):
    recv = d.get('recv')
    last = d['last'] if last_override is None else last_override
    return ('{| p_qty := %s; p_old := %s; p_lold := %s; p_avg := %s; p_trade_cost := %s; p_tcost := %s; p_non_closable := %s; p_last := %s; p_recv := %s |}'
            % (q(d['qty']), q(d['old']), q(d['lold']), q(d['avg']), q(d['trade_cost']), q(d['tcost']), q(d.get('non_closable') or 0.0),
               q(last), ('(Some (%s, %s))' % (zlit(recv[0]), q(recv[1]))) if recv else 'None'))


ZERO_POS = dict(qty=0.0, old=0.0, lold=0.0, avg=0.0, trade_cost=0.0, tcost=0.0, non_closable=0.0, last=0.0, recv=None)


def pcfg_lit(ins, dirname):
    fut = ins['kind'] == 'Future'
    return '{| pc_kind := %s; pc_long := %s; pc_mult := %s; pc_tplus := %s |}' % (
        'FuturePos' if fut else 'StockPos', blit(dirname == 'LONG'), q(ins['mult'] if fut else 1.0), blit(ins['tplus'] >= 1))


def eff_lit(e):
    return {'OPEN': 'Open', 'CLOSE': 'Close', 'CLOSE_TODAY': 'CloseToday'}[e]


def trade_lit(tr):
    return '{| t_effect := %s; t_price := %s; t_qty := %s; t_fee := %s |}' % (
        eff_lit(tr['eff']), q(tr['price']), q(tr['qty']), q(tr['commission'] + tr['tax']))


def pending_lit(l):
    return '[%s]' % '; '.join('(%s, %s)' % (zlit(d), q(x)) for d, x in l)


def close(a, b, tol=1e-7, scale=0.0):
    return steps.approx(a, b, tol, scale)


def dint_of(s):
    return int(s[:10].replace('-', ''))


class Ctx(object):
    def __init__(self, scn, out):
        self.scn = scn
        self.out = out
        self.w = out['world']
        self.cfg = scn['cfg']
        self.trace = out['trace']
        self.days = out['days']
        self.dints = [W.dint(d) for d in self.days]
        sa = self.cfg['mod']['sys_accounts']
        self.reinvest = bool(sa.get('dividend_reinvestment'))
        self.cash_return = bool(sa.get('cash_return_by_stock_delisted', True))
        self.t1 = bool(sa.get('stock_t1', True))
        self.settle_mode = sa.get('futures_settlement_price_type', 'close') == 'settlement'
        self.fin_rate = float(sa.get('financing_rate', 0))
        self.mm = float(self.cfg['base'].get('margin_multiplier', 1))
        self.forced = bool(self.cfg['base'].get('forced_liquidation', True))
        tc = self.cfg['mod']['sys_transaction_cost']
        self.smult, self.minc, self.taxm, self.fmult = (float(tc['stock_commission_multiplier']), float(tc['cn_stock_min_commission']),
                                                        float(tc['tax_multiplier']), float(tc['futures_commission_multiplier']))
        self.finfo = {f['underlying_symbol']: f for f in self.w.future_info}
        self.sim = self.cfg['mod']['sys_simulation']
        self.cases = []
        self.hits = []
        self.keys = set()
        self.stats = {}
        self.skipped = 0

    def ins(self, oid):
        return self.w.instruments[oid]

    def prev_day(self, d):
        i = self.dints.index(d)
        return self.dints[i - 1] if i > 0 else None

    def next_day(self, d):
        i = self.dints.index(d)
        return self.dints[i + 1] if i + 1 < len(self.dints) else None

    def case(self, comp, term, meta=None):
        m = dict(component=comp)
        if meta:
            m.update(meta)
        self.cases.append((term, m))
        self.stats['case_' + comp] = self.stats.get('case_' + comp, 0) + 1

    def hit(self, clause, sig, detail):
        self.hits.append(dict(clause=clause, sig=sig, detail=detail, scn=self.scn))

    def margin_rate(self, oid):
        return self.finfo[self.ins(oid)['und']]['margin_rate'] * self.mm

    def scost_lit(self, tax_rate):
        return '{| sc_rate := %s; sc_mult := %s; sc_min := %s; sc_tax_rate := %s; sc_tax_mult := %s |}' % (
            q(0.0008), q(self.smult), q(self.minc), q(tax_rate), q(self.taxm))

    def fcost_lit(self, oid):
        info = self.finfo[self.ins(oid)['und']]
        return '{| fc_by_money := %s; fc_mult := %s; fc_open := %s; fc_close := %s; fc_close_today := %s; fc_cmult := %s |}' % (
            blit(info['commission_type'] == 'by_money'), q(self.ins(oid)['mult']), q(info['open_commission_ratio']),
            q(info['close_commission_ratio']), q(info['close_commission_today_ratio']), q(self.fmult))


# --------------------------------------------------------------------------------------------------
def trade_steps(cx):
    for t in steps.trades(cx.trace):
        tr = t['trade']
        acc = t['acc']
        if not acc or acc not in (t['pre'].get('acc') or {}):
            continue
        ins = cx.ins(tr['oid'])
        fut = ins['kind'] == 'Future'
        a0, a1 = t['pre']['acc'][acc], t['post']['acc'][acc]
        p1 = a1['pos'].get(tr['oid'], {}).get(tr['dir'])
        p0 = a0['pos'].get(tr['oid'], {}).get(tr['dir'])
        if p1 is None:
            continue
        if p0 is None:
            p0 = dict(ZERO_POS, last=p1['last'], recv=None)
        o = t['order'] if tr['order_id'] is not None else None
        try:
            ordlit = '(Some (%s, %s))' % (q(o['qty']), q(o['reserve'])) if o else 'None'
            term = 'chk_trade %s %s %s %s %s %s %s %s %s' % (pcfg_lit(ins, tr['dir']), pos_lit(p0), trade_lit(tr), ordlit,
                                                          q(a0['total_cash']), q(a0['frozen']), pos_lit(p1), q(a1['total_cash']), q(a1['frozen']))
            cx.case('trade.future' if fut else 'trade.stock', term, dict(trade=tr, pre=p0, post=p1, order=o,
                                                                         cash=(a0['total_cash'], a1['total_cash']), frozen=(a0['frozen'], a1['frozen'])))
        except Skip:
            cx.skipped += 1
        cx.keys.add(repr(('T', ins['kind'], tr['eff'], tr['dir'], o is not None, p0['qty'] == 0, tr['qty'] > p0['old'])))
        # ---- monitors
        fee = tr['commission'] + tr['tax']
        dcash = a1['total_cash'] - a0['total_cash']
        dq = p1['qty'] - p0['qty']
        sgn = 1 if tr['eff'] == 'OPEN' else -1
        if not close(dq, sgn * tr['qty']):
            cx.hit(('C02' if fut else 'C01') + '.trade_qty', dict(kind=ins['kind'], eff=tr['eff']), dict(dq=dq, trade=tr))
        if not fut:
            exp = -sgn * tr['price'] * tr['qty'] - fee
            if not close(dcash, exp, 1e-7, abs(tr['price'] * tr['qty'])):
                cx.hit('C01.trade_cash', dict(kind=ins['kind'], side=tr['side'], has_order=o is not None), dict(dcash=dcash, expected=exp, trade=tr))
        else:
            df = 1 if tr['dir'] == 'LONG' else -1
            exp = -fee if tr['eff'] == 'OPEN' else -fee + (tr['price'] - p0['avg']) * tr['qty'] * ins['mult'] * df
            if not close(dcash, exp, 1e-7, abs(tr['price'] * tr['qty'] * ins['mult'])):
                cx.hit('C02.trade_cash', dict(eff=tr['eff'], has_order=o is not None), dict(dcash=dcash, expected=exp, trade=tr, avg=p0['avg']))
            if tr['eff'] == 'CLOSE':
                exp_old = p0['old'] - min(tr['qty'], p0['old'])
                if not close(p1['old'], exp_old):
                    cx.hit('C10.old_first', dict(eff='CLOSE'), dict(old0=p0['old'], old1=p1['old'], trade=tr))
            if tr['eff'] == 'CLOSE_TODAY' and not close(p1['old'], p0['old']):
                cx.hit('C10.old_first', dict(eff='CLOSE_TODAY'), dict(old0=p0['old'], old1=p1['old'], trade=tr))
        # value moves only by (mark - price) and fees
        try:
            tv0, tv1 = t['pre']['pub'][acc]['total_value'], t['post']['pub'][acc]['total_value']
            last = p0['last']
            mult = ins['mult'] * (1 if tr['dir'] == 'LONG' else -1) if fut else 1.0
            exp = sgn * (last - tr['price']) * tr['qty'] * mult - fee
            if isinstance(tv0, float) and isinstance(tv1, float) and not close(tv1 - tv0, exp, 1e-7, abs(tr['price'] * tr['qty'] * abs(mult))):
                cx.hit(('C02' if fut else 'C01') + '.value_trade', dict(kind=ins['kind'], eff=tr['eff']), dict(dtv=tv1 - tv0, expected=exp, trade=tr, last=last))
        except (KeyError, TypeError):
            pass
        # C09: under current-bar matching without slippage a fill of an opening order cannot overdraw the account
        # (LimitPriceSlippage is a slippage model: it trades at the order's limit price, away from the bar's price)
        if o and tr['eff'] == 'OPEN' and cx.sim.get('matching_type') == 'current_bar' and not cx.sim.get('slippage') \
                and cx.sim.get('slippage_model') != 'LimitPriceSlippage' \
                and t['pre'].get('phase') != 'OPEN_AUCTION' and cx.cfg['mod']['sys_risk'].get('validate_cash', True):
            try:
                b0 = t['pre']['pub'][acc]['cash'] + a0['frozen']
                b1 = t['post']['pub'][acc]['cash'] + a1['frozen']
                if b0 >= -1e-6 and b1 < -1e-6 * max(1.0, abs(a0['total_cash'])):
                    cx.hit('C09.overdraft', dict(kind=ins['kind'], type=o['type']), dict(balance=(b0, b1), trade=tr, order=o))
            except (KeyError, TypeError):
                pass
        # reserve release
        if o:
            rel = o['reserve'] if tr['qty'] == o['qty'] else tr['qty'] / o['qty'] * o['reserve']
            if not close(a0['frozen'] - a1['frozen'], rel, 1e-7, abs(o['reserve'])):
                cx.hit('C09.release_trade', dict(full=tr['qty'] == o['qty']), dict(dfrozen=a1['frozen'] - a0['frozen'], expected=-rel, order=o, trade=tr))


def order_event_steps(cx):
    for i0, i1, name in steps.event_spans(cx.trace):
        if name not in ('ORDER_PENDING_NEW', 'ORDER_UNSOLICITED_UPDATE', 'ORDER_CANCELLATION_PASS'):
            continue
        m0, m1 = cx.trace[i0], cx.trace[i1]
        acc = m0['payload'].get('acc')
        o = m1['payload'].get('order')
        if not acc or not o or acc not in (m0['snap'].get('acc') or {}):
            continue
        f0, f1 = m0['snap']['acc'][acc]['frozen'], m1['snap']['acc'][acc]['frozen']
        ins = cx.ins(o['oid'])
        fut = ins['kind'] == 'Future'
        try:
            if name == 'ORDER_PENDING_NEW':
                cx.case('frozen.new', 'chk_frozen_new %s %s %s' % (q(f0), q(o['reserve']), q(f1)), dict(order=o, frozen=(f0, f1)))
                is_open = o['eff'] == 'OPEN'
                if fut:
                    term = 'chk_reserve_future %s %s %s %s %s %s %s' % (cx.fcost_lit(o['oid']), blit(is_open), blit(o['eff'] == 'CLOSE_TODAY'),
                                                                        q(o['fprice']), q(o['qty']), q(cx.margin_rate(o['oid'])), q(o['reserve']))
                else:
                    term = 'chk_reserve_stock %s %s %s %s %s %s %s' % (cx.scost_lit(m0['snap'].get('tax_rate')), blit(ins['kind'] == 'CS'),
                                                                       blit(o['side'] == 'SELL'), blit(is_open), q(o['fprice']), q(o['qty']), q(o['reserve']))
                cx.case('reserve.amount', term, dict(order=o))
                cx.keys.add(repr(('N', ins['kind'], o['eff'], o['type'])))
                # C09: an opening order is accepted only if available cash covers occupation + estimated fees
                cash0 = m0['snap']['pub'][acc].get('cash')
                if is_open and cx.cfg['mod']['sys_risk'].get('validate_cash', True) and isinstance(cash0, float) and o['reserve'] is not None \
                        and o['reserve'] > cash0 + 1e-6 * max(1.0, abs(cash0)):
                    cx.hit('C09.accept_uncovered', dict(kind=ins['kind'], type=o['type']), dict(order=o, cash=cash0, dt=m0['snap']['cal']))
            else:
                cx.case('frozen.terminal', 'chk_frozen_terminal %s %s %s %s %s' % (q(f0), q(o['qty']), q(o['filled']), q(o['reserve']), q(f1)),
                        dict(order=o, frozen=(f0, f1), event=name))
                cx.keys.add(repr(('X', name, o['status'], o['filled'] > 0)))
        except Skip:
            cx.skipped += 1
        if name != 'ORDER_PENDING_NEW':
            rel = (o['qty'] - o['filled']) / o['qty'] * o['reserve'] if o['qty'] else 0.0
            if not close(f0 - f1, rel, 1e-7, abs(o['reserve'] or 0)):
                cx.hit('C09.release_terminal', dict(event=name, partly_filled=o['filled'] > 0), dict(dfrozen=f1 - f0, expected=-rel, order=o))


def open_orders_of(snap):
    return (snap.get('open') or []) + (snap.get('auction') or [])


def view_checks(cx):
    """public views vs private state at phase-level marks; plus the identity monitors of C01 C02 C03 C09 C10"""
    want = ('POST_BAR', 'POST_BEFORE_TRADING', 'POST_SETTLEMENT', 'POST_OPEN_AUCTION', 'POST_AFTER_TRADING', 'TRADE', 'PRE_BAR')
    n = 0
    for m in cx.trace:
        if m['k'] != 'ev1' or m['ev'] not in want:
            continue
        s = m['snap']
        if 'acc' not in s:
            continue
        n += 1
        sample_cases = (n % 4 == 0) or m['ev'] in ('POST_SETTLEMENT', 'POST_BEFORE_TRADING')
        oo = open_orders_of(s)
        for acc, a in s['acc'].items():
            pub = s['pub'][acc]
            sum_eq = sum_mg = 0.0
            ok_sum = True
            for oid, ps in a['pos'].items():
                ins = cx.ins(oid)
                fut = ins['kind'] == 'Future'
                for dname, p in ps.items():
                    pv = pub['pos'][oid][dname]
                    # ---- C10 never negative
                    # the closable view subtracts every closing order listed in the broker's books (Position._open_orders), also one the matcher
                    # has just made final and not yet removed (inside a matching round)
                    listed = [o for o in oo if o['oid'] == oid and o['eff'] in ('CLOSE', 'CLOSE_TODAY') and ((o['side'] == 'SELL') == (dname == 'LONG'))]
                    closing = [o for o in listed if o['status'] in ('ACTIVE', 'PENDING_NEW')]
                    for k, v in (('quantity', p['qty']), ('old_quantity', p['old']), ('closable', pv.get('closable')), ('today_closable', pv.get('today_closable'))):
                        if k.endswith('closable') and p['qty'] == 0 and not closing:
                            continue        # an emptied position (delisting / expiry) may still carry today's T+1 lock: nothing is closable
                        if isinstance(v, float) and v < -1e-9:
                            cx.hit('C10.negative', dict(field=k, kind=ins['kind']), dict(value=v, oid=oid, dir=dname, ev=m['ev'], dt=s['cal'], pos=p, closing=closing))
                    if not isinstance(pv.get('equity'), float) or not isinstance(pv.get('market_value'), float):
                        ok_sum = False
                        continue
                    sum_eq += pv['equity']
                    if fut:
                        sum_mg += pv.get('margin') or 0.0
                        # ---- C02 margin formula
                        expm = p['qty'] * pv['last_price'] * ins['mult'] * cx.margin_rate(oid)
                        if not close(pv.get('margin'), expm, 1e-7):
                            cx.hit('C02.margin', dict(dir=dname), dict(margin=pv.get('margin'), expected=expm, pos=p, dt=s['cal']))
                    if sample_cases:
                        try:
                            has_prev = isinstance(pv.get('prev_close'), float) and not math.isnan(pv['prev_close'])
                            term = 'chk_pos_views %s %s %s %s %s %s %s %s %s %s' % (
                                pcfg_lit(ins, dname), q(cx.margin_rate(oid) if fut else 0.0), q(pv['prev_close'] if has_prev else 0.0),
                                pos_lit(p, last_override=pv['last_price']), q(pv['market_value']), q(pv['equity']), q(pv.get('margin') or 0.0),
                                q(pv['trading_pnl']), q(pv['position_pnl'] if has_prev else 0.0), blit(has_prev))
                            cx.case('views.position', term, dict(oid=oid, dir=dname, priv=p, pub=pv, dt=s['cal'], ev=m['ev']))
                            g = '{| cc_stock := %s; cc_t1 := %s; cc_tplus := %s |}' % (blit(not fut), blit(cx.t1), blit(ins['tplus'] >= 1))
                            book = '[%s]' % '; '.join('{| co_id := %d; co_today := %s; co_unfilled := %s |}' % (k, blit(o['eff'] == 'CLOSE_TODAY'), q(o['qty'] - o['filled']))
                                                       for k, o in enumerate(listed))
                            st = '{| cs_qty := %s; cs_old := %s; cs_nc := %s; cs_book := %s |}' % (q(p['qty']), q(p['old']), q(p.get('non_closable') or 0.0), book)
                            cx.case('views.closable', 'chk_closable %s %s %s %s' % (g, st, q(pv['closable']), q(pv['today_closable'])),
                                    dict(oid=oid, dir=dname, priv=p, closing=listed, pub=pv, dt=s['cal']))
                        except Skip:
                            cx.skipped += 1
            if not ok_sum:
                continue
            # ---- account identities
            liab = a['liab']
            interest = liab * cx.fin_rate / 365
            pend = sum(x for _, x in a['pending'])
            tv_exp = a['total_cash'] + sum_eq - liab - interest + pend
            if isinstance(pub.get('total_value'), float) and not close(pub['total_value'], tv_exp, 1e-7, abs(a['total_cash'])):
                cx.hit(('C02' if acc == 'FUTURE' else 'C01') + '.total_value', dict(acc=acc), dict(total_value=pub['total_value'], expected=tv_exp, dt=s['cal'], ev=m['ev']))
            cash_exp = a['total_cash'] - sum_mg - a['frozen']
            if isinstance(pub.get('cash'), float) and not close(pub['cash'], cash_exp, 1e-7, abs(a['total_cash'])):
                cx.hit(('C02.available' if acc == 'FUTURE' else 'C09.available'), dict(acc=acc), dict(cash=pub['cash'], expected=cash_exp, dt=s['cal']))
            if sample_cases:
                try:
                    cx.case('views.account', 'chk_acc_views %s %s %s %s %s %s %s %s %s' % (
                        q(a['total_cash']), q(a['frozen']), q(liab), q(cx.fin_rate), pending_lit(a['pending']), q(sum_eq), q(sum_mg),
                        q(pub['total_value']), q(pub['cash'])), dict(acc=acc, priv={k: v for k, v in a.items() if k != 'pos'}, dt=s['cal']))
                except Skip:
                    cx.skipped += 1
            # ---- C09 reserved cash = sum over open orders of the unfilled fraction of the initial reserve
            if m['ev'].startswith('POST_') and s.get('open') is not None:
                exp_frozen = 0.0
                okf = True
                for o in oo:
                    if o['status'] not in ('ACTIVE', 'PENDING_NEW'):
                        continue
                    acc_o = 'FUTURE' if cx.ins(o['oid'])['kind'] == 'Future' else 'STOCK'
                    if acc_o != acc:
                        continue
                    if o['reserve'] is None or not o['qty']:
                        okf = False
                        continue
                    exp_frozen += (o['qty'] - o['filled']) / o['qty'] * o['reserve']
                if okf and not close(a['frozen'], exp_frozen, 1e-6, abs(a['total_cash']) * 1e-3):
                    cx.hit('C09.frozen_sum', dict(ev=m['ev'], negative=a['frozen'] < -1e-6, no_open=not oo),
                           dict(frozen=a['frozen'], expected=exp_frozen, open=oo, dt=s['cal']))
        # ---- C03 nav * units = total value
        pub = s['pub']
        if isinstance(pub.get('p_units'), float) and pub['p_units'] and isinstance(pub.get('p_unit_net_value'), float) and isinstance(pub.get('p_total_value'), float):
            if not close(pub['p_unit_net_value'] * pub['p_units'], pub['p_total_value'], 1e-9, abs(pub['p_total_value'])):
                cx.hit('C03.nav_units', {}, dict(nav=pub['p_unit_net_value'], units=pub['p_units'], tv=pub['p_total_value'], dt=s['cal']))
            tvsum = sum(pub[a]['total_value'] for a in s['acc'] if isinstance(pub[a].get('total_value'), float))
            if not close(tvsum, pub['p_total_value'], 1e-9, abs(tvsum)):
                cx.hit('C03.sum', {}, dict(sum=tvsum, tv=pub['p_total_value'], dt=s['cal']))
            if sample_cases:
                try:
                    cx.case('portfolio.nav', 'chk_nav %s %s %s' % (q(s['units']), q(pub['p_total_value']), q(pub['p_unit_net_value'])), dict(dt=s['cal']))
                    if isinstance(pub.get('p_daily_returns'), float) and not math.isnan(pub['p_daily_returns']):
                        cx.case('portfolio.daily_returns', 'chk_daily_returns %s %s %s %s' % (q(s['units']), q(s['static_nav']), q(pub['p_total_value']), q(pub['p_daily_returns'])), dict(dt=s['cal']))
                except Skip:
                    cx.skipped += 1


def dividend_for_book_date(cx, oid, book):
    rows = [r for r in cx.w.dividends.get(oid, []) if r[0] == book]
    if not rows:
        return None
    dps = sum(r[2] / r[5] for r in rows)
    pay = rows[0][4]
    try:
        import datetime
        datetime.date(pay // 10000, pay // 100 % 100, pay % 100)
    except ValueError:
        pay = rows[0][3]
    return dps, pay


def before_trading_steps(cx):
    for i0, i1, name in steps.event_spans(cx.trace):
        if name != 'PRE_BEFORE_TRADING':
            continue
        s0, s1 = cx.trace[i0]['snap'], cx.trace[i1]['snap']
        if 'acc' not in s0:
            continue
        today = dint_of(s1['trd'])
        prev = cx.prev_day(today)
        inner = [t for t in steps.trades(cx.trace[i0:i1 + 1])]
        # ---- C03: the previous-close latch runs before anything else
        try:
            pub0 = s0['pub']
            if isinstance(pub0.get('p_total_value'), float) and s0.get('units'):
                cx.case('portfolio.latch', 'chk_latch %s %s %s' % (q(s0['units']), q(pub0['p_total_value']), q(s1['static_nav'])), dict(dt=s1['cal']))
                if not close(s1['static_nav'], pub0['p_total_value'] / s0['units'], 1e-9):
                    cx.hit('C03.latch', {}, dict(static=s1['static_nav'], nav_prev_close=pub0['p_total_value'] / s0['units'], dt=s1['cal']))
            if s0.get('units') != s1.get('units'):
                cx.hit('C03.units_changed', dict(span='PRE_BEFORE_TRADING'), dict(units=(s0.get('units'), s1.get('units'))))
        except Skip:
            cx.skipped += 1
        for acc, a0 in s0['acc'].items():
            a1 = s1['acc'][acc]
            arrived_exp = sum(x for d, x in a0['pending'] if d <= today)
            try:
                cx.case('bt.arrive', 'chk_arrive %s %s %s %s' % (zlit(today), pending_lit(a0['pending']), q(arrived_exp), pending_lit(a1['pending'])), dict(pending=a0['pending'], today=today))
                cx.case('bt.interest', 'chk_interest %s %s %s' % (q(a0['liab']), q(cx.fin_rate), q(a1['liab'])), dict(liab=(a0['liab'], a1['liab'])))
            except Skip:
                cx.skipped += 1
            dcash_expected_monitor = arrived_exp
            ok_monitor = True
            items = []
            overlap_today = False
            for oid, ps in a0['pos'].items():
                ins = cx.ins(oid)
                fut = ins['kind'] == 'Future'
                gone = oid not in a1['pos']
                try:
                    ents = '; '.join('(%s, %s)' % (pcfg_lit(ins, dn), pos_lit(pp, last_override=0.0 if pp['last'] is None else None)) for dn, pp in ps.items())
                    cx.case('bt.purge', 'chk_purge [%s] %s' % (ents, blit(gone)), dict(oid=oid, gone=gone, pre=ps, dt=s1['cal']))
                    cx.keys.add(repr(('PURGE', ins['kind'], gone, any(pp.get('recv') for pp in ps.values()), any(pp['qty'] for pp in ps.values()))))
                except Skip:
                    cx.skipped += 1
                for dname, p in ps.items():
                    if gone:
                        if abs(p['qty']) > 1e-9 or (p.get('recv') and abs(p['recv'][1]) > 1e-12):
                            cx.hit('C12.position_dropped', dict(kind=ins['kind'], has_recv=bool(p.get('recv'))), dict(oid=oid, pos=p, dt=s1['cal']))
                        continue
                    p1 = a1['pos'][oid][dname]
                    try:
                        if fut or dname != 'LONG':
                            cx.case('bt.reset', 'chk_future_bt %s %s' % (pos_lit(p), pos_lit(p1, last_override=p['last'] if p1['last'] is None else None)), dict(oid=oid, pre=p, post=p1))
                            continue
                        dv = dividend_for_book_date(cx, oid, prev) if prev else None
                        sp = [r[1] for r in cx.w.splits.get(oid, []) if r[0] == today]
                        fee = sum(t['trade']['commission'] + t['trade']['tax'] for t in inner if t['trade']['oid'] == oid)
                        skip_all = p['qty'] == 0 and not p.get('recv')
                        item = '(BtStock %s %s %s %s %s %s %s %s)' % (
                            pcfg_lit(ins, dname), pos_lit(p), zlit(today),
                            ('(Some (%s, %s))' % (q(dv[0]), zlit(dv[1]))) if dv else 'None', olit(sp[0] if sp else None, q),
                            blit(cx.reinvest), q(float(ins['lot'])), q(fee))
                        items.append(item)
                        cx.case('bt.stock', 'chk_stock_bt %s %s' % (item, pos_lit(p1)), dict(oid=oid, pre=p, post=p1, dividend=dv, split=sp, fee=fee, today=today))
                        cx.keys.add(repr(('BT', bool(dv), bool(sp), bool(p.get('recv')), cx.reinvest, p['qty'] == 0)))
                        # ---- monitors (C12), from the property text
                        if not skip_all:
                            recv_now = p.get('recv')
                            if dv:
                                exp_recv = p['qty'] * dv[0]
                                if p1.get('recv') is None and dv[1] != today:
                                    cx.hit('C12.receivable', dict(case='not booked'), dict(oid=oid, pre=p, post=p1, dividend=dv))
                                elif p1.get('recv') is not None and not close(p1['recv'][1], exp_recv + 0.0, 1e-9) and not (recv_now and dv[1] != today):
                                    cx.hit('C12.receivable', dict(case='amount'), dict(oid=oid, pre=p, post=p1, dividend=dv, expected=exp_recv))
                                if recv_now:
                                    # an earlier dividend is still receivable (book closure is handled before the payable date):
                                    # overlapping dividends (finding D11)
                                    overlap_today = True
                                    cx.hit('C12.receivable_overwritten', dict(case='overlap'), dict(oid=oid, pre=p, post=p1, dividend=dv))
                                recv_now = (dv[1], exp_recv)
                            if recv_now and recv_now[0] == today:
                                dcash_expected_monitor += recv_now[1]
                            if sp:
                                r = sp[0]
                                qx = p['qty'] * r
                                if abs(qx - round(qx)) < 1e-9:
                                    if not close(p1['qty'], round(qx) + sum(t['trade']['qty'] for t in inner if t['trade']['oid'] == oid) * r, 1e-9) and not inner:
                                        cx.hit('C12.split_quantity', dict(integral=True), dict(oid=oid, pre=p, post=p1, ratio=r))
                                else:
                                    cx.hit('C12.split_fractional', dict(integral=False), dict(oid=oid, pre=p, post=p1, ratio=r))
                    except Skip:
                        cx.skipped += 1
                        ok_monitor = False
            # reinvestment trades move cash themselves
            for t in inner:
                if t['acc'] == acc:
                    tr = t['trade']
                    dcash_expected_monitor += -tr['price'] * tr['qty'] - tr['commission'] - tr['tax']
            if ok_monitor:
                try:
                    cx.case('bt.cash', 'chk_bt_cash [%s] %s %s %s' % ('; '.join(items), q(arrived_exp), q(a0['total_cash']), q(a1['total_cash'])),
                            dict(acc=acc, cash=(a0['total_cash'], a1['total_cash']), arrived=arrived_exp, dt=s1['cal'], n=len(items)))
                except Skip:
                    cx.skipped += 1
            dcash = a1['total_cash'] - a0['total_cash']
            if ok_monitor and not close(dcash, dcash_expected_monitor, 1e-7, abs(a0['total_cash']) * 1e-3):
                cx.hit('C12.before_trading_cash', dict(acc=acc, reinvest=cx.reinvest and bool(inner)), dict(dcash=dcash, expected=dcash_expected_monitor, dt=s1['cal']))
            # total value across the step: only reinvestment fees and the interest booking may move it
            try:
                tv0, tv1 = s0['pub'][acc]['total_value'], s1['pub'][acc]['total_value']
                fees = sum(t['trade']['commission'] + t['trade']['tax'] for t in inner if t['acc'] == acc)
                d_int = a1['liab'] * cx.fin_rate / 365 if a0['liab'] > 0 else 0.0     # the new day's interest on the compounded liabilities
                frac = any(abs(cx_q - round(cx_q)) > 1e-9 for cx_q in
                           [p['qty'] * r[1] for oid, ps in a0['pos'].items() for dn, p in ps.items() for r in cx.w.splits.get(oid, []) if r[0] == today])
                overlap = overlap_today
                if isinstance(tv0, float) and isinstance(tv1, float) and not close(tv1 - tv0, -fees - d_int, 1e-7, abs(tv0) * 1e-3):
                    cx.hit('C12.value_before_trading', dict(acc=acc, fractional_split=frac, overlap=overlap),
                           dict(dtv=tv1 - tv0, expected=-fees - d_int, dt=s1['cal']))
            except (KeyError, TypeError):
                pass


def settlement_steps(cx):
    for i0, i1, name in steps.event_spans(cx.trace):
        if name != 'SETTLEMENT':
            continue
        s0, s1 = cx.trace[i0]['snap'], cx.trace[i1]['snap']
        if 'acc' not in s0:
            continue
        today = dint_of(s1['trd'])
        nxt = cx.next_day(today) if today in cx.dints else None
        inner = steps.trades(cx.trace[i0:i1 + 1])
        for acc, a0 in s0['acc'].items():
            a1 = s1['acc'][acc]
            liquidated = bool(a0['pos']) and not a1['pos'] and a1['total_cash'] == 0
            exp_dtv = 0.0
            reprice = 0.0
            fee = a1['mgmt_fees'] - a0['mgmt_fees']
            items = []
            ok_items = True
            for oid, ps in a0['pos'].items():
                ins = cx.ins(oid)
                fut = ins['kind'] == 'Future'
                for dname, p in ps.items():
                    p1 = a1['pos'].get(oid, {}).get(dname)
                    if fut and p['qty'] and cx.settle_mode and p['last'] is not None:
                        # what marking the entry at the settlement price adds to the account's value (the liquidation test comes after it)
                        bar_ = cx.w.bar(oid, next((d for d in cx.days if W.dint(d) == today), None))
                        if bar_:
                            reprice += p['qty'] * (bar_['settlement'] - p['last']) * ins['mult'] * (1 if dname == 'LONG' else -1)
                    if p1 is None:
                        continue
                    try:
                        if fut:
                            bar = cx.w.bar(oid, next((d for d in cx.days if W.dint(d) == today), None))
                            settle = bar['settlement'] if (cx.settle_mode and bar) else None
                            expire = nxt is not None and nxt > W.dint(ins['delisted'])
                            if nxt is None:
                                expire = W.dint(ins['delisted']) <= today      # after the last calendar day: next trading date is data dependent
                            item = '(StFuture %s %s %s %s)' % (pcfg_lit(ins, dname), pos_lit(p), olit(settle, q), blit(expire))
                            items.append(item)
                            cx.case('settle.future', 'chk_settle_pos %s %s' % (item, pos_lit(p1)), dict(oid=oid, dir=dname, pre=p, post=p1, settle=settle, expire=expire))
                            cx.keys.add(repr(('ST', 'F', cx.settle_mode, expire, p['qty'] != 0)))
                            if p['qty']:
                                lastp = settle if settle is not None else p['last']
                                exp_dtv += p['qty'] * (lastp - p['last']) * ins['mult'] * (1 if dname == 'LONG' else -1)
                                if not expire and not liquidated and not close(p1['avg'], p1['last'], 1e-9):
                                    cx.hit('C02.rebase', dict(mode=cx.settle_mode), dict(oid=oid, post=p1))
                                if expire and not liquidated and (p1['qty'] or p1['old']):
                                    cx.hit('C02.expiry_leaves_position', dict(dir=dname), dict(oid=oid, post=p1))
                        else:
                            delist = ins['delisted'] is not None and nxt is not None and nxt >= W.dint(ins['delisted'])
                            if dname != 'LONG' or not delist:
                                continue
                            tf = cx.w.transform.get(oid)
                            succ = [t for t in inner if tf and t['trade']['oid'] == tf['successor']]
                            item = '(StDelist %s %s %s)' % (pos_lit(p), olit(tf['share_conversion_ratio'] if tf else None, q), blit(cx.cash_return))
                            items.append(item)
                            cx.case('settle.delist', 'chk_settle_pos %s %s' % (item, pos_lit(p1)), dict(oid=oid, pre=p, post=p1, transform=tf))
                            if tf and p['qty']:
                                so = tf['successor']
                                ps1 = a1['pos'].get(so, {}).get('LONG')
                                ps0 = a0['pos'].get(so, {}).get('LONG') or dict(ZERO_POS, last=0.0)
                                if ps1 is None:
                                    cx.hit('C12.conversion_missing', {}, dict(oid=oid, successor=so, pre=p))
                                else:
                                    cx.case('settle.conversion', 'chk_conversion_succ %s %s %s %s %s' % (
                                        pcfg_lit(cx.ins(so), 'LONG'), pos_lit(ps0), pos_lit(p), q(tf['share_conversion_ratio']), pos_lit(ps1)),
                                        dict(oid=oid, successor=so, pre=p, succ_pre=ps0, succ_post=ps1, ratio=tf['share_conversion_ratio']))
                            cx.keys.add(repr(('ST', 'S', bool(tf), cx.cash_return, p['qty'] != 0)))
                            if p['qty'] and not tf and not cx.cash_return:
                                exp_dtv -= p['last'] * p['qty']          # configured write-off
                            if p1['qty']:
                                cx.hit('C12.delisted_position_remains', {}, dict(oid=oid, post=p1))
                    except Skip:
                        cx.skipped += 1
                        ok_items = False
            if ok_items and not liquidated:
                try:
                    cx.case('settle.cash', 'chk_settle_cash [%s] %s %s %s' % ('; '.join(items), q(fee), q(a0['total_cash']), q(a1['total_cash'])),
                            dict(acc=acc, cash=(a0['total_cash'], a1['total_cash']), fee=fee, dt=s1['cal'], n=len(items)))
                except Skip:
                    cx.skipped += 1
            try:
                tv0, tv1 = s0['pub'][acc]['total_value'], s1['pub'][acc]['total_value']
                if isinstance(tv0, float) and isinstance(tv1, float):
                    if liquidated:
                        # the account is judged after its entries have been marked at the day's settlement price (settlement mode)
                        if tv0 + reprice - fee > 1e-9 * max(1.0, abs(tv0)) or not cx.forced:
                            cx.hit('C02.forced_liquidation', dict(case='unwarranted'), dict(tv0=tv0, tv1=tv1, dt=s1['cal']))
                        elif abs(tv1) > 1e-9 and not a1['liab'] and not a1['pending']:
                            cx.hit('C02.forced_liquidation', dict(case='not zero'), dict(tv0=tv0, tv1=tv1))
                    else:
                        if not close(tv1 - tv0, exp_dtv - fee, 1e-7, abs(tv0) * 1e-3):
                            cx.hit(('C02' if acc == 'FUTURE' else 'C12') + '.value_settlement', dict(acc=acc, mode=cx.settle_mode),
                                   dict(dtv=tv1 - tv0, expected=exp_dtv - fee, dt=s1['cal'], fee=fee))
                        if cx.forced and tv1 <= 0 and (a1['pos'] or a1['total_cash'] != 0) and acc == 'FUTURE':
                            cx.hit('C02.forced_liquidation', dict(case='missing'), dict(tv1=tv1, dt=s1['cal']))
            except (KeyError, TypeError):
                pass


def flow_steps(cx):
    """deposit / withdraw / finance / repay API calls (C01 C03)"""
    for i0, i1 in steps.api_spans(cx.trace):
        m0, m1 = cx.trace[i0], cx.trace[i1]
        act = m0['act']
        if act['op'] not in ('deposit', 'withdraw', 'finance', 'repay') or 'acc' not in m0['snap']:
            continue
        s0, s1 = m0['snap'], m1['snap']
        acc = act.get('acc', 'STOCK')
        if acc not in s0['acc']:
            continue
        a0, a1 = s0['acc'][acc], s1['acc'][acc]
        ok = m1['exc'] is None
        cx.keys.add(repr(('FLOW', act['op'], ok, act.get('days', 0) > 0)))
        pub0, pub1 = s0['pub'], s1['pub']
        try:
            if act['op'] in ('deposit', 'withdraw') and isinstance(pub0.get('p_total_value'), float):
                cx.case('flow.guard', 'chk_flow_guard %s %s %s' % (q(s0['units']), q(pub0['p_total_value']), blit(not ok)), dict(act=act, raised=not ok))
            if not ok:
                if a0['total_cash'] != a1['total_cash'] or a0['pending'] != a1['pending'] or s0['units'] != s1['units']:
                    cx.hit('C03.refused_flow_changed_state', dict(op=act['op']), dict(act=act))
                continue
            if act['op'] in ('deposit', 'withdraw'):
                amt = act['amt'] if act['op'] == 'deposit' else -act['amt']
                if act.get('days', 0) >= 1 and act['op'] == 'deposit':
                    if not close(a1['total_cash'], a0['total_cash']) or len(a1['pending']) != len(a0['pending']) + 1:
                        cx.hit('C03.pending_deposit', {}, dict(act=act, pending=(a0['pending'], a1['pending'])))
                else:
                    cx.case('flow.deposit', 'chk_deposit %s %s %s' % (q(a0['total_cash']), q(amt), q(a1['total_cash'])), dict(act=act))
                    if not close(a1['total_cash'] - a0['total_cash'], amt, 1e-9, abs(a0['total_cash'])):
                        cx.hit('C01.flow_cash', dict(op=act['op']), dict(act=act, dcash=a1['total_cash'] - a0['total_cash']))
                tv0, tv1 = pub0['p_total_value'], pub1['p_total_value']
                cx.case('flow.units', 'chk_deposit_units %s %s %s %s' % (q(s0['units']), q(tv0), q(tv1), q(s1['units'])), dict(act=act, units=(s0['units'], s1['units']), tv=(tv0, tv1)))
                if not close(tv1 - tv0, amt, 1e-9, abs(tv0)):
                    cx.hit('C03.flow_value', dict(op=act['op'], pending=act.get('days', 0) >= 1), dict(act=act, dtv=tv1 - tv0))
                if isinstance(pub0['p_unit_net_value'], float) and not close(pub0['p_unit_net_value'], pub1['p_unit_net_value'], 1e-9):
                    cx.hit('C03.flow_moves_nav', dict(op=act['op'], pending=act.get('days', 0) >= 1), dict(act=act, nav=(pub0['p_unit_net_value'], pub1['p_unit_net_value'])))
            elif act['op'] == 'finance':
                cx.case('flow.finance', 'chk_finance %s %s %s %s %s' % (q(a0['total_cash']), q(a0['liab']), q(act['amt']), q(a1['total_cash']), q(a1['liab'])), dict(act=act))
                if s0['units'] != s1['units']:
                    cx.hit('C03.units_changed', dict(span='finance'), dict(units=(s0['units'], s1['units'])))
                if not close(a1['total_cash'] - a0['total_cash'], act['amt'], 1e-9, abs(a0['total_cash'])) or not close(a1['liab'] - a0['liab'], act['amt'], 1e-9):
                    cx.hit('C01.flow_cash', dict(op='finance'), dict(act=act, dcash=a1['total_cash'] - a0['total_cash'], dliab=a1['liab'] - a0['liab']))
            else:
                cx.case('flow.repay', 'chk_repay %s %s %s %s %s' % (q(a0['total_cash']), q(a0['liab']), q(act['amt']), q(a1['total_cash']), q(a1['liab'])), dict(act=act))
                paid = min(act['amt'], a0['liab'])
                if s0['units'] != s1['units']:
                    cx.hit('C03.units_changed', dict(span='repay'), dict(units=(s0['units'], s1['units'])))
                if not close(a0['total_cash'] - a1['total_cash'], paid, 1e-9, abs(a0['total_cash'])) or not close(a0['liab'] - a1['liab'], paid, 1e-9):
                    cx.hit('C01.flow_cash', dict(op='repay', over=act['amt'] > a0['liab']), dict(act=act, dcash=a1['total_cash'] - a0['total_cash'], dliab=a1['liab'] - a0['liab'], liab0=a0['liab']))
        except Skip:
            cx.skipped += 1


def ledger_monitor(cx):
    """C01 / C02: total cash follows the ledger written from the observed events only."""
    exp = {}
    recv = {}          # (acc, oid) -> (payable, amount)   -- the monitor's own receivable book
    last_trade_i = -1
    spans = steps.event_spans(cx.trace)
    api = steps.api_spans(cx.trace)
    events = sorted([(i0, i1, name) for i0, i1, name in spans] + [(i0, i1, 'API') for i0, i1 in api])
    for i0, i1, name in events:
        s0, s1 = cx.trace[i0]['snap'], cx.trace[i1]['snap']
        if 'acc' not in s0 or 'acc' not in s1:
            continue
        for acc in s0['acc']:
            if acc not in exp:
                exp[acc] = s0['acc'][acc]['total_cash']
        if name == 'TRADE':
            tr = cx.trace[i0]['payload']['trade']
            acc = cx.trace[i0]['payload'].get('acc')
            if acc not in exp:
                continue
            ins = cx.ins(tr['oid'])
            fee = tr['commission'] + tr['tax']
            if ins['kind'] == 'Future':
                p0 = s0['acc'][acc]['pos'].get(tr['oid'], {}).get(tr['dir'])
                if tr['eff'] == 'OPEN':
                    exp[acc] += -fee
                else:
                    exp[acc] += -fee + (tr['price'] - (p0['avg'] if p0 else 0.0)) * tr['qty'] * ins['mult'] * (1 if tr['dir'] == 'LONG' else -1)
            else:
                exp[acc] += (-1 if tr['eff'] == 'OPEN' else 1) * tr['price'] * tr['qty'] - fee
        elif name == 'API':
            act = cx.trace[i0]['act']
            if cx.trace[i1]['exc'] is not None:
                continue
            acc = act.get('acc', 'STOCK')
            if acc not in exp:
                continue
            if act['op'] == 'deposit' and act.get('days', 0) < 1:
                exp[acc] += act['amt']
            elif act['op'] == 'withdraw':
                exp[acc] -= act['amt']
            elif act['op'] == 'finance':
                exp[acc] += act['amt']
            elif act['op'] == 'repay':
                exp[acc] -= min(act['amt'], s0['acc'][acc]['liab'])
        elif name == 'PRE_BEFORE_TRADING':
            today = dint_of(s1['trd'])
            prev = cx.prev_day(today)
            for acc, a0 in s0['acc'].items():
                exp[acc] += sum(x for d, x in a0['pending'] if d <= today)
                for oid, ps in a0['pos'].items():
                    if cx.ins(oid)['kind'] == 'Future':
                        continue
                    p = ps.get('LONG')
                    if not p:
                        continue
                    dv = dividend_for_book_date(cx, oid, prev) if prev else None
                    if dv and (p['qty'] or p.get('recv')):
                        recv[(acc, oid)] = (dv[1], p['qty'] * dv[0])      # record-date quantity x dividend per share
            for (racc, roid), r in list(recv.items()):
                if r[0] <= today and racc in exp:
                    exp[racc] += r[1]          # the booked dividend is paid whatever happened to the shares meanwhile
                    del recv[(racc, roid)]
        elif name == 'SETTLEMENT':
            today = dint_of(s1['trd'])
            nxt = cx.next_day(today) if today in cx.dints else None
            for acc, a0 in s0['acc'].items():
                a1 = s1['acc'][acc]
                for oid, ps in a0['pos'].items():
                    ins = cx.ins(oid)
                    for dname, p in ps.items():
                        if not p['qty']:
                            continue
                        if ins['kind'] == 'Future':
                            bar = cx.w.bar(oid, next((d for d in cx.days if W.dint(d) == today), None))
                            lastp = bar['settlement'] if (cx.settle_mode and bar) else p['last']
                            exp[acc] += p['qty'] * (lastp - p['avg']) * ins['mult'] * (1 if dname == 'LONG' else -1)
                        elif dname == 'LONG' and ins['delisted'] is not None and nxt is not None and nxt >= W.dint(ins['delisted']):
                            tf = cx.w.transform.get(oid)
                            if tf:
                                exp[acc] += p['avg'] * p['qty']      # refund of the successor purchase (booked by its TRADE below? no: applied directly)
                                exp[acc] -= (p['avg'] / tf['share_conversion_ratio']) * (p['qty'] * tf['share_conversion_ratio'])
                            elif cx.cash_return:
                                exp[acc] += p['last'] * p['qty']
                exp[acc] -= a1['mgmt_fees'] - a0['mgmt_fees']
                if a0['pos'] and not a1['pos'] and a1['total_cash'] == 0:
                    exp[acc] = 0.0          # forced liquidation
        if name in ('POST_BAR', 'POST_BEFORE_TRADING', 'POST_SETTLEMENT', 'POST_OPEN_AUCTION', 'POST_AFTER_TRADING'):
            for acc, a1 in s1['acc'].items():
                if acc in exp and not close(a1['total_cash'], exp[acc], 1e-7, abs(exp[acc]) * 1e-3 + 1.0):
                    cx.hit(('C02' if acc == 'FUTURE' else 'C01') + '.ledger', dict(acc=acc),
                           dict(total_cash=a1['total_cash'], expected=exp[acc], diff=a1['total_cash'] - exp[acc], dt=s1['cal'], ev=name))
                    exp[acc] = a1['total_cash']     # report each divergence once


def daily_monitor(cx):
    """C03: daily returns / compounding / daily pnl = change of value net of flows"""
    eod = None
    prod = 1.0
    bankrupt = False
    flows = {}
    for i0, i1 in steps.api_spans(cx.trace):
        act = cx.trace[i0]['act']
        if cx.trace[i1]['exc'] is None and act['op'] in ('deposit', 'withdraw'):
            d = dint_of(cx.trace[i0]['snap']['trd'])
            acc = act.get('acc', 'STOCK')
            flows[(d, acc)] = flows.get((d, acc), 0.0) + (act['amt'] if act['op'] == 'deposit' else -act['amt'])
    special_days = set()
    for h in cx.hits:
        if h['clause'] in ('C12.split_fractional', 'C12.receivable_overwritten'):
            special_days.add(h['detail'].get('dt', '')[:10] if 'dt' in h['detail'] else None)
    for m in cx.trace:
        if m['k'] != 'ev1' or m['ev'] != 'POST_SETTLEMENT' or 'acc' not in m['snap']:
            continue
        s = m['snap']
        pub = s['pub']
        d = dint_of(s['trd'])
        nav = pub.get('p_unit_net_value')
        if not isinstance(nav, float) or math.isnan(nav):
            eod = None
            continue
        r = pub.get('p_daily_returns')
        if eod is not None and isinstance(r, float) and isinstance(eod['nav'], float) and eod['nav']:
            exp_r = nav / eod['nav'] - 1
            if not close(r, exp_r, 1e-9):
                cx.hit('C03.daily_return', {}, dict(daily_returns=r, expected=exp_r, nav=nav, nav_prev=eod['nav'], dt=s['cal']))
        if nav <= 0:
            bankrupt = True      # the compounding identity presupposes non-zero net values (hypothesis of C03_compounding): a wiped-out portfolio ends the chain
        if isinstance(r, float) and not math.isnan(r):
            prod *= (1 + r)
            if not close(prod - 1, pub.get('p_total_returns'), 1e-9) and eod is not None and eod.get('chain') and not bankrupt:
                cx.hit('C03.compounding', {}, dict(product=prod - 1, total_returns=pub.get('p_total_returns'), dt=s['cal']))
        for acc, a in s['acc'].items():
            pa = pub[acc]
            if eod is not None and acc in eod['tv'] and isinstance(pa.get('daily_pnl'), float) and isinstance(pa.get('total_value'), float):
                dtv = pa['total_value'] - eod['tv'][acc] - flows.get((d, acc), 0.0)
                mg = a['mgmt_fees'] - eod['mgmt'].get(acc, 0.0)
                # forced liquidation zeroes the cash at every settlement while the total value is not positive: no P&L identity in that state
                liquid = not a['pos'] and a['total_cash'] == 0 and (eod['haspos'].get(acc) or pa['total_value'] <= 0)
                if not liquid and not close(pa['daily_pnl'], dtv + mg, 1e-6, abs(pa['total_value']) * 1e-3):
                    cx.hit('C03.daily_pnl', dict(acc=acc, financing=a['liab'] > 0 or eod['liab'].get(acc, 0) > 0),
                           dict(daily_pnl=pa['daily_pnl'], dvalue_net_of_flows=dtv, mgmt=mg, dt=s['cal']))
        first = eod is None
        eod = dict(nav=nav, tv={acc: pub[acc]['total_value'] for acc in s['acc'] if isinstance(pub[acc].get('total_value'), float)},
                   mgmt={acc: a['mgmt_fees'] for acc, a in s['acc'].items()}, haspos={acc: bool(a['pos']) for acc, a in s['acc'].items()},
                   liab={acc: a['liab'] for acc, a in s['acc'].items()}, chain=True)
        if first:
            # the first day's return is relative to the starting nav of 1
            prod = nav


def bar_mark_monitor(cx):
    """C01: holdings are marked at the latest price: after the account's bar handler the last price is the bar close"""
    freq = cx.cfg['base']['frequency']
    for m in cx.trace:
        if m['k'] != 'user0' or m.get('ph') != 'handle_bar' or 'acc' not in m['snap']:
            continue
        s = m['snap']
        d = dint_of(s['trd'])
        day = next((x for x in cx.days if W.dint(x) == d), None)
        for acc, a in s['acc'].items():
            for oid, ps in a['pos'].items():
                if freq == '1d':
                    bar = cx.w.bar(oid, day)
                    px = bar['close'] if bar else None
                else:
                    key = int(s['cal'][:4] + s['cal'][5:7] + s['cal'][8:10] + s['cal'][11:13] + s['cal'][14:16] + '00')
                    rows = [b for b in (cx.w.minutes or {}).get(oid, []) if b['datetime'] == key]
                    px = rows[0]['close'] if rows else None
                if px is None or px != px:
                    continue
                for dname, p in ps.items():
                    if p['last'] is not None and not close(p['last'], px, 1e-12):
                        cx.hit(('C02' if acc == 'FUTURE' else 'C01') + '.mark', dict(kind=cx.ins(oid)['kind'], held=p['qty'] != 0), dict(oid=oid, dir=dname, last=p['last'], bar_close=px, dt=s['cal']))


def t1_monitor(cx):
    """C10: shares bought on day T cannot be sold on day T (T+1 instruments, switch on)"""
    if not cx.t1:
        return
    start_qty = {}
    sold = {}
    for i0, i1, name in steps.event_spans(cx.trace):
        if name == 'PRE_BEFORE_TRADING':
            s1 = cx.trace[i1]['snap']
            start_qty, sold = {}, {}
            for acc, a in (s1.get('acc') or {}).items():
                for oid, ps in a['pos'].items():
                    if 'LONG' in ps:
                        start_qty[oid] = ps['LONG']['qty']
        elif name == 'TRADE':
            tr = cx.trace[i0]['payload']['trade']
            ins = cx.ins(tr['oid'])
            if ins['kind'] == 'Future' or ins['tplus'] < 1 or tr['eff'] == 'OPEN' or tr['order_id'] is None:
                continue
            sold[tr['oid']] = sold.get(tr['oid'], 0.0) + tr['qty']
            if sold[tr['oid']] > start_qty.get(tr['oid'], 0.0) + 1e-9:
                cx.hit('C10.t1', dict(kind=ins['kind']), dict(oid=tr['oid'], sold_today=sold[tr['oid']], held_at_open=start_qty.get(tr['oid'], 0.0), trade=tr))


def state_key(s):
    return (repr(sorted((acc, a['total_cash'], a['frozen'], a['liab'], repr(sorted((oid, repr(sorted((d, p['qty'], p['old'], p['avg'], p.get('non_closable')) for d, p in ps.items())))
                                                                                       for oid, ps in a['pos'].items()))) for acc, a in s['acc'].items())),
            repr([(o['id'], o['status'], o['filled']) for o in open_orders_of(s)]))


def reject_monitor(cx):
    """C10 / C16: an order rejected at creation changes nothing"""
    spans = steps.event_spans(cx.trace)
    for i0, i1 in steps.api_spans(cx.trace):
        act = cx.trace[i0]['act']
        if 'acc' not in cx.trace[i0]['snap'] or not (act['op'].startswith('order') or act['op'] in ('buy_open', 'sell_open', 'buy_close', 'sell_close', 'submit_order')):
            continue
        inner = [n for a, b, n in spans if i0 < a < i1]
        if 'ORDER_CREATION_REJECT' in inner and 'ORDER_PENDING_NEW' not in inner and 'TRADE' not in inner:
            s0, s1 = cx.trace[i0]['snap'], cx.trace[i1]['snap']
            cx.keys.add(repr(('REJ', act['op'])))
            if state_key(s0) != state_key(s1):
                closing = act['op'] in ('buy_close', 'sell_close') or (isinstance(act.get('amt'), (int, float)) and act['amt'] < 0) or act.get('side') == 'SELL'
                cx.hit('C10.reject_changes_state' if closing else 'C16.reject_changes_state', dict(op=act['op']), dict(act=act, before=state_key(s0), after=state_key(s1)))


def analyse(scn, out):
    cx = Ctx(scn, out)
    trade_steps(cx)
    order_event_steps(cx)
    view_checks(cx)
    before_trading_steps(cx)
    settlement_steps(cx)
    flow_steps(cx)
    ledger_monitor(cx)
    daily_monitor(cx)
    bar_mark_monitor(cx)
    t1_monitor(cx)
    reject_monitor(cx)
    cx.stats['skipped_nan'] = cx.skipped
    return cx
