# -*- coding: utf-8 -*-
"""C05 Fills execute only at the price the matching rule prescribes."""
from checks import acct_prop, matching


def gen(rng, tier):
    scn = acct_prop.gen_general(rng, tier, p_minute=0.5, p_div_capture=0.0, p_actions=0.1, p_delist=0.0,
                                opts=dict(p_cancel=0.05, actions_per_phase=(0, 1, 1, 2, 3), flows=False))
    sim = scn['cfg']['mod']['sys_simulation']
    sim['price_limit'] = rng.random() < 0.7
    return scn


globals().update(acct_prop.make(
    'C05', components=['match.price', 'match.outcome', 'match.broker'], clauses=['C05.'], gen=gen, analyser=matching.analyse, prelude=matching.PRELUDE,
    coq=['Model/Matcher.v', 'Model/Broker.v', 'Proofs/MatcherFacts.v', 'Proofs/BrokerFacts.v', 'Gen/Slippage.v', 'Gen/BrokerProg.v'], gen_mods=['Slippage', 'BrokerProg'],
    rule=('random order streams (market / limit at, above and below the market, stock and futures, auction and bar phases) over bars at the '
          'limits, missing bars and zero turnover; all matching types valid for the frequency (current_bar, vwap, next_bar for minute bars), all '
          'three slippage models and rates; a case is one recorded matcher call replayed through Model/Matcher.v (outcome class, price, '
          'quantity, close-today amount); distinct non-trivial = distinct (outcome x order type x side x auction x instrument kind x matching '
          'type x slippage model x partly filled) classes'),
    assumptions=['float64 rounding not modelled; configured percentages enter the model as decimals (0.1 -> 1/10)',
                 'bars lie inside their limit band (generator contract); the malformed stream is not part of this check']))
