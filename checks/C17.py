# -*- coding: utf-8 -*-
"""C17 Scheduler fires exactly on the trading days and times its rules denote."""
import datetime
import random

from checks import acct_prop
from checks.acct import Ctx, dint_of
from harness import scenario, steps, world as W
from lib.core import zlit, blit

PRELUDE = 'From RQ Require Import Model.Num Model.Scheduler Model.Check.\nOpen Scope Z_scope.\n'


def gen(rng, tier):
    freq = '1m' if rng.random() < 0.3 else '1d'
    start = rng.choice([datetime.date(2020, 1, 2), datetime.date(2020, 2, 12), datetime.date(2020, 3, 25), datetime.date(2019, 12, 20)])
    wo = dict(ndays=rng.randint(25, 60) if freq == '1d' else rng.randint(12, 25), holiday_p=rng.choice([0, 0.15, 0.3]), gap_p=rng.choice([0, 0.03]),
              actions=False, start=start, expiry=False)
    scn = scenario.gen_trading(rng, dict(freq=freq, world=wo, flows=False, stocks=1, futures=rng.random() < 0.3, actions_per_phase=(0,), p_cancel=0,
                                         minute_kind='future'))
    scn['script'] = {}
    nd = wo['ndays']
    scn['start_i'] = rng.randint(1, 6)
    scn['end_i'] = nd - rng.randint(1, 4)
    regs = []
    oid = (scn['meta']['futs'] or scn['meta']['active_stocks'])[0]
    for k in range(rng.randint(2, 6)):
        r = rng.random()
        if r < 0.2:
            reg = dict(kind='daily')
        elif r < 0.4:
            reg = dict(kind='weekly', weekday=rng.randint(1, 7))
        elif r < 0.65:
            reg = dict(kind='weekly', tradingday=rng.choice([1, 2, 3, 4, 5, -1, -2, -3, -4, -5]))
        else:
            reg = dict(kind='monthly', tradingday=rng.choice([1, 2, 3, 5, 10, 15, 20, 22, 23, -1, -2, -3, -10, -20, -23]))
        t = rng.random()
        if t < 0.3:
            reg['time'] = None
        elif t < 0.5:
            reg['time'] = ['before_trading']
        elif t < 0.7:
            reg['time'] = ['open', rng.choice([0, 1, 29, 44, 60, 119, 120, 200, 239])]
        elif t < 0.85:
            reg['time'] = ['close', rng.choice([0, 1, 30, 60, 119, 120, 150])]
        else:
            reg['time'] = ['phys', rng.choice([9, 10, 11, 12, 13, 14, 15]), rng.choice([0, 1, 15, 30, 31])] if rng.random() < 0.75 else ['phys', 0, 0]
        reg['tag'] = 'r%d' % k
        if rng.random() < 0.4:
            reg['act'] = dict(op='buy_open', id=oid, amt=1, style='mkt') if oid in W.FUTS else dict(op='order_shares', id=oid, amt=100, style='mkt')
        regs.append(reg)
    scn['sched'] = regs
    return scn


def time_minutes(t):
    if t is None:
        return 571
    if t[0] == 'open':
        m = 9 * 60 + 31 + t[1]
        return m + 90 if m > 11 * 60 + 30 else m
    if t[0] == 'close':
        m = 15 * 60 - t[1]
        return m - 90 if m < 13 * 60 else m
    if t[0] == 'phys':
        return t[1] * 60 + t[2]
    return None


def rule_lit(reg):
    if reg['kind'] == 'daily':
        d = 'DAlways'
    elif reg['kind'] == 'weekly' and reg.get('weekday') is not None:
        d = 'DWeekday %s' % zlit(reg['weekday'] - 1)
    elif reg['kind'] == 'weekly':
        n = reg['tradingday']
        d = 'DNthWeek %s' % zlit(n - 1 if n > 0 else n)
    else:
        n = reg['tradingday']
        d = 'DNthMonth %s' % zlit(n - 1 if n > 0 else n)
    t = reg.get('time')
    tl = 'TBeforeTrading' if (t and t[0] == 'before_trading') else 'TMinute %s' % zlit(time_minutes(t))
    return '(%s, %s)' % (d, tl)


def analyse(scn, out):
    cx = Ctx(scn, out)
    regs = scn.get('sched', [])
    if not regs:
        return cx
    days = cx.days
    cal_lit = '[%s]' % '; '.join('{| c_ord := %d; c_ym := %d |}' % (d.toordinal(), d.year * 100 + d.month) for d in days)
    daily = cx.cfg['base']['frequency'] == '1d'
    rules = '[%s]' % '; '.join(rule_lit(r) for r in regs)
    tags = [r['tag'] for r in regs]
    trace = cx.trace
    # cut into days
    cur = None
    per_day = []
    prev_sched = dict(week=[], month=[])
    for i, m in enumerate(trace):
        if m['k'] == 'ev0' and m['ev'] == 'PRE_BEFORE_TRADING':
            cur = dict(today=dint_of(m['snap']['trd']), pre=m['snap'].get('sched') or prev_sched, bt=[], bars=[], post=None, ranges=None)
            per_day.append(cur)
        elif cur is None:
            continue
        elif m['k'] == 'ev1' and m['ev'] == 'PRE_BEFORE_TRADING':
            cur['post'] = m['snap'].get('sched')
        elif m['k'] == 'ev0' and m['ev'] == 'BAR':
            cal = m['snap']['cal']
            cur['bars'].append(dict(minute=int(cal[11:13]) * 60 + int(cal[14:16]), fired=[], sched=m['snap'].get('sched')))
        elif m['k'] == 'sched':
            if m.get('has_bars') and cur['bars']:
                cur['bars'][-1]['fired'].append(m['tag'])
            else:
                cur['bt'].append(m['tag'])
        elif m['k'] == 'api1' and m.get('ph') == 'scheduled':
            # ordering from a scheduled function: allowed at a bar, refused before trading
            phase = cx.trace[i - 1]['snap'].get('phase') if i else None
            exc = m.get('exc')
            refused = bool(exc) and ('phase' in (exc.get('msg') or '').lower() or 'not allowed' in (exc.get('msg') or '').lower() or exc.get('cls') == 'RQInvalidArgument')
            if phase == 'BEFORE_TRADING' and not exc:
                cx.hit('C17.order_allowed_before_trading', {}, dict(act=m['act'], ret=m.get('ret')))
            if phase == 'SCHEDULED' and exc and 'phase' in (exc.get('msg') or ''):
                cx.hit('C17.order_refused_at_bar', {}, dict(act=m['act'], exc=exc))
            if phase not in ('BEFORE_TRADING', 'SCHEDULED'):
                cx.hit('C17.phase', dict(phase=phase), dict(act=m['act']))
    for dd in per_day:
        today = next(d for d in days if W.dint(d) == dd['today'])
        post = dd['post']
        if post is None:
            continue
        ranges = post['ranges']
        start_minute = post['start_minute']
        pre = dd['pre']
        exp_bt = [t in dd['bt'] for t in tags]
        # ---- correspondence
        s_prev = '{| sc_week := [%s]; sc_month := [%s]; sc_last_minute := 0; sc_current_minute := 0 |}' % (
            '; '.join('{| c_ord := %d; c_ym := 0 |}' % o for o in pre['week']), '; '.join('{| c_ord := %d; c_ym := 0 |}' % o for o in pre['month']))
        bars = '[%s]' % '; '.join('(%s, [%s])' % (zlit(b['minute']), '; '.join(blit(t in b['fired']) for t in tags)) for b in dd['bars'])
        term = 'chk_sched_day %s [%s] %s %s %s {| c_ord := %d; c_ym := %d |} %s [%s] %s [%s]%%Z [%s]%%Z' % (
            cal_lit, '; '.join('(%s, %s)' % (zlit(a), zlit(b)) for a, b in ranges), blit(daily), zlit(start_minute), s_prev, today.toordinal(),
            today.year * 100 + today.month, rules, '; '.join(blit(x) for x in exp_bt), bars,
            '; '.join(str(o) for o in post['week']), '; '.join(str(o) for o in post['month']))
        cx.case('sched.day', term, dict(today=dd['today'], bt=dd['bt'], bars=[(b['minute'], b['fired']) for b in dd['bars'] if b['fired']], week=post['week'], month=post['month']))
        # ---- oracle from the property text
        week = [d for d in days if d.isocalendar()[:2] == today.isocalendar()[:2]]
        month = [d for d in days if (d.year, d.month) == (today.year, today.month)]
        for reg in regs:
            if reg['kind'] == 'daily':
                day_ok = True
            elif reg.get('weekday') is not None:
                day_ok = today.isoweekday() == reg['weekday']
            else:
                bucket = week if reg['kind'] == 'weekly' else month
                n = reg['tradingday']
                idx = n - 1 if n > 0 else len(bucket) + n
                day_ok = 0 <= idx < len(bucket) and bucket[idx] == today
            t = reg.get('time')
            fired_bt = dd['bt'].count(reg['tag'])
            fired_bars = [b['minute'] for b in dd['bars'] if reg['tag'] in b['fired']]
            total = fired_bt + sum(b['fired'].count(reg['tag']) for b in dd['bars'])
            cx.keys.add(repr((reg['kind'], reg.get('weekday') is not None, (reg.get('tradingday') or 0) < 0, t[0] if t else None, day_ok, len(week), daily)))
            if total > 1:
                cx.hit('C17.more_than_once', dict(kind=reg['kind'], time=t[0] if t else None), dict(reg=reg, day=dd['today'], bt=fired_bt, bars=fired_bars))
            if t and t[0] == 'before_trading':
                exp_total = 1 if day_ok else 0
                if fired_bt != exp_total or fired_bars:
                    cx.hit('C17.before_trading_rule', dict(kind=reg['kind'], day_ok=day_ok), dict(reg=reg, day=dd['today'], bt=fired_bt, bars=fired_bars))
            else:
                n = time_minutes(t)
                in_range = any(a <= n <= b for a, b in ranges)
                if daily:
                    exp_bars = [b['minute'] for b in dd['bars']] if (day_ok and in_range) else []
                else:
                    exp_bars = []
                    if day_ok and in_range:
                        last = start_minute
                        for b in dd['bars']:
                            if last < n <= b['minute']:
                                exp_bars.append(b['minute'])
                            last = b['minute']
                if fired_bt or fired_bars != exp_bars:
                    cx.hit('C17.day_or_time', dict(kind=reg['kind'], weekday=reg.get('weekday') is not None, back=(reg.get('tradingday') or 0) < 0, time=t[0] if t else None, daily=daily),
                           dict(reg=reg, day=dd['today'], fired_bars=fired_bars, expected_bars=exp_bars, fired_bt=fired_bt, week=[str(x) for x in week], ranges=ranges))
    return cx


globals().update(acct_prop.make(
    'C17', components=['sched.'], clauses=['C17.'], gen=gen, analyser=analyse, prelude=PRELUDE,
    coq=['Model/Scheduler.v', 'Model/Phases.v', 'Proofs/SchedulerFacts.v', 'Gen/ApiPhases.v'], gen_mods=['ApiPhases'],
    rule=('random calendars (holiday-shortened weeks and months, long gaps, runs starting mid-week / mid-month, months with fewer than n trading '
          'days) with 2-6 registrations each: run_daily / run_weekly(weekday | tradingday +-1..5) / run_monthly(tradingday +-1..23) x time rule '
          '(default, before_trading, market_open, market_close, physical_time), daily and minute frequency; a case is one trading day: the cache '
          'refresh and every firing decision replayed through Model/Scheduler.v; distinct non-trivial = distinct (rule kind x direction x time '
          'rule x fires today x week length x frequency) classes'),
    assumptions=['the week / month caches of the code (searchsorted ranges) are compared with the model\'s filters on every day']))
COQ = [c for c in COQ if not c.startswith(('Model/Position', 'Model/Account', 'Model/Reserve', 'Model/Closable', 'Model/Portfolio', 'Model/Costs', 'Proofs/Position', 'Proofs/Account'))]
