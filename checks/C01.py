# -*- coding: utf-8 -*-
"""C01 Stock account ledger: cash, holdings and total value are conserved."""
from checks import acct_prop


def gen(rng, tier):
    return acct_prop.gen_general(rng, tier, opts=dict(stocks=rng.randint(1, 3), futures=rng.random() < 0.3))


globals().update(acct_prop.make(
    'C01', coq=['Gen/PosArith.v'], gen_mods=['PosArith'], components=['trade.stock', 'views.position', 'views.account', 'flow.', 'bt.cash', 'bt.arrive', 'bt.interest', 'bt.purge', 'settle.cash'],
    clauses=['C01.', 'C12.position_dropped', 'C12.value_before_trading', 'C12.value_settlement', 'C12.before_trading_cash'], gen=gen,
    rule=('random trading scenarios on synthetic bundles (1-3 stocks/ETF/STAR, optional futures, dividends, splits, delisting/conversion, '
          'deposits/withdrawals/financing, T+1 and reinvestment switches); a case is one recorded step of the real run (trade, flow, '
          'before-trading cash, settlement cash, public views) replayed through the Coq model; distinct non-trivial = distinct step classes '
          '(instrument kind x effect x direction x order/system trade x empty/odd position x corporate action combination x flow kind)'),
    assumptions=['float64 rounding not modelled (exact rationals, 1e-9 relative tolerance)',
                 'fees are taken as observed on the trade (their schedule is C11)']))
