# -*- coding: utf-8 -*-
"""C18 The analysis report equals what actually happened in the run."""
import math
import random

from checks import acct_prop
from checks.acct import Ctx, Skip, q, close, dint_of
from harness import scenario, run, steps, world as W
from lib.core import zlit, blit

PRELUDE = 'From RQ Require Import Model.Num Model.Portfolio Model.Analyser Model.Check.\nOpen Scope Q_scope.\n'


def gen(rng, tier):
    scn = acct_prop.gen_general(rng, tier, p_minute=0.1, p_div_capture=0.1, p_actions=0.4, p_delist=0.1, opts=dict(flows=rng.random() < 0.5, p_cancel=0.05))
    bm = rng.choice([None, W.INDEX, W.INDEX, W.STOCKS[0] if scn['cfg']['base']['frequency'] == '1d' else W.INDEX])
    if bm and rng.random() < 0.4:
        # the other spellings of a one-instrument benchmark: "ID:weight" and {ID: weight}; its return is the ratio of closes whatever the weight
        wgt = rng.choice([0.5, 2, 1, 0.25, 100])
        bm = ('%s:%s' % (bm, wgt)) if rng.random() < 0.5 else {bm: wgt}
    scn['cfg']['mod']['sys_analyser'] = {'enabled': True, 'benchmark': bm}
    nd = scn['world_opts'].get('ndays')
    r = rng.random()
    if r < 0.15:
        scn['end_i'] = scn['start_i']            # a one-day range
    scn['want_result'] = True
    if rng.random() < 0.15:
        # a run that fails must return no report
        r = rng.random()
        nd_run = scn['end_i'] - scn['start_i'] + 1
        if r < 0.35:
            d = rng.randint(scn['start_i'], scn['end_i'])
            scn['script'].setdefault('%d|%s|0' % (d, rng.choice(['handle_bar', 'before_trading', 'after_trading'])), []).append(dict(op='raise'))
        elif r < 0.55:
            scn['script'].setdefault('%d|after_trading|0' % scn['end_i'], []).append(dict(op='raise'))
        elif r < 0.85:
            # a subscribed handler failing after the last record was collected
            scn['event_handler_fault'] = [rng.choice(['POST_SETTLEMENT', 'POST_SETTLEMENT', 'SETTLEMENT']), nd_run]
        else:
            scn['event_handler_fault'] = [rng.choice(['POST_SETTLEMENT', 'SETTLEMENT', 'POST_BAR', 'TRADE']), rng.randint(1, nd_run)]
        scn['expect_failure'] = True
    return scn


def benchmark_id(spec):
    """the instrument of a one-instrument benchmark specification"""
    if isinstance(spec, dict):
        return list(spec)[0]
    return spec.split(':')[0] if spec else spec


def benchmark_closes(cx, bm, sd, ed):
    """closes of the benchmark as history_bars serves them (adjusted by the ex-cum factor), before the range and within it"""
    if bm == W.INDEX:
        rows = [(W.dint(d), 1000.0 + 7 * ((i * 37) % 11) - 3 * i) for i, d in enumerate(cx.days)]
    else:
        fac = cx.w.exfac.get(bm) or [(0, 1.0)]

        def f(d):
            return [x for s, x in fac if s <= d * 1000000][-1]
        rows = [(W.dint(b['d']), b['close'] * f(W.dint(b['d']))) for b in cx.w.stock_bars.get(bm, [])]
    return [c for d, c in rows if d < sd], [c for d, c in rows if sd <= d <= ed]


def analyse(scn, out):
    cx = Ctx(scn, out)
    res = out.get('result')
    sd = int(out['cfg']['base']['start_date'].replace('-', ''))
    ed = int(out['cfg']['base']['end_date'].replace('-', ''))
    n_range = len([d for d in cx.days if sd <= W.dint(d) <= ed])
    failed = any(m['k'] == 'api1' and m['act']['op'] == 'raise' for m in cx.trace)
    ehf = scn.get('event_handler_fault')
    if ehf and any(m['k'] == 'user0' and m.get('ph') == 'event_handler' and m.get('bar') == ehf[1] for m in cx.trace):
        failed = True
    cx.keys.add(repr(('fail', failed, ehf[0] if ehf else None)))
    cx.keys.add(repr(('R', failed, repr(scn['cfg']['mod']['sys_analyser']['benchmark']), scn['end_i'] == scn['start_i'], cx.cfg['base']['frequency'])))
    if failed:
        if res:
            cx.hit('C18.failed_run_reports', {}, dict(keys=list(res.keys()) if hasattr(res, 'keys') else str(res)[:80]))
        return cx
    bm = benchmark_id(scn['cfg']['mod']['sys_analyser']['benchmark'])
    bm_before, bm_within = benchmark_closes(cx, bm, sd, ed) if bm else ([], [])
    bm_complete = (not bm) or (bool(bm_before) and len(bm_within) == n_range)
    if not bm_complete:
        # the analyser refuses a benchmark without data over the whole range: the run fails, so no report may come back
        cx.keys.add(repr(('benchmark-incomplete', bool(res))))
        if res:
            cx.hit('C18.failed_run_reports', dict(case='benchmark without data'), dict(benchmark=bm))
        return cx
    if not res or 'sys_analyser' not in res:
        cx.hit('C18.no_report', dict(none=res is None), dict(result=str(res)[:100]))
        return cx
    rep = res['sys_analyser']
    pf = rep['portfolio']
    trades = rep['trades']
    summary = rep['summary']
    eod = [m for m in cx.trace if m['k'] == 'ev0' and m['ev'] == 'POST_SETTLEMENT' and 'acc' in m['snap']]
    days = [dint_of(m['snap']['trd']) for m in eod]
    rep_days = [int(d.strftime('%Y%m%d')) for d in pf.index]
    if rep_days != days:
        cx.hit('C18.report_days', dict(n_report=len(rep_days), n_days=len(days), dup=len(rep_days) != len(set(rep_days))), dict(report=rep_days[:6], days=days[:6]))
        return cx
    exp_days = [W.dint(d) for d in cx.days if sd <= W.dint(d) <= ed]
    if rep_days != exp_days:
        cx.hit('C18.report_days', dict(case='not the trading days of the range'), dict(report=rep_days[:6], expected=exp_days[:6]))
    navs = []
    for k, m in enumerate(eod):
        pub = m['snap']['pub']
        row = pf.iloc[k]
        try:
            cx.case('report.day', 'chk_report_day %s %s %s %s %s %s %s %s %s %s %s %s' % (
                q(pub['p_cash']), q(pub['p_total_value']), q(pub['p_market_value']), q(pub['p_unit_net_value']), q(pub['p_units']), q(pub['p_static_unit_net_value']),
                q(float(row['cash'])), q(float(row['total_value'])), q(float(row['market_value'])), q(float(row['unit_net_value'])), q(float(row['units'])),
                q(float(row['static_unit_net_value']))), dict(day=days[k]))
        except Skip:
            cx.skipped += 1
        for f, nd in (('cash', 4), ('total_value', 4), ('market_value', 4), ('unit_net_value', 6), ('static_unit_net_value', 4)):
            raw = pub['p_' + f]
            if isinstance(raw, float) and not math.isnan(raw) and abs(float(row[f]) - raw) > 0.5 * 10 ** (-nd) + 1e-9 * max(1, abs(raw)):
                cx.hit('C18.portfolio_record', dict(field=f), dict(day=days[k], reported=float(row[f]), actual=raw))
        if isinstance(pub['p_unit_net_value'], float):
            navs.append(pub['p_unit_net_value'])
        # account tables
        for acc in m['snap']['acc']:
            key = acc.lower() + '_account'
            if key in rep:
                arow = rep[key].iloc[k]
                for f in ('cash', 'total_value', 'market_value', 'transaction_cost'):
                    raw = pub[acc].get(f)
                    if isinstance(raw, float) and abs(float(arow[f]) - raw) > 0.5e-4 + 1e-9 * max(1, abs(raw)):
                        cx.hit('C18.account_record', dict(acc=acc, field=f), dict(day=days[k], reported=float(arow[f]), actual=raw))
    # ---- trades table = executed trades
    obs = [m['payload']['trade'] for m in cx.trace if m['k'] == 'ev0' and m['ev'] == 'TRADE']
    if len(trades) != len(obs):
        cx.hit('C18.trade_table', dict(case='count'), dict(report=len(trades), executed=len(obs)))
    else:
        for k, t in enumerate(obs):
            row = trades.iloc[k]
            if row['order_book_id'] != t['oid'] or row['side'] != t['side'] or not close(float(row['last_quantity']), t['qty']) \
                    or abs(float(row['last_price']) - t['price']) > 0.5e-4 + 1e-9 or not close(float(row['commission']), t['commission']) or not close(float(row['tax']), t['tax']) \
                    or row['exec_id'] != t['exec_id']:
                cx.hit('C18.trade_table', dict(case='row'), dict(index=k, row={c: str(row[c]) for c in trades.columns}, trade=t))
    # ---- summary
    if navs:
        final = navs[-1]
        try:
            cx.case('report.total_return', 'chk_total_return [%s] %s' % ('; '.join(q(x) for x in navs), q(float(summary['total_returns']))), dict(navs=navs[-3:], total_returns=summary['total_returns']))
        except Skip:
            cx.skipped += 1
        if not close(summary['total_returns'], final - 1, 1e-9):
            cx.hit('C18.total_returns', {}, dict(total_returns=summary['total_returns'], nav_final=final))
        if not close(summary['unit_net_value'], final, 1e-9):
            cx.hit('C18.summary_nav', {}, dict(unit_net_value=summary['unit_net_value'], nav_final=final))
        prod = 1.0
        prev = 1.0
        for x in navs:
            prod *= 1 + (x / prev - 1)
            prev = x
        if not close(summary['total_returns'], prod - 1, 1e-9):
            cx.hit('C18.compounding', {}, dict(total_returns=summary['total_returns'], compounded=prod - 1))
        n = len(days)
        exp_ann = final ** (252 / n) - 1 if final > 0 else -1
        if not close(summary['annualized_returns'], exp_ann, 1e-9):
            cx.hit('C18.annualized', {}, dict(annualized=summary['annualized_returns'], expected=exp_ann, n=n))
    if bm and 'benchmark_total_returns' in summary:
        before, within = bm_before, bm_within
        exp = within[-1] / before[-1] - 1
        try:
            cx.case('report.benchmark', 'chk_benchmark_return %s [%s] %s' % (q(before[-1]), '; '.join(q(c) for c in within), q(float(summary['benchmark_total_returns']))), dict(benchmark=bm))
        except Skip:
            cx.skipped += 1
        spec = scn['cfg']['mod']['sys_analyser']['benchmark']
        wgt = float(list(spec.values())[0]) if isinstance(spec, dict) else (float(spec.split(':')[1]) if ':' in spec else None)
        if wgt is not None:
            try:
                cx.case('report.benchmark', 'chk_weighted_benchmark_return %s %s [%s] %s' % (q(wgt), q(before[-1]), '; '.join(q(c) for c in within), q(float(summary['benchmark_total_returns']))),
                        dict(benchmark=bm, weight=wgt))
            except Skip:
                cx.skipped += 1
        if not close(summary['benchmark_total_returns'], exp, 1e-9):
            cx.hit('C18.benchmark_return', {}, dict(reported=summary['benchmark_total_returns'], expected=exp, benchmark=bm))
    elif bm:
        cx.hit('C18.benchmark_return', dict(case='missing'), dict(benchmark=bm))
    return cx


def work(item):
    """like the generic worker but keeps the run_func result"""
    import random as _r
    if item['kind'] == 'replay':
        out = run.run_scenario(item['scn'], want_result=True)
        cx = analyse(item['scn'], out)
        return dict(hits=[h for h in cx.hits if h['clause'].startswith('C18.')], cases=[], stats={}, n=1)
    rng = _r.Random(item['seed'])
    res = dict(cases=[], hits=[], stats={'runs': 0}, samples=[], n=0, nontrivial=[])
    keys = set()
    for _ in range(item['n']):
        scn = gen(rng, item['tier'])
        out = run.run_scenario(scn, want_result=True)
        res['stats']['runs'] += 1
        if out['exc']:
            return dict(error='harness: %s %s' % (out['exc']['cls'], out['exc']['tb'][-1200:]))
        cx = analyse(scn, out)
        res['cases'].extend(cx.cases)
        seen = set()
        for h in cx.hits:
            k = (h['clause'], repr(sorted(h['sig'].items())))
            if k not in seen:
                seen.add(k)
                res['hits'].append(h)
        for a, b in cx.stats.items():
            res['stats'][a] = res['stats'].get(a, 0) + b
        keys |= cx.keys
        res['n'] += len(cx.cases)
        if cx.cases and len(res['samples']) < 2:
            res['samples'].append(dict(case=cx.cases[0][0][:400], meta=cx.cases[0][1]))
    res['nontrivial'] = sorted(keys)
    return res


_base = acct_prop.make(
    'C18', components=['report.'], clauses=['C18.'], gen=gen, analyser=analyse, prelude=PRELUDE,
    coq=['Model/Portfolio.v', 'Model/Analyser.v', 'Model/ModLife.v', 'Proofs/PortfolioFacts.v', 'Proofs/AnalyserFacts.v', 'Proofs/ModLifeFacts.v'],
    rule=('random scenarios (any trading pattern, account mix, corporate actions, flows, benchmark none / index / stock spelled as id, "id:weight" or {id: weight}, ranges down to one day, runs that '
          'fail) with the analyser enabled; a case is one reported portfolio record against the recorder\'s end-of-day snapshot, the total return against '
          'the compounded closing net values, the benchmark return against the ratio of closes - replayed through Model/Analyser.v; distinct non-trivial = '
          'distinct (failed x benchmark x one-day x frequency) classes; trade table and account tables are compared row by row'),
    assumptions=['pandas, rqrisk, resample and round(x, n) are runtime: only the stated functions of the series are modelled (partial)',
                 'risk statistics (alpha, sharpe, drawdown ...) are outside the property'])
_base['work'] = work
globals().update(_base)
COQ = ['Model/Num.v', 'Model/Portfolio.v', 'Model/Analyser.v', 'Model/ModLife.v', 'Model/Check.v', 'Proofs/NumFacts.v', 'Proofs/PortfolioFacts.v',
       'Proofs/AnalyserFacts.v', 'Proofs/ModLifeFacts.v', 'Properties/C18.v']
