# -*- coding: utf-8 -*-
"""C09 Buying power: orders are covered by cash, reserved cash is conserved."""
from checks import acct_prop, acct, ordering


def gen(rng, tier):
    scn = acct_prop.gen_general(rng, tier, p_minute=0.4, p_div_capture=0.0, p_actions=0.2, p_delist=0.05,
                                opts=dict(p_cancel=0.2, actions_per_phase=(0, 1, 1, 2, 3, 4)))
    sim = scn['cfg']['mod']['sys_simulation']
    if rng.random() < 0.5:
        sim['matching_type'] = 'current_bar'
        sim['slippage'] = 0
    sim['volume_limit'] = rng.random() < 0.9
    return scn


globals().update(acct_prop.make(
    'C09', components=['frozen.', 'reserve.amount', 'trade.', 'validate.verdict'], clauses=['C09.'], gen=gen,
    analyser=acct_prop.combine(acct.analyse, ordering.analyse), prelude=acct_prop.COMBINED_PRELUDE,
    coq=['Model/Matcher.v', 'Model/Order.v', 'Proofs/OrderFacts.v', 'Proofs/ComposeFacts.v', 'Proofs/ComposeManyFacts.v', 'Model/Sizing.v', 'Model/Validators.v', 'Proofs/ValidatorsFacts.v', 'Gen/ValidatorChain.v', 'Proofs/ReserveFacts.v', 'Gen/Reserve.v', 'Model/Broker.v', 'Proofs/BrokerFacts.v', 'Gen/BrokerProg.v'], gen_mods=['Costs', 'Reserve', 'BrokerProg', 'ValidatorChain'],
    rule=('random scenarios with many concurrent limit and market orders, partial fills under volume caps (daily auction + bar, minute bars), '
          'cancels of resting and of final orders, matcher-side rejects and end-of-day expiry; a case is one recorded order event or trade '
          '(reserve amount, reserve on PENDING_NEW, release on trade / cancel / reject / expiry) or the verdict of the validator chain (cash check against available cash) on an order that reached it, replayed through the Coq model; distinct '
          'non-trivial = distinct (event kind x order status x partly filled x instrument kind x effect) classes'),
    assumptions=['float64 rounding not modelled', 'the broker protocol hypothesis of C09_frozen_invariant is discharged by the lifecycle machines for every interleaving of any number of orders (C09_every_interleaving); that the machine is SimulationBroker is the correspondence of C04 on the same runs']))
