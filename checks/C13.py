# -*- coding: utf-8 -*-
"""C13 Backtests are deterministic and isolated from other runs and unrelated data."""
import copy
import random

from checks import acct_prop
from checks.acct import Ctx, Skip, q, close, dint_of
from checks.C07 import first_diff
from harness import scenario, run, steps, world as W
from lib.core import zlit, blit

PRELUDE = 'From RQ Require Import Model.Num Model.Isolation Model.Check.\nOpen Scope Z_scope.\n'
PRODUCTS = ['RB', 'AG', 'ZN', 'R', 'A', 'Z', 'RB2']
ALL_FUTS = W.FUTS + [W.NOISE[1]]
FUTURES_ONLY_APIS = ('future_contracts', 'buy_open', 'sell_open', 'buy_close', 'sell_close')


def refs(scn):
    """every instrument the strategy references (by id, by universe, by product)"""
    ids = set(scn.get('universe') or [])
    for acts in scn['script'].values():
        for a in acts:
            if 'id' in a:
                ids.add(a['id'])
            ids.update(a.get('ids', []))
            if a.get('op') == 'future_contracts':
                ids.update(f for f in ALL_FUTS if f[:-4] == a['und'])
    ids |= set(scn['meta']['active_stocks']) | set(scn['meta']['futs'])
    bm = scn['cfg']['mod'].get('sys_analyser', {}).get('benchmark')
    if bm:
        ids.add(bm)
    return sorted(ids)


def gen_one(rng, tier, flavour=None):
    fl = flavour or rng.choice(['general', 'general', 'stock_only', 'futures', 'minute', 'divs'])
    if fl == 'divs':
        scn = scenario.gen_div_capture(rng, dict(integral_splits=True))
    else:
        scn = acct_prop.gen_general(rng, tier, p_minute=1.0 if fl == 'minute' else 0.0, p_div_capture=0.0,
                                    opts=dict(futures={'stock_only': False, 'futures': True}.get(fl, rng.random() < 0.5)))
    sa = scn['cfg']['mod']['sys_accounts']
    sa['dividend_reinvestment'] = rng.random() < 0.5
    sa['cash_return_by_stock_delisted'] = rng.random() < 0.5
    sa['stock_t1'] = rng.random() < 0.6
    ids = refs(scn)
    for i in range(scn['start_i'], scn['end_i'] + 1):
        for ph in ('before_trading', 'handle_bar'):
            if rng.random() < 0.3 and scn['cfg']['base']['frequency'] == '1d':
                r = rng.random()
                acts = []
                if r < 0.4:
                    # without a futures account the call fails in a fresh process (known finding D21): keep that rare so that it does not mask the rest
                    if 'future' in scn['cfg']['base']['accounts'] or rng.random() < 0.08:
                        acts.append(dict(op='future_contracts', und=rng.choice(PRODUCTS)))
                elif r < 0.6:
                    acts.append(dict(op='instruments', id=rng.choice(ids)))
                elif r < 0.7:
                    if 'future' in scn['cfg']['base']['accounts'] or rng.random() < 0.08:
                        acts.append(dict(op='buy_open', id=rng.choice(W.FUTS), amt=1, style='mkt'))     # a futures API, (rarely) without a futures account
                elif ph == 'handle_bar':
                    acts.append(dict(op='feedback', ids=ids))
                if acts:
                    scn['script'].setdefault('%d|%s|0' % (i, ph), []).extend(acts)
    scn['record_proc'] = True
    return scn


def gen(rng, tier):
    t = gen_one(rng, tier)
    t['c13_others'] = [gen_one(rng, tier) for _ in range(rng.randint(1, 3))]
    return t


def strip(trace):
    """the comparable trace: the margin switch and the number of memoised entries are process bookkeeping, not outcome"""
    out = []
    for m in trace:
        if m['k'] == 'proc':
            m = dict(m)
            m['proc'] = {k: v for k, v in m['proc'].items() if k not in ('margin_switch_on', 'cached_entries', 'future_apis')}
        out.append(m)
    return out


def run_norm(scn):
    s = {k: v for k, v in scn.items() if k != 'c13_others'}
    out = run.run_scenario(s)
    if out['exc']:
        raise RuntimeError('harness: %s %s' % (out['exc']['cls'], out['exc']['tb'][-800:]))
    return out, strip(steps.normalise_ids(out['trace']))


def enclosing_api(trace, i):
    depth = 0
    for j in range(min(i, len(trace) - 1), -1, -1):
        k = trace[j]['k']
        if k == 'api1' and j != i:
            depth += 1
        elif k == 'api0':
            if depth == 0:
                return trace[j]['act']['op']
            depth -= 1
    return None


def compare(a, b):
    for i, (x, y) in enumerate(zip(a, b)):
        d = first_diff('', x, y)
        if d:
            return dict(index=i, path=d[0], a=d[1], b=d[2], mark=x['k'], ev=x.get('ev'), op=(x.get('act') or {}).get('op'), within=enclosing_api(a, i))
    if len(a) != len(b):
        return dict(index=min(len(a), len(b)), path='/len', a=len(a), b=len(b), mark='end')
    return None


def sw_lit(cfg_or_proc, from_proc=False):
    if from_proc:
        return '{| sw_reinvest := %s; sw_cash_return := %s; sw_t1 := %s |}' % (blit(cfg_or_proc['reinvest']), blit(cfg_or_proc['cash_return']), blit(cfg_or_proc['t1']))
    sa = cfg_or_proc['mod']['sys_accounts']
    return '{| sw_reinvest := %s; sw_cash_return := %s; sw_t1 := %s |}' % (blit(bool(sa.get('dividend_reinvestment', False))),
                                                                          blit(bool(sa.get('cash_return_by_stock_delisted', True))), blit(bool(sa.get('stock_t1', True))))


def model_cases(cx, scn, out, prev_proc):
    """boot, contract and instrument lookups of one run replayed through Model/Isolation.v"""
    w = out['world']
    proc = next((m['proc'] for m in out['trace'] if m['k'] == 'proc'), None)
    if proc is not None:
        prev = sw_lit(prev_proc, True) if prev_proc else '{| sw_reinvest := false; sw_cash_return := false; sw_t1 := false |}'
        cx.case('iso.boot', 'chk_boot %s %s %s %s %s %s %s %s' % (prev, sw_lit(scn['cfg']), sw_lit(proc, True), blit(bool(prev_proc and prev_proc['margin_switch_on'])),
                                                                  blit(proc['env_is_current']), blit('future' in scn['cfg']['base']['accounts']),
                                                                  blit(bool(prev_proc and prev_proc.get('future_apis'))), blit(bool(proc.get('future_apis')))),
                dict(proc=proc, prev=prev_proc))
        cfgsw = scn['cfg']['mod']['sys_accounts']
        exp = dict(reinvest=bool(cfgsw.get('dividend_reinvestment', False)), cash_return=bool(cfgsw.get('cash_return_by_stock_delisted', True)), t1=bool(cfgsw.get('stock_t1', True)))
        for k, v in exp.items():
            if proc[k] != v:
                cx.hit('C13.switch_not_from_config', dict(switch=k), dict(configured=v, seen=proc[k], previous_run=prev_proc))
        if not proc['env_is_current']:
            cx.hit('C13.stale_environment', {}, dict(proc=proc))
    # instruments of the data set, coded in string order
    names = sorted(set(list(w.instruments) + PRODUCTS + [i[:-4] for i in w.instruments if w.instruments[i]['kind'] == 'Future']))
    code = {n: k for k, n in enumerate(names)}
    data = '[%s]' % '; '.join('{| i_id := %d; i_und := %d; i_future := %s; i_listed := %d; i_delisted := %d |}' % (
        code[i], code[i[:-4]] if ins['kind'] == 'Future' else -1, blit(ins['kind'] == 'Future'), W.dint(ins['listed']),
        W.dint(ins['delisted']) if ins['delisted'] else 99991231) for i, ins in sorted(w.instruments.items()))
    for i0, i1 in steps.api_spans(out['trace']):
        m0, m1 = out['trace'][i0], out['trace'][i1]
        act = m0['act']
        if m1['exc'] is not None:
            continue
        if act['op'] == 'future_contracts':
            d = dint_of(m0['snap']['trd'])
            res = m1['res']
            cx.case('iso.contracts', 'chk_contracts %s %d %d [%s]' % (data, code[act['und']], d, '; '.join(str(code[x]) for x in res)), dict(act=act, res=res, day=d))
            exp = sorted(i for i, ins in w.instruments.items() if ins['kind'] == 'Future' and i[:-4] == act['und'] and W.dint(ins['listed']) <= d <= W.dint(ins['delisted']))
            if res != exp:
                cx.hit('C13.contracts', dict(extra=bool(set(res) - set(exp))), dict(act=act, got=res, expected=exp))
            cx.keys.add(repr(('contracts', act['und'], len(res))))
        elif act['op'] == 'instruments':
            cx.case('iso.find', 'chk_find %s %d %s' % (data, code[act['id']], blit(m1['res'] is not None)), dict(act=act, res=m1['res']))


def analyse_seq(scn):
    """T fresh, the others, T again, T on the data set pruned to what it references; the others again at the end"""
    cx = None
    others = scn.get('c13_others', [])
    out_t, t1 = run_norm(scn)
    cx = Ctx(scn, out_t)
    model_cases(cx, scn, out_t, None)
    prev = next((m['proc'] for m in out_t['trace'] if m['k'] == 'proc'), None)
    first = []
    for o in others:
        out_o, to = run_norm(o)
        model_cases(cx, o, out_o, prev)
        prev = next((m['proc'] for m in out_o['trace'] if m['k'] == 'proc'), prev)
        first.append(to)
    out_t2, t2 = run_norm(scn)
    model_cases(cx, scn, out_t2, prev)
    prev = next((m['proc'] for m in out_t2['trace'] if m['k'] == 'proc'), prev)
    pairs = [('after_other_runs', t1, t2, scn)]
    pruned = copy.deepcopy({k: v for k, v in scn.items() if k != 'c13_others'})
    pruned['prune_world'] = refs(scn)
    out_p, tp = run_norm(pruned)
    model_cases(cx, pruned, out_p, prev)
    pairs.append(('superset_of_data', tp, t1, scn))
    for k, o in enumerate(others):
        _, to2 = run_norm(o)
        pairs.append(('other_order', first[k], to2, o))
    fr = scn['cfg']['base']['frequency']
    for name, a, b, s in pairs:
        cx.stats['compare_' + name] = cx.stats.get('compare_' + name, 0) + 1
        cx.stats['marks_compared'] = cx.stats.get('marks_compared', 0) + len(a)
        cx.keys.add(repr((name, fr, bool(s['meta']['futs']), bool(s['meta']['active_stocks']), len(others))))
        d = compare(a, b)
        if d:
            leaf = d['path'].split('/')[-1]
            sig = dict(kind=name, mark=d['mark'], what=d.get('op') or d.get('ev'), field=leaf)
            if 'future' not in s['cfg']['base']['accounts'] and d.get('within') in FUTURES_ONLY_APIS:
                # a futures API called by a run without a futures account: whether it exists depends on what ran before (D21)
                sig = dict(kind=name, within=d['within'], cause='api_injected_by_an_earlier_run')
            cx.hits.append(dict(clause='C13.outcome_differs', sig=sig,
                                detail=dict(first_difference=d, runs_before=len(others)), scn=scn))
    return cx


def work(item):
    if item['kind'] == 'replay':
        try:
            cx = analyse_seq(item['scn'])
        except RuntimeError as e:
            return dict(hits=[dict(clause='harness', sig={}, detail=str(e))], cases=[], stats={}, n=1)
        return dict(hits=[h for h in cx.hits if h['clause'].startswith('C13.')], cases=[], stats={}, n=1)
    rng = random.Random(item['seed'])
    res = dict(cases=[], hits=[], stats={'runs': 0}, samples=[], n=0, nontrivial=[])
    scn = gen(rng, item['tier'])
    try:
        cx = analyse_seq(scn)
    except RuntimeError as e:
        return dict(error=str(e))
    res['stats']['runs'] = 3 + 2 * len(scn['c13_others'])
    res['cases'] = cx.cases
    seen = set()
    for h in cx.hits:
        k = (h['clause'], repr(sorted(h['sig'].items())))
        if k not in seen:
            seen.add(k)
            res['hits'].append(h)
    for a, b in cx.stats.items():
        res['stats'][a] = res['stats'].get(a, 0) + b
    res['n'] = len(cx.cases)
    res['nontrivial'] = sorted(cx.keys)
    if cx.cases:
        c = cx.cases[0]
        res['samples'].append(dict(case=c[0][:500], meta={k: v for k, v in c[1].items() if k in ('component', 'proc', 'act')}))
    return res


def plan(tier, seed):
    n = 48 if tier == 'quick' else 640
    return [dict(kind='batch', seed=seed * 1000003 + k * 7919 + 13, n=1, tier=tier) for k in range(n)]


_base = acct_prop.make(
    'C13', components=['iso.'], clauses=['C13.'], gen=gen, analyser=None, prelude=PRELUDE, gen_mods=['Globals'],
    rule=('each work item is a fresh process: a scenario T runs first, then 1-3 other scenarios (stock-only, futures, minute bars, dividend capture, other '
          'class-level switches and validators), then T again, then T on the data set pruned to the instruments it references, then the other scenarios '
          'again; the full recorded traces (order / trade ids renamed by first appearance) are compared mark by mark: fresh vs after other runs, pruned vs '
          'superset data, each other scenario in two different positions; the process state found at init (class-level switches, environment singleton), '
          'every get_future_contracts and instruments call are replayed through Model/Isolation.v; the inventory of process-wide state is regenerated '
          '(Gen/Globals.v) and its lemmas re-proved; distinct non-trivial = distinct (comparison kind x frequency x accounts x number of runs before) classes'),
    assumptions=['the Account.margin class switch and the number of memoised entries are bookkeeping: excluded from the comparison, modelled (pr_margin_on, pr_cache)',
                 'interpreter state outside the regenerated inventory (imports, numpy / pandas globals, the Decimal context) is covered by the run sequences only (partial)'])
_base['work'] = work
_base['plan'] = plan
globals().update(_base)
COQ = ['Model/Num.v', 'Model/Isolation.v', 'Model/Globals.v', 'Model/Check.v', 'Proofs/NumFacts.v', 'Proofs/IsolationFacts.v', 'Gen/Globals.v', 'Properties/C13.v']
