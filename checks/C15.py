# -*- coding: utf-8 -*-
"""C15 Order-sizing APIs: whole lots, never over the requested value, cash or holdings."""
import random

from checks import acct_prop, ordering
from harness import scenario, world as W


def gen(rng, tier):
    r = rng.random()
    if r < 0.15:
        return scenario.gen_odd_lot(rng)
    if r < 0.3:
        return scenario.gen_close_pile(rng, dict(kind='future', order_calls=True))
    scn = acct_prop.gen_general(rng, tier, p_minute=0.15, p_div_capture=0.0, p_actions=0.6, p_delist=0.0, integral_splits=True,
                                opts=dict(p_cancel=0.02, actions_per_phase=(0, 1, 2, 3), flows=rng.random() < 0.3, stocks=rng.randint(1, 3), futures=rng.random() < 0.4))
    scn['cfg']['base']['accounts']['stock'] = rng.choice([100000, 30000, 5000, 1000000]) if 'stock' in scn['cfg']['base']['accounts'] else None
    if scn['cfg']['base']['accounts'].get('stock') is None:
        scn['cfg']['base']['accounts'].pop('stock', None)
    # amounts around the lot / budget boundaries, negative, zero and fractional requests
    w = W.gen_world(random.Random(scn['world_seed']), scn['world_opts'])
    stocks = scn['meta']['active_stocks']
    for key, acts in list(scn['script'].items()):
        i = int(key.split('|')[0])
        for a in acts:
            if a.get('id') in stocks and rng.random() < 0.5:
                b = w.bar(a['id'], w.days[i])
                px = b['close'] if b else 10.0
                lot = w.instruments[a['id']]['lot']
                k = rng.choice([1, 2, 5, 10])
                if a['op'] in ('order_value', 'order_target_value'):
                    a['amt'] = rng.choice([k * lot * px, k * lot * px + 5, k * lot * px + 4.99, k * lot * px * 1.0008, k * lot * px - 0.01, 0, -k * lot * px, 0.5 * px, -1e7])
                elif a['op'] in ('order_shares', 'order', 'order_to'):
                    a['amt'] = rng.choice([k * lot, k * lot + 1, k * lot - 1, 0, 0.5, -k * lot, -k * lot - 50, 199, 200, 201, -99999, 150, -150])
                elif a['op'] in ('order_percent', 'order_target_percent'):
                    a['amt'] = rng.choice([0, 0.001, 0.1, 0.5, 1.0, -0.05]) if a['op'] == 'order_percent' else rng.choice([0, 0.001, 0.1, 0.5, 1.0])
    scn['cfg']['mod']['sys_simulation'].update(volume_limit=rng.random() < 0.4, price_limit=rng.random() < 0.5)
    return scn


globals().update(acct_prop.make(
    'C15', components=['sizing.'], clauses=['C15.'], gen=gen, analyser=ordering.analyse, prelude=ordering.PRELUDE,
    coq=['Model/Sizing.v', 'Model/Validators.v', 'Proofs/SizingFacts.v'],
    rule=('random order API calls (order_shares / lots / value / percent / target_value / target_percent / order / order_to / submit_order and the '
          'futures calls) with amounts around k x lot x price + fee, negative, zero and fractional requests, requests larger than cash or holdings, lot '
          'sizes 100 and 1 (STAR market: 200 minimum), odd-lot holdings created by splits, auto-switch on / off, market and limit styles; a case is '
          'one recorded API call: the order (or legs) it creates computed by Model/Sizing.v from the state before the call; distinct non-trivial = '
          'distinct (API x instrument kind x style x created / rejected / silent) classes'),
    assumptions=['float64 rounding not modelled; Decimal quotients are exact quotients truncated (quantities stay below 10^9)',
                 'order_target_portfolio: only its per-instrument arithmetic (order_target semantics) is covered (partial)']))
