# -*- coding: utf-8 -*-
"""C03 Net value, units and returns accounting is consistent and flow-neutral."""
from checks import acct_prop
from harness import scenario


def gen(rng, tier):
    scn = acct_prop.gen_general(rng, tier, p_minute=0.1, p_div_capture=0.15, opts=dict(flows=True, p_cancel=0.04))
    # more flows: deposits with every receiving delay, withdrawals, financing
    days = range(scn['start_i'], scn['end_i'] + 1)
    has_stock = 'stock' in scn['cfg']['base']['accounts']
    for i in days:
        if rng.random() < 0.35:
            k = '%d|%s|0' % (i, rng.choice(['open_auction', 'handle_bar']))
            if scn['cfg']['base']['frequency'] == '1d' or k.endswith('open_auction|0'):
                scn['script'].setdefault(k, []).append(scenario.flow_action(rng, has_stock))
    return scn


globals().update(acct_prop.make(
    'C03', components=['portfolio.', 'flow.', 'bt.arrive', 'bt.purge', 'views.account'],
    clauses=['C03.'], gen=gen,
    rule=('random trading scenarios with many deposits (receiving delay 0-3 days), withdrawals, financing and repayments across corporate-action '
          'dates; a case is one recorded step (unit net value, units after a flow, the previous-close latch, daily returns, arrival of pending '
          'deposits) replayed through the Coq model; distinct non-trivial = distinct step classes'),
    assumptions=['float64 rounding not modelled',
                 'daily P&L = change of value is checked on days without fractional split results / overlapping dividends (recorded findings of C12)']))
