# -*- coding: utf-8 -*-
"""C19 Failure containment: mods start/tear down once; errors never look like success."""
import random

from checks import acct_prop
from checks.acct import Ctx
from harness import scenario, world as W
from lib.core import zlit, blit

PRELUDE = 'From RQ Require Import Model.Num Model.ModLife Model.Check.\nOpen Scope Z_scope.\n'
PHASES = ['before_trading', 'open_auction', 'handle_bar', 'after_trading']
CODES = {'EXIT_SUCCESS': 'ExitSuccess', 'EXIT_USER_ERROR': 'ExitUserError', 'EXIT_INTERNAL_ERROR': 'ExitInternalError'}


def gen(rng, tier):
    wo = dict(ndays=rng.randint(5, 9), actions=False, expiry=False)
    scn = scenario.gen_trading(rng, dict(freq='1d', world=wo, flows=False, stocks=1, futures=rng.random() < 0.3, actions_per_phase=(0, 0, 1), p_cancel=0))
    scn['cfg']['mod']['sys_analyser'] = {'enabled': True, 'benchmark': None}
    nd = wo['ndays']
    scn['start_i'], scn['end_i'] = 1, nd - 2
    ndays = scn['end_i'] - scn['start_i'] + 1
    probes = []
    for k in range(rng.randint(2, 4)):
        probes.append(dict(tag='p%d' % k, priority=rng.choice([10, 50, 100, 100, 150, 300]), teardown_raises=rng.random() < 0.3))
    kind = rng.choice(['none', 'user', 'user', 'api', 'internal', 'internal', 'init', 'handler'])
    fault = dict(kind=kind)
    if kind in ('user', 'api'):
        d = rng.randint(scn['start_i'], scn['end_i'])
        ph = rng.choice(PHASES)
        scn['script'].setdefault('%d|%s|0' % (d, ph), []).insert(rng.choice([0, 0, 1]), dict(op='raise' if kind == 'user' else 'raise_api'))
        fault.update(day=d, ph=ph)
    elif kind == 'init':
        scn['script'].setdefault('-1|init|0', []).append(dict(op=rng.choice(['raise', 'raise_api'])))
    elif kind == 'internal':
        ev = rng.choice(['BAR', 'PRE_BEFORE_TRADING', 'POST_BAR', 'PRE_SETTLEMENT', 'POST_SETTLEMENT', 'AFTER_TRADING', 'PRE_OPEN_AUCTION'])
        probes[rng.randrange(len(probes))].update(fault_event=ev, fault_day=rng.randint(1, ndays))
        fault.update(event=ev)
    elif kind == 'handler':
        scn['event_handler_fault'] = [rng.choice(['POST_BAR', 'POST_BEFORE_TRADING', 'POST_SETTLEMENT']), rng.randint(1, ndays)]
    scn['probes'] = probes
    scn['fault'] = fault
    return scn


def analyse(scn, out):
    cx = Ctx(scn, out)
    log = out.get('probe_log') or []
    probes = scn['probes']
    fault = scn['fault']
    ids = {p['tag']: k for k, p in enumerate(probes)}
    starts = [e[1] for e in log if e[0] == 'start']
    tears = [e for e in log if e[0] == 'teardown']
    injects = [e for e in log if e[0] == 'inject']
    cbs = [m for m in cx.trace if m['k'] == 'user0' and m['ph'] != 'event_handler']
    ncb_total = 1 + 4 * (scn['end_i'] - scn['start_i'] + 1)
    kind = fault['kind']
    # index of the callback that raises (user faults): position in the fixed callback order
    if kind in ('user', 'api'):
        K = 1 + 4 * (fault['day'] - scn['start_i']) + PHASES.index(fault['ph'])
        f = 'UserFault %d' % K
    elif kind == 'init':
        K = 0
        f = 'UserFault 0'
    elif kind == 'internal':
        K = len(cbs) - 1 if injects else None
        f = ('InternalFault %d' % K) if injects else 'NoFault'
    elif kind == 'handler':
        fired = any(m['k'] == 'user0' and m['ph'] == 'event_handler' and m['bar'] == scn['event_handler_fault'][1] for m in cx.trace)
        K = len(cbs) - 1 if fired else None
        f = ('UserFault %d' % K) if fired else 'NoFault'
    else:
        K = None
        f = 'NoFault'
    observed = ['LStart %d' % ids[t] for t in starts] + ['LCallback %d' % k for k in range(len(cbs))] + \
               ['LTearDown %d %s %s' % (ids[e[1]], CODES.get(e[2], 'ExitInternalError'), blit(probes[ids[e[1]]]['teardown_raises'])) for e in tears] + \
               ['LResult %s' % blit(out['has_report'])]
    mods = '[%s]' % '; '.join('{| md_id := %d; md_priority := %s; md_teardown_raises := %s |}' % (k, zlit(p['priority']), blit(p['teardown_raises'])) for k, p in enumerate(probes))
    cx.case('modlife.run', 'chk_modlife %s %d (%s) [%s]' % (mods, ncb_total, f, '; '.join(observed)),
            dict(fault=fault, starts=starts, teardowns=[list(e) for e in tears], callbacks=len(cbs), has_report=out['has_report'], result_is_none=out['result_is_none'],
                 injects=[list(e) for e in injects]))
    cx.keys.add(repr((kind, fault.get('ph'), fault.get('event'), f == 'NoFault', tuple(sorted(p['priority'] for p in probes)), any(p['teardown_raises'] for p in probes))))
    # ---- monitors from the property text
    by_prio = [p['tag'] for p in sorted(probes, key=lambda p: p['priority'])]      # stable: ties keep configuration order
    if sorted(starts) != sorted(p['tag'] for p in probes):
        cx.hit('C19.start_once', {}, dict(starts=starts))
    elif [probes[ids[t]]['priority'] for t in starts] != sorted(p['priority'] for p in probes):
        cx.hit('C19.start_order', {}, dict(starts=starts, priorities=[probes[ids[t]]['priority'] for t in starts]))
    first_cb = next((i for i, m in enumerate(cx.trace) if m['k'] == 'user0'), None)
    if [e[1] for e in tears] != list(reversed(starts)):
        cx.hit('C19.teardown_order', dict(n=len(tears), expected=len(starts)), dict(starts=starts, teardowns=[e[1] for e in tears]))
    faulted = f != 'NoFault'
    want_code = 'EXIT_SUCCESS' if not faulted else ('EXIT_INTERNAL_ERROR' if kind == 'internal' else 'EXIT_USER_ERROR')
    for e in tears:
        if e[2] != want_code:
            cx.hit('C19.exit_code', dict(kind=kind, got=e[2], want=want_code), dict(teardown=list(e), fault=fault))
    if faulted and (out['has_report'] or not out['result_is_none']):
        cx.hit('C19.failed_run_reports', dict(kind=kind), dict(fault=fault, has_report=out['has_report'], result_is_none=out['result_is_none']))
    if not faulted and not out['has_report']:
        cx.hit('C19.success_without_report', {}, dict(fault=fault))
    if kind in ('user', 'api', 'init'):
        if len(cbs) != K + 1:
            cx.hit('C19.callback_after_fault', dict(kind=kind, ph=fault.get('ph')), dict(callbacks=len(cbs), fault_index=K))
        # no order or fill after the fault
        idx = next((i for i, m in enumerate(cx.trace) if m['k'] == 'api1' and m['act']['op'] in ('raise', 'raise_api')), None)
        if idx is not None:
            later = [m['ev'] for m in cx.trace[idx + 1:] if m['k'] == 'ev0' and (m['ev'].startswith('ORDER') or m['ev'] == 'TRADE')]
            if later:
                cx.hit('C19.effects_after_fault', dict(kind=kind), dict(events=later[:5]))
    if not faulted and len(cbs) != ncb_total:
        cx.hit('C19.callbacks_missing', {}, dict(callbacks=len(cbs), expected=ncb_total))
    return cx


globals().update(acct_prop.make(
    'C19', components=['modlife.'], clauses=['C19.'], gen=gen, analyser=analyse, prelude=PRELUDE,
    coq=['Model/ModLife.v', 'Proofs/ModLifeFacts.v'],
    rule=('random sets of 2-4 probe mods (priorities with ties, tear-downs that raise) around runs whose failure point is every callback kind '
          '(init, before_trading, open_auction, handle_bar, after_trading, subscribed event handlers) on every day, user-raised and API-raised, or an '
          'internal exception injected into a system event (BAR, PRE_BEFORE_TRADING, PRE_SETTLEMENT, ...); a case is one whole run: start-ups, '
          'callbacks, tear-downs with exit codes and the returned result replayed through Model/ModLife.v; distinct non-trivial = distinct (fault kind '
          'x phase / event x priorities x raising tear-down) classes'),
    assumptions=['Python exception propagation is modelled, not verified', 'system mods are interleaved with the probes by priority; only the probes are observed']))
COQ = ['Model/Num.v', 'Model/ModLife.v', 'Model/Check.v', 'Proofs/ModLifeFacts.v', 'Properties/C19.v']
