# -*- coding: utf-8 -*-
"""C20 History and calendar APIs return exactly the right window, correctly adjusted."""
import datetime
import random

from checks import acct_prop
from checks.acct import Ctx, Skip, q, close, dint_of
from harness import scenario, steps, world as W
from lib.core import zlit, blit

PRELUDE = 'From RQ Require Import Model.Num Model.Calendar Model.Check.\nOpen Scope Q_scope.\n'
PHASES = {'before_trading': 'HBeforeTrading', 'open_auction': 'HOpenAuction', 'handle_bar': 'HOnBar', 'after_trading': 'HAfterTrading', 'scheduled': 'HScheduled'}


def gen(rng, tier):
    freq = '1m' if rng.random() < 0.2 else '1d'
    wo = dict(ndays=rng.randint(10, 22), holiday_p=rng.choice([0, 0.15, 0.3]), gap_p=rng.choice([0, 0.05]), actions=True,
              suspend=rng.random() < 0.6, late_listing=rng.random() < 0.3, nonmonotone_factors=rng.random() < 0.25,
              integral_splits=True)
    scn = scenario.gen_trading(rng, dict(freq=freq, world=wo, flows=False, stocks=2, futures=rng.random() < 0.5, actions_per_phase=(0, 0, 1), p_cancel=0))
    w = W.gen_world(random.Random(scn['world_seed']), scn['world_opts'])
    days = w.days
    ids = [W.STOCKS[0], W.STOCKS[1], W.ETF] + ([W.FUTS[0]] if 'future' in scn['cfg']['base']['accounts'] else [])
    if freq == '1m':
        ids = [i for i in ids if (i in W.FUTS) == ('future' in scn['cfg']['base']['accounts'])]
    script = scn['script']
    lo, hi = days[0] - datetime.timedelta(days=5), days[-1] + datetime.timedelta(days=5)
    span = (hi - lo).days

    def rdate():
        if rng.random() < 0.5:
            return str(rng.choice(days))
        return str(lo + datetime.timedelta(days=rng.randint(0, span)))
    for i in range(scn['start_i'], scn['end_i'] + 1):
        for ph in ('before_trading', 'open_auction', 'handle_bar', 'after_trading'):
            if rng.random() < 0.5:
                continue
            acts = []
            for _ in range(rng.randint(1, 3)):
                r = rng.random()
                if r < 0.55:
                    oid = rng.choice(ids)
                    listed = w.instruments[oid]['listed']
                    if listed > days[i]:
                        continue
                    acts.append(dict(op='history_bars', id=oid, n=rng.choice([1, 2, 3, 5, 8, 30]), fields=['datetime', 'close', 'volume'],
                                     skip=rng.random() < 0.6, adjust=rng.choice(['pre', 'pre', 'none', 'post'])))
                elif r < 0.7:
                    acts.append(dict(op='prev_date', d=rdate(), n=rng.choice([1, 1, 2, 5, 40])))
                elif r < 0.85:
                    acts.append(dict(op='next_date', d=rdate(), n=rng.choice([1, 1, 2, 5, 40])))
                elif r < 0.93:
                    a, b = sorted([rdate(), rdate()])
                    if rng.random() < 0.1:
                        a, b = b, a
                    acts.append(dict(op='trading_dates', a=a, b=b))
                else:
                    a, b = sorted([rdate(), rdate()])
                    acts.append(dict(op='count_dates', a=a, b=b))
            k = 0
            if freq == '1m' and ph == 'handle_bar':
                k = rng.choice([0, 29, 239]) if 'stock' in scn['cfg']['base']['accounts'] else rng.choice([0, 3, 7])
            if acts:
                script.setdefault('%d|%s|%d' % (i, ph, k), []).extend(acts)
    return scn


def d2i(s):
    return int(s[:10].replace('-', ''))


def analyse(scn, out):
    cx = Ctx(scn, out)
    w = cx.w
    cal = [W.dint(d) for d in w.days]
    cal_lit = '[%s]%%Z' % '; '.join(str(x) for x in cal)
    sys_minute = cx.cfg['base']['frequency'] == '1m'
    prev_of, next_of = {}, {}
    for i0, i1 in steps.api_spans(cx.trace):
        m0, m1 = cx.trace[i0], cx.trace[i1]
        act = m0['act']
        op = act['op']
        if op not in ('history_bars', 'prev_date', 'next_date', 'trading_dates', 'count_dates'):
            continue
        if m1['exc'] is not None:
            cx.stats['api_exceptions'] = cx.stats.get('api_exceptions', 0) + 1
            if op != 'history_bars':
                cx.hit('C20.exception', dict(op=op, cls=m1['exc']['cls']), dict(act=act, exc=m1['exc']))
            continue
        res = m1['res']
        if op == 'prev_date':
            d, n = d2i(act['d']), act['n']
            r = d2i(res)
            cx.case('cal.prev', 'chk_prev %s %s %s %s' % (cal_lit, zlit(d), zlit(n), zlit(r)), dict(act=act, res=res))
            below = [x for x in cal if x < d]
            exp = below[-n] if len(below) >= n else cal[0]
            if r != exp:
                cx.hit('C20.prev', dict(on_trading_day=d in cal, n=n), dict(act=act, res=res, expected=exp))
            if n == 1:
                prev_of[d] = r
            cx.keys.add(repr(('P', d in cal, d < cal[0], d > cal[-1], min(n, 3))))
        elif op == 'next_date':
            d, n = d2i(act['d']), act['n']
            r = d2i(res)
            cx.case('cal.next', 'chk_next %s %s %s %s' % (cal_lit, zlit(d), zlit(n), zlit(r)), dict(act=act, res=res))
            above = [x for x in cal if x > d]
            exp = above[n - 1] if len(above) >= n else cal[-1]
            if r != exp:
                cx.hit('C20.next', dict(on_trading_day=d in cal, n=n), dict(act=act, res=res, expected=exp))
            if n == 1:
                next_of[d] = r
            cx.keys.add(repr(('N', d in cal, d < cal[0], d > cal[-1], min(n, 3))))
        elif op == 'trading_dates':
            a, b = d2i(act['a']), d2i(act['b'])
            r = [d2i(x) for x in res]
            cx.case('cal.dates', 'chk_dates %s %s %s [%s]%%Z' % (cal_lit, zlit(a), zlit(b), '; '.join(str(x) for x in r)), dict(act=act, res=res))
            exp = [x for x in cal if a <= x <= b]
            if r != exp:
                cx.hit('C20.trading_dates', dict(empty=not exp), dict(act=act, res=res, expected=exp))
            cx.keys.add(repr(('D', len(exp) if len(exp) < 3 else 3, a in cal, b in cal)))
        elif op == 'count_dates':
            a, b = d2i(act['a']), d2i(act['b'])
            cx.case('cal.count', 'chk_count %s %s %s %s' % (cal_lit, zlit(a), zlit(b), zlit(res)), dict(act=act, res=res))
            exp = len([x for x in cal if a <= x <= b])
            if res != exp:
                cx.hit('C20.count', {}, dict(act=act, res=res, expected=exp))
        else:
            oid = act['id']
            ins = w.instruments[oid]
            fut = ins['kind'] == 'Future'
            bars = w.future_bars[oid] if fut else w.stock_bars[oid]
            rows = res['rows'] if res else []
            names = res['names'] if res else []
            snap = m0['snap']
            cal_d, trd_d = d2i(snap['cal']), d2i(snap['trd'])
            ph = PHASES[m0['ph']]
            table = [(int(s // 1000000), f) for s, f in w.exfac.get(oid, [(0, 1.0)])]
            try:
                bl = '[%s]' % '; '.join('{| h_dt := %s; h_price := %s; h_volume := %s |}' % (zlit(W.dint(b['d'])), q(b['close']), q(b['volume'])) for b in bars)
                tl = '[%s]' % '; '.join('(%s, %s)' % (zlit(s), q(f)) for s, f in table)
                el = '[%s]' % '; '.join('{| h_dt := %s; h_price := %s; h_volume := %s |}' % (zlit(int(r[names.index('datetime')] // 1000000)), q(r[names.index('close')]), q(r[names.index('volume')])) for r in rows)
                adj = {'pre': 'AdjPre', 'post': 'AdjPost', 'none': 'AdjNone'}[act['adjust']]
                term = 'chk_history %s %s %s %s %s %s false %s %s %s %s %s %s %s' % (
                    cal_lit, bl, tl, blit(ins['kind'] == 'CS'), blit(fut or ins['kind'] == 'INDX'), blit(sys_minute), ph, zlit(cal_d), zlit(trd_d),
                    zlit(act['n']), blit(act['skip']), adj, el)
                cx.case('history.window', term, dict(act=act, phase=m0['ph'], dt=snap['cal'], rows=rows[:3], n=len(rows)))
            except Skip:
                cx.skipped += 1
            # ---- oracle from the property text
            if m0['ph'] in ('before_trading', 'open_auction') or (sys_minute and m0['ph'] != 'after_trading'):
                below = [x for x in cal if x < trd_d]
                end = below[-1] if below else cal[0]
            else:
                end = cal_d
            avail = [b for b in bars if W.dint(b['d']) <= end]
            if act['skip'] and ins['kind'] == 'CS':
                avail = [b for b in avail if b['volume'] > 0]
            win = avail[-act['n']:]

            def fac(d):
                f = 1.0
                for s, v in table:
                    if s <= d:
                        f = v
                return f
            base = fac(trd_d) if act['adjust'] == 'pre' else 1.0
            exp_rows = []
            for b in win:
                f = 1.0 if (act['adjust'] == 'none' or fut) else fac(W.dint(b['d'])) / base
                exp_rows.append((W.dint(b['d']), b['close'] * f, b['volume'] / f))
            got = [(int(r[names.index('datetime')] // 1000000), r[names.index('close')], r[names.index('volume')]) for r in rows]
            bad = len(got) != len(exp_rows) or any(g[0] != e[0] or not close(g[1], e[1], 1e-9) or not close(g[2], e[2], 1e-9, abs(e[2])) for g, e in zip(got, exp_rows))
            if bad:
                what = 'length' if len(got) != len(exp_rows) else ('dates' if any(g[0] != e[0] for g, e in zip(got, exp_rows)) else 'values')
                cx.hit('C20.history', dict(what=what, phase=m0['ph'], adjust=act['adjust'], minute=sys_minute),
                       dict(act=act, got=got[-4:], expected=exp_rows[-4:], end=end, dt=snap['cal']))
            if got and any(g[0] > end for g in got):
                cx.hit('C20.history_after_end', dict(phase=m0['ph']), dict(act=act, got=got[-3:], end=end))
            cx.keys.add(repr(('H', m0['ph'], act['adjust'], act['skip'], len(avail) < act['n'], ins['kind'], len(set(fac(W.dint(b['d'])) for b in win)) > 1)))
    # mutual consistency: previous and next are inverse on trading days
    for d, p in prev_of.items():
        if d in cal and cal.index(d) > 0 and p in next_of and next_of[p] != d:
            cx.hit('C20.inverse', dict(case='next(prev d)'), dict(d=d, prev=p, next_of_prev=next_of[p]))
    cx.stats['skipped_nan'] = cx.skipped
    return cx


globals().update(acct_prop.make(
    'C20', components=['cal.', 'history.'], clauses=['C20.'], gen=gen, analyser=analyse, prelude=PRELUDE,
    coq=['Model/Calendar.v', 'Proofs/CalendarFacts.v', 'Gen/Calendar.v'], gen_mods=['Calendar'],
    rule=('random calendars (holidays, long gaps) and worlds with suspended stretches, late listings, dividends / splits with consistent and with '
          'non-monotone factor tables; scripted calls of history_bars (bar counts 1..30 beyond the available history, skip_suspended on/off, '
          'adjust pre/none/post, every phase, daily and minute runs) and of the calendar APIs with dates inside, outside and between trading days; '
          'a case is one recorded API call replayed through Model/Calendar.v; distinct non-trivial = distinct (API x phase x adjust x skip x '
          'short history x instrument kind x factor change inside the window x date position) classes'),
    assumptions=['float64 rounding not modelled', 'factor tables start at date 0 with factor 1 (bundle contract)']))
COQ = COQ[:-1] + ['Model/Calendar.v', 'Proofs/CalendarFacts.v', 'Gen/Calendar.v', 'Properties/C20.v']
