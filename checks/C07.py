# -*- coding: utf-8 -*-
"""C07 No look-ahead: the past never depends on future market data."""
import copy
import json
import math
import random

from checks import acct_prop
from checks.acct import Ctx, Skip, q, close, dint_of
from harness import scenario, run, steps, world as W
from lib.core import zlit, blit

PRELUDE = 'From RQ Require Import Model.Num Model.Calendar Model.View Model.Check.\nOpen Scope Q_scope.\n'
VPH = {'before_trading': 'VBeforeTrading', 'open_auction': 'VOpenAuction', 'handle_bar': 'VOnBar', 'after_trading': 'VAfterTrading'}
EVPH = {'BEFORE_TRADING': 'before_trading', 'OPEN_AUCTION': 'open_auction', 'BAR': 'handle_bar', 'AFTER_TRADING': 'after_trading'}
FIELDS = ('open', 'close', 'high', 'low', 'last', 'volume', 'total_turnover', 'limit_up', 'limit_down')


def gen(rng, tier):
    freq = '1m' if rng.random() < 0.12 else '1d'
    wo = dict(ndays=rng.randint(8, 13) if freq == '1d' else rng.randint(6, 8), actions=True, suspend=rng.random() < 0.4, late_listing=rng.random() < 0.2,
              integral_splits=True, delist=False, nonmonotone_factors=rng.random() < 0.15)
    futs = rng.random() < 0.4
    if rng.random() < 0.2:
        # engine-made trades: a holding kept over a dividend record date with reinvestment on (the purchase is made before the open of the
        # payable date), or sold out in between
        scn = scenario.gen_div_capture(rng, dict(reinvest=rng.random() < 0.8, same_day_split=False))
        scn['script'] = {k: [a for a in v if a['op'] not in ('deposit', 'withdraw', 'finance', 'repay')] for k, v in scn['script'].items()}
        freq = '1d'
        w_ = W.gen_world(random.Random(scn['world_seed']), scn['world_opts'])
        dints_ = [W.dint(d) for d in w_.days]
        ip_ = dints_.index(w_.dividends[W.STOCKS[0]][0][4])
        if scn['start_i'] <= ip_ <= scn['end_i']:
            scn['c07_extra_cuts'] = [dict(day=ip_, phase='before_trading'), dict(day=ip_, phase='open_auction')]      # the payable date
    else:
        scn = scenario.gen_trading(rng, dict(freq=freq, world=wo, flows=False, stocks=2, futures=futs, actions_per_phase=(0, 0, 1), p_cancel=0.05, mgmt=False))
    ids = list(scn['meta']['active_stocks']) + list(scn['meta']['futs'])
    script = scn['script']
    stock_minute = freq == '1m' and bool(scn['meta']['active_stocks'])
    for i in range(scn['start_i'], scn['end_i'] + 1):
        for ph in ('before_trading', 'open_auction', 'handle_bar', 'after_trading'):
            ks = [0]
            if freq == '1m' and ph == 'handle_bar':
                ks = [k for k in ([0, 29, 59, 119, 120, 180, 210, 239] if stock_minute else range(8)) if rng.random() < 0.4]
            for k in ks:
                acts = []
                for _ in range(rng.randint(0, 3)):
                    oid = rng.choice(ids)
                    r = rng.random()
                    if r < 0.3:
                        acts.append(dict(op='history_bars', id=oid, n=rng.choice([1, 2, 5, 10, 30]), fields=['datetime', 'close', 'volume'], skip=rng.random() < 0.5,
                                         adjust=rng.choice(['pre', 'none', 'post']), freq='1d'))
                    elif r < 0.4 and freq == '1m':
                        acts.append(dict(op='history_bars', id=oid, n=rng.choice([1, 3]), fields=None, skip=True, adjust='pre', freq='1m', now=rng.random() < 0.5))
                    elif r < 0.47 and ph in ('open_auction', 'handle_bar'):
                        acts.append(dict(op='bar', id=oid))
                    elif r < 0.51 and ph in ('open_auction', 'handle_bar'):
                        acts.append(dict(op='bar_mavg', id=oid, n=rng.choice([1, 2, 5])))
                    elif r < 0.55:
                        acts.append(dict(op='history_bars', id=oid, n=rng.choice([1, 2, 4]), fields=['datetime', 'close', 'volume'], skip=rng.random() < 0.5,
                                         adjust=rng.choice(['pre', 'none']), freq='1w', now=rng.random() < 0.7))
                    elif r < 0.7:
                        acts.append(dict(op='snapshot', id=oid))
                    elif r < 0.9:
                        acts.append(dict(op='position', id=oid, dir=rng.choice(['LONG', 'SHORT']) if oid in W.FUTS else 'LONG'))
                if ph in ('open_auction', 'handle_bar') and rng.random() < 0.5:
                    acts.append(dict(op='feedback', ids=ids))
                if acts:
                    script.setdefault('%d|%s|%d' % (i, ph, k), []).extend(acts)
    if rng.random() < 0.4:
        regs = []
        for k in range(rng.randint(1, 3)):
            oid = rng.choice(ids)
            act = rng.choice([dict(op='history_bars', id=oid, n=rng.choice([1, 3, 10]), fields=['datetime', 'close', 'volume'], skip=False, adjust='pre', freq='1d'),
                              dict(op='snapshot', id=oid), dict(op='position', id=oid, dir='LONG')])
            t = rng.choice([['before_trading'], ['before_trading'], None, ['open', rng.choice([0, 30, 120])]])
            regs.append(dict(kind='daily', time=t, tag='s%d' % k, act=act))
        scn['sched'] = regs
    if rng.random() < 0.35:
        # handlers registered with subscribe_event: they observe (and feed what they saw back into orders) while a phase event, its PRE_ / POST_
        # bracket or an order / trade event is being published
        subs = []
        for k in range(rng.randint(1, 3)):
            ev = rng.choice(['PRE_BEFORE_TRADING', 'BEFORE_TRADING', 'POST_BEFORE_TRADING', 'PRE_OPEN_AUCTION', 'OPEN_AUCTION', 'POST_OPEN_AUCTION',
                             'PRE_BAR', 'POST_BAR', 'TRADE', 'ORDER_CREATION_PASS', 'ORDER_PENDING_NEW', 'POST_AFTER_TRADING', 'POST_SETTLEMENT'])
            acts = []
            for _ in range(rng.randint(1, 3)):
                oid = rng.choice(ids)
                acts.append(rng.choice([
                    dict(op='history_bars', id=oid, n=rng.choice([1, 3]), fields=['datetime', 'close', 'volume'], skip=False, adjust='pre', freq='1d'),
                    dict(op='history_bars', id=oid, n=2, fields=['datetime', 'close', 'volume'], skip=False, adjust='none', freq='1w', now=True),
                    dict(op='snapshot', id=oid), dict(op='position', id=oid, dir='LONG'), dict(op='bar', id=oid), dict(op='bar_mavg', id=oid, n=2)]))
            if ev not in ('TRADE', 'ORDER_CREATION_PASS', 'ORDER_PENDING_NEW') and rng.random() < 0.5:
                acts.append(dict(op='feedback', ids=ids))       # an order placed from the handler (refused where the phase forbids it)
            subs.append(dict(ev=ev, acts=acts, every=rng.choice([1, 1, 2])))
        scn['subs'] = subs
    return scn


# ---------------------------------------------------------------- accessor correspondence (daily runs)
def dbar_lit(b, censor=False):
    z = 0.0
    return '{| d_dt := %s; d_open := %s; d_close := %s; d_high := %s; d_low := %s; d_lu := %s; d_ld := %s; d_vol := %s; d_turn := %s |}' % (
        zlit(W.dint(b['d'])), q(b['open']), q(z if censor else b['close']), q(z if censor else b['high']), q(z if censor else b['low']),
        q(b['limit_up']), q(b['limit_down']), q(b['volume']), q(b['total_turnover']))


def visible_bars(bars, day, ph):
    """the part of one instrument's history that exists at (day, phase); the auction sees today's bar without close / high / low"""
    di = W.dint(day)
    out = []
    for b in bars:
        bd = W.dint(b['d'])
        if bd < di:
            out.append(dbar_lit(b))
        elif bd == di and ph == 'open_auction':
            out.append(dbar_lit(b, censor=True))
        elif bd == di and ph in ('handle_bar', 'after_trading'):
            out.append(dbar_lit(b))
    return '[%s]' % '; '.join(out)


def obs_lit(res, names):
    out = []
    for k in names:
        v = res.get(k) if k is not None else None
        if v is None or isinstance(v, str) or (isinstance(v, float) and math.isnan(v)):
            out.append('None')
        else:
            out.append('(Some %s)' % q(v))
    return '[%s]' % '; '.join(out)


def accessor_cases(cx):
    w = cx.w
    if cx.cfg['base']['frequency'] != '1d':
        return
    cal = [W.dint(d) for d in w.days]
    cal_lit = '[%s]%%Z' % '; '.join(str(x) for x in cal)
    # the event being published decides what may be seen (not the phase the code believes it is in)
    cur = {}
    evname = None
    for i, m in enumerate(cx.trace):
        if m['k'] == 'ev0' and m['ev'] in EVPH:
            evname = m['ev']
        elif m['k'] == 'ev1' and m['ev'] in EVPH:
            evname = None
        elif m['k'] == 'api0':
            cur[i] = evname
    for i0, i1 in steps.api_spans(cx.trace):
        m0, m1 = cx.trace[i0], cx.trace[i1]
        act = m0['act']
        op = act['op']
        if op not in ('bar', 'snapshot', 'position', 'history_bars') or cur.get(i0) is None:
            continue
        if m1['exc'] is not None:
            continue
        oid = act['id']
        ins = w.instruments[oid]
        fut = ins['kind'] == 'Future'
        bars = w.future_bars[oid] if fut else w.stock_bars[oid]
        di0 = dint_of(m0['snap']['trd'])
        if di0 not in cal or cal.index(di0) < 1:
            continue
        day = w.days[cal.index(di0)]
        ph = EVPH[cur[i0]]
        res = m1['res']
        cx.keys.add(repr((op, ph, fut, any(b['d'] == day for b in bars))))
        try:
            if op == 'bar':
                vb = visible_bars(bars, day, ph)
                cx.case('view.bar', 'chk_view_bar %s %s %s %s' % (vb, VPH[ph], zlit(W.dint(day)), obs_lit(res, FIELDS)), dict(act=act, phase=ph, day=str(day), res=res))
                if ph == 'open_auction':
                    for f in ('close', 'high', 'low'):
                        v = res.get(f)
                        if isinstance(v, float) and not math.isnan(v):
                            cx.hit('C07.auction_shows', dict(field=f, api='bar'), dict(act=act, day=str(day), value=v))
            elif op == 'snapshot':
                if res is None:
                    continue
                names = ('open', None, 'high', 'low', 'last', 'volume', None, None, None)
                vb = visible_bars(bars, day, ph)
                # total_turnover and the limits are not recorded by the harness for snapshots: compare the recorded fields only
                model_mask = 'match snapshot %s %s %s %s with [o; _; h; l; la; v; _; _; _] => [o; None; h; l; la; v; None; None; None] | x => x end' % (
                    cal_lit, vb, VPH[ph], zlit(W.dint(day)))
                cx.case('view.snapshot', 'obs_eq (%s) %s' % (model_mask, obs_lit(res, names)), dict(act=act, phase=ph, day=str(day), res=res))
                today = [b for b in bars if b['d'] == day]
                if today and ph in ('before_trading', 'open_auction'):
                    b = today[0]
                    prev = [x for x in bars if x['d'] < day]
                    for f in ('high', 'low', 'last'):
                        v = res.get(f)
                        tv = b['close'] if f == 'last' else b[f]
                        known = [b['open']] if ph == 'open_auction' else []
                        known += [prev[-1][k] for k in ('close', 'high', 'low', 'open')] if prev else []
                        if isinstance(v, float) and close(v, tv) and not any(close(v, kv) for kv in known):
                            cx.hit('C07.snapshot_shows_today', dict(field=f, phase=ph), dict(act=act, day=str(day), value=v))
            elif op == 'position':
                acc = 'FUTURE' if fut else 'STOCK'
                before = (((m0['snap'].get('acc') or {}).get(acc) or {}).get('pos') or {}).get(oid)
                if before is not None:
                    continue        # an existing position is marked by the account (C01 / C02); only the lazy read goes to the board
                vb = visible_bars(bars, day, ph)
                lp = res.get('last_price')
                cx.case('view.last_price', 'chk_view_last %s %s %s %s %s' % (cal_lit, vb, VPH[ph], zlit(W.dint(day)), obs_lit(dict(x=lp), ('x',))[1:-1]),
                        dict(act=act, phase=ph, day=str(day), res=res))
                today = [b for b in bars if b['d'] == day]
                prev = [x for x in bars if x['d'] < day]
                if today and ph in ('before_trading', 'open_auction') and isinstance(lp, float):
                    known = ([today[0]['open']] if ph == 'open_auction' else []) + ([prev[-1]['close']] if prev else [])
                    if close(lp, today[0]['close']) and not any(close(lp, kv) for kv in known):
                        cx.hit('C07.last_price_is_todays_close', dict(phase=ph), dict(act=act, day=str(day), value=lp))
            elif op == 'history_bars' and act.get('freq', '1d') == '1d':
                rows = res['rows'] if res else []
                names = res['names'] if res else []
                di = W.dint(day)
                vis_end = max([x for x in cal if x < di] or [0]) if ph in ('before_trading', 'open_auction') else di
                vb = [b for b in bars if W.dint(b['d']) <= vis_end]
                table = [(int(s // 1000000), f) for s, f in w.exfac.get(oid, [(0, 1.0)]) if s // 1000000 <= di]
                bl = '[%s]' % '; '.join('{| h_dt := %s; h_price := %s; h_volume := %s |}' % (zlit(W.dint(b['d'])), q(b['close']), q(b['volume'])) for b in vb)
                tl = '[%s]' % '; '.join('(%s, %s)' % (zlit(s), q(f)) for s, f in table)
                el = '[%s]' % '; '.join('{| h_dt := %s; h_price := %s; h_volume := %s |}' % (
                    zlit(int(r[names.index('datetime')] // 1000000)), q(r[names.index('close')]), q(r[names.index('volume')])) for r in rows)
                adj = {'pre': 'AdjPre', 'post': 'AdjPost', 'none': 'AdjNone'}[act['adjust']]
                cx.case('view.history', 'chk_view_history %s %s %s %s %s %s %s %s %s %s %s' % (
                    cal_lit, bl, tl, blit(ins['kind'] == 'CS'), blit(fut or ins['kind'] == 'INDX'), VPH[ph], zlit(di), zlit(act['n']), blit(act['skip']), adj, el),
                    dict(act=act, phase=ph, day=str(day), rows=rows[-2:]))
                if rows and ph in ('before_trading', 'open_auction') and any(int(r[names.index('datetime')] // 1000000) >= di for r in rows):
                    cx.hit('C07.history_includes_today', dict(phase=ph), dict(act=act, day=str(day), rows=rows[-2:]))
        except Skip:
            cx.skipped += 1


# ---------------------------------------------------------------- two-world differential
def cut_index(trace, days, mut):
    """index of the first mark that lies after the cut-off moment"""
    cd = W.dint(days[mut['day']])
    for j, m in enumerate(trace):
        if m['k'] != 'ev0':
            continue
        d = dint_of(m['snap']['trd'])
        ev = m['ev']
        if mut['phase'] == 'before_trading' and d >= cd and ev in ('PRE_OPEN_AUCTION', 'OPEN_AUCTION', 'PRE_BAR', 'BAR', 'PRE_AFTER_TRADING'):
            return j
        if mut['phase'] == 'open_auction' and d >= cd and ev in ('PRE_BAR', 'BAR', 'PRE_AFTER_TRADING'):
            return j
        if mut['phase'] == 'day' and d > cd and ev == 'PRE_BEFORE_TRADING':
            return j
        if mut['phase'] == 'bar':
            if d > cd:
                return j
            if d == cd and ev in ('PRE_BAR', 'BAR', 'PRE_AFTER_TRADING') and m['snap']['cal'] > mut['caldt']:
                return j
    return None


def first_diff(p, u, v):
    if type(u) != type(v) and not (isinstance(u, (int, float)) and isinstance(v, (int, float))):
        return (p, u, v)
    if isinstance(u, dict):
        for k in sorted(set(u) | set(v), key=str):
            if k not in u or k not in v:
                return (p + '/' + str(k), u.get(k, '<missing>'), v.get(k, '<missing>'))
            r = first_diff(p + '/' + str(k), u[k], v[k])
            if r:
                return r
        return None
    if isinstance(u, (list, tuple)):
        if len(u) != len(v):
            return (p + '/len', len(u), len(v))
        for j, (a, b) in enumerate(zip(u, v)):
            r = first_diff(p + '/%d' % j, a, b)
            if r:
                return r
        return None
    if u != v and not (isinstance(u, float) and isinstance(v, float) and u != u and v != v):
        return (p, u, v)
    return None


def cuts_of(scn, out, rng, limit):
    """all cut-off moments of the run: every day x {before the open, in the auction, end of day}; in minute runs also after a bar"""
    cuts = []
    minute = scn['cfg']['base']['frequency'] == '1m'
    for day in range(scn['start_i'], scn['end_i'] + 1):
        for ph in ('before_trading', 'open_auction', 'day'):
            if ph == 'day' and day == scn['end_i']:
                continue
            cuts.append(dict(day=day, phase=ph))
        if minute:
            cals = sorted(set(m['snap']['cal'] for m in out['trace'] if m['k'] == 'ev0' and m['ev'] == 'BAR' and dint_of(m['snap']['trd']) == W.dint(out['days'][day])))
            stock = bool(scn['meta']['active_stocks'])
            for c in cals[:-1]:
                hm = int(c[11:13]) * 100 + int(c[14:16])
                grid = W.STOCK_MINUTES if stock else W.FUT_MINUTES
                if hm in grid and rng.random() < 0.5:
                    cuts.append(dict(day=day, phase='bar', bar=grid.index(hm), caldt=c))
    rng.shuffle(cuts)
    return cuts if limit is None else cuts[:limit]


def differential(scn, base_trace, days, mut):
    s2 = copy.deepcopy(scn)
    s2.pop('c07_mut', None)
    s2['future_mut'] = mut
    o2 = run.run_scenario(s2)
    if o2['exc']:
        return dict(error='harness (mutated world): %s %s' % (o2['exc']['cls'], o2['exc']['tb'][-800:]))
    t2 = steps.normalise_ids(o2['trace'])
    j = cut_index(base_trace, days, mut)
    if j is None:
        return dict(compared=0)
    for i in range(j):
        if i >= len(t2):
            return dict(compared=i, diff=dict(index=i, path='/len', a=len(base_trace), b=len(t2), mark=base_trace[i]['k']))
        r = first_diff('', base_trace[i], t2[i])
        if r:
            m = base_trace[i]
            return dict(compared=i, diff=dict(index=i, cut=j, path=r[0], a=r[1], b=r[2], mark=m['k'], ev=m.get('ev'), ph=m.get('ph'),
                                              op=(m.get('act') or {}).get('op'), phase=(m.get('snap') or {}).get('phase'), cal=(m.get('snap') or {}).get('cal')))
    return dict(compared=j)


def analyse(scn, out, rng=None, ncuts=4):
    cx = Ctx(scn, out)
    accessor_cases(cx)
    base = steps.normalise_ids(out['trace'])
    rng = rng or random.Random(scn['world_seed'])
    fixed = scn.get('c07_mut')
    cuts = [fixed] if fixed else cuts_of(scn, out, rng, ncuts) + [dict(c) for c in scn.get('c07_extra_cuts', [])]
    for c in cuts:
        mut = dict(c)
        mut.setdefault('seed', rng.randint(0, 10 ** 9))
        r = differential(scn, base, out['days'], mut)
        if r.get('error'):
            cx.errors = getattr(cx, 'errors', []) + [r['error']]
            continue
        cx.stats['cutoffs'] = cx.stats.get('cutoffs', 0) + 1
        cx.stats['cut_' + mut['phase']] = cx.stats.get('cut_' + mut['phase'], 0) + 1
        cx.stats['marks_compared'] = cx.stats.get('marks_compared', 0) + r.get('compared', 0)
        cx.keys.add(repr(('cut', mut['phase'], scn['cfg']['base']['frequency'], bool(scn['meta']['futs']))))
        if r.get('diff'):
            d = r['diff']
            s2 = copy.deepcopy(scn)
            s2['c07_mut'] = mut
            leaf = d['path'].split('/')[-1]
            cx.hits.append(dict(clause='C07.trace_depends_on_future', sig=dict(cut=mut['phase'], mark=d['mark'], what=d.get('op') or d.get('ev') or d.get('ph'), field=leaf),
                                detail=dict(cut=mut, first_difference=d), scn=s2))
    return cx


def work(item):
    if item['kind'] == 'replay':
        scn = item['scn']
        out = run.run_scenario(scn)
        if out['exc']:
            return dict(hits=[dict(clause='harness', sig={}, detail=out['exc'])], cases=[], stats={}, n=1)
        cx = analyse(scn, out)
        return dict(hits=[h for h in cx.hits if h['clause'].startswith('C07.')], cases=[], stats={}, n=1)
    rng = random.Random(item['seed'])
    res = dict(cases=[], hits=[], stats={'runs': 0}, samples=[], n=0, nontrivial=[])
    keys = set()
    for _ in range(item['n']):
        scn = gen(rng, item['tier'])
        out = run.run_scenario(scn)
        res['stats']['runs'] += 1
        if out['exc']:
            return dict(error='harness: %s %s' % (out['exc']['cls'], out['exc']['tb'][-1200:]))
        if out['errors']:
            return dict(error='recorder: %s' % (out['errors'][0],))
        cx = analyse(scn, out, rng, 4 if item['tier'] == 'quick' else None)
        if getattr(cx, 'errors', None):
            return dict(error=cx.errors[0])
        res['cases'].extend(cx.cases)
        seen = set()
        for h in cx.hits:
            k = (h['clause'], repr(sorted(h['sig'].items())))
            if k not in seen:
                seen.add(k)
                res['hits'].append(h)
        for a, b in cx.stats.items():
            res['stats'][a] = res['stats'].get(a, 0) + b
        fr = scn['cfg']['base']['frequency']
        res['stats']['freq_' + fr] = res['stats'].get('freq_' + fr, 0) + 1
        keys |= cx.keys
        res['n'] += len(cx.cases)
        if cx.cases and len(res['samples']) < 2:
            c = cx.cases[len(cx.cases) // 2]
            res['samples'].append(dict(case=c[0][:600], meta={k: v for k, v in c[1].items() if k in ('component', 'act', 'phase', 'day')}))
    res['nontrivial'] = sorted(keys)
    return res


_base = acct_prop.make(
    'C07', components=['view.'], clauses=['C07.'], gen=gen, analyser=analyse, prelude=PRELUDE, quick=(48, 4), thorough=(480, 12),
    rule=('random observing strategies (bar_dict, bar mavg / vwap, current_snapshot, daily and weekly history_bars with every adjustment, positions never held, in every '
          'phase, in scheduled functions and in handlers registered with subscribe_event for phase, bracket, order and trade events) that feed a '
          'digest of everything observed back into their orders; (1) every recorded accessor call of daily runs is replayed through Model/View.v on the '
          'part of the history that exists at that moment (bars before the day; in the auction also the day\'s open / limits / volume; factor rows in '
          'effect); (2) two-world differential on the implementation: the same strategy on a second bundle whose bars, volumes, suspensions, dividends, '
          'splits and factor rows are altered after a cut-off (every day x {before the open, in the auction, end of day}, in minute runs also after a '
          'bar; quick: 4 cut-offs per scenario, thorough: all) and the full recorded traces compared mark by mark up to the cut-off; distinct non-trivial '
          '= distinct (accessor x phase x kind x bar present) and (cut-off kind x frequency x futures) classes'),
    assumptions=['the daily auction bar carries the whole day\'s volume and turnover: BaseDataSource.get_open_auction_bar\'s contract (data source, not engine)',
                 'minute-bar accessors and any other attribute access are covered by the two-world runs only (partial)',
                 'corporate actions count as dated by their announcement (dividends) / ex-date (splits); instrument reference data (listing, expiry) is static'])
_base['work'] = work
globals().update(_base)
COQ = ['Model/Num.v', 'Model/Calendar.v', 'Model/View.v', 'Model/Phases.v', 'Model/Check.v', 'Proofs/NumFacts.v', 'Proofs/CalendarFacts.v', 'Proofs/ViewFacts.v', 'Proofs/PhasesFacts.v',
       'Gen/ApiPhases.v', 'Gen/Calendar.v', 'Properties/C07.v']
GEN = ['ApiPhases', 'Calendar']
