# -*- coding: utf-8 -*-
"""C12 Corporate actions, delisting and expiry never change account value when applied."""
from checks import acct_prop


def gen(rng, tier):
    return acct_prop.gen_general(rng, tier, p_minute=0.0, p_div_capture=0.45, p_actions=1.0, p_delist=0.4,
                                 integral_splits=rng.random() < 0.6, overlap=rng.random() < 0.3,
                                 opts=dict(stocks=rng.randint(1, 3), futures=rng.random() < 0.4))


globals().update(acct_prop.make(
    'C12', components=['bt.', 'settle.'], clauses=['C12.'], gen=gen,
    rule=('random holdings (odd lots included) carried over dividends (all orderings of record / ex / payable / trade dates, selling between record '
          'and payable date, split on the ex-date), splits (integral and fractional results, reverse), delisting with payout on/off, share '
          'conversion, futures expiry, reinvestment on/off; a case is one recorded before-trading or settlement step of an entry / account replayed '
          'through the Coq model; distinct non-trivial = distinct (dividend, split, receivable outstanding, reinvestment, empty position ...) classes'),
    assumptions=['float64 rounding not modelled', 'payable dates are trading days; factor tables consistent with the actions (generator contract)']))
