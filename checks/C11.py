# -*- coding: utf-8 -*-
"""C11 Transaction costs follow the published schedule, independent of fill splitting."""
import random

from harness import scenario, run, steps, world as W
from lib.core import qlit, blit, olit

PROP = 'C11'
GEN = ['Costs']
COQ = ['Model/Num.v', 'Model/Costs.v', 'Model/Position.v', 'Proofs/NumFacts.v', 'Proofs/CostsFacts.v', 'Gen/Costs.v', 'Properties/C11.v']
RULE = ('random trading scenarios (daily and minute bars, volume caps small enough to split orders into several fills, '
        'all commission/tax multipliers, by-money and by-volume futures, two contracts of one underlying with schedules overridden per contract or per '
        'underlying in base.future_info, dates on both sides of 2023-08-28); a case is one '
        'executed trade; non-trivial+distinct = distinct (instrument kind, side/effect, fill index of the order, '
        'below/at/above the minimum commission, close-today split) classes')
ASSUMPTIONS = ['float64 rounding not modelled: model values are exact rationals of the recorded float inputs, compared at 1e-9 relative',
               'the commission of trades without an order (dividend reinvestment, expiry) share the order id None entry, as in the code']
TRUSTED = []

PRELUDE = '''From RQ Require Import Model.Num Model.Costs Model.Position.
Open Scope Q_scope.
Definition chk_stock (c : scost) (e : cm_entry) (is_cs sell : bool) (p q comm tax : Q) (e' : cm_entry) : bool :=
  let r := trade_commission c e p q in
  approx (fst r) comm && approx_opt (snd r) e' && approx (trade_tax c is_cs sell p q) tax.
Definition chk_fut (f : fcost) (is_open : bool) (p q ct comm : Q) : bool := approx (fut_commission f is_open p q ct) comm.
Definition chk_fut_sched (f : fcost) (oc ou : option fover) (is_open : bool) (p q ct comm : Q) : bool :=
  match future_schedule (fun _ => None) (fun _ => Some f) (fun _ => oc) (fun _ => ou) 0 0 with
  | Some f' => approx (fut_commission f' is_open p q ct) comm
  | None => false
  end.
Definition chk_ct (c : pcfg) (p : pos) (amount : Q) (e : effect) (ct : Q) : bool := approx (calc_close_today_amount c p amount e) ct.
Definition chk_reserve_close (c : scost) (is_cs sell : bool) (p q r : Q) : bool := approx (order_cost c is_cs sell p q) r.
'''


def gen(rng, tier):
    freq = rng.choice(['1d', '1d', '1m'])
    wo = dict(start=rng.choice([__import__('datetime').date(2020, 1, 2), __import__('datetime').date(2023, 8, 21)]),
              actions=rng.random() < 0.5)
    o = dict(freq=freq, world=wo, flows=False, p_cancel=0.03)
    scn = scenario.gen_trading(rng, o)
    sim = scn['cfg']['mod']['sys_simulation']
    sim['volume_limit'] = rng.random() < 0.9
    sim['volume_percent'] = rng.choice([0.25, 0.1, 0.5])
    sim['slippage'] = 0 if rng.random() < 0.7 else sim['slippage']
    scn['cfg']['mod']['sys_accounts']['dividend_reinvestment'] = rng.random() < 0.5
    if 'future' in scn['cfg']['base']['accounts'] and rng.random() < 0.4:
        # two contracts of one underlying, and fee schedules overridden in the configuration (base.future_info) for a contract or for the underlying
        sib = 'RB2011'
        scn['world_overrides'] = dict(scn.get('world_overrides') or {}, siblings={sib: 'RB2010'})
        fi = {}
        for key in rng.sample(['RB2010', sib, 'RB', 'AG2010', 'AG'], rng.randint(1, 2)):
            ov = {}
            if rng.random() < 0.6:
                ov['commission_type'] = rng.choice(['by_volume', 'by_money'])
            for f in ('open_commission_ratio', 'close_commission_ratio', 'close_commission_today_ratio'):
                if rng.random() < 0.6:
                    ov[f] = rng.choice([0.0003, 2.0, 0.0, 5.5]) if ov.get('commission_type') != 'by_money' else rng.choice([0.0003, 0.0, 0.00005])
            if ov:
                fi[key] = ov
        if fi:
            scn['cfg']['base']['future_info'] = fi
        pair = ['RB2010', sib]
        if rng.random() < 0.5:
            pair.reverse()          # which contract is looked up first matters to a cache
        scn['universe'] = sorted(set((scn.get('universe') or []) + pair))
        scn['meta']['futs'] = sorted(set(scn['meta']['futs'] + pair))
        days_ = sorted(set(int(k.split('|')[0]) for k in scn['script'] if int(k.split('|')[0]) >= 0)) or [scn['start_i']]
        slots = [k for k in scn['script'] if k.split('|')[1] == 'handle_bar' and int(k.split('|')[0]) >= 0] or ['%d|handle_bar|0' % scn['start_i']]
        first = min(slots, key=lambda k: (int(k.split('|')[0]), int(k.split('|')[2])))
        scn['script'].setdefault(first, [])[:0] = [dict(op='buy_open', id=pair[0], amt=2, style='mkt'), dict(op='sell_open', id=pair[1], amt=3, style='mkt')]
        for k in slots:
            if rng.random() < 0.5:
                scn['script'][k].append(scenario.future_action(rng, rng.choice(pair)))
    return scn


def plan(tier, seed):
    n = 96 if tier == 'quick' else 1600
    per = 8 if tier == 'quick' else 50
    return [dict(kind='batch', seed=seed * 1000003 + k, n=per, tier=tier) for k in range(n // per)]


def analyse(scn, out):
    """-> (cases, hits, stats, nontrivial keys, sample)"""
    cases, hits, keys = [], [], set()
    stats = {}
    w = out['world']
    cfg = scn['cfg']
    tc = cfg['mod']['sys_transaction_cost']
    smult, minc, taxm, fmult = float(tc['stock_commission_multiplier']), float(tc['cn_stock_min_commission']), float(tc['tax_multiplier']), float(tc['futures_commission_multiplier'])
    pit = bool(tc['pit_tax'])
    finfo = {f['underlying_symbol']: f for f in w.future_info}
    per_order = {}
    trace = out['trace']
    sample = None
    for t in steps.trades(trace):
        tr = t['trade']
        ins = w.instruments[tr['oid']]
        fut = ins['kind'] == 'Future'
        p, q = tr['price'], tr['qty']
        stats['trades'] = stats.get('trades', 0) + 1
        if tr['commission'] < 0 or tr['tax'] < 0:
            hits.append(dict(clause='C11.nonneg', sig=dict(kind=ins['kind']), detail=tr))
        # cash moved exactly once by the fees (stock): dcash = -/+ turnover - fees
        acc = t['acc']
        if acc and t['pre'].get('acc') and acc in t['pre']['acc']:
            dcash = t['post']['acc'][acc]['total_cash'] - t['pre']['acc'][acc]['total_cash']
            fee = tr['commission'] + tr['tax']
            if not fut:
                exp = (-1 if tr['side'] == 'BUY' else 1) * p * q - fee
                if not steps.approx(dcash, exp, 1e-7, abs(p * q)):
                    hits.append(dict(clause='C11.once', sig=dict(kind=ins['kind'], side=tr['side'], has_order=tr['order_id'] is not None),
                                     detail=dict(dcash=dcash, expected=exp, trade=tr)))
            else:
                pp = t['pre']['acc'][acc]['pos'].get(tr['oid'], {}).get(tr['dir'])
                if tr['eff'] == 'OPEN':
                    exp = -fee
                elif pp is not None:
                    exp = -fee + (p - pp['avg']) * q * ins['mult'] * (1 if tr['dir'] == 'LONG' else -1)
                else:
                    exp = None
                if exp is not None and not steps.approx(dcash, exp, 1e-7, abs(p * q * ins['mult'])):
                    hits.append(dict(clause='C11.once', sig=dict(kind='Future', eff=tr['eff'], has_order=tr['order_id'] is not None),
                                     detail=dict(dcash=dcash, expected=exp, trade=tr)))
        if tr['order_id'] is None and fut:
            continue        # expiry close-out: no fees by construction
        if not fut:
            is_cs = ins['kind'] == 'CS'
            sell = tr['side'] == 'SELL'
            d = int(t['pre']['trd'][:10].replace('-', ''))
            rate_in_force = (0.001 if d < 20230828 else 0.0005) if pit else 0.0005
            exp_tax = p * q * rate_in_force * taxm if (is_cs and sell) else 0.0
            if not steps.approx(tr['tax'], exp_tax, 1e-7):
                hits.append(dict(clause='C11.tax', sig=dict(kind=ins['kind'], side=tr['side'], pit=pit, before_change=d < 20230828),
                                 detail=dict(tax=tr['tax'], expected=exp_tax, trade=tr)))
            key = str(tr['order_id'])
            po = per_order.setdefault(key, dict(comm=0.0, turnover=0.0, n=0, oid=tr['oid']))
            po['comm'] += tr['commission']
            po['turnover'] += p * q
            po['n'] += 1
            if tr['order_id'] is not None:
                exp_total = max(minc, 0.0008 * smult * po['turnover'])
                if not steps.approx(po['comm'], exp_total, 1e-7):
                    hits.append(dict(clause='C11.split', sig=dict(nfills=min(po['n'], 3), zero_rate=smult == 0, zero_min=minc == 0),
                                     detail=dict(order_id=tr['order_id'], charged=po['comm'], expected=exp_total, fills=po['n'])))
            # correspondence: model step on the recorded pre-entry
            prev = t['prev'] or {}
            e0 = prev.get('cmap', {}).get(key)
            e1 = t['pre'].get('cmap', {}).get(key)
            taxr = prev.get('tax_rate') if prev.get('tax_rate') is not None else t['pre'].get('tax_rate')
            c = '{| sc_rate := %s; sc_mult := %s; sc_min := %s; sc_tax_rate := %s; sc_tax_mult := %s |}' % (
                qlit(0.0008), qlit(smult), qlit(minc), qlit(taxr), qlit(taxm))
            cases.append(('chk_stock %s %s %s %s %s %s %s %s %s' % (c, olit(e0), blit(is_cs), blit(sell), qlit(p), qlit(q),
                                                                   qlit(tr['commission']), qlit(tr['tax']), olit(e1)),
                          dict(component='commission/tax of a stock trade', trade=tr, entry_before=e0, entry_after=e1)))
            cls = ('S', ins['kind'], tr['side'], min(po['n'], 4), 'lt' if 0.0008 * smult * p * q < minc else 'ge', smult == 0, minc == 0)
        else:
            info = dict(finfo[ins['und']])
            custom = cfg['base'].get('future_info') or {}
            oc, ou = custom.get(tr['oid']), custom.get(ins['und'])
            info.update(oc or ou or {})       # the property's reading: the contract's own entry, else the underlying's
            pp = None
            if acc and t['pre'].get('acc'):
                pp = t['pre']['acc'][acc]['pos'].get(tr['oid'], {}).get(tr['dir'])
            if tr['eff'] == 'OPEN':
                ct_exp = 0.0
            elif tr['eff'] == 'CLOSE_TODAY':
                ct_exp = q
            else:
                ct_exp = max(q - (pp['old'] if pp else 0.0), 0.0)
            bm = info['commission_type'] == 'by_money'
            if tr['eff'] == 'OPEN':
                base = p * q * ins['mult'] * info['open_commission_ratio'] if bm else q * info['open_commission_ratio']
            else:
                base = (p * (q - ct_exp) * ins['mult'] * info['close_commission_ratio'] + p * ct_exp * ins['mult'] * info['close_commission_today_ratio']) if bm \
                    else ((q - ct_exp) * info['close_commission_ratio'] + ct_exp * info['close_commission_today_ratio'])
            if not steps.approx(tr['commission'], base * fmult, 1e-7) or tr['tax'] != 0:
                hits.append(dict(clause='C11.futures', sig=dict(by_money=bm, eff=tr['eff'], split=0 < ct_exp < q),
                                 detail=dict(commission=tr['commission'], expected=base * fmult, ct_expected=ct_exp, trade=tr, pos=pp)))
            f = '{| fc_by_money := %s; fc_mult := %s; fc_open := %s; fc_close := %s; fc_close_today := %s; fc_cmult := %s |}' % (
                blit(bm), qlit(ins['mult']), qlit(info['open_commission_ratio']), qlit(info['close_commission_ratio']),
                qlit(info['close_commission_today_ratio']), qlit(fmult))
            cases.append(('chk_fut %s %s %s %s %s %s' % (f, blit(tr['eff'] == 'OPEN'), qlit(p), qlit(q), qlit(tr['ct'] or 0.0), qlit(tr['commission'])),
                          dict(component='commission of a futures trade', trade=tr)))
            if pp is not None and tr['eff'] != 'OPEN':
                # the quantity the close-today rate applies to: exactly what is closed out of today's position (the model's calc_close_today_amount
                # on the position before the trade, for the quantity of THIS fill)
                from checks.acct import pos_lit, pcfg_lit, eff_lit
                try:
                    cases.append(('chk_ct %s %s %s %s %s' % (pcfg_lit(ins, tr['dir']), pos_lit(pp, last_override=0.0 if pp.get('last') is None else None), qlit(q),
                                                             eff_lit(tr['eff']), qlit(tr['ct'] or 0.0)),
                                  dict(component='close-today quantity of a futures fill', trade=tr, pos=pp)))
                except Exception:
                    stats['skipped_ct'] = stats.get('skipped_ct', 0) + 1
            if custom:
                d0 = finfo[ins['und']]
                f0 = '{| fc_by_money := %s; fc_mult := %s; fc_open := %s; fc_close := %s; fc_close_today := %s; fc_cmult := %s |}' % (
                    blit(d0['commission_type'] == 'by_money'), qlit(ins['mult']), qlit(d0['open_commission_ratio']), qlit(d0['close_commission_ratio']),
                    qlit(d0['close_commission_today_ratio']), qlit(fmult))

                def ovl(o):
                    if not o:
                        return 'None'
                    return '(Some {| ov_by_money := %s; ov_open := %s; ov_close := %s; ov_close_today := %s |})' % (
                        'None' if 'commission_type' not in o else '(Some %s)' % blit(o['commission_type'] == 'by_money'),
                        olit(o.get('open_commission_ratio')), olit(o.get('close_commission_ratio')), olit(o.get('close_commission_today_ratio')))
                cases.append(('chk_fut_sched %s %s %s %s %s %s %s %s' % (f0, ovl(oc), ovl(ou), blit(tr['eff'] == 'OPEN'), qlit(p), qlit(q), qlit(tr['ct'] or 0.0), qlit(tr['commission'])),
                              dict(component='schedule lookup + commission of a futures trade', trade=tr, override_contract=oc, override_underlying=ou)))
            cls = ('F', bm, tr['eff'], 0 < ct_exp < q, bool(oc), bool(ou))
        keys.add(repr(cls))
        if sample is None and tr['order_id'] is not None:
            sample = dict(trade=tr, cfg=tc)
    # order-level estimate for closing stock orders: the reserve is exactly tax + commission estimate
    for i0, i1, name in steps.event_spans(trace):
        if name != 'ORDER_PENDING_NEW':
            continue
        o = trace[i1]['payload'].get('order')
        if not o or o.get('reserve') is None:
            continue
        ins = w.instruments[o['oid']]
        if ins['kind'] == 'Future' or o['eff'] == 'OPEN':
            continue
        taxr = trace[i0]['snap'].get('tax_rate')
        c = '{| sc_rate := %s; sc_mult := %s; sc_min := %s; sc_tax_rate := %s; sc_tax_mult := %s |}' % (
            qlit(0.0008), qlit(smult), qlit(minc), qlit(taxr), qlit(taxm))
        cases.append(('chk_reserve_close %s %s %s %s %s %s' % (c, blit(ins['kind'] == 'CS'), blit(o['side'] == 'SELL'), qlit(o['fprice']), qlit(o['qty']), qlit(o['reserve'])),
                      dict(component='order-level fee estimate (reserve of a closing stock order)', order=o)))
        keys.add(repr(('R', ins['kind'])))
    for h in hits:
        h['scn'] = scn
    return cases, hits, stats, keys, sample


def work(item):
    if item['kind'] == 'replay':
        out = run.run_scenario(item['scn'])
        cases, hits, stats, keys, sample = analyse(item['scn'], out)
        return dict(hits=hits, cases=[], stats=stats, n=1)
    rng = random.Random(item['seed'])
    res = dict(cases=[], hits=[], stats={'runs': 0}, samples=[], n=0, nontrivial=[])
    keys = set()
    for _ in range(item['n']):
        scn = gen(rng, item['tier'])
        out = run.run_scenario(scn)
        res['stats']['runs'] += 1
        if out['exc'] or out['errors']:
            res['stats']['harness_errors'] = res['stats'].get('harness_errors', 0) + 1
            if out['exc']:
                return dict(error='harness: %s %s' % (out['exc']['cls'], out['exc']['tb'][-800:]))
        cases, hits, stats, k, sample = analyse(scn, out)
        res['cases'].extend(cases)
        res['hits'].extend(hits[:3])
        for a, b in stats.items():
            res['stats'][a] = res['stats'].get(a, 0) + b
        res['stats']['freq_' + scn['cfg']['base']['frequency']] = res['stats'].get('freq_' + scn['cfg']['base']['frequency'], 0) + 1
        keys |= k
        res['n'] += len(cases)
        if sample and len(res['samples']) < 2:
            res['samples'].append(sample)
    res['nontrivial'] = sorted(keys)
    return res


def replay(payload):
    from lib import core
    h = payload.get('hit') or {}
    if not h.get('scn'):
        return []
    r = core.run_items(__name__, [dict(kind='replay', scn=h['scn'])], procs=1)
    return r[0].get('hits', []) if r and not r[0].get('error') else [dict(clause='harness', sig={}, detail=r[0].get('error'))]
