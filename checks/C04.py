# -*- coding: utf-8 -*-
"""C04 Order lifecycle: legal transitions, fill accounting, nothing left dangling."""
from checks import acct_prop, matching
from harness import scenario


def gen(rng, tier):
    if rng.random() < 0.25:
        return scenario.gen_close_pile(rng)
    scn = acct_prop.gen_general(rng, tier, p_minute=0.5, p_div_capture=0.0, p_actions=0.1, p_delist=0.05,
                                opts=dict(p_cancel=0.25, actions_per_phase=(0, 1, 1, 2, 3, 4), flows=False))
    return scn


globals().update(acct_prop.make(
    'C04', components=['order.lifecycle'], clauses=['C04.'], gen=gen, analyser=matching.analyse, prelude=matching.PRELUDE,
    coq=['Model/Matcher.v', 'Model/Order.v', 'Proofs/OrderFacts.v'],
    rule=('random order streams with cancels at any later point (resting, already final, in the auction, under next-bar matching), several '
          'orders per bar, split futures closes with rejected legs, partial fills under volume caps, matcher-side rejects and expiry at the close; '
          'a case is the whole life of one order: its inputs (submit / match outcomes / cancel / day boundaries) replayed through the per-order '
          'machine of Model/Order.v and compared with the recorded event stream and final order state; distinct non-trivial = distinct '
          '(final status x type x number of fills x cancelled x announcements) classes'),
    assumptions=['float64 rounding not modelled', 'match outcomes are inputs of the lifecycle machine (their computation is C05 / C06)']))
