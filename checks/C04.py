# -*- coding: utf-8 -*-
"""C04 Order lifecycle: legal transitions, fill accounting, nothing left dangling."""
from checks import acct_prop, matching
from harness import scenario


def gen(rng, tier):
    if rng.random() < 0.25:
        return scenario.gen_close_pile(rng)
    scn = acct_prop.gen_general(rng, tier, p_minute=0.5, p_div_capture=0.0, p_actions=0.1, p_delist=0.05,
                                opts=dict(p_cancel=0.25, actions_per_phase=(0, 1, 1, 2, 3, 4), flows=False))
    if rng.random() < 0.3:
        # a handler of TRADE / order events that places an order while the broker is in the middle of a matching round (re-entrant matching);
        # oversized market orders are ended by the matcher itself (volume cap, price limits)
        ids = list(scn['meta']['active_stocks']) + list(scn['meta']['futs'])
        subs = []
        for _ in range(rng.randint(1, 2)):
            oid = rng.choice(ids)
            if oid in scn['meta']['futs']:
                act = dict(op=rng.choice(['buy_open', 'sell_open']), id=oid, amt=rng.choice([1, 5000, 100000]), style=rng.choice(['mkt', 'mkt', ['lim', 1.0]]))
            else:
                act = dict(op='order_shares', id=oid, amt=rng.choice([100, 10 ** 6, 10 ** 7, -100]), style=rng.choice(['mkt', 'mkt', ['lim', 1.0]]))
            subs.append(dict(ev=rng.choice(['TRADE', 'TRADE', 'ORDER_CREATION_PASS', 'ORDER_UNSOLICITED_UPDATE']), acts=[act], every=rng.choice([1, 2]), max=rng.choice([1, 2, 4])))
        if rng.random() < 0.6:
            # an order that rests until the close (a limit far from the market) and a handler of the close's rejection announcement that tries
            # to place an order: the broker raises that event from its own after_trading sweep
            rest = rng.choice(ids)
            days_ = sorted(set(int(k.split('|')[0]) for k in scn['script'] if int(k.split('|')[0]) >= 0)) or [scn['start_i']]
            for d in rng.sample(days_, min(len(days_), rng.randint(1, 3))):
                slot = [k for k in scn['script'] if k.startswith('%d|handle_bar|' % d)]
                key = slot[0] if slot else '%d|handle_bar|0' % d
                if rest in scn['meta']['futs']:
                    scn['script'].setdefault(key, []).append(dict(op='buy_open', id=rest, amt=1, style=['lim', 0.93]))
                else:
                    scn['script'].setdefault(key, []).append(dict(op='order_shares', id=rest, amt=100, style=['lim', 0.93]))
            other = rng.choice(ids)
            act = dict(op='buy_open', id=other, amt=1, style='mkt') if other in scn['meta']['futs'] else dict(op='order_shares', id=other, amt=100, style='mkt')
            subs.append(dict(ev='ORDER_UNSOLICITED_UPDATE', acts=[act], every=1, max=rng.choice([2, 5])))
        scn['subs'] = subs
        scn['cfg']['mod']['sys_risk']['validate_cash'] = False
    return scn


globals().update(acct_prop.make(
    'C04', components=['order.lifecycle'], clauses=['C04.'], gen=gen, analyser=matching.analyse, prelude=matching.PRELUDE,
    coq=['Model/Matcher.v', 'Model/Order.v', 'Model/Broker.v', 'Proofs/OrderFacts.v', 'Proofs/BrokerFacts.v', 'Gen/BrokerProg.v', 'Model/Phases.v', 'Gen/ApiPhases.v'], gen_mods=['BrokerProg', 'ApiPhases'],
    rule=('random order streams with cancels at any later point (resting, already final, in the auction, under next-bar matching), several '
          'orders per bar, orders placed from TRADE / order-event handlers in the middle of a matching round, split futures closes with rejected legs, partial fills under volume caps, matcher-side rejects and expiry at the close; '
          'a case is the whole life of one order: its inputs (submit / match outcomes / cancel / day boundaries) replayed through the per-order '
          'machine of Model/Order.v and compared with the recorded event stream and final order state; distinct non-trivial = distinct '
          '(final status x type x number of fills x cancelled x announcements) classes'),
    assumptions=['float64 rounding not modelled', 'match outcomes are inputs of the lifecycle machine (their computation is C05 / C06)',
                 'an auction order that a re-entrant matching round (an order placed from a TRADE handler during the auction) matches a second time inside the same auction is checked by the monitors only (counted in the input distribution)']))
