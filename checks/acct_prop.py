# -*- coding: utf-8 -*-
"""Factory for the accounting property modules (same runs, different ownership of components / clauses)."""
import random

from harness import scenario, run
from checks import acct


def make(prop, components, clauses, gen, quick=(96, 8), thorough=(1600, 40), rule='', assumptions=(), coq=(), gen_mods=(), analyser=None, prelude=None):
    def owned_case(meta):
        return any(meta['component'].startswith(c) for c in components)

    def owned_hit(h):
        return any(h['clause'].startswith(c) for c in clauses)

    def analyse_one(scn, out):
        cx = (analyser or acct.analyse)(scn, out)
        cases = [c for c in cx.cases if owned_case(c[1])]
        hits = [h for h in cx.hits if owned_hit(h)]
        return cx, cases, hits

    def plan(tier, seed):
        n, per = quick if tier == 'quick' else thorough
        return [dict(kind='batch', seed=seed * 1000003 + k * 7919 + hash(prop) % 1000, n=per, tier=tier) for k in range(n // per)]

    def work(item):
        if item['kind'] == 'replay':
            out = run.run_scenario(item['scn'])
            cx, cases, hits = analyse_one(item['scn'], out)
            return dict(hits=hits, cases=[], stats={}, n=1)
        rng = random.Random(item['seed'])
        res = dict(cases=[], hits=[], stats={'runs': 0}, samples=[], n=0, nontrivial=[])
        keys = set()
        for _ in range(item['n']):
            scn = gen(rng, item['tier'])
            out = run.run_scenario(scn)
            res['stats']['runs'] += 1
            if out['exc']:
                return dict(error='harness: %s %s' % (out['exc']['cls'], out['exc']['tb'][-1200:]))
            if out['errors']:
                return dict(error='recorder: %s' % (out['errors'][0],))
            cx, cases, hits = analyse_one(scn, out)
            res['cases'].extend(cases)
            seen = set()
            for h in hits:
                k = (h['clause'], repr(sorted(h['sig'].items())))
                if k not in seen:
                    seen.add(k)
                    res['hits'].append(h)
            for a, b in cx.stats.items():
                if a.startswith('case_') and not any(a[5:].startswith(c) for c in components):
                    continue
                res['stats'][a] = res['stats'].get(a, 0) + b
            fr = scn['cfg']['base']['frequency']
            res['stats']['freq_' + fr] = res['stats'].get('freq_' + fr, 0) + 1
            res['stats']['marks'] = res['stats'].get('marks', 0) + len(out['trace'])
            keys |= cx.keys
            res['n'] += len(cases)
            if cases and len(res['samples']) < 2:
                res['samples'].append(dict(case=cases[len(cases) // 2][0][:600], meta={k: v for k, v in cases[len(cases) // 2][1].items() if k in ('component', 'trade', 'oid', 'dt', 'act')}))
        res['nontrivial'] = sorted(keys)
        return res

    def replay(payload):
        from lib import core
        h = payload.get('hit') or {}
        if not h.get('scn'):
            return []
        r = core.run_items('checks.' + prop, [dict(kind='replay', scn=h['scn'])], procs=1)
        return r[0].get('hits', []) if r and not r[0].get('error') else [dict(clause='harness', sig={}, detail=r[0].get('error'))]

    base_coq = ['Model/Num.v', 'Model/Costs.v', 'Model/Position.v', 'Model/Account.v', 'Model/AccountRun.v', 'Model/Reserve.v',
                'Model/Closable.v', 'Model/Portfolio.v', 'Model/Check.v', 'Proofs/NumFacts.v', 'Proofs/PositionFacts.v',
                'Proofs/AccountFacts.v', 'Properties/%s.v' % prop]
    return dict(PROP=prop, GEN=list(gen_mods), COQ=base_coq + list(coq), PRELUDE=prelude or acct.PRELUDE, RULE=rule, ASSUMPTIONS=list(assumptions),
                TRUSTED=[], plan=plan, work=work, replay=replay)


def combine(*analysers):
    """one analysis made of several (same run, same scenario): cases, hits, statistics and classes are pooled"""
    def analyse(scn, out):
        cx = analysers[0](scn, out)
        for an in analysers[1:]:
            c2 = an(scn, out)
            cx.cases.extend(c2.cases)
            cx.hits.extend(c2.hits)
            cx.keys |= c2.keys
            cx.skipped += c2.skipped
            for k, v in c2.stats.items():
                cx.stats[k] = cx.stats.get(k, 0) + v if isinstance(v, (int, float)) and isinstance(cx.stats.get(k, 0), (int, float)) else v
        return cx
    return analyse


COMBINED_PRELUDE = ('From RQ Require Import Model.Num Model.Costs Model.Position Model.Account Model.AccountRun Model.Reserve Model.Closable Model.Portfolio '
                    'Model.Sizing Model.Validators Model.Check.\nOpen Scope Q_scope.\n')


def gen_general(rng, tier, **kw):
    """the general accounting scenario: daily mostly, some minute runs, corporate actions, flows, delisting"""
    freq = '1m' if rng.random() < kw.get('p_minute', 0.2) else '1d'
    wo = dict(actions=rng.random() < kw.get('p_actions', 0.7), delist=rng.random() < kw.get('p_delist', 0.25),
              suspend=rng.random() < 0.2, late_listing=rng.random() < 0.15, integral_splits=kw.get('integral_splits', True),
              overlapping_dividends=kw.get('overlap', False))
    if freq == '1m':
        wo['delist'] = False
    o = dict(freq=freq, world=wo, flows=kw.get('flows', True), mgmt=kw.get('mgmt', True))
    o.update(kw.get('opts', {}))
    if rng.random() < kw.get('p_div_capture', 0.25):
        return scenario.gen_div_capture(rng, dict(integral_splits=kw.get('integral_splits', True), overlap=kw.get('overlap', False)))
    return scenario.gen_trading(rng, o)
