# -*- coding: utf-8 -*-
"""C10 Positions never go negative: closable quantity, T+1 and close-today rules."""
from checks import acct_prop, acct, ordering


def gen(rng, tier):
    if rng.random() < 0.5:
        from harness import scenario
        return scenario.gen_close_pile(rng)
    scn = acct_prop.gen_general(rng, tier, p_minute=0.35, p_div_capture=0.05, p_actions=0.3, p_delist=0.05,
                                opts=dict(p_cancel=0.1, actions_per_phase=(0, 1, 1, 2, 3, 4), flows=False))
    return scn


globals().update(acct_prop.make(
    'C10', components=['views.closable', 'trade.', 'validate.verdict'], clauses=['C10.'], gen=gen,
    analyser=acct_prop.combine(acct.analyse, ordering.analyse), prelude=acct_prop.COMBINED_PRELUDE,
    coq=['Model/Sizing.v', 'Model/Validators.v', 'Proofs/ValidatorsFacts.v', 'Gen/ValidatorChain.v', 'Proofs/ClosableFacts.v', 'Gen/PosArith.v'], gen_mods=['PosArith', 'ValidatorChain'],
    rule=('random scenarios dense in closing orders: resting limit closes, second closes while the first rests, sells on the purchase day, '
          'close-today and split futures closes in both directions, splits between buy and sell, T+1 on and off; a case is one recorded '
          'closable / today-closable view, trade step or verdict of the validator chain (closable / today-closable check) replayed through the Coq model; distinct non-trivial = distinct classes'),
    assumptions=['float64 rounding not modelled']))
