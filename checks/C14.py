# -*- coding: utf-8 -*-
"""C14 A run resumed from persisted state continues exactly like the uninterrupted run."""
import copy
import math
import random

from checks import acct_prop
from checks.acct import Ctx, Skip, q, close, dint_of, pos_lit, pcfg_lit, pending_lit
from checks.C07 import first_diff
from harness import scenario, run, steps, world as W
from lib.core import zlit, blit

PRELUDE = ('From RQ Require Import Model.Num Model.Calendar Model.Position Model.Account Model.AccountRun Model.EventLoop Model.Persist Model.Check.\n'
           'Open Scope Q_scope.\n')
CORE = {'BEFORE_TRADING': 'PBeforeTrading', 'OPEN_AUCTION': 'POpenAuction', 'BAR': 'PBar', 'AFTER_TRADING': 'PAfterTrading', 'SETTLEMENT': 'PSettlement'}
DROP = ('tax_rate', 'cmap', 'turnover')     # the tax rate cache, the per-order minimum-commission book of finished orders, the matcher's per-bar fill counter


def vp():
    import rqalpha_mod_vpersist as VP
    return VP


def gen(rng, tier):
    minute = rng.random() < 0.1
    scn = acct_prop.gen_general(rng, tier, p_minute=1.0 if minute else 0.0, p_div_capture=0.25, p_actions=0.7, p_delist=0.2,
                                opts=dict(p_cancel=0.1, flows=rng.random() < 0.6))
    for acts in scn['script'].values():
        for a in acts:
            if a['op'] == 'cancel' and 'k' in a:
                a['today'] = a.pop('k')
            if a['op'] == 'deposit' and rng.random() < 0.5:
                a['days'] = rng.choice([1, 2, 3])          # pending deposits that arrive after the stop
    for i in range(scn['start_i'], scn['end_i'] + 1):
        if rng.random() < 0.5:
            scn['script'].setdefault('%d|handle_bar|0' % i, []).append(dict(op='ctx_add', name='n'))
        if rng.random() < 0.3:
            scn['script'].setdefault('%d|before_trading|0' % i, []).append(dict(op='g_add', name='k', by=2))
        if rng.random() < 0.3:
            scn['script'].setdefault('%d|after_trading|0' % i, []).append(dict(op='ctx_get', name='n'))
    if rng.random() < 0.3 and not minute:
        scn['sched'] = [dict(kind=rng.choice(['daily', 'weekly']), tradingday=1, time=rng.choice([None, ['before_trading']]), tag='s0',
                             act=dict(op='ctx_add', name='m'))]
        if scn['sched'][0]['kind'] == 'daily':
            scn['sched'][0].pop('tradingday')
    an = rng.random() < 0.5
    scn['cfg']['mod']['sys_analyser'] = {'enabled': an, 'benchmark': rng.choice([None, W.INDEX]) if an else None}
    return scn


# ---------------------------------------------------------------- comparison of the continuation
def norm(trace):
    def walk(x):
        if isinstance(x, dict):
            return {k: walk(v) for k, v in x.items() if not (k == 'non_closable' and v == 0.0) and k not in DROP}
        if isinstance(x, list):
            return [walk(v) for v in x]
        return x
    out = []
    replay = True
    sched_stale = True
    for m in trace:
        m = walk(m)
        if m.get('ev') == 'PRE_BEFORE_TRADING':
            replay = False
            if m['k'] == 'ev1':
                sched_stale = False
        if 'snap' in m:
            if replay:
                # the replayed settlement runs with the date of the stop day but not its time of day
                m['snap']['cal'] = m['snap']['cal'][:10]
                m['snap']['trd'] = m['snap']['trd'][:10]
            if sched_stale or m.get('ev') == 'PRE_BEFORE_TRADING' and m['k'] == 'ev0':
                m['snap'].pop('sched', None)
        out.append(m)
    return out


def suffix(trace, day):
    for j, m in enumerate(trace):
        if m['k'] == 'ev0' and m['ev'] == 'PRE_SETTLEMENT' and dint_of(m['snap']['trd']) == day:
            return steps.normalise_ids(norm(trace[j:]))
    return None


def suffix_from_bt(trace, day):
    """from the first before-trading after `day` (the stop day was settled by the stopped run)"""
    for j, m in enumerate(trace):
        if m['k'] == 'ev0' and m['ev'] == 'PRE_BEFORE_TRADING' and dint_of(m['snap']['trd']) > day:
            return steps.normalise_ids(norm(trace[j:]))
    return None


def compare(a, b):
    for i, (x, y) in enumerate(zip(a, b)):
        d = first_diff('', x, y)
        if d:
            return dict(index=i, path=d[0], a=d[1], b=d[2], mark=x['k'], ev=x.get('ev'), op=(x.get('act') or {}).get('op'), cal=(x.get('snap') or {}).get('cal'))
    if len(a) != len(b):
        return dict(index=min(len(a), len(b)), path='/len', a=len(a), b=len(b), mark='end')
    return None


def published(trace):
    out = []
    for m in trace:
        if m['k'] == 'ev0' and m['ev'] in CORE:
            d = dint_of(m['snap']['trd'])
            if m['ev'] == 'SETTLEMENT':
                out.append('PSettlement %s' % zlit(d))
            else:
                t = {'BEFORE_TRADING': 0, 'OPEN_AUCTION': 0, 'BAR': 900, 'AFTER_TRADING': 930}[m['ev']]
                out.append('%s %s %s' % (CORE[m['ev']], zlit(d), zlit(t)))
    return '[%s]' % '; '.join(out)


def acc_lit(cx, name, a):
    poss = []
    for oid, dirs in a['pos'].items():
        ins = cx.ins(oid)
        for dname in ('LONG', 'SHORT'):
            if dname in dirs:
                p = dict(dirs[dname])
                if not isinstance(p.get('last'), float) or math.isnan(p['last']):
                    p['last'] = 0.0
                poss.append('(%s, %s)' % (pcfg_lit(ins, dname), pos_lit(p)))
    return '{| a_total_cash := %s; a_frozen := %s; a_liab := %s; a_pending := %s; a_mgmt_fees := %s; a_pos := [%s] |}' % (
        q(a['total_cash']), q(a['frozen']), q(a['liab']), pending_lit(a['pending']), q(a['mgmt_fees']), '; '.join(poss))


def report_diff(rep, r2):
    """None if the resumed run's report equals the uninterrupted run's report"""
    p1, p2 = rep['portfolio'], r2['portfolio']
    d1 = [str(x)[:10] for x in p1.index]
    d2 = [str(x)[:10] for x in p2.index]
    if d1 != d2:
        dup = sorted(set(x for x in d2 if d2.count(x) > 1))
        return dict(what='days', duplicated=dup[:3], missing=[x for x in d1 if x not in d2][:3], n_full=len(d1), n_resumed=len(d2))
    for c in p1.columns:
        for k in range(len(p1)):
            a, b = float(p1[c].values[k]), float(p2[c].values[k])
            if abs(a - b) > 1e-6 and not (a != a and b != b):
                return dict(what='portfolio', column=c, day=d1[k], full=a, resumed=b)
    if len(rep['trades']) != len(r2['trades']):
        return dict(what='trades', full=len(rep['trades']), resumed=len(r2['trades']))
    s1, s2 = rep['summary'], r2['summary']
    for k, v in s1.items():
        if isinstance(v, float) and k in ('total_returns', 'unit_net_value', 'annualized_returns', 'total_value', 'cash', 'benchmark_total_returns',
                                          'benchmark_annualized_returns', 'max_drawdown', 'sharpe', 'volatility'):
            w = s2.get(k)
            if not (isinstance(w, float) and (abs(v - w) < 1e-6 or (v != v and w != w))):
                return dict(what='summary', key=k, full=v, resumed=w)
    return None


def analyse_seq(scn, rng, nstops):
    VP = vp()
    analyser = bool(scn['cfg']['mod']['sys_analyser'].get('enabled'))
    full = copy.deepcopy(scn)
    full.pop('c14_stop', None)
    full['persist'] = dict(mode='real_time', snapshot=True)
    VP.STORE.clear()
    VP.SNAPSHOTS.clear()
    VP.RESUME['on'] = False
    o = run.run_scenario(full, want_result=True)
    if o['exc']:
        raise RuntimeError('harness: %s %s' % (o['exc']['cls'], o['exc']['tb'][-800:]))
    cx = Ctx(scn, o)
    days = o['days']
    snaps = dict(VP.SNAPSHOTS)
    rep = (o.get('result') or {}).get('sys_analyser') if analyser else None
    failed_full = any(m['k'] == 'api1' and m.get('exc') and m['act']['op'] in ('raise', 'raise_api') for m in o['trace'])
    fixed = scn.get('c14_stop')
    if fixed:
        stops = [fixed]
    else:
        cand = [(di, mode) for di in range(scn['start_i'], scn['end_i']) for mode in ('real_time',)]
        rng.shuffle(cand)
        stops = [dict(day=di, mode=mode) for di, mode in (cand if nstops is None else cand[:nstops])]
        extra = [di for di in range(scn['start_i'], scn['end_i'])]
        if extra:
            stops.append(dict(day=rng.choice(extra), mode='on_normal_exit'))
            if rng.random() < 0.5:
                stops.append(dict(day=rng.choice(extra), mode='on_crash'))
    minute = scn['cfg']['base']['frequency'] == '1m'
    for st in stops:
        di, mode = st['day'], st['mode']
        dstr = str(days[di])
        dint = W.dint(days[di])
        settled_by_stopped_run = False
        if mode == 'real_time':
            if dstr not in snaps:
                continue
            VP.STORE.clear()
            VP.STORE.update(snaps[dstr])
        else:
            first = copy.deepcopy(scn)
            first.pop('c14_stop', None)
            first['persist'] = dict(mode=mode)
            first['end_i'] = di
            if mode == 'on_crash':
                # the strategy dies at the very end of the day's after-trading
                first['script'] = copy.deepcopy(first['script'])
                first['script'].setdefault('%d|after_trading|0' % di, []).append(dict(op='raise'))
            else:
                settled_by_stopped_run = True
            VP.STORE.clear()
            VP.RESUME['on'] = False
            o1 = run.run_scenario(first)
            if o1['exc']:
                raise RuntimeError('harness (first part): %s %s' % (o1['exc']['cls'], o1['exc']['tb'][-800:]))
            if not VP.STORE:
                cx.hit('C14.nothing_persisted', dict(mode=mode), dict(stop=dstr))
                continue
        VP.RESUME['on'] = True
        res = copy.deepcopy(scn)
        res.pop('c14_stop', None)
        second = st.get('second')
        if second is None and not fixed and mode == 'real_time' and di + 2 <= scn['end_i'] - 1 and rng.random() < 0.5:
            second = rng.randint(di + 1, scn['end_i'] - 1)       # the resumed run is itself stopped and resumed (a chain of two stops)
        res['persist'] = dict(mode=mode if mode != 'on_crash' else 'real_time', resume=True, snapshot=second is not None)
        res['start_i'] = di + 1
        if second is not None:
            VP.SNAPSHOTS.clear()
        o2 = run.run_scenario(res, want_result=True)
        VP.RESUME['on'] = False
        if second is not None and not o2['exc']:
            snaps2 = dict(VP.SNAPSHOTS)
            d2str = str(days[second])
            if d2str in snaps2:
                VP.STORE.clear()
                VP.STORE.update(snaps2[d2str])
                VP.RESUME['on'] = True
                res3 = copy.deepcopy(scn)
                res3.pop('c14_stop', None)
                res3['persist'] = dict(mode='real_time', resume=True)
                res3['start_i'] = second + 1
                o3 = run.run_scenario(res3, want_result=True)
                VP.RESUME['on'] = False
                if o3['exc']:
                    raise RuntimeError('harness (second resumed part): %s %s' % (o3['exc']['cls'], o3['exc']['tb'][-800:]))
                cx.stats['resumes'] = cx.stats.get('resumes', 0) + 1
                cx.stats['resume_twice'] = cx.stats.get('resume_twice', 0) + 1
                cx.keys.add(repr(('twice', scn['cfg']['base']['frequency'], analyser)))
                s3 = copy.deepcopy(scn)
                s3['c14_stop'] = dict(day=di, mode=mode, second=second)
                a3, b3 = suffix(o['trace'], W.dint(days[second])), suffix(o3['trace'], W.dint(days[second]))
                if a3 is not None and b3 is not None:
                    d3 = compare(a3, b3)
                    if d3:
                        cx.hits.append(dict(clause='C14.continuation_differs', sig=dict(mode='twice', mark=d3['mark'], what=d3.get('op') or d3.get('ev'), field=d3['path'].split('/')[-1]),
                                            detail=dict(stops=[dstr, d2str], first_difference=d3), scn=s3))
                    cx.stats['marks_compared'] = cx.stats.get('marks_compared', 0) + len(a3)
                elif not failed_full:
                    cx.hits.append(dict(clause='C14.continuation_differs', sig=dict(mode='twice', what='no settlement of the second stop day'), detail=dict(stops=[dstr, d2str]), scn=s3))
                if analyser and rep is not None:
                    r3 = (o3.get('result') or {}).get('sys_analyser')
                    if r3 is None:
                        cx.hits.append(dict(clause='C14.resumed_report_missing', sig=dict(mode='twice'), detail=dict(stops=[dstr, d2str]), scn=s3))
                    else:
                        rd3 = report_diff(rep, r3)
                        if rd3:
                            cx.hits.append(dict(clause='C14.report_differs', sig=dict(mode='twice', what=rd3['what'], key=rd3.get('column') or rd3.get('key')),
                                                detail=dict(stops=[dstr, d2str], diff=rd3), scn=s3))
        if o2['exc']:
            raise RuntimeError('harness (resumed part): %s %s' % (o2['exc']['cls'], o2['exc']['tb'][-800:]))
        cx.stats['resumes'] = cx.stats.get('resumes', 0) + 1
        cx.stats['resume_' + mode] = cx.stats.get('resume_' + mode, 0) + 1
        cx.keys.add(repr((mode, scn['cfg']['base']['frequency'], bool(scn['meta']['futs']), analyser, bool(scn.get('sched')))))
        s2 = copy.deepcopy(scn)
        s2['c14_stop'] = dict(day=di, mode=mode)
        # ---- continuation: mark by mark
        if settled_by_stopped_run:
            a, b = suffix_from_bt(o['trace'], dint), suffix_from_bt(o2['trace'], dint)
        else:
            a, b = suffix(o['trace'], dint), suffix(o2['trace'], dint)
        if a is None or b is None:
            if not failed_full:
                cx.hits.append(dict(clause='C14.continuation_differs', sig=dict(mode=mode, what='no settlement of the stop day' if b is None else 'stop day missing'),
                                    detail=dict(stop=dstr, resumed_events=[(m['ev']) for m in o2['trace'] if m['k'] == 'ev0'][:12]), scn=s2))
            continue
        d = compare(a, b)
        if d:
            leaf = d['path'].split('/')[-1]
            cx.hits.append(dict(clause='C14.continuation_differs', sig=dict(mode=mode, mark=d['mark'], what=d.get('op') or d.get('ev'), field=leaf),
                                detail=dict(stop=dstr, first_difference=d), scn=s2))
        cx.stats['marks_compared'] = cx.stats.get('marks_compared', 0) + len(a)
        # ---- model: persist / restore of the accounts, the executor's replay, the report's days
        try:
            if not settled_by_stopped_run:
                m_stop = next(m for m in o['trace'] if m['k'] == 'ev0' and m['ev'] == 'PRE_SETTLEMENT' and dint_of(m['snap']['trd']) == dint)
                m_res = next(m for m in o2['trace'] if m['k'] == 'ev0' and m['ev'] == 'PRE_SETTLEMENT')
            else:
                m_stop = next(m for m in o['trace'] if m['k'] == 'ev0' and m['ev'] == 'PRE_BEFORE_TRADING' and dint_of(m['snap']['trd']) > dint)
                m_res = next(m for m in o2['trace'] if m['k'] == 'ev0' and m['ev'] == 'PRE_BEFORE_TRADING')
            for name, a0 in (m_stop['snap'].get('acc') or {}).items():
                a1 = (m_res['snap'].get('acc') or {}).get(name)
                if a1 is None:
                    cx.hit('C14.account_missing', dict(acc=name), dict(stop=dstr))
                    continue
                try:
                    cx.case('persist.account', 'chk_resume_account %s %s' % (acc_lit(cx, name, a0), acc_lit(cx, name, a1)), dict(stop=dstr, mode=mode, acc=name))
                except Skip:
                    cx.skipped += 1
        except StopIteration:
            pass
        if not minute:
            cal = [W.dint(x) for x in days]
            rdays = [x for x in cal if W.dint(days[di + 1]) <= x <= W.dint(days[scn['end_i']])]
            prev_settle = dint if settled_by_stopped_run else (W.dint(days[di - 1]) if di > scn['start_i'] else 0)
            cx.case('persist.executor', 'chk_resume_events %s %s [%s]%%Z %s' % (zlit(dint), zlit(prev_settle), '; '.join(str(x) for x in rdays), published(o2['trace'])),
                    dict(stop=dstr, mode=mode))
        # ---- report
        if analyser and rep is not None:
            r2 = (o2.get('result') or {}).get('sys_analyser')
            if r2 is None:
                cx.hits.append(dict(clause='C14.resumed_report_missing', sig=dict(mode=mode), detail=dict(stop=dstr), scn=s2))
            else:
                d2 = [int(str(x)[:10].replace('-', '')) for x in r2['portfolio'].index]
                earlier = [W.dint(x) for x in days[scn['start_i']:di + 1]]
                cur = [W.dint(x) for x in days[di + 1:scn['end_i'] + 1]]
                cx.case('persist.report', 'chk_report_dates [%s]%%Z [%s]%%Z [%s]%%Z' % ('; '.join(map(str, earlier + cur)) if mode == 'real_time' else '; '.join(map(str, earlier)),
                                                                                      '; '.join(map(str, cur)), '; '.join(map(str, d2))), dict(stop=dstr, mode=mode))
                rd = report_diff(rep, r2)
                if rd:
                    cx.hits.append(dict(clause='C14.report_differs', sig=dict(mode=mode, what=rd['what'], key=rd.get('column') or rd.get('key')), detail=dict(stop=dstr, diff=rd), scn=s2))
    return cx


def work(item):
    if item['kind'] == 'replay':
        try:
            cx = analyse_seq(item['scn'], random.Random(1), 2)
        except RuntimeError as e:
            return dict(hits=[dict(clause='harness', sig={}, detail=str(e))], cases=[], stats={}, n=1)
        return dict(hits=[h for h in cx.hits if h['clause'].startswith('C14.')], cases=[], stats={}, n=1)
    rng = random.Random(item['seed'])
    res = dict(cases=[], hits=[], stats={'runs': 0}, samples=[], n=0, nontrivial=[])
    keys = set()
    for _ in range(item['n']):
        scn = gen(rng, item['tier'])
        try:
            cx = analyse_seq(scn, rng, 3 if item['tier'] == 'quick' else None)
        except RuntimeError as e:
            return dict(error=str(e))
        res['stats']['runs'] += 1 + cx.stats.get('resumes', 0)
        res['cases'].extend(cx.cases)
        seen = set()
        for h in cx.hits:
            k = (h['clause'], repr(sorted(h['sig'].items())))
            if k not in seen:
                seen.add(k)
                res['hits'].append(h)
        for a, b in cx.stats.items():
            res['stats'][a] = res['stats'].get(a, 0) + b
        keys |= cx.keys
        res['n'] += len(cx.cases)
        if cx.cases and len(res['samples']) < 2:
            c = cx.cases[-1]
            res['samples'].append(dict(case=c[0][:500], meta=c[1]))
    res['nontrivial'] = sorted(keys)
    return res


_base = acct_prop.make(
    'C14', components=['persist.'], clauses=['C14.'], gen=gen, analyser=None, prelude=PRELUDE, gen_mods=['PersistKeys'], quick=(48, 4), thorough=(480, 8),
    rule=('random scenarios (stocks, futures, dividends receivable, liabilities, pending deposits, management fees, strategy context and global variables, '
          'scheduler, analyser with / without benchmark, daily and minute bars) run once uninterrupted with REAL_TIME persistence into a harness provider '
          'that snapshots the store at every end-of-day persistence point; for stop days (quick: 3 per scenario + one ON_NORMAL_EXIT split + sometimes '
          'an ON_CRASH split; thorough: every day) a new run is started on the next trading day from the persisted state and its full recorded trace '
          '(replayed settlement of the stop day, every later event, order, fill, position, cash, net value, API result) is compared mark by mark with '
          'the uninterrupted run (half of the real-time stops are followed by a second stop of the resumed run: a chain of two resumptions); the accounts at the stop are pushed through Model/Persist.v (persist / restore) and compared with what the resumed run '
          'starts from, the published event sequence of the resumed run with the resumable executor model, the report\'s days with the merge model; the '
          'report of the resumed run is compared with the uninterrupted report; Gen/PersistKeys.v is regenerated from get_state / set_state'),
    assumptions=['jsonpickle / pickle fidelity is runtime: only covered by the split runs (partial)',
                 'the clock of the replayed settlement (time of day), the tax-rate cache, the minimum-commission book of finished orders and the matcher\'s '
                 'per-bar fill counter are excluded from the comparison (they do not affect later behaviour)',
                 'the recorder takes no state snapshots in a resumed run before the first trading event (its reads would cache prices at the resume date)'])
_base['work'] = work
globals().update(_base)
COQ = ['Model/Num.v', 'Model/Calendar.v', 'Model/Position.v', 'Model/Account.v', 'Model/AccountRun.v', 'Model/EventLoop.v', 'Model/Persist.v', 'Model/PersistKeys.v',
       'Model/Check.v', 'Proofs/NumFacts.v', 'Proofs/PersistFacts.v', 'Gen/PersistKeys.v', 'Properties/C14.v']
