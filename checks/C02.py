# -*- coding: utf-8 -*-
"""C02 Futures account: margin and daily mark-to-market conserve value."""
from checks import acct_prop


def gen(rng, tier):
    if rng.random() < 0.15:
        from harness import scenario
        return scenario.gen_bust(rng)
    return acct_prop.gen_general(rng, tier, p_minute=0.3, p_div_capture=0.0, p_actions=0.2,
                                 opts=dict(stocks=rng.choice([0, 0, 1]), futures=True, minute_kind='future'))


globals().update(acct_prop.make(
    'C02', coq=['Gen/PosArith.v'], gen_mods=['PosArith'], components=['trade.future', 'settle.future', 'settle.cash', 'views.position', 'views.account', 'reserve.amount', 'bt.reset'],
    clauses=['C02.'], gen=gen,
    rule=('random futures scenarios (by-money and by-volume contracts, both directions, open / close / close-today, order / order_to, expiry inside '
          'the run, both settlement-price modes, margin multipliers, forced liquidation on/off, daily and minute bars; plus a wipe-out family: cash chosen so that the value of the account straddles zero between the close and the settlement price of some day); a case is one recorded '
          'step (trade, settlement of an entry, settlement cash of the account, margin / equity / available-cash views) replayed through the Coq '
          'model; distinct non-trivial = distinct step classes (effect x direction x partial close x expiry x settlement mode ...)'),
    assumptions=['float64 rounding not modelled', 'prev_settlement data consistent with the previous settlement (generator contract)']))
