# -*- coding: utf-8 -*-
"""Analysis of a recorded run for the matching / order-lifecycle properties (C04 C05 C06)."""
import math
from fractions import Fraction

from harness import steps, world as W
from lib.core import qlit, blit, olit, zlit
from checks.acct import Ctx, Skip, q, pos_lit, pcfg_lit, eff_lit, ZERO_POS, close, dint_of, open_orders_of

PRELUDE = 'From RQ Require Import Model.Num Model.Costs Model.Position Model.Account Model.Matcher Model.MatcherRun Model.Order Model.Broker Model.Check.\nOpen Scope Q_scope.\n'

TICK = {'CS': 0.01, 'ETF': 0.001}


def oq(x):
    if x is None or (isinstance(x, float) and (math.isnan(x))):
        return 'None'
    return '(Some %s)' % q(x)


def bar_lit(b):
    if b is None:
        return 'nan_bar'
    return '{| b_open := %s; b_close := %s; b_volume := %s; b_turnover := %s; b_limit_up := %s; b_limit_down := %s |}' % (
        oq(b['open']), oq(b['close']), oq(b['volume']), oq(b['total_turnover']), oq(b['limit_up']), oq(b['limit_down']))


def dec(x):
    """decimal rational of a configured number (0.1 -> 1/10): the code's float product rounds to the same integers"""
    fr = Fraction(str(x))
    return '(%d # %d)' % (fr.numerator, fr.denominator)


def mcfg_lit(cx):
    sim = cx.sim
    mt = {'current_bar': 'CurrentBarClose', 'next_bar': 'NextBarOpen', 'vwap': 'Vwap'}[sim['matching_type']]
    sm = {'PriceRatioSlippage': 'PriceRatio', 'TickSizeSlippage': 'TickSize', 'LimitPriceSlippage': 'LimitPrice'}[sim['slippage_model']]
    rate = 0 if sm == 'LimitPrice' else sim['slippage']
    return '{| m_matching := %s; m_price_limit := %s; m_inactive_limit := %s; m_volume_limit := %s; m_volume_percent := %s; m_slip := %s; m_slip_rate := %s |}' % (
        mt, blit(sim['price_limit']), blit(sim['inactive_limit']), blit(sim['volume_limit']), dec(sim['volume_percent']), sm, q(float(rate)))


def bars_at(cx, oid, snap):
    """(current bar, day bar) of the instrument at the snapshot's clock"""
    d = dint_of(snap['trd'])
    day = next((x for x in cx.days if W.dint(x) == d), None)
    daybar = cx.w.bar(oid, day) if day else None
    if cx.cfg['base']['frequency'] == '1d':
        cd = dint_of(snap['cal'])
        cday = next((x for x in cx.days if W.dint(x) == cd), None)
        return (cx.w.bar(oid, cday) if cday else None), daybar
    key = int(snap['cal'][:4] + snap['cal'][5:7] + snap['cal'][8:10] + snap['cal'][11:13] + snap['cal'][14:16] + '00')
    rows = [b for b in (cx.w.minutes or {}).get(oid, []) if b['datetime'] == key]
    return (rows[0] if rows else None), daybar


def tick_of(cx, oid):
    ins = cx.ins(oid)
    if ins['kind'] == 'Future':
        return cx.finfo[ins['und']]['tick_size']
    return TICK[ins['kind']]


def classify(msg):
    m = msg or ''
    if 'listed date' in m:
        return 'RListedToday'
    if 'limit_up' in m:
        return 'RLimitUp'
    if 'limit_down' in m:
        return 'RLimitDown'
    if 'bar no volume' in m:
        return 'RNoVolume'
    if 'due to volume limit' in m:
        return 'RVolumeCap'
    if 'not enough money' in m:
        return 'RSlipCash'
    if 'is larger than' in m:
        return 'RPartial'
    return 'R?'


def match_spans(trace):
    out = []
    stack = []
    for i, m in enumerate(trace):
        if m['k'] == 'match0':
            stack.append(i)
        elif m['k'] == 'match1' and stack:
            out.append((stack.pop(), i))
    return sorted(out)


def ref_price(cx, oid, bar, daybar, auction):
    ins = cx.ins(oid)
    if auction:
        return daybar['open'] if daybar else None
    if bar is None:
        return None
    mt = cx.sim['matching_type']
    if mt == 'current_bar':
        return bar['close']
    if mt == 'next_bar':
        return bar['open']
    if not bar['volume']:
        return None
    return bar['total_turnover'] / bar['volume'] / (ins['mult'] if ins['kind'] == 'Future' else 1.0)


def broker_case(cx, trace):
    """the run seen from the broker: submissions (phase, immediate matching), bars, cancels, closes -> which matcher calls, in which order, which flag"""
    immediate = cx.cfg['base']['frequency'] == '1d' or cx.sim['matching_type'] not in ('next_bar',)
    ids = {}

    def nid(x):
        return ids.setdefault(x, len(ids))
    ops, calls, finals, ncall = [], [], [], {}
    for m in trace:
        if m['k'] == 'ev0':
            ev = m['ev']
            o = (m.get('payload') or {}).get('order')
            if ev == 'ORDER_CREATION_PASS' and o and m['snap'].get('phase') != 'GLOBAL':
                ops.append('BSubmit %s %d%%nat %s' % ('BAuction' if m['snap'].get('phase') == 'OPEN_AUCTION' else 'BTrading', nid(o['id']), 'true' if immediate else 'false'))
            elif ev == 'BAR':
                ops.append('BBar')
            elif ev == 'ORDER_CANCELLATION_PASS' and o:
                ops.append('BCancel %d%%nat' % nid(o['id']))
            elif ev == 'AFTER_TRADING':
                ops.append('BAfterTrading')
        elif m['k'] == 'match0':
            i = nid(m['order']['id'])
            calls.append('(%d%%nat, %s, %s)' % (i, 'true' if m['auction'] else 'false', 'BAuction' if m['snap'].get('phase') == 'OPEN_AUCTION' else 'BTrading'))
        elif m['k'] == 'match1':
            i = nid(m['order']['id'])
            k = ncall.get(i, 0)
            ncall[i] = k + 1
            if m['order']['status'] in ('FILLED', 'CANCELLED', 'REJECTED'):
                finals.append('(%d%%nat, %d%%nat)' % (i, k))
    if calls:
        cx.case('match.broker', 'chk_broker_calls [%s] [%s] [%s]' % ('; '.join(finals), '; '.join(ops), '; '.join(calls)),
                dict(n_ops=len(ops), n_calls=len(calls), immediate=immediate))


def turnover_case(cx, trace, spans):
    """the matcher's per-instrument turnover over the whole run: cleared when a BAR / BEFORE_TRADING event begins, raised by every fill
    (Model/MatcherRun.v turnover_run); the observed value before and after every matcher call must be the model's"""
    ids = {}
    obs = []
    ncalls = nfill = 0
    for m in trace:
        if m['k'] == 'ev0' and m['ev'] in ('BAR', 'BEFORE_TRADING'):
            if not obs or obs[-1] != 'TClear':
                obs.append('TClear')
        elif m['k'] == 'ev0' and m['ev'] == 'TRADE' and m['payload']['trade'].get('order_id') is not None:
            t = m['payload']['trade']
            obs.append('TFill %d%%nat %s' % (ids.setdefault(t['oid'], len(ids)), q(t['qty'])))
            nfill += 1
        elif m['k'] in ('match0', 'match1'):
            oid = m['order']['oid']
            v = float((m['snap'].get('turnover') or {}).get(oid, 0))
            obs.append('%s %d%%nat %s' % ('TPre' if m['k'] == 'match0' else 'TPost', ids.setdefault(oid, len(ids)), q(v)))
            ncalls += m['k'] == 'match0'
    if ncalls:
        cx.case('match.turnover', 'chk_turnover_run [%s]' % '; '.join(obs), dict(n_calls=ncalls, n_fills=nfill, instruments=len(ids)))
        cx.keys.add(repr(('T', min(ncalls, 5), min(nfill, 5), min(len(ids), 3), cx.cfg['base']['frequency'])))


def analyse(scn, out):
    cx = Ctx(scn, out)
    trace = cx.trace
    if cx.sim.get('signal'):
        return cx
    spans = match_spans(trace)
    per_order = {}      # order id -> dict(ins=[...], evs=[...], qty=)
    fills_per_bar = {}
    g = mcfg_lit(cx)
    sm = cx.sim['slippage_model']
    rate = 0.0 if sm == 'LimitPriceSlippage' else float(cx.sim['slippage'])
    # orders placed in the auction phase: only their first match round follows the auction rule (the day's open, no slippage)
    placed_in_auction = set()
    for m in trace:
        if m['k'] == 'ev0' and m['ev'] == 'ORDER_PENDING_NEW' and m['payload'].get('order') and m['snap'].get('phase') == 'OPEN_AUCTION':
            placed_in_auction.add(m['payload']['order']['id'])
    calls_so_far = {}
    broker_case(cx, trace)
    turnover_case(cx, trace, spans)
    # ---- every matcher call
    for i0, i1 in spans:
        m0, m1 = trace[i0], trace[i1]
        o0, o1 = m0['order'], m1['order']
        oid = o0['oid']
        ins = cx.ins(oid)
        fut = ins['kind'] == 'Future'
        auction = m0['auction']
        snap = m0['snap']
        tr = None
        for k in range(i0 + 1, i1):
            if trace[k]['k'] == 'ev0' and trace[k]['ev'] == 'TRADE' and trace[k]['payload']['trade']['order_id'] == o0['id']:
                tr = trace[k]['payload']['trade']
        if tr is not None:
            outcome = 'Filled %s %s %s %s' % (q(tr['price']), q(tr['qty']), q(tr['ct'] or 0.0), blit(o1['status'] == 'CANCELLED'))
            okind = 'fill'
        elif o1['status'] == 'REJECTED' and o0['status'] != 'REJECTED':
            outcome = 'Rejected %s' % classify(o1['msg'])
            okind = classify(o1['msg'])
        elif o1['status'] == 'CANCELLED' and o0['status'] != 'CANCELLED':
            outcome = 'Cancelled %s' % classify(o1['msg'])
            okind = classify(o1['msg'])
        else:
            outcome = 'NoMatch'
            okind = 'nomatch'
        fee = (tr['commission'] + tr['tax']) if tr else 0.0
        po = per_order.setdefault(o0['id'], dict(ins=[], evs=[], order=o0))
        # the lifecycle machine does not look at the reason of a reject / cancel
        lo = outcome if okind in ('fill', 'nomatch') else ('Rejected RPartial' if outcome.startswith('Rejected') else 'Cancelled RPartial')
        if tr is not None and any(i0 < a and b < i1 and trace[a]['order']['id'] == o0['id'] for a, b in spans):
            # re-entrant matching: a TRADE handler placed an order, and the nested matching round met this order again before the outer call
            # cancelled the rest of it - for the order's own machine the outer call is the fill only, what ended the order is the nested call
            lo = 'Filled %s %s %s false' % (q(tr['price']), q(tr['qty']), q(tr['ct'] or 0.0))
            cx.stats['reentrant_same_order'] = cx.stats.get('reentrant_same_order', 0) + 1
            if auction:
                # ... and in the auction the order still sits in the auction book while the nested round runs, so it is matched a second time with
                # the auction rule inside the same auction: the per-order machine (one auction call per order) does not model re-entrant rounds;
                # such an order is checked by the monitors only
                po['reentrant_auction'] = True
        po['ins'].append('IMatch (%s) %s' % (lo, q(fee)))
        po.setdefault('flags', []).append(auction)
        bar, daybar = bars_at(cx, oid, snap)
        pb = daybar if snap.get('phase') == 'OPEN_AUCTION' else bar
        # float ambiguity: the vwap is a computed float; when it ties (within rounding) with a limit or the order's price the
        # exact-rational model and the float comparison may legitimately differ -> the step is dropped and counted
        ambiguous = False
        if cx.sim['matching_type'] == 'vwap' and not auction and bar and bar['volume']:
            exact = Fraction(bar['total_turnover']) / Fraction(bar['volume']) / Fraction(ins['mult'] if fut else 1.0)
            for x in (pb['limit_up'] if pb else None, pb['limit_down'] if pb else None, o0['fprice'] if o0['type'] == 'LIMIT' else None):
                if x is not None and x == x and exact != Fraction(x) and abs(float(exact) - x) <= 1e-9 * max(1.0, abs(x)):
                    ambiguous = True
        if ambiguous:
            cx.stats['float_ambiguous'] = cx.stats.get('float_ambiguous', 0) + 1
        acc = m0['acc']
        try:
            a = snap['acc'][acc]
            dname = 'LONG' if ((o0['side'] == 'BUY') == (o0['eff'] == 'OPEN')) else 'SHORT'
            p = a['pos'].get(oid, {}).get(dname) or dict(ZERO_POS)
            d_today = dint_of(snap['trd'])
            mins = '{| i_lot := %s; i_mult := %s; i_tick := %s; i_listed_today := %s |}' % (
                q(float(ins['lot'])), q(ins['mult'] if fut else 1.0), q(tick_of(cx, oid)), blit(W.dint(ins['listed']) == d_today))
            mo = '{| mo_side := %s; mo_effect := %s; mo_limit := %s; mo_price := %s; mo_qty := %s; mo_filled := %s; mo_reserve := %s |}' % (
                'Buy' if o0['side'] == 'BUY' else 'Sell', eff_lit(o0['eff']), blit(o0['type'] == 'LIMIT'),
                q(o0['fprice'] if o0['type'] == 'LIMIT' else 0.0), q(o0['qty']), q(o0['filled']), q(o0['reserve']))
            if fut:
                fee_of = '(future_fee %s %s)' % (cx.fcost_lit(oid), blit(o0['eff'] == 'OPEN'))
                occ = ins['mult'] * cx.margin_rate(oid)
            else:
                e0 = snap.get('cmap', {}).get(str(o0['id']))
                fee_of = '(stock_fee %s %s %s %s)' % (cx.scost_lit(snap.get('tax_rate')), olit(e0, q), blit(ins['kind'] == 'CS'), blit(o0['side'] == 'SELL'))
                occ = 1.0
            avail = snap['pub'][acc]['cash'] + (o0['reserve'] or 0.0)
            term = 'chk_match %s %s %s %s %s %s %s %s %s %s %s %s %s (%s)' % (
                g, mins, bar_lit(bar), bar_lit(daybar), bar_lit(pb), blit(auction), q(float(snap.get('turnover', {}).get(oid, 0))), mo,
                fee_of, q(occ), q(avail), pcfg_lit(ins, dname), pos_lit(p, last_override=p['last'] if p['last'] is not None else 0.0), outcome)
            if not ambiguous:
                cx.case('match.price' if tr else 'match.outcome', term, dict(order=o0, after=o1, trade=tr, auction=auction, bar=bar, daybar=daybar,
                                                                          turnover=snap.get('turnover', {}).get(oid, 0), dt=snap['cal'], phase=snap.get('phase')))
        except Skip:
            cx.skipped += 1
        cx.keys.add(repr(('M', okind, o0['type'], o0['side'], auction, ins['kind'], cx.sim['matching_type'], sm, o0['filled'] > 0)))
        # ---------------- monitors on this call (from the property texts) ----------------
        ncall = calls_so_far.get(o0['id'], 0)
        calls_so_far[o0['id']] = ncall + 1
        auction_expected = o0['id'] in placed_in_auction and ncall == 0
        if auction != auction_expected:
            cx.hit('C05.auction_rule', dict(flag=auction, expected=auction_expected, matching=cx.sim['matching_type']),
                   dict(order=o0, call_number=ncall, dt=snap['cal'], phase=snap.get('phase')))
        if snap.get('phase') == 'OPEN_AUCTION' and not auction:
            # during the auction only the auction bar exists: matching against the day's bar would use its close / volume (look-ahead)
            cx.hit('C05.bar_match_in_auction', dict(matching=cx.sim['matching_type']), dict(order=o0, call_number=ncall, dt=snap['cal']))
        ref = ref_price(cx, oid, bar, daybar, auction_expected)
        valid = ref is not None and not (isinstance(ref, float) and math.isnan(ref)) and ref > 0
        lu = pb['limit_up'] if pb else None
        ld = pb['limit_down'] if pb else None
        unfilled0 = o0['qty'] - o0['filled']
        if tr is not None:
            px, qty = tr['price'], tr['qty']
            sgn = 1 if o0['side'] == 'BUY' else -1
            if not valid:
                cx.hit('C05.fill_without_valid_price', dict(auction=auction), dict(trade=tr, ref=ref, dt=snap['cal']))
            else:
                # the prescribed price
                if auction_expected:
                    exp = ref
                elif sm == 'PriceRatioSlippage':
                    exp = ref + ref * rate * sgn
                elif sm == 'TickSizeSlippage':
                    exp = ref + tick_of(cx, oid) * rate * sgn
                else:
                    exp = o0['fprice'] if o0['type'] == 'LIMIT' else ref
                if not auction_expected and sm != 'LimitPriceSlippage':
                    if lu and lu > 0:
                        exp = min(exp, lu)
                    if ld and ld > 0:
                        exp = max(exp, ld)
                if not close(px, exp, 1e-9):
                    cx.hit('C05.price', dict(auction=auction, matching=cx.sim['matching_type'], slippage=sm, type=o0['type']),
                           dict(price=px, prescribed=exp, reference=ref, trade=tr, dt=snap['cal'], limits=(ld, lu)))
                if (px - ref) * sgn < -1e-9 * max(1, abs(ref)):
                    cx.hit('C05.not_adverse', dict(side=o0['side'], slippage=sm), dict(price=px, reference=ref, trade=tr))
                if lu and ld and lu > 0 and ld > 0 and ld <= ref <= lu and not (ld - 1e-9 <= px <= lu + 1e-9) \
                        and not (sm == 'LimitPriceSlippage' and o0['type'] == 'LIMIT'):
                    cx.hit('C05.band', dict(side=o0['side'], slippage=sm), dict(price=px, band=(ld, lu), reference=ref, trade=tr))
                if o0['type'] == 'LIMIT':
                    if (ref - o0['fprice']) * sgn > 1e-9:
                        cx.hit('C05.limit', dict(side=o0['side'], auction=auction), dict(limit=o0['fprice'], reference=ref, trade=tr))
                    if (rate == 0 or auction) and (px - o0['fprice']) * sgn > 1e-9:
                        cx.hit('C05.worse_than_limit', dict(side=o0['side']), dict(limit=o0['fprice'], price=px, trade=tr))
                # C06
                if cx.sim['price_limit'] and ((o0['side'] == 'BUY' and lu and ref >= lu) or (o0['side'] == 'SELL' and ld and ref <= ld)):
                    cx.hit('C06.fill_at_limit', dict(side=o0['side'], type=o0['type'], auction=auction), dict(reference=ref, limits=(ld, lu), trade=tr, dt=snap['cal']))
            vol = (daybar['volume'] if daybar else None) if auction else (bar['volume'] if bar else None)
            if cx.sim['inactive_limit'] and vol == 0:
                cx.hit('C06.fill_without_volume', dict(auction=auction), dict(trade=tr, dt=snap['cal']))
            lot = float(ins['lot'])
            if not (0 < qty <= unfilled0 + 1e-9):
                cx.hit('C06.fill_quantity', dict(case='range'), dict(qty=qty, unfilled=unfilled0, trade=tr))
            if abs(qty / lot - round(qty / lot)) > 1e-9 and abs(qty - unfilled0) > 1e-9:
                cx.hit('C06.fill_quantity', dict(case='odd lot'), dict(qty=qty, unfilled=unfilled0, lot=lot, trade=tr))
            if cx.sim['volume_limit'] and vol is not None and vol == vol:
                key = (oid, snap['cal'], auction)
                fills_per_bar[key] = fills_per_bar.get(key, 0.0) + qty
                cap = math.floor(round(vol * cx.sim['volume_percent']) / lot) * lot
                if fills_per_bar[key] > cap + 1e-9:
                    cx.hit('C06.volume_cap', dict(auction=auction, freq=cx.cfg['base']['frequency']),
                           dict(filled_in_bar=fills_per_bar[key], cap=cap, volume=vol, percent=cx.sim['volume_percent'], dt=snap['cal'], oid=oid))
            if o0['type'] == 'MARKET' and abs(unfilled0 - qty) > 1e-9 and o1['status'] != 'CANCELLED':
                cx.hit('C06.market_rests', {}, dict(order=o1, trade=tr))
            if o0['type'] == 'LIMIT' and abs(unfilled0 - qty) > 1e-9 and o1['status'] != 'ACTIVE':
                cx.hit('C06.limit_not_resting', dict(status=o1['status']), dict(order=o1, trade=tr))
        else:
            if o0['type'] == 'MARKET' and o1['status'] == 'ACTIVE' and valid:
                cx.hit('C06.market_rests', dict(case='no fill'), dict(order=o1, dt=snap['cal'], ref=ref))
            if o0['type'] == 'LIMIT' and o1['status'] in ('CANCELLED', 'REJECTED') and classify(o1['msg']) not in ('RNoVolume', 'RListedToday', 'RSlipCash'):
                cx.hit('C06.limit_not_resting', dict(status=o1['status'], reason=classify(o1['msg'])), dict(order=o1, dt=snap['cal']))
    # ---- per-order event streams (C04)
    evnames = {'ORDER_PENDING_NEW': 'EvPendingNew', 'ORDER_CREATION_PASS': 'EvCreationPass', 'ORDER_PENDING_CANCEL': 'EvPendingCancel',
               'ORDER_CANCELLATION_PASS': 'EvCancellationPass'}
    created = []
    stream = {}
    statuses = {}
    # interleave inputs in trace order: walk marks once
    seq = {}      # id -> list of inputs in order
    flagseq = {}  # id -> auction flags of its match calls, in order
    mi = {(a): b for a, b in spans}
    for i, m in enumerate(trace):
        if m['k'] == 'ev0':
            ev = m['ev']
            pl = m['payload']
            o = pl.get('order')
            if ev in evnames and o:
                stream.setdefault(o['id'], []).append((evnames[ev], o))
                if ev == 'ORDER_PENDING_NEW':
                    created.append(o['id'])
                    seq.setdefault(o['id'], []).append('ISubmit %s' % blit(m['snap'].get('phase') == 'OPEN_AUCTION'))
            elif ev == 'ORDER_UNSOLICITED_UPDATE' and o:
                stream.setdefault(o['id'], []).append(('EvUnsolicited %s' % {'REJECTED': 'SRejected', 'CANCELLED': 'SCancelled'}.get(o['status'], 'SFilled'), o))
            elif ev == 'TRADE' and pl['trade']['order_id'] is not None:
                tr = pl['trade']
                stream.setdefault(tr['order_id'], []).append(('EvTrade %s %s %s' % (q(tr['price']), q(tr['qty']), q(tr['commission'] + tr['tax'])), pl.get('order')))
            elif ev == 'BEFORE_TRADING':
                for oid_ in created:
                    seq[oid_].append('IBeforeTrading')
            elif ev == 'AFTER_TRADING':
                for oid_ in created:
                    seq[oid_].append('IAfterTrading')
            elif ev == 'ORDER_CREATION_REJECT' and o is not None:
                cx.hit('C04.creation_reject_carries_order', {}, dict(order=o))
        elif m['k'] == 'match0':
            pass
        elif m['k'] == 'match1':
            # the IMatch input was queued in per_order in span order; move it into the sequence now
            po = per_order.get(m['order']['id'])
            if po and po['ins']:
                seq.setdefault(m['order']['id'], []).append(po['ins'].pop(0))
                flagseq.setdefault(m['order']['id'], []).append(po['flags'].pop(0))
        elif m['k'] == 'api1' and m['act']['op'] == 'cancel' and m.get('res') and m['res'].get('target') is not None and m['exc'] is None:
            seq.setdefault(m['res']['target'], []).append('ICancel')
    # BEFORE/AFTER_TRADING listeners of the broker run inside the event; ev0 precedes them, so the order of inputs is right.
    final = {o['id']: o for o in out['orders'] if o.get('id') is not None}
    # orders seen only through events
    for oid_, evs in stream.items():
        if oid_ not in final and evs:
            final[oid_] = None
    for oid_ in created:
        evs = stream.get(oid_, [])
        fo = final.get(oid_)
        last_ev_order = [o for _, o in evs if o][-1] if [o for _, o in evs if o] else None
        fo = fo or last_ev_order
        if fo is None:
            continue
        names = [e[0].split(' ')[0] for e in evs]
        # ---- protocol regex
        st = 'P0'
        table = {('P0', 'EvPendingNew'): 'P1', ('P1', 'EvCreationPass'): 'P2', ('P2', 'EvTrade'): 'P2', ('P2', 'EvUnsolicited'): 'PD',
                 ('P2', 'EvPendingCancel'): 'P3', ('P3', 'EvCancellationPass'): 'PD'}
        for n in names:
            st = table.get((st, n), 'FAIL')
            if st == 'FAIL':
                break
        if st == 'FAIL':
            cx.hit('C04.protocol', dict(events=' '.join(names)[:120]), dict(order=fo, events=names))
        # ---- fill accounting
        trs = [e for e in evs if e[0].startswith('EvTrade')]
        tq = tv = tf = 0.0
        for m in trace:
            if m['k'] == 'ev0' and m['ev'] == 'TRADE' and m['payload']['trade']['order_id'] == oid_:
                t = m['payload']['trade']
                tq += t['qty']
                tv += t['price'] * t['qty']
                tf += t['commission'] + t['tax']
        if not close(fo['filled'], tq) or fo['filled'] > fo['qty'] + 1e-9:
            cx.hit('C04.filled_quantity', {}, dict(order=fo, traded=tq))
        if (fo['status'] == 'FILLED') != (abs(fo['filled'] - fo['qty']) < 1e-9):
            cx.hit('C04.filled_status', dict(status=fo['status']), dict(order=fo))
        if tq and not close(fo['avg'], tv / tq, 1e-9):
            cx.hit('C04.avg_price', {}, dict(order=fo, expected=tv / tq))
        if not close(fo['tcost'], tf, 1e-9):
            cx.hit('C04.transaction_cost', {}, dict(order=fo, expected=tf))
        if fo['status'] in ('ACTIVE', 'PENDING_NEW', 'PENDING_CANCEL'):
            cx.hit('C04.dangling', dict(status=fo['status'], eff=fo['eff']), dict(order=fo))
        if fo['status'] in ('CANCELLED', 'REJECTED') and sum(1 for n in names if n in ('EvUnsolicited', 'EvCancellationPass')) != 1:
            cx.hit('C04.terminal_announcement', dict(status=fo['status'], n=sum(1 for n in names if n in ('EvUnsolicited', 'EvCancellationPass'))), dict(order=fo, events=names))
        # ---- status path
        path = [o['status'] for _, o in evs if o]
        legal = {('PENDING_NEW', 'ACTIVE'), ('PENDING_NEW', 'REJECTED'), ('ACTIVE', 'FILLED'), ('ACTIVE', 'CANCELLED'), ('ACTIVE', 'REJECTED'), ('PENDING_NEW', 'PENDING_NEW')}
        for a, b in zip(path, path[1:]):
            if a != b and (a, b) not in legal:
                cx.hit('C04.transition', dict(frm=a, to=b), dict(order=fo, path=path))
        # ---- correspondence with the per-order machine
        try:
            stl = {'PENDING_NEW': 'PendingNew', 'ACTIVE': 'Active', 'FILLED': 'SFilled', 'CANCELLED': 'SCancelled', 'REJECTED': 'SRejected', 'PENDING_CANCEL': 'PendingCancel'}[fo['status']]
            term = 'chk_order %s [%s] [%s] [%s] %s %s %s %s' % (q(fo['qty']), '; '.join(seq.get(oid_, [])), '; '.join(blit(b) for b in flagseq.get(oid_, [])),
                                                              '; '.join(e[0] for e in evs), stl, q(fo['filled']), q(fo['avg']), q(fo['tcost']))
            if per_order.get(oid_, {}).get('reentrant_auction'):
                cx.stats['lifecycle_not_modelled_reentrant_auction'] = cx.stats.get('lifecycle_not_modelled_reentrant_auction', 0) + 1
            else:
                cx.case('order.lifecycle', term, dict(order=fo, inputs=seq.get(oid_, []), events=names))
            cx.keys.add(repr(('O', fo['status'], fo['type'], len(trs) if len(trs) < 3 else 3, 'ICancel' in seq.get(oid_, []), names.count('EvUnsolicited'))))
        except Skip:
            cx.skipped += 1
    # ---- handed back orders are final or listed; nothing open after the close
    for i0, i1 in steps.api_spans(trace):
        m1 = trace[i1]
        if 'acc' not in m1['snap'] or m1['snap'].get('open') is None:
            continue
        listed = set(o['id'] for o in open_orders_of(m1['snap']))
        for o in m1.get('ret') or []:
            if o.get('status') in ('ACTIVE', 'PENDING_NEW', 'PENDING_CANCEL') and o['id'] not in listed:
                cx.hit('C04.returned_not_listed', dict(status=o['status'], eff=o['eff'], op=m1['act']['op']), dict(order=o, act=m1['act']))
    for m in trace:
        if m['k'] == 'ev1' and m['ev'] == 'POST_AFTER_TRADING' and 'acc' in m['snap'] and m['snap'].get('open') is not None:
            oo = open_orders_of(m['snap'])
            if oo:
                cx.hit('C04.open_after_close', dict(n=len(oo), book='auction' if m['snap'].get('auction') else 'open'), dict(open=oo, dt=m['snap']['cal']))
    cx.stats['skipped_nan'] = cx.skipped
    return cx
