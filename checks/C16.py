# -*- coding: utf-8 -*-
"""C16 Pre-trade validation rejects untradable orders without side effects."""
import random

from checks import acct_prop, ordering
from harness import scenario, world as W


def gen(rng, tier):
    scn = acct_prop.gen_general(rng, tier, p_minute=0.15, p_div_capture=0.0, p_actions=0.2, p_delist=0.5,
                                opts=dict(p_cancel=0.05, actions_per_phase=(0, 1, 2, 3), flows=False, stocks=3, futures=rng.random() < 0.5))
    scn['world_opts'].update(late_listing=True, suspend=True)
    w = W.gen_world(random.Random(scn['world_seed']), scn['world_opts'])
    nd = len(w.days)
    scn['end_i'] = nd - 2
    ids = scn['meta']['active_stocks'] + scn['meta']['futs']
    # orders on every day relative to listing / delisting / suspension, limit prices at the band edges
    for i in range(scn['start_i'], scn['end_i'] + 1):
        for ph in ('open_auction', 'handle_bar'):
            if scn['cfg']['base']['frequency'] == '1m' and ph == 'handle_bar':
                continue
            if rng.random() < 0.5:
                oid = rng.choice(ids)
                b = w.bar(oid, w.days[i])
                acts = scn['script'].setdefault('%d|%s|0' % (i, ph), [])
                r = rng.random()
                if b and r < 0.5:
                    edge = rng.choice([b['limit_up'], b['limit_up'] + 0.01, b['limit_up'] - 0.01, b['limit_down'], b['limit_down'] - 0.01, b['limit_down'] + 0.01,
                                       round(b['limit_up'] + 0.0001, 4), round(b['limit_down'] - 0.0001, 4)])
                    if oid in W.FUTS:
                        acts.append(dict(op=rng.choice(['buy_open', 'sell_open']), id=oid, amt=rng.choice([1, 2]), style=['limabs', edge]))
                    else:
                        acts.append(dict(op='order_shares', id=oid, amt=rng.choice([100, 300, -100]), style=['limabs', edge]))
                elif r < 0.8:
                    acts.append(scenario.future_action(rng, oid) if oid in W.FUTS else scenario.stock_action(rng, oid))
                elif r < 0.9:
                    acts.append(dict(op='order_shares', id='NOSUCH.XSHE', amt=100, style='mkt'))
                else:
                    acts.append(dict(op='order_shares', id=oid, amt=100, style=['limabs', 'nan']) if oid not in W.FUTS else dict(op='buy_open', id=oid, amt=1, style=['limabs', 'nan']))
    stocks_ = [x for x in ids if x not in W.FUTS]
    if stocks_ and rng.random() < 0.3 and scn['cfg']['base']['frequency'] == '1d':
        # a listed, unsuspended stock without market data on some day (no bar in the bundle): every order style must be refused at creation
        sid = rng.choice(stocks_)
        have = [i for i in range(scn['start_i'] + 1, scn['end_i'] + 1) if w.bar(sid, w.days[i]) and w.bar(sid, w.days[i - 1])]
        if have:
            gaps = rng.sample(have, min(len(have), rng.randint(1, 2)))
            scn['world_overrides'] = dict(drop_bars={sid: [W.dint(w.days[i]) for i in gaps]})
            for i in gaps:
                ref = w.bar(sid, w.days[i - 1])['close']
                for ph in ('open_auction', 'handle_bar'):
                    acts = scn['script'].setdefault('%d|%s|0' % (i, ph), [])
                    for _ in range(rng.randint(1, 2)):
                        acts.append(dict(op=rng.choice(['order_shares', 'order_value', 'order_percent', 'order_target_value', 'order_lots']), id=sid,
                                         amt=rng.choice([100, 300, 2]) if rng.random() < 0.5 else rng.choice([5000.0, 0.1]),
                                         style=rng.choice(['mkt', ['limabs', round(ref, 2)], ['limabs', round(ref * 1.01, 2)]])))
    risk = scn['cfg']['mod']['sys_risk']
    risk.update(validate_cash=rng.random() < 0.7, validate_price=rng.random() < 0.7, validate_is_trading=rng.random() < 0.7, validate_self_trade=rng.random() < 0.3)
    sa = scn['cfg']['mod']['sys_accounts']
    sa.update(validate_stock_position=rng.random() < 0.8, validate_future_position=rng.random() < 0.8, auto_switch_order_value=False)
    scn['cfg']['mod']['sys_simulation'].update(price_limit=rng.random() < 0.5)
    return scn


globals().update(acct_prop.make(
    'C16', components=['validate.'], clauses=['C16.'], gen=gen, analyser=ordering.analyse, prelude=ordering.PRELUDE,
    coq=['Model/Sizing.v', 'Model/Validators.v', 'Model/Phases.v', 'Proofs/ValidatorsFacts.v', 'Gen/ApiPhases.v', 'Gen/ValidatorChain.v'], gen_mods=['ApiPhases', 'ValidatorChain'],
    rule=('random orders on instruments before listing, on the listing day, on suspended days, on and after the delisting day, with limit prices at '
          'and 0.0001 / 0.01 around the band edges, on days without market data for a listed unsuspended stock, over cash and over the closable holding, with every combination of validator switches, plus a '
          'malformed stream (unknown instrument, NaN limit price); a case is the verdict on one order that reached the validator chain computed by '
          'Model/Validators.v from the state before the call; distinct non-trivial = distinct (reason x instrument kind x effect x style x listed x '
          'suspended) classes'),
    assumptions=['float64 rounding not modelled; cash checks within 1e-6 of equality are skipped by the oracle (the model still decides them exactly)']))
