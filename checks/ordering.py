# -*- coding: utf-8 -*-
"""Analysis of the order-creating API calls of a recorded run: sizing (C15) and pre-trade validation (C16)."""
import math

from harness import steps, world as W
from lib.core import qlit, blit, olit, zlit
from checks.acct import Ctx, Skip, q, close, dint_of, open_orders_of, state_key
from checks.matching import bars_at, dec

PRELUDE = ('From RQ Require Import Model.Num Model.Costs Model.Position Model.Closable Model.Sizing Model.Validators Model.Check.\n'
           'Open Scope Q_scope.\n')
STOCK_OPS = ('order_shares', 'order_lots', 'order_value', 'order_percent', 'order_target_value', 'order_target_percent', 'order', 'order_to', 'submit_order')
FUT_SINGLE = ('buy_open', 'sell_open', 'buy_close', 'sell_close')
REASONS = [('not enough today position', 'VPositionToday'), ('not enough position', 'VPosition'), ('higher than limit up', 'VLimitUp'),
           ('lower than limit down', 'VLimitDown'), ('is not listing', 'VNotListing'), ('is suspended', 'VSuspended'),
           ('not enough money', 'VCash'), ('self-trade', 'VSelfTrade')]
PRE_REASONS = ('No market data', '0 order quantity', 'larger than today closable quantity', 'larger than position quantity')


def reason_class(msg):
    for k, v in REASONS:
        if k in (msg or ''):
            return v
    return None


def last_price_at(cx, oid, snap):
    bar, daybar = bars_at(cx, oid, snap)
    if snap.get('phase') == 'OPEN_AUCTION':
        return daybar['open'] if daybar else None
    return bar['close'] if bar else None


def intent_lit(o):
    if o is None:
        return 'None'
    return '(Some (Intent %s %s %s))' % ('Buy' if o['side'] == 'BUY' else 'Sell', {'OPEN': 'Open', 'CLOSE': 'Close', 'CLOSE_TODAY': 'CloseToday'}[o['eff']], q(o['qty']))


def analyse(scn, out):
    cx = Ctx(scn, out)
    trace = cx.trace
    if cx.sim.get('signal'):
        return cx
    spans = steps.event_spans(trace)
    sa = cx.cfg['mod']['sys_accounts']
    risk = cx.cfg['mod']['sys_risk']
    auto = bool(sa.get('auto_switch_order_value'))
    for i0, i1 in steps.api_spans(trace):
        m0, m1 = trace[i0], trace[i1]
        act = m0['act']
        op = act['op']
        if op not in STOCK_OPS + FUT_SINGLE or 'acc' not in m0['snap'] or m0['ph'] in ('init', 'before_trading', 'after_trading'):
            continue
        oid = act['id']
        if oid not in cx.w.instruments:
            continue
        ins = cx.ins(oid)
        fut = ins['kind'] == 'Future'
        snap = m0['snap']
        acc = 'FUTURE' if fut else 'STOCK'
        if acc not in snap['acc']:
            continue
        inner = [(a, b, n) for a, b, n in spans if i0 < a < i1]
        rejects = [trace[a]['payload'].get('reason') or '' for a, b, n in inner if n == 'ORDER_CREATION_REJECT']
        created = [trace[b]['payload']['order'] for a, b, n in inner if n == 'ORDER_PENDING_NEW']
        exc = m1.get('exc')
        a_priv = snap['acc'][acc]
        a_pub = snap['pub'][acc]
        px_last = last_price_at(cx, oid, snap)
        st = act.get('style')
        is_limit = bool(st) and st != 'mkt'
        limit_price = None
        if is_limit:
            limit_price = round(px_last * st[1], 2) if (st[0] == 'lim' and px_last is not None) else (float(st[1]) if st[0] == 'limabs' else None)
        price = limit_price if is_limit else px_last
        valid_px = px_last is not None and px_last == px_last and px_last > 0
        cx.keys.add(repr(('OP', op, ins['kind'], is_limit, bool(created), len(rejects), bool(exc))))
        if exc:
            # argument / phase errors are user-facing and leave no trace
            if state_key(snap) != state_key(m1['snap']):
                cx.hit('C16.error_changes_state', dict(op=op, cls=exc['cls']), dict(act=act, exc=exc))
            if any(n.startswith('ORDER') or n == 'TRADE' for a, b, n in inner):
                cx.hit('C16.error_after_effects', dict(op=op, cls=exc['cls']), dict(act=act, exc=exc))
            continue
        try:
            if not fut:
                pos_priv = a_priv['pos'].get(oid, {}).get('LONG')
                pos_pub = a_pub['pos'].get(oid, {}).get('LONG') if pos_priv else None
                quantity = pos_priv['qty'] if pos_priv else 0.0
                closable = pos_pub['closable'] if pos_pub else 0.0
                mv = pos_pub['market_value'] if pos_pub else 0.0
                cash = a_pub['cash']
                tv = a_pub['total_value']
                lot = ins['lot']
                sins = '{| s_lot := %s; s_ksh := %s |}' % (zlit(lot), blit(ins['board'] == 'KSH'))
                fee_fn = '(stock_fee_fn %s %s %s)' % (cx.scost_lit(snap.get('tax_rate')), blit(ins['kind'] == 'CS'), q(price if valid_px and price else 1.0))
                model = None
                amt = act['amt']
                if not valid_px or (is_limit and (price is None or price != price)):
                    model = None if op != 'submit_order' else None
                    model_term = 'None'
                elif op in ('order_shares', 'order'):
                    model_term = 'shares_auto_intent %s %s %s %s %s %s %s %s' % (sins, q(float(amt)), q(quantity), blit(auto), q(cash), q(price), fee_fn, q(closable))
                elif op == 'order_lots':
                    model_term = 'shares_auto_intent %s %s %s %s %s %s %s %s' % (sins, q(float(amt * lot)), q(quantity), blit(auto), q(cash), q(price), fee_fn, q(closable))
                elif op == 'order_to':
                    model_term = 'shares_auto_intent %s (qsub %s %s) %s %s %s %s %s %s' % (sins, q(float(amt)), q(quantity), q(quantity), blit(auto), q(cash), q(price), fee_fn, q(closable))
                elif op == 'order_value':
                    model_term = 'order_value_intent %s %s %s %s %s %s %s' % (sins, q(float(amt)), q(cash), q(price), fee_fn, q(closable), q(quantity))
                elif op == 'order_percent':
                    model_term = 'order_value_intent %s (qmul %s %s) %s %s %s %s %s' % (sins, q(tv), q(float(amt)), q(cash), q(price), fee_fn, q(closable), q(quantity))
                elif op == 'order_target_value':
                    model_term = 'order_target_intent %s %s %s %s %s %s %s %s %s' % (sins, blit(amt == 0), q(float(amt)), q(mv), q(cash), q(price), fee_fn, q(closable), q(quantity))
                elif op == 'order_target_percent':
                    model_term = 'order_target_intent %s %s (qmul %s %s) %s %s %s %s %s %s' % (sins, blit(amt == 0), q(tv), q(float(amt)), q(mv), q(cash), q(price), fee_fn, q(closable), q(quantity))
                else:   # submit_order: no rounding at all
                    n = int(amt)
                    model_term = '(Some (Intent %s %s %s))' % ('Buy' if act['side'] == 'BUY' else 'Sell', 'Open' if act['side'] == 'BUY' else 'Close', q(float(n)))
                validator_reject = [r for r in rejects if reason_class(r)]
                pre_reject = [r for r in rejects if not reason_class(r)]
                # float ambiguity of the budget loop: a candidate amount whose cost ties with the budget within rounding
                ambiguous = False
                if valid_px and price and price > 0 and op in ('order_value', 'order_percent', 'order_target_value', 'order_target_percent', 'order_shares', 'order', 'order_lots', 'order_to'):
                    req = {'order_value': amt, 'order_percent': tv * amt, 'order_target_value': amt - mv, 'order_target_percent': tv * amt - mv}.get(op, cash)
                    budget = min(req, cash) if req > 0 else None
                    if budget and budget > 0:
                        a = int(budget / price / lot) * lot
                        for k in range(4):
                            aa = a - k * lot
                            if aa <= 0:
                                break
                            c = aa * price + max(price * aa * 0.0008 * cx.smult, cx.minc)
                            if abs(c - budget) <= 1e-9 * max(1.0, abs(budget)):
                                ambiguous = True
                        ratio = budget / price / lot
                        if abs(ratio - round(ratio)) < 1e-9 and ratio != round(ratio):
                            ambiguous = True
                if ambiguous:
                    cx.stats['float_ambiguous'] = cx.stats.get('float_ambiguous', 0) + 1
                if created:
                    observed = intent_lit(created[0])
                elif validator_reject:
                    observed = None        # the quantity that reached the validators is not observable
                else:
                    observed = 'None'
                if not valid_px:
                    # C16: without a valid market price no order may come into being, whatever the style (a limit price is not market data)
                    cx.case('validate.no_price', 'chk_intent (None) %s' % (intent_lit(created[0]) if created else 'None'),
                            dict(act=act, created=created[:1], rejects=rejects, phase=m0['ph'], dt=snap['cal']))
                    cx.keys.add(repr(('NOPRICE', op, is_limit, bool(rejects))))
                    if created:
                        cx.hit('C16.no_price_accepted', dict(op=op, limit=is_limit), dict(act=act, order=created[0], dt=snap['cal'], last_price=px_last))
                if observed is not None and not ambiguous:
                    cx.case('sizing.stock', 'chk_intent (%s) %s' % (model_term, observed), dict(act=act, created=created[:1], rejects=rejects, phase=m0['ph'], dt=snap['cal'],
                                                                                             state=dict(quantity=quantity, closable=closable, cash=cash, total_value=tv, market_value=mv, price=price)))
                # ---- C15 monitors from the property text
                if created:
                    o = created[0]
                    qty = o['qty']
                    whole = abs(qty / lot - round(qty / lot)) < 1e-9 if ins['board'] != 'KSH' else (qty >= 200 or qty == quantity)
                    if op != 'submit_order' and not whole and not (o['side'] == 'SELL' and abs(qty - quantity) < 1e-9):
                        cx.hit('C15.odd_lot', dict(op=op, side=o['side']), dict(act=act, order=o, quantity=quantity, lot=lot))
                    if o['side'] == 'SELL' and op != 'submit_order' and qty > closable + 1e-9 and risk.get('validate_position', True):
                        cx.hit('C15.sell_over_closable', dict(op=op), dict(act=act, order=o, closable=closable))
                    if o['side'] == 'BUY' and op in ('order_value', 'order_percent', 'order_target_value', 'order_target_percent'):
                        req = {'order_value': amt, 'order_percent': tv * amt, 'order_target_value': amt - mv, 'order_target_percent': tv * amt - mv}[op]
                        budget = min(req, cash)
                        fee = max(price * qty * 0.0008 * cx.smult, cx.minc)
                        fee2 = max(price * (qty + lot) * 0.0008 * cx.smult, cx.minc)
                        if qty * price + fee > budget + 1e-6:
                            cx.hit('C15.over_budget', dict(op=op), dict(act=act, order=o, budget=budget, cost=qty * price + fee))
                        room = math.floor(budget / price / lot + 1e-12) * lot if ins['board'] != 'KSH' else math.floor(budget / price + 1e-12)
                        if (qty + lot) <= room and (qty + lot) * price + fee2 <= budget - 1e-6:
                            cx.hit('C15.not_maximal', dict(op=op), dict(act=act, order=o, budget=budget, next_cost=(qty + lot) * price + fee2))
                if not created and not rejects and state_key(snap) != state_key(m1['snap']):
                    cx.hit('C15.noop_changes_state', dict(op=op), dict(act=act))
                # ---- validation of the order that reached the validators (C16)
                if (created or validator_reject) and not pre_reject:
                    validation_case(cx, snap, acc, oid, ins, created[0] if created else None, validator_reject, m0, is_limit, price, act, op, closable, quantity)
            else:
                lp = a_priv['pos'].get(oid, {})
                pl, ps = lp.get('LONG'), lp.get('SHORT')
                pubp = a_pub['pos'].get(oid, {})
                if op in FUT_SINGLE:
                    side = 'Buy' if op.startswith('buy') else 'Sell'
                    eff = 'Open' if op.endswith('open') else ('CloseToday' if act.get('ct') else 'Close')
                    dname = 'LONG' if (side == 'Sell') == (eff != 'Open') and eff != 'Open' else ('SHORT' if eff != 'Open' else ('LONG' if side == 'Buy' else 'SHORT'))
                    pp = lp.get(dname)
                    ppub = pubp.get(dname, {})
                    quantity = pp['qty'] if pp else 0.0
                    old = pp['old'] if pp else 0.0
                    tcl = ppub.get('today_closable', 0.0) if pp else 0.0
                    if valid_px and not (is_limit and price != price):
                        model_term = 'future_submit_legs %s %s %s %s %s %s' % (q(float(act['amt'])), side, eff, q(quantity), q(old), q(tcl))
                    else:
                        model_term = 'None'
                    validator_reject = [r for r in rejects if reason_class(r)]
                    if not validator_reject:
                        obs = '[%s]' % '; '.join('Intent %s %s %s' % ('Buy' if o['side'] == 'BUY' else 'Sell', {'OPEN': 'Open', 'CLOSE': 'Close', 'CLOSE_TODAY': 'CloseToday'}[o['eff']], q(o['qty'])) for o in created)
                        cx.case('sizing.future', 'chk_legs (%s) %s' % (model_term, obs), dict(act=act, created=created, rejects=rejects, pos=pp, today_closable=tcl, dt=snap['cal']))
                    if len(created) <= 1 and len(validator_reject) <= 1 and (created or validator_reject) and not (created and validator_reject):
                        validation_case(cx, snap, acc, oid, ins, created[0] if created else None, validator_reject, m0, is_limit, price, act, op, None, quantity,
                                        fut_eff=eff, fut_side=side)
                    # legs order monitor
                    effs = [o['eff'] for o in created]
                    if effs != sorted(effs, key=lambda e: {'CLOSE': 0, 'CLOSE_TODAY': 1, 'OPEN': 2}[e]):
                        cx.hit('C15.leg_order', dict(op=op), dict(act=act, created=created))
        except Skip:
            cx.skipped += 1
    # futures order / order_to
    for i0, i1 in steps.api_spans(trace):
        m0, m1 = trace[i0], trace[i1]
        act = m0['act']
        if act['op'] not in ('order', 'order_to') or act.get('id') not in cx.w.instruments or cx.ins(act['id'])['kind'] != 'Future' or 'acc' not in m0['snap']:
            continue
        if m1.get('exc') or m0['ph'] in ('init', 'before_trading', 'after_trading') or 'FUTURE' not in m0['snap']['acc']:
            continue
        inner = [(a, b, n) for a, b, n in spans if i0 < a < i1]
        rejects = [trace[a]['payload'].get('reason') or '' for a, b, n in inner if n == 'ORDER_CREATION_REJECT']
        created = [trace[b]['payload']['order'] for a, b, n in inner if n == 'ORDER_PENDING_NEW']
        lp = m0['snap']['acc']['FUTURE']['pos'].get(act['id'], {})
        pl, ps = lp.get('LONG') or dict(qty=0.0, old=0.0), lp.get('SHORT') or dict(qty=0.0, old=0.0)
        try:
            term = 'intents_eq (legs_of (future_order_requests %s %s %s %s %s %s %s %s)) [%s]' % (
                q(float(act['amt'])), blit(act['op'] == 'order_to'), q(pl['qty']), q(ps['qty']), q(pl['old']), q(pl['qty'] - pl['old']), q(ps['old']), q(ps['qty'] - ps['old']),
                '; '.join('Intent %s %s %s' % ('Buy' if o['side'] == 'BUY' else 'Sell', {'OPEN': 'Open', 'CLOSE': 'Close', 'CLOSE_TODAY': 'CloseToday'}[o['eff']], q(o['qty'])) for o in created))
            if not rejects:
                cx.case('sizing.future_order', term, dict(act=act, created=created, long=pl, short=ps, dt=m0['snap']['cal']))
        except Skip:
            cx.skipped += 1
        effs = [o['eff'] for o in created]
        if effs != sorted(effs, key=lambda e: {'CLOSE': 0, 'CLOSE_TODAY': 1, 'OPEN': 2}[e]):
            cx.hit('C15.leg_order', dict(op=act['op']), dict(act=act, created=created))
        if not rejects and created:
            net = (pl['qty'] - ps['qty'])
            want = act['amt'] - net if act['op'] == 'order_to' else act['amt']
            tot = sum(o['qty'] for o in created)
            if not close(tot, abs(int(want)), 1e-9):
                cx.hit('C15.leg_total', dict(op=act['op']), dict(act=act, created=created, want=want))
        cx.keys.add(repr(('FO', act['op'], tuple(effs), len(rejects))))
    cx.stats['skipped_nan'] = cx.skipped
    return cx


def validation_case(cx, snap, acc, oid, ins, order, validator_reject, m0, is_limit, price, act, op, closable, quantity, fut_eff=None, fut_side=None):
    """the validators' verdict on the order that reached them (model vs observed) + the oracle from the property text"""
    fut = ins['kind'] == 'Future'
    risk = cx.cfg['mod']['sys_risk']
    sa = cx.cfg['mod']['sys_accounts']
    a_priv, a_pub = snap['acc'][acc], snap['pub'][acc]
    if order is not None:
        side, eff, qty = order['side'], order['eff'], order['qty']
    else:
        # rejected by a validator: reconstruct what reached it where that is unambiguous
        if fut:
            side = 'BUY' if fut_side == 'Buy' else 'SELL'
            eff = {'Open': 'OPEN', 'Close': 'CLOSE', 'CloseToday': 'CLOSE_TODAY'}[fut_eff]
            qty = float(int(act['amt']))
            if eff == 'CLOSE':
                # a close larger than yesterday's quantity is split; with nothing from yesterday the only leg is CLOSE_TODAY
                dn = 'LONG' if side == 'SELL' else 'SHORT'
                pp = a_priv['pos'].get(oid, {}).get(dn)
                old = pp['old'] if pp else 0.0
                if qty > old:
                    if old == 0:
                        eff = 'CLOSE_TODAY'
                    else:
                        return
        elif op == 'submit_order':
            side, eff, qty = act['side'], ('OPEN' if act['side'] == 'BUY' else 'CLOSE'), float(int(act['amt']))
        elif op in ('order_shares', 'order', 'order_lots') and not cx.cfg['mod']['sys_accounts'].get('auto_switch_order_value'):
            amt = act['amt'] * (ins['lot'] if op == 'order_lots' else 1)
            side, eff = ('BUY', 'OPEN') if amt > 0 else ('SELL', 'CLOSE')
            lot = ins['lot']
            if (side == 'BUY' and quantity != -amt) or (side == 'SELL' and quantity != abs(amt)):
                if ins['board'] == 'KSH':
                    amt = 0 if abs(amt) < 200 else int(amt)
                else:
                    amt = int(amt / lot) * lot
            qty = float(abs(amt))
        else:
            return
    dname = 'LONG' if ((side == 'BUY') == (eff == 'OPEN')) else 'SHORT'
    p = a_priv['pos'].get(oid, {}).get(dname)
    oo = open_orders_of(snap)
    closing = [o for o in oo if o['oid'] == oid and o['eff'] in ('CLOSE', 'CLOSE_TODAY') and ((o['side'] == 'SELL') == (dname == 'LONG')) and o['status'] in ('ACTIVE', 'PENDING_NEW')]
    bar, daybar = bars_at(cx, oid, snap)
    pb = daybar if snap.get('phase') == 'OPEN_AUCTION' else bar
    d = dint_of(snap['trd'])
    listed = W.dint(ins['listed']) <= d
    if ins['delisted'] is not None:
        dl = W.dint(ins['delisted'])
        listed = listed and (d <= dl if fut else d < dl)
    suspended = d in cx.w.suspended.get(oid, [])
    opposite = [(o['fprice'] if o['type'] == 'LIMIT' else 0.0) for o in oo if o['oid'] == oid and o['side'] != side and o['status'] in ('ACTIVE', 'PENDING_NEW')]
    g = '{| v_position := %s; v_price := %s; v_trading := %s; v_cash := %s; v_self := %s |}' % (
        blit(sa.get('validate_future_position' if fut else 'validate_stock_position', True)), blit(risk.get('validate_price', True)),
        blit(risk.get('validate_is_trading', True)), blit(risk.get('validate_cash', True)), blit(risk.get('validate_self_trade', False)))
    cg = '{| cc_stock := %s; cc_t1 := %s; cc_tplus := %s |}' % (blit(not fut), blit(cx.t1), blit(ins['tplus'] >= 1))
    book = '[%s]' % '; '.join('{| co_id := %d; co_today := %s; co_unfilled := %s |}' % (k, blit(o['eff'] == 'CLOSE_TODAY'), q(o['qty'] - o['filled'])) for k, o in enumerate(closing))
    cs = '{| cs_qty := %s; cs_old := %s; cs_nc := %s; cs_book := %s |}' % (q(p['qty'] if p else 0.0), q(p['old'] if p else 0.0), q((p.get('non_closable') or 0.0) if p else 0.0), book)
    fp = price
    if fut:
        cost = '(qadd (qmul (qmul (qmul %s %s) %s) %s) (fut_order_cost %s %s %s %s %s))' % (q(fp), q(qty), q(ins['mult']), q(cx.margin_rate(oid)), cx.fcost_lit(oid),
                                                                                       blit(eff == 'OPEN'), blit(eff == 'CLOSE_TODAY'), q(fp), q(qty))
    else:
        cost = '(qadd (qmul %s %s) (order_cost %s %s %s %s %s))' % (q(fp), q(qty), cx.scost_lit(snap.get('tax_rate')), blit(ins['kind'] == 'CS'), blit(side == 'SELL'), q(fp), q(qty))

    def oq(x):
        return 'None' if (x is None or x != x) else '(Some %s)' % q(x)
    x = ('{| vx_closable := (%s, %s); vx_limit_up := %s; vx_limit_down := %s; vx_is_index := false; vx_is_cs := %s; vx_listed := %s; vx_suspended := %s; '
         'vx_cash := %s; vx_cost := %s; vx_opposite := [%s] |}') % (cg, cs, oq(round(pb['limit_up'], 4) if pb else None), oq(round(pb['limit_down'], 4) if pb else None), blit(ins['kind'] == 'CS'),
                                                                   blit(listed), blit(suspended), q(a_pub['cash']), cost, '; '.join(q(v) for v in opposite))
    o_l = '{| vo_side := %s; vo_effect := %s; vo_limit := %s; vo_price := %s; vo_qty := %s |}' % (
        'Buy' if side == 'BUY' else 'Sell', {'OPEN': 'Open', 'CLOSE': 'Close', 'CLOSE_TODAY': 'CloseToday'}[eff], blit(is_limit), q(price if is_limit else 0.0), q(qty))
    observed = reason_class(validator_reject[0]) if validator_reject else None
    cx.case('validate.verdict', 'chk_validate %s %s %s %s' % (g, x, o_l, ('(Some %s)' % observed) if observed else 'None'),
            dict(act=act, order=order, reject=validator_reject[:1], listed=listed, suspended=suspended, cash=a_pub['cash'], closing=closing, dt=snap['cal'], phase=snap.get('phase')))
    cx.keys.add(repr(('V', observed, ins['kind'], eff, is_limit, listed, suspended)))
    # ---- the oracle from the property text: rejected iff not listed / delisted / suspended / limit outside the band / cash / closable
    want = []
    if sa.get('validate_future_position' if fut else 'validate_stock_position', True) and eff != 'OPEN':
        cl = (p['qty'] if p else 0.0) - sum(o['qty'] - o['filled'] for o in closing) - (((p.get('non_closable') or 0.0) if (p and not fut and cx.t1) else 0.0))
        tcl = ((p['qty'] - p['old']) if p else 0.0) - sum(o['qty'] - o['filled'] for o in closing if o['eff'] == 'CLOSE_TODAY')
        if eff == 'CLOSE_TODAY' and qty > min(tcl, cl) + 1e-9:
            want.append('position')
        if eff == 'CLOSE' and qty > cl + 1e-9:
            want.append('position')
    if risk.get('validate_price', True) and is_limit and pb:
        if pb['limit_up'] == pb['limit_up'] and price > round(pb['limit_up'], 4):
            want.append('price')
        elif pb['limit_down'] == pb['limit_down'] and price < round(pb['limit_down'], 4):
            want.append('price')
    if risk.get('validate_is_trading', True) and (not listed or (ins['kind'] == 'CS' and suspended)):
        want.append('trading')
    rejected = bool(validator_reject)
    cash_amb = False
    if risk.get('validate_cash', True) and eff == 'OPEN':
        if fut:
            info = cx.finfo[ins['und']]
            bm = info['commission_type'] == 'by_money'
            fee = (fp * qty * ins['mult'] * info['open_commission_ratio'] if bm else qty * info['open_commission_ratio']) * cx.fmult
            c = fp * qty * ins['mult'] * cx.margin_rate(oid) + fee
        else:
            c = fp * qty + max(fp * qty * 0.0008 * cx.smult, cx.minc)
        if c > a_pub['cash'] + 1e-6 * max(1.0, abs(c)):
            want.append('cash')
        elif abs(c - a_pub['cash']) <= 1e-6 * max(1.0, abs(c)):
            cash_amb = True
    if risk.get('validate_self_trade', False) and opposite:
        return      # self-trade vetoes are compared through the model only
    if not cash_amb and rejected != bool(want):
        cx.hit('C16.verdict', dict(rejected=rejected, should=','.join(want) or 'accept', kind=ins['kind'], eff=eff), dict(act=act, order=order, reject=validator_reject[:1], dt=snap['cal'], cash=a_pub['cash']))
