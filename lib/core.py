# -*- coding: utf-8 -*-
"""Common machinery of every check: translate -> build proofs -> run real scenarios -> compare -> verdict."""
import fcntl
import glob
import hashlib
import importlib
import json
import multiprocessing
import os
import re
import subprocess
import sys
import time
import traceback

VERIF = os.path.dirname(os.path.dirname(os.path.abspath(__file__)))
REPO = os.environ.get('VERIF_REPO', '/repo')
COQ = os.path.join(VERIF, 'coq')
FORBIDDEN = re.compile(r'\b(Admitted|admit|Axiom|Parameter|Conjecture|Unset Guard|bypass_check|type-in-type|impredicative-set)\b')
ALLOWED_AXIOMS = ()     # no axioms at all are expected; anything printed by Print Assumptions is reported

TRUSTED_BASE = [
    'Coq 8.16.1 kernel incl. vm_compute (no native_compute)',
    'Print Assumptions of every property theorem: Closed under the global context (no axioms)',
    'hand-written Gallina model of the anchored Python methods (coq/Model/*.v); float64 rounding not modelled (exact Q), tolerance 1e-9 in the correspondence',
    'Python-ast translator /verif/translate (regenerates coq/Gen/*.v from /repo on every run; Gen = Model lemmas re-proved)',
    'correspondence harness /verif/harness (recorder reads private state of the running implementation; cases evaluated by coqc with vm_compute)',
    'property monitors /verif/monitors (search for the failing input only, never decide that a property holds)',
]


def sh(cmd, timeout=None, cwd=None, env=None):
    p = subprocess.run(cmd, shell=isinstance(cmd, str), cwd=cwd, env=env, stdout=subprocess.PIPE, stderr=subprocess.STDOUT,
                       timeout=timeout, universal_newlines=True)
    return p.returncode, p.stdout


# ------------------------------------------------------------------------------------------------
# Tie A: translators
# ------------------------------------------------------------------------------------------------
def translate_all():
    """Regenerate every coq/Gen/*.v from REPO.  Returns {module: {'ok':bool, 'err':str, 'lemmas':[..]}}."""
    sys.path.insert(0, VERIF)
    from translate import pyq
    out = {}
    reg = importlib.import_module('translate.registry')
    for name, modname in reg.MODULES.items():
        path = os.path.join(COQ, 'Gen', name + '.v')
        try:
            mod = importlib.import_module('translate.' + modname)
            text, lemmas = mod.generate(REPO)
            pyq.write_if_changed(path, text)
            out[name] = dict(ok=True, err=None, lemmas=lemmas)
        except Exception as e:     # fail closed: the Gen file is replaced by one that does not compile
            msg = '%s: %s' % (type(e).__name__, e)
            pyq.write_if_changed(path, '(* translation failed: %s *)\nTRANSLATION_FAILED.\n' % msg.replace('*)', '* )'))
            out[name] = dict(ok=False, err=msg, lemmas=[])
    return out


# ------------------------------------------------------------------------------------------------
# proofs
# ------------------------------------------------------------------------------------------------
def coq_files():
    files = []
    for line in open(os.path.join(COQ, '_CoqProject')):
        line = line.strip()
        if line.endswith('.v'):
            files.append(line)
    return files


def scan_forbidden():
    bad = []
    for f in coq_files():
        txt = open(os.path.join(COQ, f)).read()
        txt = re.sub(r'\(\*.*?\*\)', '', txt, flags=re.S)
        for m in FORBIDDEN.finditer(txt):
            bad.append('%s: %s' % (f, m.group(0)))
    return bad


def build_coq(timeout=1500):
    """Full .vo build (make -k) under a lock.  Returns (ok_files, failed {file: message}, log)."""
    lock = open(os.path.join(COQ, '.build.lock'), 'w')
    fcntl.flock(lock, fcntl.LOCK_EX)
    try:
        if not os.path.exists(os.path.join(COQ, 'Makefile')) or \
                os.path.getmtime(os.path.join(COQ, 'Makefile')) < os.path.getmtime(os.path.join(COQ, '_CoqProject')):
            sh('coq_makefile -f _CoqProject -o Makefile', cwd=COQ, timeout=120)
        rc, log = sh('timeout %d make -k -j%d 2>&1' % (timeout, min(16, os.cpu_count() or 4)), cwd=COQ, timeout=timeout + 60)
    finally:
        fcntl.flock(lock, fcntl.LOCK_UN)
        lock.close()
    failed = {}
    for m in re.finditer(r'File "\./([^"]+)", line (\d+), characters [\d-]+:\n((?:.*\n){1,12}?)(?=\n|make|File|COQC|$)', log):
        if 'Error' in m.group(3) and m.group(1) not in failed:
            failed[m.group(1)] = 'line %s: %s' % (m.group(2), ' '.join(m.group(3).split())[:400])
    ok = []
    for f in coq_files():
        vo = os.path.join(COQ, f[:-2] + '.vo')
        v = os.path.join(COQ, f)
        if os.path.exists(vo) and os.path.getmtime(vo) >= os.path.getmtime(v) and f not in failed:
            ok.append(f)
        elif f not in failed:
            failed[f] = 'not built (a dependency failed)'
    return ok, failed, log


def theorems_of(prop):
    """Names of the Theorems stated in Properties/<prop>.v"""
    path = os.path.join(COQ, 'Properties', prop + '.v')
    if not os.path.exists(path):
        return []
    return re.findall(r'^\s*Theorem\s+(\w+)', open(path).read(), flags=re.M)


def assumptions_of(prop):
    """Re-run coqc on the property file to capture Print Assumptions output.  Returns (ok, {thm: text})"""
    rc, out = sh('timeout 600 coqc -Q . RQ -w -notation-overridden,-deprecated-hint-without-locality,-deprecated-instance-without-locality Properties/%s.v' % prop, cwd=COQ, timeout=700)
    res = {}
    if rc != 0:
        return False, {'_error': out[-600:]}
    # coqc prints one block per Print Assumptions, in order
    names = re.findall(r'Print Assumptions\s+(\w+)', open(os.path.join(COQ, 'Properties', prop + '.v')).read())
    blocks = re.split(r'(?=Closed under the global context|Axioms:)', out)
    blocks = [b.strip() for b in blocks if b.strip().startswith(('Closed', 'Axioms'))]
    for n, b in zip(names, blocks):
        res[n] = b
    ok = len(blocks) == len(names) and all(b.startswith('Closed under the global context') for b in blocks)
    return ok, res


# ------------------------------------------------------------------------------------------------
# Tie B: evaluate cases inside Coq
# ------------------------------------------------------------------------------------------------
def qlit(x):
    """exact Gallina literal of a Python float / int / Fraction"""
    from fractions import Fraction
    if isinstance(x, bool):
        return 'true' if x else 'false'
    fr = Fraction(x)
    n, d = fr.numerator, fr.denominator
    if n < 0:
        return '((-%d) # %d)' % (-n, d)
    return '(%d # %d)' % (n, d)


def zlit(n):
    n = int(n)
    return '(%d)%%Z' % n if n >= 0 else '(-%d)%%Z' % (-n)


def blit(b):
    return 'true' if b else 'false'


def olit(x, f=qlit):
    return '(Some %s)' % f(x) if x is not None else 'None'


def eval_cases(tag, prelude, cases, shard=400, timeout=900):
    """cases: list of Gallina boolean terms.  Returns (failing indices, error text or None)."""
    if not cases:
        return [], None
    d = os.path.join(COQ, 'cases')
    os.makedirs(d, exist_ok=True)
    for old in glob.glob(os.path.join(d, tag + '_*')):
        os.remove(old)
    files = []
    for k in range(0, len(cases), shard):
        name = '%s_%d' % (tag, k // shard)
        with open(os.path.join(d, name + '.v'), 'w') as f:
            f.write(prelude + '\n')
            f.write('Definition cases : list bool := [\n%s\n].\n' % ';\n'.join(cases[k:k + shard]))
            f.write('Eval vm_compute in (failing cases).\n')
        files.append((name, k))
    procs = []
    maxpar = min(8, os.cpu_count() or 4)
    failing = []
    err = None
    pending = list(files)
    running = []
    while pending or running:
        while pending and len(running) < maxpar:
            name, k = pending.pop(0)
            p = subprocess.Popen('ulimit -s unlimited 2>/dev/null; timeout %d coqc -Q .. RQ -w -notation-overridden %s.v' % (timeout, name), shell=True, cwd=d,
                                 stdout=subprocess.PIPE, stderr=subprocess.STDOUT, universal_newlines=True)
            running.append((p, name, k))
        p, name, k = running.pop(0)
        out, _ = p.communicate()
        if p.returncode != 0:
            err = (err or '') + '%s: rc=%d %s\n' % (name, p.returncode, out[-800:])
            continue
        m = re.search(r'=\s*\[(.*?)\]\s*:\s*list nat', out, flags=re.S)
        if not m:
            err = (err or '') + '%s: unparsable output %s\n' % (name, out[-300:])
            continue
        failing.extend(k + int(x) for x in re.findall(r'\d+', m.group(1).replace('%nat', '')))
    bad_shards = set(i // shard for i in failing)
    for name, k in files:
        exts = ['.vo', '.vok', '.vos', '.glob', '.aux']
        if (k // shard) not in bad_shards and not (err and name + ':' in err):
            exts.append('.v')          # only shards with a disagreement (or an evaluation error) are kept on disk
        for ext in exts:
            try:
                os.remove(os.path.join(d, ('.' if ext == '.aux' else '') + name + ext))
            except OSError:
                pass
    return sorted(failing), err


# ------------------------------------------------------------------------------------------------
# running work items in fresh processes
# ------------------------------------------------------------------------------------------------
def _run_item(args):
    modname, item = args
    try:
        sys.path.insert(0, VERIF)
        mod = importlib.import_module(modname)
        return mod.work(item)
    except BaseException as e:
        return dict(error='%s: %s\n%s' % (type(e).__name__, e, traceback.format_exc()[-1500:]), item=item)


def run_items(modname, items, procs=None):
    procs = procs or min(16, os.cpu_count() or 4)
    if len(items) <= 1 or procs == 1:
        # still in a child process so that rqalpha's process-wide state never leaks into the checker
        pass
    ctx = multiprocessing.get_context('fork')
    with ctx.Pool(processes=min(procs, max(1, len(items))), maxtasksperchild=1) as pool:
        return pool.map(_run_item, [(modname, it) for it in items], chunksize=1)


# ------------------------------------------------------------------------------------------------
# findings, replays, evidence
# ------------------------------------------------------------------------------------------------
def load_known():
    p = os.path.join(VERIF, 'known_findings.json')
    if not os.path.exists(p):
        return dict(findings=[], fixed=[])
    return json.load(open(p))


def match_known(prop, hit, known):
    for k in known.get('findings', []):
        if k['property'] != prop:
            continue
        if k['clause'] == hit.get('clause') and all(hit.get('sig', {}).get(a) == b for a, b in k.get('sig', {}).items()):
            return k
    return None


def write_replay(prop, payload):
    d = os.path.join(VERIF, 'replays')
    os.makedirs(d, exist_ok=True)
    blob = json.dumps(payload, sort_keys=True, default=str)
    h = hashlib.sha1(blob.encode()).hexdigest()[:10]
    path = os.path.join(d, '%s-%s.json' % (prop, h))
    with open(path, 'w') as f:
        json.dump(payload, f, indent=1, sort_keys=True, default=str)
    return path


def write_evidence(prop, ev):
    d = os.path.join(VERIF, 'evidence')
    os.makedirs(d, exist_ok=True)
    with open(os.path.join(d, prop + '.json'), 'w') as f:
        json.dump(ev, f, indent=1, sort_keys=True, default=str)
