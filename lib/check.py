# -*- coding: utf-8 -*-
"""Generic check driver.  A property module (checks/Cxx.py) provides:

  PROP, GEN (Gen modules it relies on), COQ (files of _CoqProject that are its obligations)
  PRELUDE            Coq text put at the top of every generated cases file
  plan(tier, seed)   -> list of work items (JSON-able dicts)
  work(item)         -> dict(cases=[(gallina_bool_term, meta)], hits=[hit], stats={..}, samples=[..], n=int, nontrivial=[keys])
  replay(payload)    -> list of hits (re-runs one stored scenario against the current tree)
  RULE, ASSUMPTIONS, CLAUSES (monitor clauses -> text)

A hit is dict(clause=..., sig={...}, detail=..., scn=<scenario or input>, where=...).
"""
import argparse
import importlib
import json
import os
import sys
import time

from . import core
from . import shrink


def run(prop, tier, seed, replay=None):
    t0 = time.time()
    sys.path.insert(0, core.VERIF)
    mod = importlib.import_module('checks.' + prop)
    known = core.load_known()

    if replay:
        payload = json.load(open(replay))
        hits = mod.replay(payload)
        print(json.dumps(dict(replay=replay, hits=hits), indent=1, default=str)[:6000])
        for h in hits:
            if not core.match_known(prop, h, known):
                print('VIOLATION property=%s replay=%s' % (prop, replay))
                return 1
        print('replay: property held on this input' if not hits else 'replay: only known findings')
        return 0

    # ---- Tie A + proofs ------------------------------------------------------------------------
    tr = core.translate_all()
    ok_files, failed, log = core.build_coq()
    forb = core.scan_forbidden()
    thms = core.theorems_of(prop)
    obligations = []
    broken = []
    for t in thms:
        obligations.append('theorem %s' % t)
    for g in mod.GEN:
        for l in tr.get(g, {}).get('lemmas', []):
            obligations.append('tie-A lemma Gen.%s.%s' % (g, l))
        if not tr.get(g, {}).get('ok'):
            obligations.append('tie-A translation of Gen/%s.v' % g)
            broken.append(dict(kind='translator', what='Gen/%s.v' % g, msg=tr.get(g, {}).get('err')))
    for f in mod.COQ:
        if f in failed:
            broken.append(dict(kind='proof', what=f, msg=failed[f]))
    pf = 'Properties/%s.v' % prop
    ass_ok, ass = (False, {})
    if pf not in failed:
        ass_ok, ass = core.assumptions_of(prop)
        if not ass_ok:
            broken.append(dict(kind='assumptions', what=pf, msg=json.dumps(ass)[:500]))
    if forb:
        broken.append(dict(kind='forbidden', what='source scan', msg='; '.join(forb)[:400]))
    n_broken_obl = 0
    for b in broken:
        if b['kind'] == 'proof' and b['what'] == pf:
            n_broken_obl += len(thms)
        elif b['kind'] == 'proof' and b['what'].startswith('Gen/'):
            g = b['what'][4:-2]
            n_broken_obl += max(1, len(tr.get(g, {}).get('lemmas', [])))
        else:
            n_broken_obl += 1
    discharged = max(0, len(obligations) - n_broken_obl)

    # ---- Tie B + C: scenarios through the implementation ----------------------------------------
    items = mod.plan(tier, seed)
    results = core.run_items('checks.' + prop, items)
    cases, hits, samples, errors = [], [], [], []
    stats = {}
    n_eval = 0
    nontrivial = set()
    for r in results:
        if r.get('error'):
            errors.append(r['error'])
            continue
        cases.extend(r.get('cases', []))
        hits.extend(r.get('hits', []))
        for k, v in r.get('stats', {}).items():
            stats[k] = stats.get(k, 0) + v
        if len(samples) < 4:
            samples.extend(r.get('samples', [])[:2])
        n_eval += r.get('n', 0)
        nontrivial.update(r.get('nontrivial', []))
    disagreements = []
    corr_err = None
    if pf in failed or any(f in failed for f in mod.COQ if f.startswith('Model/')):
        corr_err = 'model does not build; correspondence not evaluated'
    else:
        failing, corr_err = core.eval_cases(prop, mod.PRELUDE, [c[0] for c in cases])
        for i in failing:
            disagreements.append(dict(case=cases[i][0][:1500], meta=cases[i][1]))
    if errors:
        broken.append(dict(kind='harness', what='work item failed', msg=errors[0][:1500]))
    if corr_err:
        broken.append(dict(kind='correspondence', what='case evaluation', msg=corr_err[:800]))
    for dgr in disagreements[:50]:
        broken.append(dict(kind='correspondence', what=dgr['meta'].get('component', 'step'), msg=json.dumps(dgr['meta'], default=str)[:5000], case=dgr['case']))

    # ---- verdict ---------------------------------------------------------------------------------
    rc = 0
    known_lines = []
    new_hits = []
    for h in hits:
        k = core.match_known(prop, h, known)
        if k:
            if k['id'] not in [x['id'] for x in known_lines]:
                known_lines.append(k)
        else:
            new_hits.append(h)
    out_lines = []
    for k in known_lines:
        out_lines.append('KNOWN-FINDING: property=%s %s' % (prop, k['what']))
    violations = 0
    replay_paths = []
    if new_hits:
        # one replay per distinct (clause, sig)
        seen = set()
        for h in new_hits:
            key = json.dumps([h.get('clause'), h.get('sig')], sort_keys=True, default=str)
            if key in seen:
                continue
            seen.add(key)
            if len(seen) > 3:
                break
            try:
                h = shrink.shrink(mod, h, budget_s=40 if tier == "quick" else 240)
            except Exception as e:
                h['shrink_error'] = repr(e)
            path = core.write_replay(prop, dict(property=prop, hit=h, broken=broken[:10], tier=tier, seed=seed))
            replay_paths.append(path)
            out_lines.append('VIOLATION property=%s replay=%s' % (prop, path))
            violations += 1
        rc = 1
    elif broken:
        # a proof obligation or the correspondence no longer checks and the search found no failing input
        search_hits = []
        # the search for a concrete failing input: the module's targeted plan if it has one, else a second stream of scenarios (other seed)
        splan = mod.plan_search(tier, seed, broken) if hasattr(mod, 'plan_search') else mod.plan(tier, seed + 7919)
        sres = core.run_items('checks.' + prop, splan)
        for r in sres:
            search_hits.extend(h for h in r.get('hits', []) if not core.match_known(prop, h, known))
        if search_hits:
            h = search_hits[0]
            try:
                h = shrink.shrink(mod, h, budget_s=60)
            except Exception as e:
                h['shrink_error'] = repr(e)
            path = core.write_replay(prop, dict(property=prop, hit=h, broken=broken[:10], tier=tier, seed=seed))
            out_lines.append('VIOLATION property=%s replay=%s' % (prop, path))
        else:
            path = core.write_replay(prop, dict(property=prop, hit=None, no_failing_input_found=True,
                                                broken=broken[:20], tier=tier, seed=seed,
                                                note='the named theorem / tie-A lemma / correspondence component no longer checks on this tree; '
                                                     'the monitors found no input on which the property itself fails'))
            out_lines.append('VIOLATION property=%s replay=%s no-failing-input-found' % (prop, path))
        replay_paths.append(path)
        violations += 1
        rc = 1

    ev = dict(
        property_id=prop, tier=tier, seed=seed, level='proof', wall_s=round(time.time() - t0, 2), violations=violations,
        coverage=dict(
            obligations=max(1, len(obligations)), discharged=discharged,
            checker_cmd='cd /verif/coq && make (coqc 8.16.1, full .vo build) ; coqc Properties/%s.v (Print Assumptions)' % prop,
            trusted_base=core.TRUSTED_BASE + list(getattr(mod, 'TRUSTED', [])),
            obligation_list=obligations, broken=broken[:20], print_assumptions=ass,
            evaluations=n_eval, distinct_nontrivial=len(nontrivial), rule=mod.RULE,
            samples=samples[:6] or [dict(note='no scenario produced a sample')],
            traces_validated_against_impl=stats.get('runs', 0),
            correspondence_cases=len(cases), correspondence_disagreements=len(disagreements),
            monitor_hits=len(hits), monitor_hits_known=len(hits) - len(new_hits),
            input_distribution={k: v for k, v in sorted(stats.items())},
            replays=replay_paths,
        ),
        assumptions=list(getattr(mod, 'ASSUMPTIONS', [])),
    )
    core.write_evidence(prop, ev)
    for l in out_lines:
        print(l)
    print('%s tier=%s seed=%d: obligations %d/%d, cases %d (disagreements %d), runs %d, monitor hits %d (known %d), %.1fs'
          % (prop, tier, seed, discharged, len(obligations), len(cases), len(disagreements), stats.get('runs', 0),
             len(hits), len(hits) - len(new_hits), time.time() - t0))
    if broken:
        for b in broken[:6]:
            print('  broken: %s %s :: %s' % (b['kind'], b['what'], (b['msg'] or '')[:300]))
    return rc


def main():
    ap = argparse.ArgumentParser()
    ap.add_argument('prop')
    ap.add_argument('--tier', default=os.environ.get('VERIF_TIER', 'quick'))
    ap.add_argument('--replay')
    a = ap.parse_args()
    seed = int(os.environ.get('VERIF_SEED', '0') or 0)
    sys.exit(run(a.prop, a.tier, seed, a.replay))
