# -*- coding: utf-8 -*-
"""Greedy shrinking of a failing scenario: drop script slots, then single actions, then trailing days."""
import copy
import time

from . import core


def _still(mod, hit, scn):
    res = core.run_items(mod.__name__, [dict(kind='replay', scn=scn)], procs=1)
    for r in res:
        for h in r.get('hits', []):
            if h.get('clause') == hit.get('clause'):
                return h
    return None


def shrink(mod, hit, budget_s=60):
    scn = hit.get('scn')
    if not isinstance(scn, dict) or 'script' not in scn:
        return hit
    deadline = time.time() + budget_s
    best = copy.deepcopy(scn)
    best_hit = hit
    # 1. drop whole script slots, latest first
    for key in sorted(best['script'].keys(), reverse=True):
        if time.time() > deadline:
            break
        trial = copy.deepcopy(best)
        del trial['script'][key]
        h = _still(mod, hit, trial)
        if h:
            best, best_hit = trial, h
    # 2. drop single actions
    for key in sorted(best['script'].keys(), reverse=True):
        acts = best['script'][key]
        i = len(acts) - 1
        while i >= 0 and len(best['script'].get(key, [])) > 1:
            if time.time() > deadline:
                break
            trial = copy.deepcopy(best)
            del trial['script'][key][i]
            h = _still(mod, hit, trial)
            if h:
                best, best_hit = trial, h
            i -= 1
    # 3. cut trailing days
    while best['end_i'] > best['start_i'] and time.time() < deadline:
        trial = copy.deepcopy(best)
        trial['end_i'] -= 1
        h = _still(mod, hit, trial)
        if not h:
            break
        best, best_hit = trial, h
    out = dict(best_hit)
    out['scn'] = best
    out['shrunk_from_actions'] = sum(len(v) for v in scn['script'].values())
    out['shrunk_to_actions'] = sum(len(v) for v in best['script'].values())
    return out
