# -*- coding: utf-8 -*-
"""Writes MANIFEST.json from the table below (kept in one place so that it is always schema-valid)."""
import json
import os

VERIF = os.path.dirname(os.path.dirname(os.path.abspath(__file__)))

LEVEL_NOTE = ('Trusted: Coq 8.16.1 kernel + vm_compute; no axioms (Print Assumptions closed, re-checked on every run); the hand-written '
              'Gallina model of the anchored methods with float64 rounding not modelled (exact rationals, 1e-9 tolerance in the '
              'correspondence); the Python-ast translator for the Gen/*.v files; the harness/recorder; the monitors only search.')

CLAIMED = {
    'C11': dict(
        text=('Theorems over the Gallina model of deciders.py (split-independence of the per-order commission for every list of fills, '
              'stamp-tax rule and point-in-time rate, futures schedules with the close-today split, non-negativity, the schedule lookup of a contract - bundle entry of the contract else of the underlying, overridden by the configured entry - with frame lemmas), all closed under the '
              'global context; the model is tied to /repo on every run by (A) regenerating Gen/Costs.v from deciders.py with a fail-closed '
              'ast translator and re-proving Gen = Model, and (B) replaying every recorded trade of real back-tests (daily and minute bars) '
              'through the model inside coqc; property monitors over the same runs produce the replay when either breaks.'),
        technique='Coq proof (induction over fills) + regenerated-model equality lemmas + step-wise model/implementation correspondence',
        design='DESIGN.md §5 C11'),
}

ACC = ('the account / position kernel is modelled method by method in Gallina (Model/Position.v, Account.v, AccountRun.v); theorems are closed under the '
       'global context; the model is tied to /repo on every run by replaying every recorded step of real back-tests (snapshots of the private '
       'state before and after each bus event / API call) through the model inside coqc; property monitors over the same runs give the replay.')
CLAIMED.update({
    'C01': dict(text='Cash-ledger theorem over every list of kernel events (induction), per-event total-value lemmas (value moves only by price, flows, fees); ' + ACC,
                technique='Coq proof (invariant by induction over event lists) + step-wise correspondence', design='DESIGN.md §5 C01'),
    'C02': dict(text='Theorems for realised P&L of closes, margin formula, available cash, settlement neutrality and rebasing, expiry, forced liquidation; ' + ACC,
                technique='Coq proof (algebraic lemmas per handler, ledger by induction) + step-wise correspondence', design='DESIGN.md §5 C02'),
    'C03': dict(text='Theorems: nav x units = value, flow neutrality of deposits (immediate and pending), latch, compounding by telescoping, daily P&L = change of value '
                     'for every day of trades and marks of an entry (partial: corporate-action days are C12); ' + ACC,
                technique='Coq proof (algebra + induction over a day\'s events) + step-wise correspondence', design='DESIGN.md §5 C03'),
    'C09': dict(text='Invariant: reserved cash = sum over open orders of the unfilled fraction of the initial reserve, for every protocol-conforming interleaving '
                     '(induction over order events), non-negativity, zero with no open order, no-overdraft step lemma; the protocol hypothesis is discharged by composition with the '
                     'per-order lifecycle machines of C04 for every interleaving of any number of orders (coupling invariant, frame lemmas: Proofs/ComposeManyFacts.v); ' + ACC,
                technique='Coq proof (invariant by induction over order events, composition with the order lifecycle machines by a coupling invariant) + regenerated-model equality lemmas + step-wise correspondence', design='DESIGN.md §5 C09'),
    'C10': dict(text='Invariant over the position x resting-closes machine with the validator: quantities, closable and today-closable stay non-negative for every '
                     'sequence of opens, validated closes, fills, drops and day roll-overs; T+1, old-first, reject no-op corollaries; ' + ACC,
                technique='Coq proof (invariant by induction) + step-wise correspondence', design='DESIGN.md §5 C10'),
    'C12': dict(text='Value-neutrality theorems for book closure, payable date, integral splits, delisting payout, conversion and expiry, and for the pre-open purge of emptied holdings (nothing with equity or a receivable is dropped); fractional splits and '
                     'overlapping dividends are refuted by witnesses and recorded as known findings; ' + ACC,
                technique='Coq proof (algebraic lemmas, refutation witnesses by vm_compute) + step-wise correspondence', design='DESIGN.md §5 C12'),
})

MAT = ('DefaultBarMatcher.match, the deal-price deciders and the three slippage models are modelled in Model/Matcher.v, the per-order life inside '
       'SimulationBroker in Model/Order.v; theorems closed under the global context; every recorded matcher call (harness proxy around '
       'matcher.match) and every order\'s whole event stream of real back-tests is replayed through the model inside coqc; monitors written from the '
       'property text give the replay.')
CLAIMED.update({
    'C04': dict(text='Per-order lifecycle machine: for every input sequence the events follow the protocol automaton, statuses move along legal edges, fill '
                     'bookkeeping equals the announced trades, finals are absorbing, nothing stays in the open list after the close (induction over inputs); ' + MAT,
                technique='Coq proof (simulation of a protocol automaton, induction over inputs) + regenerated broker programs (Gen/BrokerProg.v) + per-order correspondence', design='DESIGN.md §5 C04'),
    'C05': dict(text='Inversion theorem of match_one: a fill implies a valid reference of the configured rule, price = reference moved adversely by the slippage model, '
                     'inside the band, limit respected, zero slippage => price = reference; ' + MAT,
                technique='Coq proof (case analysis / inversion of the matcher model, broker invariants by induction) + regenerated-model equality lemmas (Gen/Slippage.v, Gen/BrokerProg.v) + per-call correspondence', design='DESIGN.md §5 C05'),
    'C06': dict(text='Theorems: no fill at limit-up/down or without volume, fill positive / within remainder / whole lots or whole remainder, accumulated turnover within '
                     'round(volume x percent), market remainder cancelled, limit remainder rests; the matcher as a state machine over its turnover map: for every sequence of '
                     'calls and updates the quantity traded per instrument since the last update equals the booked turnover and stays within the cap (invariant by '
                     'induction); the cap block of match and SimulationBroker\'s methods are regenerated from the source (Gen/MatcherCap.v, Gen/BrokerProg.v) and '
                     're-proved equal to the model; ' + MAT,
                technique='Coq proof (inversion of the matcher model, floor arithmetic, invariant by induction over matcher calls) + regenerated-model equality lemmas + per-call and whole-run correspondence', design='DESIGN.md §5 C06'),
})

CLAIMED.update({
    'C08': dict(text='Model of the event source and the executor (Model/EventLoop.v): for every strictly increasing list of trading days the daily run equals the prescribed '
                     'sequence (BT OA BAR AT per day, one settlement between days and one after the last), clocks are monotone, minute bars are strictly increasing '
                     'whatever universe changes happen (induction over days / restarts); PRE/POST brackets and the refusal of order APIs in init / before_trading / '
                     'after_trading - also from handlers registered with subscribe_event, whose phase table and wrapper are regenerated too - are finite obligations over tables regenerated from the source on every run (Gen/ApiPhases.v); every real run\'s published event '
                     'sequence with clocks is replayed through the model inside coqc; monitors from the property text give the replay.',
                technique='Coq proof (run = specification by induction) + regenerated finite tables + whole-run correspondence', design='DESIGN.md §5 C08'),
    'C17': dict(text='Scheduler model (Model/Scheduler.v): cache invariant for every well-formed calendar and day sequence, day rules (weekday, n-th / n-th from last '
                     'trading day, never in a shorter bucket), at most one firing per day of a bar time, phases of scheduled functions against the regenerated API '
                     'phase table; every trading day of real runs (cache contents and every firing decision) is replayed through the model inside coqc.',
                technique='Coq proof (monotone-bucket cache invariant, induction over bars) + regenerated finite tables + per-day correspondence', design='DESIGN.md §5 C17'),
    'C20': dict(text='Calendar / history model (Model/Calendar.v) regenerated from trading_dates_mixin.py, data_source.history_bars, api_base.history_bars and '
                     'adjust.py by the ast translator (Gen = Model lemmas); theorems: previous / next inverse on trading days, saturation, slices = filters, counts = '
                     'lengths, window = last N bars not after the end date, end date by phase, adjustment scales by factor ratios; every recorded API call of real runs '
                     'is replayed through the model inside coqc.',
                technique='Coq proof (sorted-list lemmas by induction) + regenerated model equality lemmas + per-call correspondence', design='DESIGN.md §5 C20'),
})

CLAIMED.update({
    'C15': dict(text='Sizing model (Model/Sizing.v): lot rounding (whole lots, not above the request, less than a lot short; STAR market rule), the value budget loop on '
                     'explicit fuel (result fits the budget incl. the estimated fee and no larger lot multiple does), sells bounded by the closable holding, zero is '
                     'a no-op, futures order / order_to legs in order with quantities adding up; the 10-digit Decimal context is modelled (dec10); every recorded '
                     'order API call of real runs is replayed through the model inside coqc.',
                technique='Coq proof (induction over the budget loop, truncation arithmetic) + per-call correspondence', design='DESIGN.md §5 C15'),
    'C16': dict(text='Validator chain model (Model/Validators.v): submitted iff every enabled validator passes, first veto wins, the individual rules (listing, suspension, '
                     'limit band, cash, closable); forbidden phases by the regenerated API phase table; the verdict on every order that reached the chain in real '
                     'runs is replayed through the model inside coqc; rejected calls are checked to leave the full private state unchanged.',
                technique='Coq proof (case analysis of the chain) + regenerated finite tables + per-order correspondence', design='DESIGN.md §5 C16'),
})

CLAIMED.update({
    'C19': dict(text='Mod lifecycle model (Model/ModLife.v): for every list of configured mods (enabled or not, any priorities, failing imports / start-ups) the started '
                     'list is the enabled ones by priority then configuration order, tear-down visits exactly the started mods in reverse order once each, a failing '
                     'tear-down does not stop the others, results are collected only from non-empty returns (induction over the mod list); probe mods record the '
                     'order of start_up / tear_down / injected API calls in real runs (successful, failing in init, failing mid-run) and every run is replayed '
                     'through the model inside coqc.',
                technique='Coq proof (induction over mod lists, sorting lemmas) + whole-run correspondence with probe mods', design='DESIGN.md §5 C19'),
    'C18': dict(text='Analyser model (Model/Analyser.v): one record per settled day in order, total return = final net value - 1 = compounded daily returns - 1 '
                     '(telescoping product for every positive series), benchmark return = ratio of closes (telescoping) also for weighted one-instrument spellings (the weighted combination of one member is the member; only proportions matter), failed run => no result (through the mod '
                     'lifecycle model); partial: round(x, n), pandas and the real power in the annualised return are runtime - the annualised return, the trade '
                     'table and the account tables are compared by the harness only; every reported record of real runs (benchmark none / index / stock with '
                     'adjusted closes, one-day ranges, failing runs incl. failures after the last record) is replayed through the model inside coqc.',
                technique='Coq proof (telescoping products by induction) + per-record correspondence with the returned report', design='DESIGN.md §5 C18'),
})

CLAIMED.update({
    'C07': dict(text='View model (Model/View.v): every daily market-data accessor (price board, bar_dict / matcher bar, current_snapshot, the lazily read last price, '
                     'history_bars with adjustment) returns the same on any two histories that agree up to the moment (common prefix + bars dated later; in the '
                     'auction the day\'s bar may differ in everything but open / limits / volume), close-high-low are not observable before the open and in the '
                     'auction, windows end yesterday there, adjustment uses only factor rows in effect; handlers registered with subscribe_event read through the phase of the event they handle (regenerated Strategy._EVENT_PHASE / wrapper, Gen/ApiPhases.v); generic noninterference of a run whose every step reads '
                     'the market through the view (any strategy feedback) by induction; partial: minute accessors, weekly windows, bar mavg / vwap and arbitrary attribute access are only explored '
                     'by the two-world differential on the implementation; every recorded accessor call of real runs is replayed through the model on the visible '
                     'part of the history inside coqc.',
                technique='Coq proof (prefix-agreement lemmas by induction, noninterference of the generic loop) + regenerated handler-phase table + per-call correspondence + two-world differential',
                design='DESIGN.md §5 C07'),
    'C13': dict(text='Process model (Model/Isolation.v): a new run rewrites the class-level switches, the environment singleton and clears the memoised results; for every '
                     'well-formed op sequence the outcome is independent of the process state left by earlier runs up to id renaming (simulation by induction); '
                     'lookups and get_future_contracts on a data set restricted to the referenced instruments equal those on the superset; the inventory of '
                     'process-wide state is regenerated from the source (Gen/Globals.v) and classified by finite obligations; partial: interpreter state outside '
                     'the inventory only through the in-process run sequences (fresh vs after other runs vs pruned data, traces compared exactly).',
                technique='Coq proof (simulation by induction, filter lemmas) + regenerated inventory obligations + run-sequence differential with model replay',
                design='DESIGN.md §5 C13'),
    'C14': dict(text='Persist model (Model/Persist.v): persist / restore round trip of positions and accounts is the identity, hence every continuation equals the '
                     'uninterrupted one; the resumable executor publishes, split at any end-of-day stop or at a normal exit, exactly the events of the uninterrupted '
                     'run (pending settlement replayed once, a settled day never again) and coincides with the lifecycle model for a fresh run; the merged report '
                     'series covers every day once; get_state / set_state key sets and the attribute every persisted scalar is read from and restored to are regenerated (Gen/PersistKeys.v); partial: serialisation (jsonpickle / '
                     'pickle), strategy context, universe and broker book only through the split runs of the real implementation at every stop day, three modes.',
                technique='Coq proof (round trip, fold / split lemmas by induction) + regenerated key-set obligations + split-run differential with model replay',
                design='DESIGN.md §5 C14'),
})

ALL = ['C%02d' % i for i in range(1, 21)]


def build():
    checks = []
    for p in ALL:
        if p not in CLAIMED:
            continue
        c = CLAIMED[p]
        checks.append(dict(
            property_id=p,
            quick_cmd='bin/check %s --tier quick' % p,
            thorough_cmd='bin/check %s --tier thorough' % p,
            evidence_file='/verif/evidence/%s.json' % p,
            replay_cmd_template='bin/check %s --replay {path}' % p,
            engine='coq-model',
            level_claimed=dict(category='proof', text=c['text'], design_ref=c['design']),
            level_note=c.get('note', LEVEL_NOTE),
            technique=c['technique']))
    na = [dict(property_id=p, reason='no check registered yet: the Coq model and correspondence for this property are not built at this commit')
          for p in ALL if p not in CLAIMED]
    m = dict(
        version=1,
        setup_cmd='bin/setup',
        hooks=dict(guard='RQALPHA_VERIF', enable='no source hooks: harness mods are loaded through config["mod"][name]["lib"]; checks export RQALPHA_VERIF=1 (unused by /repo)',
                   baseline_off_cmd='cd /repo && /venv/bin/python -m pytest -ra -q -p no:cacheprovider --timeout=900 --continue-on-collection-errors',
                   source_commits=[], add_only=True),
        engines=[dict(name='coq-model', path='/verif/coq', serves_properties=sorted(CLAIMED),
                      kind_free_text='Coq 8.16.1 development (Model / Proofs / Properties / Gen) + Python harness running the real rqalpha on synthetic bundles')],
        checks=checks,
        notes='Machine-checked proofs about a Gallina model tied to /repo by regenerated Gen files and a step-wise correspondence check; see DESIGN.md.',
        not_applicable=na)
    with open(os.path.join(VERIF, 'MANIFEST.json'), 'w') as f:
        json.dump(m, f, indent=1)
    return m


if __name__ == '__main__':
    build()
