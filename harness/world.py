# -*- coding: utf-8 -*-
"""Synthetic worlds: calendars, instruments, bars, corporate actions -> an rqalpha data bundle.

Everything is derived from one random.Random so that a scenario replays from its seed.  The
instrument universe is FIXED (same ids in every bundle) so that several scenarios can share one
worker process; a scenario marks the instruments it uses as "active".
"""
import datetime
import json
import os
import pickle
import random

import numpy as np
import h5py

STOCKS = ['000001.XSHE', '000002.XSHE', '600000.XSHG']
ETF = '510050.XSHG'
KSH = '688001.XSHG'
SUCC = '601766.XSHG'        # successor of a converted stock
FUTS = ['RB2010', 'AG2010']
INDEX = '000001.XSHG'
NOISE = ['300999.XSHE', 'ZN2010']   # never referenced by scripts
ALL_STOCKLIKE = STOCKS + [ETF, KSH, SUCC]


def dint(d):
    return d.year * 10000 + d.month * 100 + d.day


def make_calendar(rng, start, n, holiday_p=0.0, gap_p=0.0):
    """n trading days from `start`: weekdays minus random holidays, with occasional long gaps."""
    out = []
    d = start
    while len(out) < n:
        if d.weekday() < 5:
            r = rng.random()
            if r < gap_p:
                d += datetime.timedelta(days=rng.randint(3, 9))
                continue
            if r >= gap_p + holiday_p:
                out.append(d)
        d += datetime.timedelta(days=1)
    return out


def r2(x):
    return round(x, 2)


def gen_stock_bars(rng, days, p0, style='dyadic', vol_choices=(0, 300, 1000, 4000, 100000, 1000000),
                   limit_p=0.16, tick=0.01):
    bars = []
    p = p0
    for d in days:
        lu, ld = r2(p * 1.1), r2(p * 0.9)
        m = rng.random()
        if m < limit_p / 2:
            c = lu
        elif m < limit_p:
            c = ld
        else:
            if style == 'dyadic':
                c = round(p * (1 + rng.uniform(-0.05, 0.05)) * 8) / 8
            else:
                c = r2(p * (1 + rng.uniform(-0.05, 0.05)))
        c = min(max(c, ld), lu)
        if style == 'dyadic':
            o = round(p * (1 + rng.uniform(-0.02, 0.02)) * 8) / 8
        else:
            o = r2(p * (1 + rng.uniform(-0.02, 0.02)))
        o = min(max(o, ld), lu)
        if rng.random() < 0.05:
            o = rng.choice([lu, ld])
        vol = rng.choice(vol_choices)
        hi, lo = max(o, c), min(o, c)
        # total turnover: volume * a price inside [low, high] (vwap inside the bar)
        vw = lo + (hi - lo) * rng.choice([0, 0.25, 0.5, 1.0])
        bars.append(dict(d=d, open=o, close=c, high=hi, low=lo, volume=float(vol), total_turnover=vol * vw,
                         limit_up=lu, limit_down=ld))
        p = c
    return bars


def gen_future_bars(rng, days, p0, mult, step=(-40, -15, 0, 10, 30, 55), vol_choices=(0, 8, 40, 5000)):
    bars = []
    p = p0
    ps = p0
    for d in days:
        c = p + rng.choice(step)
        o = p + rng.choice([-5, 0, 5])
        lu, ld = float(round(ps * 1.08)), float(round(ps * 0.92))
        c = min(max(c, ld), lu)
        o = min(max(o, ld), lu)
        if rng.random() < 0.06:
            c = rng.choice([lu, ld])
        vol = rng.choice(vol_choices)
        st = min(max(c + rng.choice([-3, 0, 0, 4]), ld), lu)
        hi, lo = max(o, c, st), min(o, c, st)
        vw = lo + (hi - lo) * rng.choice([0, 0.5, 1.0])
        bars.append(dict(d=d, open=float(o), close=float(c), high=float(hi), low=float(lo), volume=float(vol),
                         total_turnover=vol * vw * mult, limit_up=lu, limit_down=ld, settlement=float(st),
                         prev_settlement=float(ps), open_interest=1000.0))
        p = c
        ps = st
    return bars


def minute_bars_for_day(rng, day_bar, minutes, kind='stock', mult=1.0):
    """Split a day bar into minute bars (times given as HHMM ints); prices wander inside the limits."""
    out = []
    p = day_bar['open']
    lu, ld = day_bar['limit_up'], day_bar['limit_down']
    n = len(minutes)
    for k, hm in enumerate(minutes):
        if kind == 'stock':
            c = round((p * (1 + rng.uniform(-0.01, 0.01))) * 8) / 8
        else:
            c = p + rng.choice([-10, -5, 0, 5, 10])
        if rng.random() < 0.08:
            c = rng.choice([lu, ld])
        c = min(max(c, ld), lu)
        if k == n - 1:
            c = day_bar['close']
        o = p
        vol = rng.choice([0, 100, 300, 700, 1000, 5000, 200000]) if kind == 'stock' else rng.choice([0, 3, 8, 20, 400])
        hi, lo = max(o, c), min(o, c)
        vw = lo + (hi - lo) * rng.choice([0, 0.5, 1.0])
        dt = dint(day_bar['d']) * 1000000 + hm * 100
        b = dict(datetime=dt, open=o, close=c, high=hi, low=lo, volume=float(vol), total_turnover=vol * vw * mult,
                 limit_up=lu, limit_down=ld)
        out.append(b)
        p = c
    return out


STOCK_MINUTES = [931, 1000, 1030, 1130, 1301, 1400, 1430, 1500]
FUT_MINUTES = [901, 930, 1015, 1031, 1130, 1331, 1430, 1500]


class World(object):
    def __init__(self):
        self.days = []              # list[date], the whole calendar written to the bundle
        self.stock_bars = {}        # id -> list of bar dicts (only days the instrument has data)
        self.future_bars = {}
        self.instruments = {}       # id -> dict(kind, lot, listed, delisted, tplus, board, mult, und)
        self.dividends = {}         # id -> list of (book_closure, announcement, cash, ex, payable, round_lot) ints/floats
        self.splits = {}            # id -> list of (ex_date int YYYYMMDD, factor)
        self.exfac = {}             # id -> list of (start YYYYMMDD000000 or 0, factor)
        self.suspended = {}         # id -> list of YYYYMMDD
        self.transform = {}         # id -> dict(successor, share_conversion_ratio)
        self.future_info = []       # list of dicts
        self.minutes = None         # id -> list of minute bar dicts (all days), or None

    def bar(self, oid, d):
        for b in self.stock_bars.get(oid, self.future_bars.get(oid, [])):
            if b['d'] == d:
                return b
        return None

    def to_json(self):
        def conv(x):
            if isinstance(x, (datetime.date, datetime.datetime)):
                return x.isoformat()
            if isinstance(x, dict):
                return {k: conv(v) for k, v in x.items()}
            if isinstance(x, (list, tuple)):
                return [conv(v) for v in x]
            return x
        return conv(dict(days=self.days, stock_bars=self.stock_bars, future_bars=self.future_bars,
                         instruments=self.instruments, dividends=self.dividends, splits=self.splits,
                         exfac=self.exfac, suspended=self.suspended, transform=self.transform,
                         future_info=self.future_info, minutes=self.minutes))


def consistent_exfac(world, oid):
    """ex-cum factor table consistent with the dividends/splits of `oid` (factor steps on the ex-date)."""
    acts = []
    bars = {b['d']: b for b in world.stock_bars[oid]}
    days = world.days
    for (bc, ann, cash, ex, pay, rl) in world.dividends.get(oid, []):
        exd = [d for d in days if dint(d) == ex]
        if not exd:
            continue
        i = days.index(exd[0])
        prev = None
        for j in range(i - 1, -1, -1):
            if days[j] in bars:
                prev = bars[days[j]]['close']
                break
        if prev is None:
            continue
        dps = cash / rl
        if prev - dps > 0:
            acts.append((ex, prev / (prev - dps)))
    for (ex, f) in world.splits.get(oid, []):
        acts.append((ex, f))
    rows = [(0, 1.0)]
    f = 1.0
    for (ex, m) in sorted(acts):
        f *= m
        key = ex * 1000000
        if rows[-1][0] == key:
            rows[-1] = (key, f)
        else:
            rows.append((key, f))
    return rows


def gen_world(rng, opts=None):
    """opts: ndays, minute(bool), futures(bool), actions(bool), price_style, holiday_p, gap_p, delist(bool),
    suspend(bool), late_listing(bool), nonmonotone_factors(bool), overlapping_dividends(bool)"""
    o = dict(ndays=rng.randint(8, 16), minute=False, futures=True, actions=True, price_style='dyadic',
             holiday_p=0.0, gap_p=0.0, delist=False, suspend=False, late_listing=False,
             nonmonotone_factors=False, overlapping_dividends=False, start=datetime.date(2020, 1, 2),
             integral_splits=True)
    o.update(opts or {})
    if isinstance(o['start'], str):          # a scenario read back from a replay file
        o['start'] = datetime.date.fromisoformat(o['start'][:10])
    w = World()
    nd = o['ndays']
    days = make_calendar(rng, o['start'], nd, o['holiday_p'], o['gap_p'])
    w.days = days
    old = datetime.date(2000, 1, 4)
    for k, sid in enumerate(STOCKS + [ETF, KSH, SUCC] + [NOISE[0]]):
        p0 = rng.choice([8.0, 10.0, 25.5, 3.25, 48.0])
        kind = 'ETF' if sid == ETF else 'CS'
        board = 'KSH' if sid == KSH else 'MainBoard'
        lot = 1 if sid == KSH else 100      # Instrument.round_lot is 1 on the STAR market whatever the bundle says
        ins = dict(kind=kind, lot=lot, listed=old, delisted=None, tplus=(0 if sid == ETF and rng.random() < 0.5 else 1),
                   board=board, mult=1.0, und=None)
        bdays = list(days)
        if o['late_listing'] and sid == STOCKS[1] and nd > 6:
            i = rng.randint(2, nd - 3)
            ins['listed'] = days[i]
            bdays = days[i:]
        if o['delist'] and sid == STOCKS[2] and nd > 7:
            i = rng.randint(4, nd - 2)
            ins['delisted'] = days[i]          # last bar is days[i-1]; de_listed_at(days[i]) is True
            bdays = days[:i]
            if rng.random() < 0.6:
                w.transform[sid] = dict(successor=SUCC, share_conversion_ratio=rng.choice([1.0, 1.1, 0.5, 2.0]))
        w.instruments[sid] = ins
        bars = gen_stock_bars(rng, bdays, p0, style=o['price_style'])
        if o['suspend'] and sid in STOCKS[:2] and len(bdays) > 6 and rng.random() < 0.7:
            a = rng.randint(1, len(bdays) - 3)
            b = min(len(bdays) - 1, a + rng.randint(1, 3))
            w.suspended[sid] = [dint(d) for d in bdays[a:b]]
            for j in range(a, b):   # suspended days: flat bar with zero volume at previous close
                pc = bars[j - 1]['close']
                bars[j].update(open=pc, close=pc, high=pc, low=pc, volume=0.0, total_turnover=0.0)
            # re-chain limits after the suspension
        w.stock_bars[sid] = bars
    # a successor's prices are consistent with the conversion: on the converted stock's last day it closes at close / ratio
    for sid, tf in w.transform.items():
        last = w.stock_bars[sid][-1]
        sb = w.stock_bars[tf['successor']]
        ref = [b for b in sb if b['d'] == last['d']]
        if ref and ref[0]['close'] > 0:
            f = (last['close'] / tf['share_conversion_ratio']) / ref[0]['close']
            for b in sb:
                for k in ('open', 'close', 'high', 'low', 'limit_up', 'limit_down', 'total_turnover'):
                    b[k] = b[k] * f
    # corporate actions
    if o['actions']:
        for sid in STOCKS[:2] + [ETF]:
            bars = w.stock_bars[sid]
            bd = [b['d'] for b in bars]
            if len(bd) < 9:
                continue
            divs = []
            forced = o.get('force_dividend') and sid == STOCKS[0]
            if rng.random() < 0.6 or forced:
                i = rng.randint(1, len(bd) - 5)
                dc = rng.choice([1.0, 2.5, 0.5])
                exi = i + 1
                payi = i + (rng.randint(2, 4) if forced else rng.randint(1, 3))
                divs.append((dint(bd[i]), dint(bd[max(i - 1, 0)]), dc, dint(bd[exi]), dint(bd[payi]), 10.0))
                if o['overlapping_dividends'] and i + 2 < len(bd) - 3:
                    i2 = i + 1
                    divs.append((dint(bd[i2]), dint(bd[i]), rng.choice([0.5, 1.0]), dint(bd[i2 + 1]),
                                 dint(bd[min(i2 + rng.randint(1, 3), len(bd) - 1)]), 10.0))
            if divs:
                w.dividends[sid] = divs
            if rng.random() < 0.5 or (forced and o.get('same_day_split')):
                i = rng.randint(3, len(bd) - 3)
                if divs and o.get('same_day_split') and rng.random() < 0.8:
                    i = [k for k, d in enumerate(bd) if dint(d) == divs[0][3]][0]      # split goes ex on the dividend's ex-date
                sr = rng.choice([2.0, 1.5, 0.5, 1.25] if o['integral_splits'] else [2.0, 1.5, 1.15, 0.5, 1.3])
                w.splits[sid] = [(dint(bd[i]), sr)]
    for sid in w.stock_bars:
        w.exfac[sid] = consistent_exfac(w, sid)
        if o['nonmonotone_factors'] and sid in STOCKS[:2] and len(w.stock_bars[sid]) > 8:
            bd = [b['d'] for b in w.stock_bars[sid]]
            i = rng.randint(2, len(bd) - 5)
            j = rng.randint(i + 1, len(bd) - 2)
            w.exfac[sid] = [(0, 1.0), (dint(bd[i]) * 1000000, 2.0), (dint(bd[j]) * 1000000, 1.0)]
    # futures
    for k, fid in enumerate(FUTS + [NOISE[1]]):
        mult = 10.0 if fid.startswith('RB') else (15.0 if fid.startswith('AG') else 5.0)
        nf = rng.randint(max(3, nd - 4), nd) if o.get('expiry', True) else nd
        fdays = days[:nf]
        lastday = fdays[-1] if nf < nd or not o.get('expiry', True) else days[-1]
        w.instruments[fid] = dict(kind='Future', lot=1, listed=datetime.date(2019, 5, 6), delisted=lastday if o.get('expiry', True) else datetime.date(2030, 1, 2),
                                  tplus=0, board=None, mult=mult, und=fid[:2])
        w.future_bars[fid] = gen_future_bars(rng, fdays, 3000.0 if mult == 10 else 4000.0, mult)
    bymoney = dict(underlying_symbol='RB', commission_type='by_money', open_commission_ratio=0.0001,
                   close_commission_ratio=0.0001, close_commission_today_ratio=rng.choice([0.0002, 0.0, 0.0001]),
                   margin_rate=0.1, tick_size=1.0)
    byvol = dict(underlying_symbol='AG', commission_type='by_volume', open_commission_ratio=rng.choice([2.0, 1.5]),
                 close_commission_ratio=2.0, close_commission_today_ratio=rng.choice([0.0, 3.0]),
                 margin_rate=rng.choice([0.08, 0.125]), tick_size=1.0)
    zn = dict(underlying_symbol='ZN', commission_type='by_volume', open_commission_ratio=3.0,
              close_commission_ratio=3.0, close_commission_today_ratio=0.0, margin_rate=0.1, tick_size=5.0)
    w.future_info = [bymoney, byvol, zn]
    if o['minute']:
        w.minutes = {}
        for sid, bars in w.stock_bars.items():
            rows = []
            for b in bars:
                rows.extend(minute_bars_for_day(rng, b, STOCK_MINUTES, 'stock'))
            w.minutes[sid] = rows
        for fid, bars in w.future_bars.items():
            rows = []
            for b in bars:
                rows.extend(minute_bars_for_day(rng, b, FUT_MINUTES, 'future', w.instruments[fid]['mult']))
            w.minutes[fid] = rows
    return w


SDT = np.dtype([('datetime', '<u8'), ('open', '<f8'), ('close', '<f8'), ('high', '<f8'), ('low', '<f8'),
                ('volume', '<f8'), ('total_turnover', '<f8'), ('limit_up', '<f8'), ('limit_down', '<f8')])
FDT = np.dtype(SDT.descr + [('settlement', '<f8'), ('prev_settlement', '<f8'), ('open_interest', '<f8')])


def bars_array(bars, dt, fut=False):
    arr = np.zeros(len(bars), dtype=dt)
    for i, r in enumerate(bars):
        key = r['datetime'] if 'datetime' in r else dint(r['d']) * 1000000
        row = (key, r['open'], r['close'], r['high'], r['low'], r['volume'], r['total_turnover'], r['limit_up'],
               r['limit_down'])
        if fut:
            row = row + (r.get('settlement', r['close']), r.get('prev_settlement', r['open']), r.get('open_interest', 0.0))
        arr[i] = row
    return arr


def write_bundle(w, path):
    os.makedirs(path, exist_ok=True)
    days = w.days
    np.save(os.path.join(path, 'trading_dates.npy'), np.array([dint(d) for d in days], dtype=np.int64), allow_pickle=False)
    instruments = []
    with h5py.File(os.path.join(path, 'stocks.h5'), 'w') as h5s, h5py.File(os.path.join(path, 'funds.h5'), 'w') as h5f:
        for sid, bars in w.stock_bars.items():
            ins = w.instruments[sid]
            (h5f if ins['kind'] == 'ETF' else h5s).create_dataset(sid, data=bars_array(bars, SDT))
            instruments.append(dict(
                order_book_id=sid, symbol=sid, type=ins['kind'], board_type=ins['board'], round_lot=float(ins['lot']),
                exchange='XSHE' if sid.endswith('XSHE') else 'XSHG', listed_date=ins['listed'].strftime('%Y-%m-%d'),
                de_listed_date=ins['delisted'].strftime('%Y-%m-%d') if ins['delisted'] else '0000-00-00',
                market_tplus=ins['tplus'], status='Active', special_type='Normal', sector_code='X',
                sector_code_name='X', industry_code='X', industry_name='X', abbrev_symbol='X',
                trading_hours='09:31-11:30,13:01-15:00'))
    with h5py.File(os.path.join(path, 'indexes.h5'), 'w') as h5:
        arr = np.zeros(len(days), dtype=SDT)
        for i, d in enumerate(days):
            c = 1000.0 + 7 * ((i * 37) % 11) - 3 * i
            arr[i] = (dint(d) * 1000000, c - 1, c, c + 2, c - 2, 1e6, 1e9, 0, 0)
        h5.create_dataset(INDEX, data=arr)
        instruments.append(dict(order_book_id=INDEX, symbol='idx', type='INDX', round_lot=1.0, exchange='XSHG',
                                listed_date='1990-01-01', de_listed_date='0000-00-00', abbrev_symbol='X',
                                trading_hours='09:31-11:30,13:01-15:00'))
    with h5py.File(os.path.join(path, 'futures.h5'), 'w') as h5:
        for fid, bars in w.future_bars.items():
            ins = w.instruments[fid]
            h5.create_dataset(fid, data=bars_array(bars, FDT, True))
            instruments.append(dict(
                order_book_id=fid, symbol=fid, type='Future', round_lot=1.0, exchange='SHFE',
                listed_date=ins['listed'].strftime('%Y-%m-%d'), de_listed_date=ins['delisted'].strftime('%Y-%m-%d'),
                maturity_date=ins['delisted'].strftime('%Y-%m-%d'), contract_multiplier=float(ins['mult']),
                underlying_symbol=ins['und'], margin_rate=0.1, trading_hours='09:01-10:15,10:31-11:30,13:31-15:00',
                abbrev_symbol='X', underlying_order_book_id='null', settlement_method='Cash'))
    ddt = np.dtype([('book_closure_date', '<i8'), ('announcement_date', '<i8'), ('dividend_cash_before_tax', '<f8'),
                    ('ex_dividend_date', '<i8'), ('payable_date', '<i8'), ('round_lot', '<f8')])
    with h5py.File(os.path.join(path, 'dividends.h5'), 'w') as h5:
        for k, rows in w.dividends.items():
            h5.create_dataset(k, data=np.array([tuple(r) for r in rows], dtype=ddt))
    with h5py.File(os.path.join(path, 'split_factor.h5'), 'w') as h5:
        for k, rows in w.splits.items():
            h5.create_dataset(k, data=np.array([(ex * 1000000, f) for ex, f in rows],
                                               dtype=np.dtype([('ex_date', '<i8'), ('split_factor', '<f8')])))
    with h5py.File(os.path.join(path, 'ex_cum_factor.h5'), 'w') as h5:
        for k, rows in w.exfac.items():
            h5.create_dataset(k, data=np.array([tuple(r) for r in rows],
                                               dtype=np.dtype([('start_date', '<i8'), ('ex_cum_factor', '<f8')])))
    with h5py.File(os.path.join(path, 'suspended_days.h5'), 'w') as h5:
        for k, rows in w.suspended.items():
            if rows:
                h5.create_dataset(k, data=np.array(rows, dtype='<i8'))
    with h5py.File(os.path.join(path, 'st_stock_days.h5'), 'w') as h5:
        pass
    with h5py.File(os.path.join(path, 'yield_curve.h5'), 'w') as h5:
        ydt = np.dtype([('date', '<i8'), ('0S', '<f8'), ('1M', '<f8'), ('1Y', '<f8')])
        h5.create_dataset('data', data=np.array([(dint(d), 0.02, 0.02, 0.02) for d in days], dtype=ydt))
    with open(os.path.join(path, 'instruments.pk'), 'wb') as f:
        pickle.dump(instruments, f, protocol=2)
    with open(os.path.join(path, 'share_transformation.json'), 'w') as f:
        json.dump(w.transform, f)
    with open(os.path.join(path, 'future_info.json'), 'w') as f:
        json.dump(w.future_info, f)
    if w.minutes is not None:
        mins = {}
        for oid, rows in w.minutes.items():
            fut = oid in w.future_bars
            mins[oid] = bars_array(rows, FDT if fut else SDT, fut)
        with open(os.path.join(path, 'minutes.pk'), 'wb') as f:
            pickle.dump(mins, f, protocol=4)


def apply_overrides(w, ov):
    """scenario-level replacement of corporate actions (the factor table is recomputed)"""
    if not ov:
        return w
    for sid, rows in ov.get('splits', {}).items():
        w.splits[sid] = [tuple(r) for r in rows]
        if not rows:
            w.splits.pop(sid, None)
    for sid, rows in ov.get('dividends', {}).items():
        w.dividends[sid] = [tuple(r) for r in rows]
        if not rows:
            w.dividends.pop(sid, None)
    for sid in set(list(ov.get('splits', {})) + list(ov.get('dividends', {}))):
        w.exfac[sid] = consistent_exfac(w, sid)
    for sid, dints in ov.get('drop_bars', {}).items():   # a listed, unsuspended instrument without a bar on these days (no market data)
        if sid in w.stock_bars:
            w.stock_bars[sid] = [b for b in w.stock_bars[sid] if dint(b['d']) not in set(dints)]
    for new_id, src in ov.get('siblings', {}).items():   # a second contract of the same underlying (same bars, own id)
        if src in w.future_bars:
            w.future_bars[new_id] = [dict(b) for b in w.future_bars[src]]
            w.instruments[new_id] = dict(w.instruments[src])
            if w.minutes and src in w.minutes:
                w.minutes[new_id] = [dict(b) for b in w.minutes[src]]
    for sid, vol in ov.get('volume', {}).items():      # every bar of the instrument gets this volume (turnover rescaled: same vwap)
        for b in w.stock_bars.get(sid, []):
            if b['volume']:
                b['total_turnover'] = b['total_turnover'] / b['volume'] * vol
                b['volume'] = float(vol)
    return w


def mutate_future(w, mut):
    """Alter everything dated after a cut-off, leave everything up to it untouched (C07).
    mut: dict(day=index into w.days, phase='before_trading'|'open_auction'|'bar'|'day', bar=minute index, seed=int).
    before_trading: the whole bar of that day is future except its limits (and a future's previous settlement);
    open_auction: open, limits, volume and turnover of that day are visible, close / high / low (settlement) are future;
    bar (minute runs): minute bars after index `bar` and the day bar's close / high / low / volume are future;
    day: only later days are future."""
    rng = random.Random(mut['seed'])
    days = w.days
    cut = days[mut['day']]
    phase = mut['phase']
    cutint = dint(cut)

    def whole_future(d):
        return d > cut or (d == cut and phase == 'before_trading')

    def clamp(x, b):
        return min(max(x, b['limit_down']), b['limit_up'])
    for table, fut in ((w.stock_bars, False), (w.future_bars, True)):
        for oid, bars in table.items():
            mult = w.instruments[oid]['mult'] if fut else 1.0
            drift = 1.0
            for b in bars:
                d = b['d']
                if whole_future(d):
                    drift *= rng.choice([0.9, 0.95, 1.0, 1.05, 1.1])
                    keep_limits = d == cut
                    f = drift
                    for k in ('open', 'close', 'high', 'low') + (() if keep_limits else ('limit_up', 'limit_down')) + (('settlement',) if fut else ()):
                        b[k] = float(round(b[k] * f)) if fut else round(b[k] * f * 8) / 8
                    if fut and not keep_limits and d != days[min(mut['day'] + 1, len(days) - 1)]:
                        b['prev_settlement'] = float(round(b['prev_settlement'] * f))
                    if keep_limits:
                        for k in ('open', 'close'):
                            b[k] = clamp(b[k], b)
                    b['high'], b['low'] = max(b['open'], b['close']), min(b['open'], b['close'])
                    if fut:
                        b['settlement'] = min(max(b['settlement'], b['low']), b['high'])
                    r = rng.random()
                    if r < 0.25:
                        b['volume'] = 0.0
                    elif r < 0.5:
                        b['volume'] = float(rng.choice([100, 700, 4000, 2000000]))
                    b['total_turnover'] = b['volume'] * (b['low'] + (b['high'] - b['low']) * rng.choice([0, 0.5, 1.0])) * mult
                elif d == cut and phase in ('open_auction', 'bar'):
                    if phase == 'bar' and w.minutes is not None:
                        continue        # handled with the minute bars below
                    f = rng.choice([0.93, 0.97, 1.04, 1.08])
                    c = clamp(float(round(b['close'] * f)) if fut else round(b['close'] * f * 8) / 8, b)
                    b['close'] = c
                    b['high'], b['low'] = max(b['open'], c, clamp(b['high'] * f, b)), min(b['open'], c, clamp(b['low'] * f, b))
                    if fut:
                        b['settlement'] = min(max(float(round(b['settlement'] * f)), b['low']), b['high'])
    # minute bars
    if w.minutes is not None:
        for oid, rows in w.minutes.items():
            fut = oid in w.future_bars
            daily = {b['d']: b for b in (w.future_bars if fut else w.stock_bars)[oid]}
            minutes = FUT_MINUTES if fut else STOCK_MINUTES
            mult = w.instruments[oid]['mult'] if fut else 1.0
            out = []
            byday = {}
            for r in rows:
                byday.setdefault(r['datetime'] // 1000000, []).append(r)
            for d in sorted(daily):
                di = dint(d)
                if whole_future(d):
                    out.extend(minute_bars_for_day(rng, daily[d], minutes, 'future' if fut else 'stock', mult))
                elif d == cut and phase == 'bar':
                    old = byday[di]
                    keep = old[:mut['bar'] + 1]
                    rest = old[mut['bar'] + 1:]
                    p = keep[-1]['close']
                    b = daily[d]
                    for r in rest:
                        c = clamp(round(p * (1 + rng.uniform(-0.02, 0.02)) * 8) / 8 if not fut else p + rng.choice([-20, -5, 5, 15]), b)
                        r.update(open=p, close=c, high=max(p, c), low=min(p, c))
                        r['volume'] = float(rng.choice([0, 100, 900, 300000]) if not fut else rng.choice([0, 2, 15, 600]))
                        r['total_turnover'] = r['volume'] * (r['low'] + (r['high'] - r['low']) * rng.choice([0, 0.5, 1.0])) * mult
                        p = c
                    if rest:
                        b['close'] = p
                        b['high'] = max(x['high'] for x in old)
                        b['low'] = min(x['low'] for x in old)
                        # the day bar's volume / turnover stay: the auction bar of the reference data source carries them (see ASSUMPTIONS)
                        if fut:
                            b['settlement'] = min(max(b['settlement'], b['low']), b['high'])
                    out.extend(old)
                else:
                    out.extend(byday.get(di, []))
            w.minutes[oid] = out
    # suspensions after the cut-off
    for sid in list(w.stock_bars):
        if sid in STOCKS[:2] and rng.random() < 0.5:
            fd = [b for b in w.stock_bars[sid] if b['d'] > cut]
            keep = [x for x in w.suspended.get(sid, []) if x <= cutint]
            if fd and rng.random() < 0.7:
                b = rng.choice(fd)
                keep.append(dint(b['d']))
                b.update(volume=0.0, total_turnover=0.0)
            if keep:
                w.suspended[sid] = sorted(keep)
            else:
                w.suspended.pop(sid, None)
    # corporate actions announced / effective after the cut-off
    for sid in list(w.stock_bars):
        divs = w.dividends.get(sid, [])
        kept = [dv for dv in divs if dv[1] <= cutint]
        changed = len(kept) != len(divs)
        bd = [dint(b['d']) for b in w.stock_bars[sid] if b['d'] > cut]
        if sid in STOCKS[:2] + [ETF] and len(bd) >= 4 and rng.random() < 0.5 and not kept:
            i = rng.randint(1, len(bd) - 3)
            kept.append((bd[i], bd[i - 1], rng.choice([1.0, 0.5, 2.0]), bd[i + 1], bd[min(i + 2, len(bd) - 1)], 10.0))
            changed = True
        if changed:
            if kept:
                w.dividends[sid] = kept
            else:
                w.dividends.pop(sid, None)
        sp = w.splits.get(sid, [])
        keep_sp = [s for s in sp if s[0] <= cutint]
        if sid in STOCKS[:2] + [ETF] and len(bd) >= 2 and rng.random() < 0.5:
            keep_sp.append((rng.choice(bd[1:]), rng.choice([2.0, 0.5, 1.5])))
        if keep_sp != sp:
            changed = True
            if keep_sp:
                w.splits[sid] = keep_sp
            else:
                w.splits.pop(sid, None)
        old_rows = w.exfac.get(sid, [(0, 1.0)])
        past = [r for r in old_rows if r[0] <= cutint * 1000000]
        new_rows = consistent_exfac(w, sid)
        base = past[-1][1]
        fresh = [r for r in new_rows if r[0] > cutint * 1000000]
        # keep the table up to the cut-off exactly, chain the later rows onto it
        prev_new = [r for r in new_rows if r[0] <= cutint * 1000000][-1][1]
        w.exfac[sid] = past + [(k, base * (f / prev_new)) for k, f in fresh]
    return w


def prune(w, keep):
    """drop every instrument the strategy never references (the index and conversion successors of kept stocks stay)"""
    keep = set(keep)
    for sid, tf in w.transform.items():
        if sid in keep:
            keep.add(tf['successor'])
    for table in (w.stock_bars, w.future_bars, w.instruments, w.dividends, w.splits, w.exfac, w.suspended, w.transform):
        for k in list(table):
            if k not in keep:
                del table[k]
    if w.minutes is not None:
        for k in list(w.minutes):
            if k not in keep:
                del w.minutes[k]
    return w
