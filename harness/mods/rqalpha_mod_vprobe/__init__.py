"""Harness probe mod: logs its start-up / tear-down, can raise in its tear-down and can inject an internal (non-user)
exception into a system event on a given day.  Several instances are configured as vprobe1, vprobe2, ... with lib = rqalpha_mod_vprobe."""
from rqalpha.interface import AbstractMod
from rqalpha.core.events import EVENT

LOG = []

__config__ = {'priority': 100, 'tag': 'p', 'teardown_raises': False, 'fault_event': None, 'fault_day': None}


class M(AbstractMod):
    def start_up(self, env, mod_config):
        self.tag = mod_config.tag
        self.cfg = mod_config
        self.env = env
        LOG.append(('start', self.tag))
        if mod_config.fault_event:
            self.count = 0
            env.event_bus.add_listener(EVENT[mod_config.fault_event], self._maybe_raise)

    def _maybe_raise(self, event):
        self.count += 1
        if self.count == self.cfg.fault_day:
            LOG.append(('inject', self.tag, self.cfg.fault_event, str(self.env.calendar_dt)))
            raise KeyError('injected internal fault')

    def tear_down(self, code, exception=None):
        LOG.append(('teardown', self.tag, getattr(code, 'name', str(code)), exception is not None))
        if self.cfg.teardown_raises:
            raise RuntimeError('injected teardown fault')
        return None


def load_mod():
    return M()
