"""Harness mod: a BaseDataSource that also serves minute bars read from <bundle>/minutes.pk."""
import os
import pickle

import numpy as np

from rqalpha.interface import AbstractMod
from rqalpha.data.base_data_source import BaseDataSource
from rqalpha.utils.datetime_func import convert_dt_to_int, convert_date_to_int


class DS(BaseDataSource):
    def __init__(self, path, *args, **kwargs):
        super(DS, self).__init__(path, *args, **kwargs)
        with open(os.path.join(path, 'minutes.pk'), 'rb') as f:
            self._minutes = pickle.load(f)

    def get_bar(self, instrument, dt, frequency):
        if frequency == '1d':
            return super(DS, self).get_bar(instrument, dt, frequency)
        arr = self._minutes.get(instrument.order_book_id)
        if arr is None:
            return None
        k = np.uint64(convert_dt_to_int(dt))
        pos = arr['datetime'].searchsorted(k)
        if pos >= len(arr) or arr['datetime'][pos] != k:
            return None
        return arr[pos]

    def available_data_range(self, frequency):
        return super(DS, self).available_data_range('1d')

    def get_trading_minutes_for(self, instrument, trading_dt):
        arr = self._minutes.get(instrument.order_book_id)
        if arr is None:
            return []
        d = convert_date_to_int(trading_dt)
        return [int(x) for x in arr['datetime'] if d <= x < d + 1000000]

    def history_bars(self, instrument, bar_count, frequency, fields, dt, skip_suspended=True, include_now=False,
                     adjust_type='pre', adjust_orig=None):
        if frequency == '1m':
            arr = self._minutes[instrument.order_book_id]
            i = arr['datetime'].searchsorted(np.uint64(convert_dt_to_int(dt)), side='right')
            out = arr[max(0, i - bar_count):i]
            return out if fields is None else out[fields]
        return super(DS, self).history_bars(instrument, bar_count, frequency, fields, dt, skip_suspended,
                                            include_now, adjust_type, adjust_orig)


class M(AbstractMod):
    def start_up(self, env, mod_config):
        env.set_data_source(DS(env.config.base.data_bundle_path, getattr(env.config.base, "future_info", {})))

    def tear_down(self, code, exception=None):
        pass


def load_mod():
    return M()
