"""Harness mod: in-memory persist provider.  STORE survives between runs of one process; with snapshot=True the store is copied at every
PRE_SETTLEMENT (= what was persisted at the end-of-day persistence point POST_AFTER_TRADING of the day being settled)."""
from rqalpha.interface import AbstractMod, AbstractPersistProvider

STORE = {}
RESUME = {'on': True}
SNAPSHOTS = {}      # trading date (str) -> copy of STORE
LOG = []            # (op, key, length)


class P(AbstractPersistProvider):
    def store(self, key, value):
        STORE[key] = value
        LOG.append(('store', key, len(value) if value is not None else None))

    def load(self, key):
        LOG.append(('load', key, None if STORE.get(key) is None else len(STORE[key])))
        return STORE.get(key)

    def should_resume(self):
        return RESUME['on']

    def should_run_init(self):
        return True


class M(AbstractMod):
    def start_up(self, env, mod_config):
        env.set_persist_provider(P())
        if getattr(mod_config, 'snapshot', False):
            from rqalpha.core.events import EVENT

            def snap(event):
                SNAPSHOTS[str(env.trading_dt.date())] = dict(STORE)
            env.event_bus.add_listener(EVENT.PRE_SETTLEMENT, snap)

    def tear_down(self, code, exception=None):
        pass


def load_mod():
    return M()
