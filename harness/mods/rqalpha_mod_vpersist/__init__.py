"""Harness mod: in-memory persist provider (STORE survives between runs of one process)."""
from rqalpha.interface import AbstractMod, AbstractPersistProvider

STORE = {}
RESUME = {'on': True}


class P(AbstractPersistProvider):
    def store(self, key, value):
        STORE[key] = value

    def load(self, key):
        return STORE.get(key)

    def should_resume(self):
        return RESUME['on']

    def should_run_init(self):
        return True


class M(AbstractMod):
    def start_up(self, env, mod_config):
        env.set_persist_provider(P())

    def tear_down(self, code, exception=None):
        pass


def load_mod():
    return M()
