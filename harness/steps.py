# -*- coding: utf-8 -*-
"""Helpers to cut a recorded trace into steps."""


def event_spans(trace):
    """Yield (i0, i1, name) for every bus event: index of its first-listener mark and of its last-listener mark.
    Events nest (a TRADE published inside BAR); spans are matched with a stack."""
    stack = []
    out = []
    for i, m in enumerate(trace):
        if m['k'] == 'ev0':
            stack.append((i, m['ev']))
        elif m['k'] == 'ev1':
            # pop until the matching name (an exception inside a listener can leave unmatched ev0 marks)
            while stack:
                i0, name = stack.pop()
                if name == m['ev']:
                    out.append((i0, i, name))
                    break
    out.sort()
    return out


def api_spans(trace):
    stack = []
    out = []
    for i, m in enumerate(trace):
        if m['k'] == 'api0':
            stack.append(i)
        elif m['k'] == 'api1' and stack:
            out.append((stack.pop(), i))
    out.sort()
    return out


def trades(trace):
    """list of dict(i0, i1, trade, order (snap at ev0), pre (snap at ev0), post (snap at ev1), prev (snap of the mark before ev0))"""
    out = []
    for i0, i1, name in event_spans(trace):
        if name != 'TRADE':
            continue
        m = trace[i0]
        out.append(dict(i0=i0, i1=i1, trade=m['payload'].get('trade'), order=m['payload'].get('order'),
                        acc=m['payload'].get('acc'), pre=m['snap'], post=trace[i1]['snap'],
                        prev=trace[i0 - 1]['snap'] if i0 > 0 else None, order_post=trace[i1]['payload'].get('order')))
    return out


def approx(a, b, tol=1e-9, scale=0.0):
    if a is None or b is None:
        return a is None and b is None
    return abs(a - b) <= tol * max(1.0, abs(a), abs(b), scale)


def stock_minute_index(hm):
    h, m = divmod(hm, 100)
    t = h * 60 + m
    if t <= 11 * 60 + 30:
        return t - (9 * 60 + 31)
    return 120 + t - (13 * 60 + 1)


import re as _re
_LONG = _re.compile(r'\d{12,}')


def normalise_ids(trace):
    """order and trade ids come from two time-seeded process-wide counters: rename them by order of first appearance"""
    oids, eids = {}, {}
    OK = ('id', 'order_id', 'target')

    def collect(x):
        if isinstance(x, dict):
            for k, v in x.items():
                if isinstance(v, int) and not isinstance(v, bool) and v > 10 ** 9:
                    if k in OK:
                        oids.setdefault(v, 'o%d' % len(oids))
                    elif k == 'exec_id':
                        eids.setdefault(v, 'e%d' % len(eids))
                collect(v)
        elif isinstance(x, (list, tuple)):
            for v in x:
                collect(v)

    def sub(x, key=None):
        if isinstance(x, dict):
            return {oids.get(_as_int(k), k): sub(v, k) for k, v in x.items()}
        if isinstance(x, (list, tuple)):
            return [sub(v, key) for v in x]
        if isinstance(x, str) and any(c.isdigit() for c in x):
            return _LONG.sub(lambda m: str(oids.get(int(m.group(0)), m.group(0))), x)
        if isinstance(x, int) and not isinstance(x, bool):
            if key in OK:
                return oids.get(x, x)
            if key == 'exec_id':
                return eids.get(x, x)
        return x
    collect(trace)
    return sub(trace)


def _as_int(k):
    try:
        return int(k)
    except (TypeError, ValueError):
        return None
