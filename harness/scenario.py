# -*- coding: utf-8 -*-
"""Scenario generators (config + scripted strategy), all from one random.Random."""
import random

from . import world as W


def style(rng, p_limit=0.5):
    if rng.random() > p_limit:
        return 'mkt'
    return ['lim', rng.choice([1.02, 0.98, 1.0, 1.0, 1.05, 0.95, 1.1, 0.9])]


def stock_action(rng, sid):
    r = rng.random()
    st = style(rng)
    if r < 0.40:
        return dict(op='order_shares', id=sid, amt=rng.choice([100, 200, 300, 1000, 5000, 150, -100, -300, -1000, -99999, 50, -50]), style=st)
    if r < 0.50:
        return dict(op='order_value', id=sid, amt=rng.choice([1000, 5000, 20000, 1e6, -3000, -1e6]), style=st)
    if r < 0.60:
        return dict(op='order_target_percent', id=sid, amt=rng.choice([0, 0.1, 0.3, 0.5, 1.0]), style=st)
    if r < 0.66:
        return dict(op='order_percent', id=sid, amt=rng.choice([0.1, -0.1, 0.5]), style=st)
    if r < 0.72:
        return dict(op='order_lots', id=sid, amt=rng.choice([1, 3, -2, 10]), style=st)
    if r < 0.78:
        return dict(op='order_target_value', id=sid, amt=rng.choice([0, 3000, 20000]), style=st)
    if r < 0.86:
        return dict(op='submit_order', id=sid, amt=rng.choice([100, 300, 1000]), side=rng.choice(['BUY', 'SELL']), style=st)
    if r < 0.93:
        return dict(op='order', id=sid, amt=rng.choice([100, -100, 500, -700]), style=st)
    return dict(op='order_to', id=sid, amt=rng.choice([0, 300, 1000]), style=st)


def future_action(rng, fid):
    st = style(rng, 0.4)
    r = rng.random()
    q = rng.choice([1, 2, 3, 5, 9, 30])
    if r < 0.6:
        op = rng.choice(['buy_open', 'sell_open', 'buy_close', 'sell_close'])
        a = dict(op=op, id=fid, amt=q, style=st)
        if op.endswith('close') and rng.random() < 0.35:
            a['ct'] = True
        return a
    if r < 0.8:
        return dict(op=rng.choice(['order', 'order_to']), id=fid, amt=q * rng.choice([1, -1]), style=st)
    return dict(op='submit_order', id=fid, amt=q, side=rng.choice(['BUY', 'SELL']), eff=rng.choice(['OPEN', 'CLOSE', 'CLOSE_TODAY']), style=st)


def flow_action(rng, has_stock):
    r = rng.random()
    acc = 'STOCK' if has_stock else 'FUTURE'
    if r < 0.4:
        return dict(op='deposit', acc=acc, amt=rng.choice([5000, 20000]), days=rng.choice([0, 0, 1, 2, 3]))
    if r < 0.6:
        return dict(op='withdraw', acc=acc, amt=rng.choice([3000, 10000, 5e6]))
    if r < 0.8:
        return dict(op='finance', amt=rng.choice([5000, 20000]))
    return dict(op='repay', amt=rng.choice([1000, 5000, 50000]))


def gen_trading(rng, opts=None):
    """A general trading scenario.  opts: freq ('1d'|'1m'), stocks (n active), futures (bool), flows (bool),
    matching, slippage_model, and world options under 'world'."""
    o = dict(freq='1d', stocks=rng.randint(1, 3), futures=rng.random() < 0.6, flows=True, p_cancel=0.08,
             actions_per_phase=(0, 0, 1, 1, 2, 3), world={}, mgmt=False, signal=False)
    o.update(opts or {})
    wopts = dict(o['world'])
    wopts.setdefault('minute', o['freq'] == '1m')
    if o['freq'] == '1m':
        # minute runs use one account type: a stock account yields 240 bars a day, a futures account only the
        # minutes of the data source (8 a day)
        wopts.setdefault('ndays', rng.randint(4, 6))
        if o.get('minute_kind') is None:
            o['minute_kind'] = rng.choice(['stock', 'future'])
        if o['minute_kind'] == 'stock':
            o['futures'] = False
            o['stocks'] = max(1, o['stocks'])
        else:
            o['futures'] = True
            o['stocks'] = 0
            wopts.setdefault('expiry', False)   # an expired contract empties the universe and ends a futures-only minute run
    world_seed = rng.getrandbits(48)
    w = W.gen_world(random.Random(world_seed), wopts)
    nd = len(w.days)
    active_stocks = (W.STOCKS + [W.ETF, W.KSH])[:5]
    rng.shuffle(active_stocks)
    active_stocks = active_stocks[:o['stocks']]
    if w.transform and W.STOCKS[2] not in active_stocks and o['stocks']:
        active_stocks[0] = W.STOCKS[2]
    futs = [rng.choice(W.FUTS)] if o['futures'] else []
    if o['futures'] and rng.random() < 0.3:
        futs = list(W.FUTS)
    accounts = {}
    if active_stocks:
        accounts['stock'] = rng.choice([100000, 30000, 1000000])
    if futs:
        accounts['future'] = rng.choice([200000, 1000000, 40000])
    matching = o.get('matching') or rng.choice(['current_bar', 'vwap', 'next_bar'] if o['freq'] == '1m' else ['current_bar', 'vwap'])
    slip_model = o.get('slippage_model') or rng.choice(['PriceRatioSlippage', 'PriceRatioSlippage', 'TickSizeSlippage', 'LimitPriceSlippage'])
    slip = 0 if rng.random() < 0.5 else (rng.choice([0.01, 0.002]) if slip_model == 'PriceRatioSlippage' else rng.choice([1, 3]))
    if 'slippage' in o:
        slip = o['slippage']
    cfg = {'base': {'frequency': o['freq'], 'accounts': accounts,
                    'margin_multiplier': rng.choice([1, 1, 1.5]), 'forced_liquidation': rng.random() < 0.8},
           'mod': {'sys_accounts': {'futures_settlement_price_type': rng.choice(['close', 'settlement']),
                                    'dividend_reinvestment': rng.random() < 0.3, 'stock_t1': rng.random() < 0.8,
                                    'financing_rate': rng.choice([0, 0.08]),
                                    'cash_return_by_stock_delisted': rng.random() < 0.7,
                                    'auto_switch_order_value': rng.random() < 0.3},
                   'sys_simulation': {'volume_limit': rng.random() < 0.8, 'volume_percent': rng.choice([0.25, 0.1, 1.0]),
                                      'slippage': slip, 'slippage_model': slip_model,
                                      'price_limit': rng.random() < 0.8, 'inactive_limit': rng.random() < 0.8,
                                      'matching_type': matching, 'signal': bool(o['signal']),
                                      'management_fee': []},
                   'sys_transaction_cost': {'cn_stock_min_commission': rng.choice([5, 0]),
                                            'stock_commission_multiplier': rng.choice([1, 1, 0, 2.5]),
                                            'futures_commission_multiplier': rng.choice([1, 1, 0.5]),
                                            'tax_multiplier': rng.choice([1, 1, 0, 2]),
                                            'pit_tax': rng.random() < 0.3},
                   'sys_risk': {'validate_cash': rng.random() < 0.9, 'validate_price': rng.random() < 0.9,
                                'validate_is_trading': rng.random() < 0.9, 'validate_self_trade': rng.random() < 0.2},
                   'sys_accounts_validate': {}}}
    cfg['mod']['sys_accounts']['validate_stock_position'] = True
    cfg['mod']['sys_accounts']['validate_future_position'] = True
    cfg['mod'].pop('sys_accounts_validate')
    script = {}
    start_i, end_i = 1, nd - 2
    norders = 0
    for i in range(start_i, end_i + 1):
        if o['freq'] == '1m' and o['minute_kind'] == 'stock':
            from .steps import stock_minute_index
            ks = [stock_minute_index(hm) for hm in W.STOCK_MINUTES]
        elif o['freq'] == '1m':
            ks = list(range(len(W.FUT_MINUTES)))
        else:
            ks = [0]
        slots = [('open_auction', 0)] + [('handle_bar', k) for k in ks]
        for ph, k in slots:
            if o['freq'] == '1m' and ph == 'handle_bar' and rng.random() < 0.5:
                continue
            n = rng.choice(o['actions_per_phase'])
            acts = []
            for _ in range(n):
                r = rng.random()
                if r < o['p_cancel'] and norders:
                    acts.append(dict(op='cancel', k=rng.randint(0, max(0, norders - 1))))
                elif o['flows'] and r < o['p_cancel'] + 0.10:
                    acts.append(flow_action(rng, bool(active_stocks)))
                elif futs and (not active_stocks or rng.random() < 0.4):
                    acts.append(future_action(rng, rng.choice(futs)))
                    norders += 1
                elif active_stocks:
                    acts.append(stock_action(rng, rng.choice(active_stocks)))
                    norders += 1
            if acts:
                script['%d|%s|%d' % (i, ph, k)] = acts
    scn = dict(world_seed=world_seed, world_opts=wopts, cfg=cfg, start_i=start_i, end_i=end_i, script=script,
               universe=(active_stocks + futs) if (o['freq'] == '1m' or futs) else None,
               meta=dict(active_stocks=active_stocks, futs=futs))
    if o['mgmt'] and rng.random() < 0.5:
        script.setdefault('-1|init|0', []).append(dict(op='mgmt_fee', acc='STOCK' if active_stocks else 'FUTURE', rate=rng.choice([0.001, 0.0001])))
    return scn


def gen_div_capture(rng, opts=None):
    """Hold a stock over a dividend record date, then (often) sell everything before the payable date."""
    o = dict(same_day_split=rng.random() < 0.4, reinvest=rng.random() < 0.3)
    o.update(opts or {})
    wopts = dict(ndays=rng.randint(10, 14), actions=True, force_dividend=True, same_day_split=o['same_day_split'], futures=False,
                 integral_splits=o.get('integral_splits', True), overlapping_dividends=o.get('overlap', False))
    scn = gen_trading(rng, dict(freq='1d', stocks=1, futures=False, flows=rng.random() < 0.3, world=wopts, actions_per_phase=(0, 0, 0, 1), p_cancel=0.0))
    w = W.gen_world(random.Random(scn['world_seed']), scn['world_opts'])
    sid = W.STOCKS[0]
    scn['meta']['active_stocks'] = [sid]
    sim = scn['cfg']['mod']['sys_simulation']
    sim.update(volume_limit=False, price_limit=False, inactive_limit=False, slippage=0)
    scn['cfg']['mod']['sys_accounts']['dividend_reinvestment'] = o['reinvest']
    scn['cfg']['base']['accounts'] = {'stock': 1000000}
    dv = w.dividends[sid][0]
    dints = [W.dint(d) for d in w.days]
    ib, ie, ip = dints.index(dv[0]), dints.index(dv[3]), dints.index(dv[4])
    script = {k: [a for a in v if a.get('id') != sid and a['op'] in ('deposit', 'withdraw', 'finance', 'repay')] for k, v in scn['script'].items()}
    script = {k: v for k, v in script.items() if v}
    buy_day = rng.randint(1, max(1, ib))
    script.setdefault('%d|handle_bar|0' % buy_day, []).insert(0, dict(op='order_shares', id=sid, amt=rng.choice([1000, 1500, 300, 5000]), style='mkt'))
    r = rng.random()
    if r < 0.7 and ip > ie:
        sell_day = rng.randint(ie, ip - 1)
        script.setdefault('%d|handle_bar|0' % sell_day, []).append(dict(op='order_target_percent', id=sid, amt=0, style='mkt'))
    elif r < 0.85:
        script.setdefault('%d|handle_bar|0' % min(ie, len(dints) - 2), []).append(dict(op='order_shares', id=sid, amt=-200, style='mkt'))
    scn['script'] = script
    scn['start_i'], scn['end_i'] = 1, len(dints) - 2
    return scn


def gen_close_pile(rng, opts=None):
    """Positions with yesterday's and today's quantity, several resting closing orders, close-today on top."""
    o = dict(kind=rng.choice(['future', 'future', 'stock']))
    o.update(opts or {})
    fut = o['kind'] == 'future'
    wopts = dict(ndays=rng.randint(7, 10), actions=False, expiry=False)
    scn = gen_trading(rng, dict(freq='1d', stocks=0 if fut else 1, futures=fut, flows=False, world=wopts, actions_per_phase=(0,), p_cancel=0.0))
    sim = scn['cfg']['mod']['sys_simulation']
    sim.update(volume_limit=False, price_limit=False, inactive_limit=False, slippage=0, matching_type='current_bar')
    scn['cfg']['base']['accounts'] = {'future': 10000000} if fut else {'stock': 10000000}
    scn['cfg']['mod']['sys_risk']['validate_price'] = False
    script = {}
    nd = wopts['ndays']
    if fut:
        fid = rng.choice(W.FUTS)
        scn['universe'] = [fid]
        long_side = rng.random() < 0.5
        op_open, op_close = ('buy_open', 'sell_close') if long_side else ('sell_open', 'buy_close')
        far = ['lim', 1.07] if long_side else ['lim', 0.93]       # a closing limit that does not fill
        d = 1
        script['%d|handle_bar|0' % d] = [dict(op=op_open, id=fid, amt=rng.randint(1, 6), style='mkt')]
        for d in range(2, nd - 1):
            acts = []
            if rng.random() < 0.8:
                acts.append(dict(op=op_open, id=fid, amt=rng.randint(1, 5), style='mkt'))
            for _ in range(rng.randint(1, 4)):
                r = rng.random()
                if r < 0.5:
                    acts.append(dict(op=op_close, id=fid, amt=rng.randint(1, 6), style=far))
                elif r < 0.8:
                    acts.append(dict(op=op_close, id=fid, amt=rng.randint(1, 5), style=far, ct=True))
                else:
                    acts.append(dict(op='submit_order', id=fid, amt=rng.randint(1, 5), side='SELL' if long_side else 'BUY',
                                     eff=rng.choice(['CLOSE', 'CLOSE_TODAY']), style=far))
            if rng.random() < 0.5:
                acts.append(dict(op=op_close, id=fid, amt=rng.randint(1, 8), style='mkt', ct=rng.random() < 0.4))
            if o.get('order_calls') and rng.random() < 0.7:
                acts = acts[:1] + [dict(op=rng.choice(['order', 'order_to']), id=fid, amt=rng.randint(-12, 12), style='mkt')]
            # resting orders placed in the auction are matched (and rest) during the day; the bar then fills marketable ones
            script['%d|open_auction|0' % d] = acts
            if rng.random() < 0.6:
                # make the resting closes marketable later the same day: a limit on the other side of the market fills at the bar
                script['%d|handle_bar|0' % d] = [dict(op=op_close, id=fid, amt=rng.randint(1, 8), style=['lim', 0.93 if long_side else 1.07], ct=rng.random() < 0.3)]
    else:
        sid = rng.choice(W.STOCKS[:2] + [W.ETF])
        scn['meta']['active_stocks'] = [sid]
        script['1|handle_bar|0'] = [dict(op='order_shares', id=sid, amt=rng.choice([500, 1000, 300]), style='mkt')]
        for d in range(2, nd - 1):
            acts = []
            if rng.random() < 0.6:
                acts.append(dict(op='order_shares', id=sid, amt=rng.choice([100, 400, 700]), style='mkt'))
            for _ in range(rng.randint(1, 3)):
                acts.append(dict(op='order_shares', id=sid, amt=-rng.choice([100, 200, 300, 500, 900]), style=rng.choice([['lim', 1.08], 'mkt'])))
            script['%d|%s|0' % (d, rng.choice(['open_auction', 'handle_bar']))] = acts
    scn['script'] = script
    scn['start_i'], scn['end_i'] = 1, nd - 2
    return scn


def gen_odd_lot(rng, opts=None):
    """An odd-lot stock holding (created by a split), a same-day T+1 purchase, then value / target sized sells."""
    wopts = dict(ndays=rng.randint(9, 12), actions=False, futures=False, expiry=False)
    scn = gen_trading(rng, dict(freq='1d', stocks=1, futures=False, flows=False, world=wopts, actions_per_phase=(0,), p_cancel=0.0))
    sid = W.STOCKS[0]
    scn['meta']['active_stocks'] = [sid]
    w = W.gen_world(random.Random(scn['world_seed']), scn['world_opts'])
    nd = len(w.days)
    split_i = rng.randint(3, 5)
    ratio = rng.choice([1.25, 1.5])
    scn['world_overrides'] = dict(splits={sid: [[W.dint(w.days[split_i]), ratio]]}, dividends={sid: []})
    sim = scn['cfg']['mod']['sys_simulation']
    sim.update(volume_limit=False, price_limit=False, inactive_limit=False, slippage=0, matching_type='current_bar')
    scn['cfg']['base']['accounts'] = {'stock': rng.choice([100000, 1000000])}
    scn['cfg']['mod']['sys_accounts'].update(stock_t1=True, auto_switch_order_value=rng.random() < 0.3)
    script = {'1|handle_bar|0': [dict(op='order_shares', id=sid, amt=rng.choice([200, 600, 1000]), style='mkt')]}
    for d in range(split_i + 1, nd - 1):
        acts = []
        if rng.random() < 0.6:
            acts.append(dict(op='order_shares', id=sid, amt=rng.choice([100, 300]), style='mkt'))
        r = rng.random()
        if r < 0.35:
            acts.append(dict(op='order_value', id=sid, amt=rng.choice([-1e7, -2000, -5000]), style='mkt'))
        elif r < 0.6:
            acts.append(dict(op='order_target_value', id=sid, amt=rng.choice([100, 1000, 0]), style='mkt'))
        elif r < 0.8:
            acts.append(dict(op='order_target_percent', id=sid, amt=rng.choice([0, 0.0001, 0.01]), style='mkt'))
        else:
            acts.append(dict(op='order_shares', id=sid, amt=rng.choice([-150, -250, -99999, -50]), style='mkt'))
        script['%d|handle_bar|0' % d] = acts
    scn['script'] = script
    scn['start_i'], scn['end_i'] = 1, nd - 2
    return scn


def gen_odd_cap(rng, opts=None):
    """An odd-lot holding (created by a split) liquidated in full inside a thin bar under the volume cap, followed - in the same bar, on the
    same instrument - by orders larger than what is left of the bar's allowance: the bar's turnover is then not a whole number of lots."""
    wopts = dict(ndays=rng.randint(9, 12), actions=False, futures=False, expiry=False)
    scn = gen_trading(rng, dict(freq='1d', stocks=1, futures=False, flows=False, world=wopts, actions_per_phase=(0,), p_cancel=0.0))
    sid = W.STOCKS[0]
    scn['meta']['active_stocks'] = [sid]
    w = W.gen_world(random.Random(scn['world_seed']), scn['world_opts'])
    nd = len(w.days)
    split_i = rng.randint(3, 4)
    ratio = rng.choice([1.25, 1.5, 1.15])
    scn['world_overrides'] = dict(splits={sid: [[W.dint(w.days[split_i]), ratio]]}, dividends={sid: []},
                                  volume={sid: rng.choice([4000, 4000, 3000, 8000, 1000])})
    sim = scn['cfg']['mod']['sys_simulation']
    sim.update(volume_limit=True, volume_percent=rng.choice([0.25, 0.1, 0.5]), price_limit=False, inactive_limit=False, slippage=0,
               matching_type=rng.choice(['current_bar', 'vwap']))
    scn['cfg']['base']['accounts'] = {'stock': 100000000}
    scn['cfg']['mod']['sys_accounts'].update(stock_t1=rng.random() < 0.5)
    scn['cfg']['mod']['sys_risk']['validate_cash'] = False
    script = {'1|handle_bar|0': [dict(op='order_shares', id=sid, amt=rng.choice([100, 200, 600, 300]), style='mkt')]}
    for d in range(split_i + 1, nd - 1):
        acts = []
        r = rng.random()
        if r < 0.8:
            acts.append(dict(op=rng.choice(['order_target_percent', 'order_target_value']), id=sid, amt=0, style='mkt'))   # sells the whole (odd) holding
        for _ in range(rng.randint(1, 3)):
            big = rng.choice([10 ** 7, 10 ** 8, 5 * 10 ** 6])
            acts.append(dict(op='order_shares', id=sid, amt=big, style=rng.choice(['mkt', ['lim', 1.05]])))
        if rng.random() < 0.5:
            acts.append(dict(op='order_shares', id=sid, amt=rng.choice([100, 300]), style='mkt'))
        script['%d|%s|0' % (d, rng.choice(['handle_bar', 'handle_bar', 'open_auction']))] = acts
    scn['script'] = script
    scn['start_i'], scn['end_i'] = 1, nd - 2
    return scn


def gen_bust(rng, opts=None):
    """A futures account that is wiped out: one position opened on the first day, cash chosen so that on a later day the account's value is on
    opposite sides of zero at the day's close and at its settlement price (or below zero at both) - forced liquidation on and off, both
    settlement-price modes."""
    wopts = dict(ndays=rng.randint(8, 12), actions=False, expiry=False)
    scn = gen_trading(rng, dict(freq='1d', stocks=0, futures=True, flows=False, world=wopts, actions_per_phase=(0,), p_cancel=0.0))
    w = W.gen_world(random.Random(scn['world_seed']), scn['world_opts'])
    fid = 'RB2010'
    bars = w.future_bars[fid]
    mult = w.instruments[fid]['mult']
    n = rng.choice([50, 100, 200])
    long_side = rng.random() < 0.5
    sgn = 1 if long_side else -1
    p1 = bars[1]['close']
    pnl_c = [sgn * (b['close'] - p1) * n * mult for b in bars]
    pnl_s = [sgn * (b['settlement'] - p1) * n * mult for b in bars]
    notional = p1 * n * mult
    cash0 = None
    ks = list(range(2, len(bars) - 1))
    rng.shuffle(ks)
    for k in ks:
        lo, hi = min(pnl_c[k], pnl_s[k]), max(pnl_c[k], pnl_s[k])
        if hi >= 0:
            continue
        t = (lo + hi) / 2.0 if lo != hi and rng.random() < 0.8 else hi + 1.0       # straddle (value > 0 at one price, < 0 at the other) or bust at both
        if all(min(pnl_c[j], pnl_s[j]) > t for j in range(2, k)) and -t >= 0.0105 * notional:
            cash0 = float(int(-t))
            break
    if cash0 is None:
        cash0 = float(int(0.02 * notional))
    sim = scn['cfg']['mod']['sys_simulation']
    sim.update(volume_limit=False, price_limit=False, inactive_limit=False, slippage=0, matching_type='current_bar')
    scn['cfg']['base'].update(accounts={'future': cash0}, margin_multiplier=0.1, forced_liquidation=rng.random() < 0.85)
    scn['cfg']['mod']['sys_transaction_cost']['futures_commission_multiplier'] = 0
    scn['cfg']['mod']['sys_accounts']['futures_settlement_price_type'] = rng.choice(['settlement', 'settlement', 'close'])
    scn['universe'] = [fid]
    scn['meta'] = dict(active_stocks=[], futs=[fid])
    script = {'1|handle_bar|0': [dict(op='buy_open' if long_side else 'sell_open', id=fid, amt=n, style='mkt')]}
    for d in range(2, len(w.days) - 1):
        if rng.random() < 0.3:
            script['%d|handle_bar|0' % d] = [dict(op='position', id=fid, dir='LONG' if long_side else 'SHORT')]
    scn['script'] = script
    scn['start_i'], scn['end_i'] = 1, len(w.days) - 2
    return scn
